"""Seeded generator of ILL-formed and borderline .peg grammars for the diagnostics tie T-diag (C15).

Expression trees are tuples:
  ('chr',c) ('dot',) ('rng',lo,hi) ('lit',s) ('name',N) ('act',) ('pred',code) ('stmt',)
  ('seq',[..]) ('alt',[..]) ('q',e) ('star',e) ('plus',e) ('and',e) ('not',e) ('cap',e) ('empty',)
A grammar is a list of (rule name, expression) — the same name may occur several times.

Every case is a dict {id, text, feat: [feature tags]}.  Everything derives from random.Random(seed).
"""
import itertools
import random

HEADER = 'package g\n\ntype P Peg {}\n\n'


# ---- rendering: alt(0) < seq(1) < prefix(2) < suffix(3) < primary(4) ---------------------------
def render(e, ctx=0):
    t = e[0]
    if t == 'chr':
        return "'%s'" % e[1]
    if t == 'lit':
        return "'%s'" % e[1]
    if t == 'dot':
        return '.'
    if t == 'rng':
        return '[%s-%s]' % (e[1], e[2])
    if t == 'name':
        return e[1]
    if t == 'act':
        return '{ _ = 0 }'
    if t == 'pred':
        s = '&{%s}' % e[1]
        return '(' + s + ')' if ctx > 2 else s
    if t == 'stmt':
        s = '!{ _ = 0 }'
        return '(' + s + ')' if ctx > 2 else s
    if t == 'empty':
        return '' if ctx == 0 else '()'
    if t == 'seq':
        s = ' '.join(render(x, 2) for x in e[1])
        return '(' + s + ')' if ctx > 1 else s
    if t == 'alt':
        s = ' / '.join(render(x, 1) for x in e[1])
        return '(' + s + ')' if ctx > 0 else s
    if t in ('q', 'star', 'plus'):
        s = render(e[1], 4) + {'q': '?', 'star': '*', 'plus': '+'}[t]
        return '(' + s + ')' if ctx > 3 else s
    if t in ('and', 'not'):
        inner = render(e[1], 3)
        if inner.startswith('{'):
            inner = '(' + inner + ')'
        s = ('&' if t == 'and' else '!') + inner
        return '(' + s + ')' if ctx > 2 else s
    if t == 'cap':
        return '<' + render(e[1], 0) + '>'
    raise ValueError(t)


def text_of(rules):
    return HEADER + ''.join('%s <- %s\n' % (n, render(b, 0)) for n, b in rules)


def N(n):
    return ('name', n)


A, B, DOT = ('chr', 'a'), ('chr', 'b'), ('dot',)
UNARY = ['q', 'star', 'plus', 'and', 'not', 'cap']


# ---- hand-written families ------------------------------------------------------------------
def nullable_atoms(rng):
    """Expressions that can succeed without consuming (the code must look past them)."""
    return [('q', A), ('star', A), ('and', A), ('not', A), ('act',), ('pred', 'true'), ('stmt',),
            ('q', DOT), ('star', ('rng', 'a', 'c')), ('cap', ('q', A)), ('alt', [A, ('q', B)]),
            ('seq', [('q', A), ('star', B)]), ('alt', [A, ('empty',)]), ('plus', ('q', A))]


def consuming_atoms(rng):
    return [A, DOT, ('rng', 'a', 'c'), ('lit', 'ab'), ('plus', A), ('cap', A), ('alt', [A, B]),
            ('seq', [('q', A), B]), ('seq', [A, ('q', B)])]


def families(rng):
    """yield (features, rules)"""
    na = nullable_atoms(rng)
    ca = consuming_atoms(rng)
    # direct
    yield ['direct'], [('R0', ('alt', [('seq', [N('R0'), A]), B]))]
    yield ['direct'], [('R0', N('R0'))]
    yield ['direct'], [('R0', ('seq', [N('R0'), N('R0')]))]
    yield ['direct', 'unreachable'], [('R0', A), ('R1', ('seq', [N('R1'), A]))]
    # indirect cycles of length k, entered from R0 or not
    for k in (2, 3, 4):
        rules = [('R%d' % i, ('seq', [N('R%d' % ((i + 1) % k)), rng.choice(ca)])) for i in range(k)]
        yield ['indirect'], rules
        yield ['indirect', 'unreachable_cycle'], [('S', A)] + rules
        yield ['indirect'], [('S', ('seq', [A, N('R0')]))] + rules
    # nullable prefixes before the recursive reference
    for p in na:
        yield ['nullable_prefix'], [('R0', ('alt', [('seq', [p, N('R0'), A]), B]))]
        yield ['nullable_prefix'], [('R0', ('seq', [p, rng.choice(na), N('R0')]))]
        yield ['nullable_prefix', 'indirect'], [('R0', ('seq', [p, N('R1')])), ('R1', ('seq', [rng.choice(na), N('R0'), A]))]
    # nullable prefix that is a RULE (must-consume through references)
    yield ['nullable_rule_prefix'], [('R0', ('seq', [N('E'), N('R0'), A])), ('E', ('q', A))]
    yield ['nullable_rule_prefix'], [('R0', ('seq', [N('E'), N('R0'), A])), ('E', ('empty',))]
    yield ['nullable_rule_prefix'], [('R0', ('seq', [N('E'), N('R0'), A])), ('E', ('alt', [A, N('F')])), ('F', ('star', B))]
    yield ['guarded', 'consuming_rule_prefix'], [('R0', ('alt', [('seq', [N('E'), N('R0')]), B])), ('E', ('alt', [A, N('F')])), ('F', ('plus', B))]
    # recursion under each operator
    for op in UNARY:
        yield ['under_' + op], [('R0', ('alt', [('seq', [(op, N('R0')), A]), B]))]
        yield ['under_' + op], [('R0', (op, N('R0')))]
        yield ['under_' + op, 'indirect'], [('R0', ('seq', [(op, N('R1')), A])), ('R1', ('seq', [(op, ('alt', [B, N('R0')])), B]))]
        yield ['under_' + op, 'guarded'], [('R0', ('seq', [A, (op, N('R0'))]))]
    # recursion only in a later alternative
    yield ['later_alt'], [('R0', ('alt', [A, ('seq', [N('R0'), B])]))]
    yield ['later_alt'], [('R0', ('alt', [A, B, ('seq', [('q', A), N('R0')])]))]
    yield ['later_alt', 'indirect'], [('R0', ('alt', [A, N('R1')])), ('R1', ('alt', [B, ('seq', [N('R0'), A])]))]
    # guarded recursion: must NOT be warned
    for c in ca:
        yield ['guarded'], [('R0', ('alt', [('seq', [c, N('R0')]), B]))]
        yield ['guarded'], [('R0', ('seq', [c, N('R1')])), ('R1', ('alt', [('seq', [rng.choice(ca), N('R0')]), A]))]
        yield ['guarded'], [('R0', ('seq', [rng.choice(na), c, ('star', N('R0'))]))]
    # per-rule attribution corner (a run reaches a rule only behind a cut reference)
    yield ['behind_cut'], [('R0', N('R1')), ('R1', ('seq', [N('R1'), N('R0'), A]))]
    yield ['behind_cut'], [('R0', N('R1')), ('R1', ('seq', [N('R1'), N('R2')])), ('R2', ('seq', [N('R0'), A]))]
    yield ['behind_cut'], [('X', ('seq', [N('Y'), A])), ('Y', ('seq', [N('X'), N('Z')])), ('Z', N('W')), ('W', ('seq', [N('Y'), N('V')])), ('V', N('W'))]
    # unreachable rules / cycles / names used only from unreachable rules
    yield ['unreachable'], [('R0', A), ('R1', B)]
    yield ['unreachable', 'used_only_from_unreachable'], [('R0', A), ('R1', N('R2')), ('R2', B)]
    yield ['unreachable_cycle'], [('R0', A), ('R1', ('seq', [A, N('R2')])), ('R2', ('seq', [B, N('R1')]))]
    yield ['unreachable', 'refers_first'], [('R0', A), ('R1', N('R0'))]
    # undefined names
    yield ['undefined'], [('R0', N('U'))]
    yield ['undefined'], [('R0', ('seq', [N('U'), N('V'), N('U')]))]
    yield ['undefined', 'undefined_in_unreachable'], [('R0', A), ('R1', N('U'))]
    yield ['undefined', 'undefined_in_unreachable'], [('R0', N('U')), ('R1', ('seq', [N('V'), N('U')]))]
    for op in UNARY:
        yield ['undefined', 'under_' + op], [('R0', ('seq', [(op, N('U')), A]))]
    yield ['undefined', 'pegtext_ref'], [('R0', N('PegText'))]
    yield ['undefined', 'pegtext_ref'], [('R0', ('seq', [N('PegText'), N('U')])), ('R1', ('cap', A))]
    yield ['pegtext_defined'], [('R0', ('seq', [('cap', A), N('PegText')])), ('PegText', B)]
    yield ['pegtext_defined', 'unreachable'], [('R0', ('cap', A)), ('PegText', B)]
    # references to the undefined name PegText, without / with captures elsewhere (before, after, around)
    yield ['undefined', 'pegtext_ref', 'undefined_in_unreachable'], [('R0', A), ('R1', N('PegText'))]
    yield ['undefined', 'pegtext_ref'], [('R0', ('seq', [N('PegText'), N('PegText'), A]))]
    yield ['undefined', 'pegtext_ref', 'pegtext_ref_capture'], [('R0', ('seq', [('cap', A), N('PegText')]))]
    yield ['undefined', 'pegtext_ref', 'pegtext_ref_capture'], [('R0', ('seq', [N('PegText'), ('cap', A)]))]
    yield ['undefined', 'pegtext_ref', 'pegtext_ref_capture'], [('R0', ('cap', N('PegText')))]
    yield ['undefined', 'pegtext_ref', 'pegtext_ref_capture'], [('R0', ('seq', [('cap', A), N('R1')])), ('R1', N('PegText'))]
    yield ['undefined', 'pegtext_ref', 'pegtext_ref_capture'], [('R0', ('seq', [N('R1'), ('cap', A)])), ('R1', N('PegText'))]
    yield ['undefined', 'pegtext_ref', 'pegtext_ref_capture', 'undefined_in_unreachable'], [('R0', ('cap', A)), ('R1', N('PegText'))]
    yield ['undefined', 'pegtext_ref', 'pegtext_ref_capture', 'unreachable'], [('R0', N('PegText')), ('R1', ('cap', A))]
    yield ['undefined', 'pegtext_ref', 'pegtext_ref_capture', 'action'], [('R0', ('seq', [('cap', A), ('act',), N('PegText'), N('U')]))]
    for op in UNARY:
        yield ['undefined', 'pegtext_ref', 'under_' + op], [('R0', ('seq', [(op, N('PegText')), A]))]
        yield ['undefined', 'pegtext_ref', 'pegtext_ref_capture', 'under_' + op], [('R0', ('seq', [('cap', B), (op, N('PegText')), A]))]
    yield ['pegtext_defined', 'direct'], [('R0', N('PegText'))] + [('PegText', ('seq', [N('PegText'), ('cap', A)]))]
    # duplicates
    yield ['dup'], [('R0', A), ('R1', B), ('R1', A)]
    yield ['dup', 'dup_first'], [('R0', A), ('R0', B)]
    yield ['dup', 'dup3'], [('R0', N('R1')), ('R1', A), ('R1', B), ('R1', DOT)]
    yield ['dup', 'dup_first', 'dup3'], [('R0', A), ('R0', B), ('R0', DOT)]
    yield ['dup', 'two_dups'], [('R0', A), ('R1', B), ('R2', A), ('R2', B), ('R1', A)]
    yield ['dup', 'direct', 'undefined'], [('R0', ('seq', [N('R0'), N('U')])), ('R0', B)]
    # empty bodies
    yield ['empty_body'], [('R0', ('empty',))]
    yield ['empty_body'], [('R0', N('R1')), ('R1', ('empty',))]
    yield ['empty_body', 'unreachable'], [('R0', A), ('R1', ('empty',))]
    yield ['empty_body', 'nullable_rule_prefix'], [('R0', ('seq', [N('R1'), N('R0')])), ('R1', ('empty',))]
    yield ['empty_body'], [('R0', ('alt', [A, ('empty',)]))]
    # actions and captures (link appends Action<N> / PegText rules)
    yield ['action'], [('R0', ('seq', [A, ('act',)]))]
    yield ['action', 'unreachable'], [('R0', A), ('R1', ('seq', [B, ('act',), ('cap', A)]))]
    yield ['action', 'nullable_prefix'], [('R0', ('seq', [('act',), N('R0')]))]
    yield ['action', 'capture', 'undefined'], [('R0', ('seq', [('act',), N('U'), ('cap', N('V')), ('act',)])), ('R1', ('seq', [('act',), N('W')]))]
    yield ['capture'], [('R0', ('cap', A))]
    yield ['capture', 'under_cap'], [('R0', ('seq', [('cap', ('q', A)), N('R0')]))]
    yield ['capture', 'unreachable'], [('R0', A), ('R1', ('cap', B))]
    yield ['pred'], [('R0', ('seq', [('pred', 'true'), ('stmt',), N('R0')]))]


# ---- random ill-formed grammars -----------------------------------------------------------------
def rand_expr(rng, names, depth):
    r = rng.random()
    if depth <= 0 or r < 0.30:
        r = rng.random()
        if r < 0.50:
            return N(rng.choice(names))
        if r < 0.72:
            return rng.choice([A, B, DOT, ('rng', 'a', 'c'), ('lit', 'ab')])
        if r < 0.80:
            return ('act',)
        if r < 0.86:
            return ('pred', rng.choice(['true', 'false']))
        if r < 0.90:
            return ('stmt',)
        return A
    if r < 0.52:
        return ('seq', [rand_expr(rng, names, depth - 1) for _ in range(rng.choice([2, 2, 3, 4]))])
    if r < 0.70:
        alts = [rand_expr(rng, names, depth - 1) for _ in range(rng.choice([2, 2, 3]))]
        if rng.random() < 0.1:
            alts.append(('empty',))
        return ('alt', alts)
    return (rng.choice(UNARY), rand_expr(rng, names, depth - 1))


def rand_grammar(rng):
    k = rng.choice([1, 2, 2, 3, 3, 4, 5, 6, 8])
    defined = ['R%d' % i for i in range(k)]
    feats = ['random']
    names = list(defined)
    if rng.random() < 0.35:
        names += rng.sample(['U', 'V', 'W'], rng.choice([1, 1, 2]))
        feats.append('random_undef')
    if rng.random() < 0.08:
        names.append('PegText')
        feats.append('pegtext_ref')
    rules = []
    for n in defined:
        if rng.random() < 0.04:
            rules.append((n, ('empty',)))
        else:
            rules.append((n, rand_expr(rng, names, rng.choice([1, 2, 2, 3]))))
    if rng.random() < 0.12:
        j = rng.randrange(len(rules))
        rules.insert(rng.randrange(j + 1, len(rules) + 1), (rules[j][0], rand_expr(rng, names, 2)))
        feats.append('dup')
        if rng.random() < 0.3:
            rules.append((rules[j][0], A))
            feats.append('dup3')
    if rng.random() < 0.05:
        rules.append(('PegText', rand_expr(rng, names, 1)))
        feats.append('pegtext_defined')
    return feats, rules


# ---- exhaustive enumeration ---------------------------------------------------------------------
LEAVES = [A, DOT, N('R0'), N('R1'), N('U')]


def exprs_ops(k):
    """all expressions with exactly k operator nodes (unary ? * + & ! <>, binary seq / alt)"""
    if k == 0:
        return list(LEAVES)
    out = []
    for op in UNARY:
        for e in exprs_ops(k - 1):
            out.append((op, e))
    for i in range(k):
        for l in exprs_ops(i):
            for r in exprs_ops(k - 1 - i):
                out.append(('seq', [l, r]))
                out.append(('alt', [l, r]))
    return out


def exprs_ops_over(leaves, k):
    """like exprs_ops, over the given leaves"""
    if k == 0:
        return list(leaves)
    out = []
    for op in UNARY:
        for e in exprs_ops_over(leaves, k - 1):
            out.append((op, e))
    for i in range(k):
        for l in exprs_ops_over(leaves, i):
            for r in exprs_ops_over(leaves, k - 1 - i):
                out.append(('seq', [l, r]))
                out.append(('alt', [l, r]))
    return out


PT_LEAVES = [A, N('R0'), N('PegText')]


def exhaustive_pegtext():
    """the name PegText as a leaf (UNARY has the capture <>): all 1-rule grammars with ≤ 2 operators,
    all 2-rule grammars with ≤ 1 operator per rule, and the same 2-rule grammars followed by a
    definition of PegText"""
    e2 = [e for j in range(3) for e in exprs_ops_over(PT_LEAVES, j)]
    for b in e2:
        yield ['exh_pegtext1'], [('R0', b)]
    e1 = [e for j in range(2) for e in exprs_ops_over(PT_LEAVES + [N('R1')], j)]
    for a in e1:
        for b in e1:
            yield ['exh_pegtext2'], [('R0', a), ('R1', b)]
    e0 = [e for j in range(2) for e in exprs_ops_over(PT_LEAVES, j)]
    for a in e0:
        for b in e0:
            yield ['exh_pegtext_defined'], [('R0', a), ('PegText', b)]


_CACHE = {}


def exprs_upto(k):
    if k not in _CACHE:
        _CACHE[k] = [e for j in range(k + 1) for e in exprs_ops(j)]
    return _CACHE[k]


def exhaustive(k0, k1, sample=None, rng=None):
    """1-rule grammars with ≤ max(k0,k1) operators; 2-rule grammars with ≤ k0 operators in R0 and
    ≤ k1 in R1 (and the mirror image).  `sample`: take that many 2-rule grammars at random."""
    e0 = exprs_upto(max(k0, k1))
    for b in e0:
        yield ['exh1'], [('R0', b)]
    pairs = set()
    a, b = exprs_upto(k0), exprs_upto(k1)
    total = len(a) * len(b)
    if sample is None or sample >= total:
        it = itertools.product(range(len(a)), range(len(b)))
        for i, j in it:
            yield ['exh2'], [('R0', a[i]), ('R1', b[j])]
            if k0 != k1:
                yield ['exh2'], [('R0', b[j]), ('R1', a[i])]
    else:
        for _ in range(sample):
            i, j = rng.randrange(len(a)), rng.randrange(len(b))
            yield ['exh2_sample'], [('R0', a[i]), ('R1', b[j])]


def cases(tier, seed):
    """generator of cases (streamed: the thorough tier has millions)"""
    rng = random.Random(seed)
    count = [0]
    seen = set()

    def mk(feats, rules):
        t = text_of(rules)
        if feats[0].startswith('exh1'):
            if t in seen:
                return None
            seen.add(t)
        c = {'id': 'g%d' % count[0], 'text': t, 'feat': feats}
        count[0] += 1
        return c
    for feats, rules in families(rng):
        yield mk(feats, rules)
    nrand = 3000 if tier == 'quick' else 100000
    for _ in range(nrand):
        feats, rules = rand_grammar(rng)
        yield mk(feats, rules)
    if tier == 'quick':
        # all 1-rule grammars with ≤ 2 operators, all 2-rule grammars with ≤ 1 operator per rule,
        # and a random sample of the 2-rule grammars with ≤ 2 operators per rule
        gens = [exhaustive(1, 1), exhaustive(2, 2, sample=8000, rng=rng)]
    elif tier == 'thorough':
        gens = [exhaustive(2, 1), exhaustive(2, 2, sample=600000, rng=rng)]
    else:
        gens = [exhaustive(2, 2)]
    gens.append(exhaustive_pegtext())      # last: the ids and the random stream of the cases before stay as they were
    for g in gens:
        for feats, rules in g:
            c = mk(feats, rules)
            if c is not None:
                yield c


if __name__ == '__main__':
    import sys
    cs = list(cases(sys.argv[1] if len(sys.argv) > 1 else 'quick', int(sys.argv[2]) if len(sys.argv) > 2 else 1))
    print(len(cs))
    for c in cs[:: max(1, len(cs) // 40)]:
        print(c['feat'], repr(c['text'][len(HEADER):]))
