#!/usr/bin/env python3
"""Generator for T-front (property C10): abstract grammars, their spellings, their documented
meaning, and a stream of malformed texts.  Everything derives from one `random.Random(seed)`.

SPEC side ("independent reader"): it never reads a text.  It starts from an abstract grammar (the
AST below), and produces
    denote(gram)          the rule tree the documentation promises (as pegx-style JSON nodes)
    render(gram, rng)     ONE of the many texts that spell it (quote style, escape spelling, arrows,
                          comments, spacing, redundant parentheses, import grouping, ...)

AST  (code points are ints)
    gram  = {'header': [('c', text) | ('s', ws)], 'package': str, 'imports': [(alias|None, path)],
             'peg': str, 'state': str, 'rules': [(name, expr)]}
    expr  = ('name', s) | ('dot',) | ('nil',)
          | ('lit', [cp..]) | ('dlit', [cp..])                       '…'  "…"
          | ('cls', [item..], neg, ci)   item = ('c', cp) | ('r', lo, hi)      […] [^…] [[…]] [[^…]]
          | ('seq', [e..]) | ('alt', [e..], trailing_empty)
          | ('and', e) | ('not', e) | ('q', e) | ('star', e) | ('plus', e) | ('cap', e)
          | ('act', code) | ('pred', code) | ('stmt', code)

Tree shapes (`denote`) — what the documentation says plus the list discipline of the builder:
a list node (Sequence / Alternate) whose FIRST element is itself a list of the same type absorbs
it (`(a b) c` = `a b c`), later elements stay nested (`a (b c)`); both are the same PEG.
"""
import random
import sys

# ----------------------------------------------------------------------------------------------
# escape table

NAMED = {'a': 7, 'b': 8, 'e': 27, 'f': 12, 'n': 10, 'r': 13, 't': 9, 'v': 11}
PUNCT = {"'": 39, '"': 34, '[': 91, ']': 93, '-': 45, '\\': 92}
HEX_VALUES = [0x0, 0x7, 0x9, 0xa, 0x1b, 0x41, 0x5a, 0x61, 0x7a, 0x7f, 0x80, 0xb5, 0xff, 0x100, 0x3b1, 0x4e2d,
              0xd7ff, 0xd800, 0xdbff, 0xdfff, 0xe000, 0xfffd, 0xffff, 0x10000, 0x1f600, 0x10ffff, 0x110000,
              0x7fffffff, 0x80000000, 0xffffffff, 0x100000000, 0xffffffffffffffffffff]


def hex_denotes(v):
    """Code point a hex escape with value v stands for; None when there is none."""
    if v > 0x10ffff or 0xd800 <= v <= 0xdfff:
        return None
    return v


def escape_table():
    """Every escape spelling: list of (kind, spelling, code point or None, hexvalue)."""
    rows = []
    for ch, cp in sorted(NAMED.items()):
        rows.append(('named-lower', '\\' + ch, cp))
        rows.append(('named-upper', '\\' + ch.upper(), cp))
    for ch, cp in sorted(PUNCT.items()):
        rows.append(('punct', '\\' + ch, cp))
    for v in range(8):
        rows.append(('oct1', '\\%o' % v, v))
    for v in range(64):
        rows.append(('oct2', '\\%02o' % v, v))
    for v in range(256):
        rows.append(('oct3', '\\%03o' % v, v))
    for v in HEX_VALUES:
        d = '%x' % v
        rows.append(('hex-0x', '\\0x' + d, hex_denotes(v)))
        if d.upper() != d:
            rows.append(('hex-0x-upper', '\\0x' + d.upper(), hex_denotes(v)))
        rows.append(('hex-0X', '\\0X' + d, hex_denotes(v)))
        rows.append(('hex-zeros', '\\0x000' + d, hex_denotes(v)))
    return rows


FFFD = 0xfffd


def placeholder_cp(cp):
    """The abstract grammar needs SOME code point where a hex escape without one is going to be
    spelled; a text with such a spelling has no meaning (it must be reported, `bad_escapes`), so the
    placeholder is never compared with anything."""
    return FFFD if cp is None else cp


# ----------------------------------------------------------------------------------------------
# documented meaning

def N(t, s='', kids=None, nid=0):
    d = {'t': t, 's': s, 'id': nid}
    if kids:
        d['k'] = kids
    return d


def CH(cp):
    return N('Character', chr(cp))


def is_ascii_letter(cp):
    return 65 <= cp <= 90 or 97 <= cp <= 122


def go_lower(cp):
    """Lower case of one character (the spec's own source: Python's Unicode database, not the Go library)."""
    r = chr(cp).lower()
    return ord(r) if len(r) == 1 else cp


def go_upper(cp):
    r = chr(cp).upper()
    return ord(r) if len(r) == 1 else cp


FOLD_EXCLUDE = set()     # code points on which Python's and Go's Unicode data disagree (filled by tfront.py)


def fold_ok(cp):
    """Python's str.lower()/upper() are the FULL case mappings; the front end (Go: strings.ToLower/ToUpper) uses the
    SIMPLE ones.  They agree wherever the full mapping of the character is a single character; where it is not
    ('ß'.upper() = 'SS', 'İ'.lower() = 'i̇', 'ᾳ'.upper() = 'ΑΙ', ligatures, …) the spec has no independent answer,
    so the GENERATOR does not put such a character into a case-insensitive position (probes with an explicit
    expectation cover İ and ß; the model's case maps are compared with Go's on every code point by T-front)."""
    if 0xd800 <= cp <= 0xdfff or cp > 0x10ffff:
        return True     # placeholder of a hex escape without a code point: the text has no meaning (bad_escapes)
    if cp in FOLD_EXCLUDE:
        return False
    c = chr(cp)
    return len(c.lower()) == 1 and len(c.upper()) == 1


_CASED_WIDE = []


def cased_wide():
    """Every code point outside ASCII that has two cases (and passes fold_ok), computed once."""
    if not _CASED_WIDE:
        for cp in range(0x80, 0x110000):
            if 0xd800 <= cp <= 0xdfff:
                continue
            if fold_ok(cp) and go_lower(cp) != go_upper(cp):
                _CASED_WIDE.append(cp)
    return _CASED_WIDE


def mk_list(t, ds):
    acc = ds[0]
    for d in ds[1:]:
        if acc['t'] == t:
            acc = N(t, '', list(acc.get('k', [])) + [d])
        else:
            acc = N(t, '', [acc, d])
    return acc


def dchar(cp):
    """One character of a double-quoted literal / [[…]] class — "case-insensitive" (docs/peg-file-syntax.md), however the
    character is written: a character that has two cases matches in its lower and in its upper case (and as itself when
    it is neither of the two: the title case letters ǅ ǈ ǋ ǲ); a character without case is the plain character."""
    lo, up = go_lower(cp), go_upper(cp)
    if lo == up:
        return CH(cp)
    ks = [CH(lo), CH(up)]
    if cp != lo and cp != up:
        ks.append(CH(cp))
    return N('Alternate', '', ks)


def denote_expr(e):
    t = e[0]
    if t == 'name':
        return N('Name', e[1])
    if t == 'dot':
        return N('Dot', '.')
    if t == 'nil':
        return N('Nil', '<nil>')
    if t == 'lit':
        return mk_list('Sequence', [CH(c) for c in e[1]])
    if t == 'dlit':
        return mk_list('Sequence', [dchar(c) for c in e[1]])
    if t == 'cls':
        items, neg, ci = e[1], e[2], e[3]
        ds = []
        for it in items:
            if it[0] == 'c':
                ds.append(dchar(it[1]) if ci else CH(it[1]))
            elif not ci:
                ds.append(N('Range', '', [CH(it[1]), CH(it[2])]))
            else:
                ds.append(N('Alternate', '', [N('Range', '', [CH(go_lower(it[1])), CH(go_lower(it[2]))]),
                                              N('Range', '', [CH(go_upper(it[1])), CH(go_upper(it[2]))])]))
        body = mk_list('Alternate', ds)
        if neg:
            return N('Sequence', '', [N('PeekNot', '', [body]), N('Dot', '.')])
        return body
    if t == 'seq':
        return mk_list('Sequence', [denote_expr(x) for x in e[1]])
    if t == 'alt':
        ds = [denote_expr(x) for x in e[1]]
        if e[2]:
            ds.append(N('Nil', '<nil>'))
        return mk_list('Alternate', ds)
    fix = {'and': 'PeekFor', 'not': 'PeekNot', 'q': 'Query', 'star': 'Star', 'plus': 'Plus', 'cap': 'Push'}
    if t in fix:
        return N(fix[t], '', [denote_expr(e[1])])
    if t == 'act':
        return N('Action', e[1])
    if t == 'pred':
        return N('Predicate', e[1])
    if t == 'stmt':
        return N('StateChange', e[1])
    raise ValueError(t)


def denote(g):
    top = []
    for k, s in g['header']:
        top.append(N('Comment' if k == 'c' else 'Space', s))
    top.append(N('Package', g['package']))
    for alias, path in g['imports']:
        if alias is not None:
            top.append(N('Import', '=' + alias))
        top.append(N('Import', path))
    top.append(N('Peg', g['peg'], [N('State', g['state'])]))
    for i, (name, e) in enumerate(g['rules']):
        top.append(N('Rule', name, [denote_expr(e)], nid=i))
    return top


def flatten(n):
    """Normal form modulo associativity of Sequence/Alternate (both trees mean the same PEG)."""
    k = [flatten(x) for x in n.get('k', [])]
    if n['t'] in ('Sequence', 'Alternate'):
        out = []
        for x in k:
            if x['t'] == n['t']:
                out.extend(x.get('k', []))
            else:
                out.append(x)
        k = out
    return N(n['t'], n['s'], k, n['id'])


# ----------------------------------------------------------------------------------------------
# spelling

class Stats(dict):
    def hit(self, group, key, n=1):
        d = self.setdefault(group, {})
        d[key] = d.get(key, 0) + n


HEXD = set('0123456789abcdefABCDEF')
OCTD = set('01234567')


def spell_ok_before(sp, kind, nxt):
    """May spelling `sp` of kind `kind` be followed by raw character `nxt` without being re-read?"""
    if kind.startswith('hex'):
        return nxt not in HEXD
    if kind == 'oct1':
        return nxt not in OCTD and not (sp == '\\0' and nxt in 'xX')
    if kind == 'oct2':
        return not (sp[1] in '0123' and nxt in OCTD)
    return True


def numeric_spellings(cp, rng):
    out = []
    if cp < 8:
        out.append(('oct1', '\\%o' % cp))
    if cp < 64:
        out.append(('oct2', '\\%02o' % cp))
    if cp < 256:
        out.append(('oct3', '\\%03o' % cp))
    d = '%x' % cp
    if rng.random() < 0.5:
        d = d.upper()
    if rng.random() < 0.2:
        d = '0' * rng.randrange(1, 4) + d
    out.append(('hex-0X' if rng.random() < 0.3 else 'hex-0x', ('\\0X' if rng.random() < 0.3 else '\\0x') + d))
    return out


def named_spellings(cp, rng):
    out = []
    for ch, v in NAMED.items():
        if v == cp:
            out.append(('named-upper', '\\' + ch.upper()) if rng.random() < 0.3 else ('named-lower', '\\' + ch))
    for ch, v in PUNCT.items():
        if v == cp:
            out.append(('punct', '\\' + ch))
    return out


class Speller:
    """Renders characters of literals and classes.  ctx: 'sq' 'dq' 'cls' 'dcls'."""

    def __init__(self, rng, stats, escape_bias=0.35):
        self.rng = rng
        self.stats = stats
        self.bias = escape_bias

    def raw_ok(self, cp, ctx, pos):
        """pos: dict(first=bool, after_range=bool, in_range=bool, neg=bool)"""
        if cp == 92 or 0xd800 <= cp <= 0xdfff or cp > 0x10ffff:
            return False
        if ctx == 'sq':
            return cp != 39
        if ctx == 'dq':
            return cp != 34
        # classes
        if cp == 93:
            return False
        if cp == 45:
            return (pos.get('first') or pos.get('after_range')) and not pos.get('in_range')
        if cp == 94 and pos.get('first') and not pos.get('neg'):
            return False
        if cp == 91 and pos.get('first') and not pos.get('neg') and ctx == 'cls':
            return False
        return True

    def options(self, cp, ctx, pos):
        opts = []
        if self.raw_ok(cp, ctx, pos):
            opts.append(('raw', chr(cp)))
        opts += named_spellings(cp, self.rng)
        if not (0xd800 <= cp <= 0xdfff):
            opts += numeric_spellings(cp, self.rng)
        return opts

    def spell(self, cp, ctx, pos, nxt, forced=None):
        """Spelling of code point cp, to be followed by raw char `nxt` (first char of what follows)."""
        if forced is not None:
            kind, sp = forced
            if not spell_ok_before(sp, kind, nxt):
                raise ValueError('forced spelling %r cannot precede %r' % (sp, nxt))
            self.stats.hit('escape', kind)
            self.hit_ci(cp, ctx, kind)
            return sp
        opts = [o for o in self.options(cp, ctx, pos) if spell_ok_before(o[1], o[0], nxt)]
        if cp == 45 and ctx in ('cls', 'dcls') and nxt == '-':
            opts = [o for o in opts if o[0] != 'raw']
        raws = [o for o in opts if o[0] == 'raw']
        escs = [o for o in opts if o[0] != 'raw']
        if raws and (not escs or self.rng.random() >= self.bias):
            kind, sp = raws[0]
        else:
            kind, sp = self.rng.choice(escs)
        self.stats.hit('escape', kind)
        self.hit_ci(cp, ctx, kind)
        return sp

    def hit_ci(self, cp, ctx, kind):
        """Distribution of the characters in case-insensitive positions: cased or not, ASCII or not, raw or escaped."""
        if ctx in ('dq', 'dcls') and cp <= 0x10ffff and not 0xd800 <= cp <= 0xdfff:
            cased = go_lower(cp) != go_upper(cp)
            title = cased and cp not in (go_lower(cp), go_upper(cp))
            self.stats.hit('ci', '%s-%s-%s' % ('titlecase' if title else 'cased' if cased else 'uncased', 'ascii' if cp < 128 else 'wide',
                                               'raw' if kind == 'raw' else 'escaped'))

    def string(self, cps, ctx, close, forced=None):
        """Spell a literal body right to left so that each spelling knows what follows it."""
        out = []
        nxt = close
        for i in range(len(cps) - 1, -1, -1):
            f = forced.get(i) if forced else None
            sp = self.spell(cps[i], ctx, {}, nxt, f)
            out.append(sp)
            nxt = sp[0]
        return ''.join(reversed(out))

    def cls(self, items, neg, ci, forced=None):
        ctx = 'dcls' if ci else 'cls'
        close = ']'
        parts = []
        nxt = close
        for i in range(len(items) - 1, -1, -1):
            it = items[i]
            first = (i == 0)
            after_range = i > 0 and items[i - 1][0] == 'r'
            f = forced.get(i) if forced else None
            if it[0] == 'c':
                sp = self.spell(it[1], ctx, {'first': first, 'after_range': after_range, 'neg': neg}, nxt, f)
            else:
                fl, fh = f if f else (None, None)
                hi = self.spell(it[2], ctx, {'in_range': True}, nxt, fh)
                lo = self.spell(it[1], ctx, {'in_range': True, 'first': first, 'neg': neg, 'lo': True}, '-', fl)
                sp = lo + '-' + hi
            parts.append(sp)
            nxt = sp[0]
        body = ''.join(reversed(parts))
        o, c = ('[[', ']]') if ci else ('[', ']')
        return o + ('^' if neg else '') + body + c


SAFE_COMMENT = 'abc XYZ 019 <- / # \' " [ ] { } ( ) \\ \t é 汉'


class Renderer:
    def __init__(self, rng, stats, style=None):
        self.rng = rng
        self.stats = stats
        self.sp = Speller(rng, stats)
        style = style or {}
        # per-text style knobs so that whole texts come out e.g. CRLF-only or comment-heavy
        self.eol = style.get('eol', rng.choice(['\n', '\n', '\n', '\r\n', '\r', 'mix']))
        self.comment_p = style.get('comment_p', rng.choice([0.0, 0.05, 0.15, 0.4]))
        self.dense = style.get('dense', rng.random() < 0.25)       # as little white space as possible
        self.paren_p = style.get('paren_p', rng.choice([0.0, 0.0, 0.1, 0.3]))
        self.arrow = style.get('arrow', rng.choice(['<-', '\u2190', 'mix']))
        self.forced = style.get('forced', {})                       # id(expr) -> forced spellings

    # -- white space ----------------------------------------------------------------------------
    def eol_s(self):
        if self.eol == 'mix':
            e = self.rng.choice(['\n', '\r\n', '\r'])
        else:
            e = self.eol
        self.stats.hit('spelling', {'\n': 'eol-lf', '\r\n': 'eol-crlf', '\r': 'eol-cr'}[e])
        return e

    def comment(self):
        lead = self.rng.choice(['#', '//'])
        self.stats.hit('spelling', 'comment-' + ('hash' if lead == '#' else 'slashes'))
        n = self.rng.choice([0, 1, 3, 8, 20])
        txt = ''.join(self.rng.choice(SAFE_COMMENT) for _ in range(n))
        return lead + txt + self.eol_s()

    def gap(self, must=False, newline_ok=True):
        """Spacing between two tokens."""
        rng = self.rng
        parts = []
        if rng.random() < self.comment_p:
            parts.append(rng.choice(['', ' ', '\t']) + self.comment() + rng.choice(['', ' ', '\t', '  ']))
            self.stats.hit('spelling', 'comment-between-tokens')
        elif self.dense and not must:
            self.stats.hit('spelling', 'gap-empty')
            return ''
        else:
            r = rng.random()
            if r < 0.55:
                parts.append(' ')
            elif r < 0.65:
                parts.append('\t')
                self.stats.hit('spelling', 'gap-tab')
            elif r < 0.75:
                parts.append('  \t ')
            elif r < 0.9:
                parts.append(self.eol_s() + rng.choice(['', '  ', '\t']))
                self.stats.hit('spelling', 'gap-newline')
            elif not must:
                self.stats.hit('spelling', 'gap-empty')
            else:
                parts.append(' ')
        return ''.join(parts)

    def join(self, toks):
        """toks: list of (text, kind) with kind 'w' (word: needs separation from another word) or 's'."""
        out = []
        for i, (txt, kind) in enumerate(toks):
            out.append(txt)
            if i + 1 < len(toks):
                must = kind == 'w' and toks[i + 1][1] == 'w'
                gp = self.gap(must=must)
                if txt == '/' and gp.startswith('/'):
                    gp = ' ' + gp           # "///" would be read as a comment that swallows the slash
                out.append(gp)
        return ''.join(out)

    # -- expressions -----------------------------------------------------------------------------
    LEVEL = {'alt': 0, 'seq': 1, 'and': 2, 'not': 2, 'pred': 2, 'stmt': 2, 'q': 3, 'star': 3, 'plus': 3}

    def level(self, e):
        return self.LEVEL.get(e[0], 4)

    def toks(self, e, need):
        """Tokens of e in a position that requires precedence level >= need."""
        t = e[0]
        lv = self.level(e)
        inner = self.toks_raw(e)
        paren = lv < need
        if not paren and self.rng.random() < self.paren_p:
            paren = True
            self.stats.hit('spelling', 'redundant-parens')
        if paren:
            return [('(', 's')] + inner + [(')', 's')]
        return inner

    def toks_raw(self, e):
        t = e[0]
        st = self.stats
        st.hit('construct', t if t != 'cls' else 'cls' + ('-neg' if e[2] else '') + ('-ci' if e[3] else ''))
        if t == 'name':
            return [(e[1], 'w')]
        if t == 'dot':
            return [('.', 's')]
        if t == 'nil':
            return []
        if t == 'lit':
            return [("'" + self.sp.string(e[1], 'sq', "'", self.forced.get(id(e))) + "'", 's')]
        if t == 'dlit':
            return [('"' + self.sp.string(e[1], 'dq', '"', self.forced.get(id(e))) + '"', 's')]
        if t == 'cls':
            for it in e[1]:
                st.hit('construct', 'cls-item-' + ('char' if it[0] == 'c' else 'range'))
            return [(self.sp.cls(e[1], e[2], e[3], self.forced.get(id(e))), 's')]
        if t == 'seq':
            out = []
            for x in e[1]:
                out += self.toks(x, 2)
            return out
        if t == 'alt':
            out = []
            for i, x in enumerate(e[1]):
                if i:
                    out.append(('/', 's'))
                out += self.toks(x, 1)
            if e[2]:
                out.append(('/', 's'))
                st.hit('construct', 'alt-trailing-empty')
            return out
        if t in ('and', 'not'):
            op = '&' if t == 'and' else '!'
            sub = self.toks(e[1], 3)
            if sub and sub[0][0].startswith('{'):      # `&{…}` would be a predicate: parenthesise
                sub = [('(', 's')] + sub + [(')', 's')]
            return [(op, 's')] + sub
        if t in ('q', 'star', 'plus'):
            op = {'q': '?', 'star': '*', 'plus': '+'}[t]
            return self.toks(e[1], 4) + [(op, 's')]
        if t == 'cap':
            return [('<', 's')] + self.toks(e[1], 0) + [('>', 's')]
        if t == 'act':
            return [('{' + e[1] + '}', 's')]
        if t == 'pred':
            return [('&', 's'), ('{' + e[1] + '}', 's')]
        if t == 'stmt':
            return [('!', 's'), ('{' + e[1] + '}', 's')]
        raise ValueError(t)

    def arrow_s(self):
        a = self.arrow
        if a == 'mix':
            a = self.rng.choice(['<-', '\u2190'])
        self.stats.hit('spelling', 'arrow-ascii' if a == '<-' else 'arrow-unicode')
        return a

    # -- whole text --------------------------------------------------------------------------------
    def render(self, g):
        rng = self.rng
        text = ''.join(self.header_src(g))
        toks = [('package', 'w'), (g['package'], 'w')]
        text += self.join(toks) + self.gap(must=True)
        # imports
        imps = g['imports']
        i = 0
        while i < len(imps) or (i == len(imps) and rng.random() < 0.04):
            if rng.random() < 0.35:
                n = rng.randrange(0, min(3, len(imps) - i) + 1)
                self.stats.hit('spelling', 'import-grouped' if n else 'import-grouped-empty')
                s = 'import' + self.gap() + '(' + self.gap()
                for alias, path in imps[i:i + n]:
                    if alias is not None:
                        s += alias + self.gap()
                        self.stats.hit('construct', 'import-alias')
                    # inside import ( … ) the line feed must follow the closing quote directly
                    s += '"' + path + '"' + '\n' + self.gap()
                    self.stats.hit('construct', 'import')
                s += self.gap() + ')' + self.gap()
                text += s
                i += n
                if n == 0 and i == len(imps):
                    break
            elif i < len(imps):
                alias, path = imps[i]
                self.stats.hit('spelling', 'import-single')
                self.stats.hit('construct', 'import')
                s = 'import' + self.gap()
                if alias is not None:
                    s += alias + self.gap()
                    self.stats.hit('construct', 'import-alias')
                s += '"' + path + '"' + self.gap(must=True)
                text += s
                i += 1
            else:
                break
        text += self.join([('type', 'w'), (g['peg'], 'w'), ('Peg', 'w'), ('{' + g['state'] + '}', 's')])
        text += self.gap(must=True)
        nrules = len(g['rules'])
        for k, (name, e) in enumerate(g['rules']):
            toks = [(name, 'w'), (self.arrow_s(), 's')] + self.toks(e, 0)
            text += self.join(toks)
            last = k + 1 == nrules
            if last:
                end = rng.random()
                if end < 0.25:
                    self.stats.hit('spelling', 'eof-no-newline')
                elif end < 0.5:
                    text += self.eol_s()
                else:
                    gp = self.gap()
                    text += (' ' if text.endswith('/') and gp.startswith('/') else '') + gp + self.eol_s()
                    if rng.random() < self.comment_p:
                        text += self.comment()
                        self.stats.hit('spelling', 'comment-last-line')
            else:
                # rules need no line break between them, only separation of words
                if rng.random() < 0.2:
                    sep = self.gap(must=True)
                    self.stats.hit('spelling', 'rules-on-one-line')
                else:
                    sep = rng.choice(['', ' ']) + self.eol_s() + rng.choice(['', '\t', self.eol_s()])
                if rng.random() < self.comment_p:
                    sep += self.comment()
                    self.stats.hit('spelling', 'comment-own-line')
                if text.endswith('/') and sep.startswith('/'):
                    sep = ' ' + sep          # "///": the trailing slash would become part of a comment
                text += sep
        return text

    def header_src(self, g):
        out = []
        hdr = g['header']
        for i, (k, s) in enumerate(hdr):
            if k == 'c':
                lead = self.rng.choice(['#', '//'])
                self.stats.hit('spelling', 'header-comment-' + ('hash' if lead == '#' else 'slashes'))
                eol = self.eol_s()
                if eol == '\r' and i + 1 < len(hdr) and hdr[i + 1][0] == 's' and hdr[i + 1][1].startswith('\n'):
                    eol = '\r\n'          # "\r" + "\n…" would be read as ONE line end and shorten the Space
                out.append(lead + s + eol)
            else:
                self.stats.hit('spelling', 'header-space')
                out.append(s)
        return out


# ----------------------------------------------------------------------------------------------
# random abstract grammars

LETTERS = [ord(c) for c in 'abcxyzABCXYZ']
DIGITS = [ord(c) for c in '0179']
SPECIAL = [ord(c) for c in '\'"[]-\\^/#{}<>()&!.*+?_ =;:,']
CONTROL = [0, 7, 8, 9, 10, 11, 12, 13, 27, 127]
WIDE = [0x80, 0xa0, 0xff, 0x4e2d, 0x6c49, 0x2190, 0x1f600, 0xfffd, 0x10ffff, 0x3b1, 0xe9]   # includes cased α é ÿ
# cased characters worth meeting often in case-insensitive positions: Latin-1 é É ÿ(→Ÿ U+178) µ(→Μ U+39C), Greek α Ω ς,
# Cyrillic ж Я, Latin Extended ā Ǆ ǅ ǈ ǋ ǲ (title case) ǆ, ſ(→S) K(Kelvin →k) ẞ(→ß), Georgian Ⴀ ა, fullwidth ａ, Deseret 𐐀 𐐨
CASED_WIDE_PICKS = [0xe9, 0xc9, 0xff, 0xb5, 0x3b1, 0x3a9, 0x3c2, 0x436, 0x42f, 0x101, 0x1c4, 0x1c5, 0x1c6, 0x1c8, 0x1cb, 0x1f2, 0x17f, 0x212a, 0x1e9e,
                    0x10a0, 0x10d0, 0xff41, 0x10400, 0x10428]
NAMES = ['a', 'b', 'Rule', 'r1', '_x', 'END', 'Expr', 'e_2', 'Z', 'typ', 'imports', 'packag', 'x9', 'A_b_C']
PKGS = ['p', 'main', 'calc', 'x_1', 'P2']
PATHS = ['fmt', 'os', 'strings', 'github.com/pointlander/peg/tree', 'a/b-c/d.v2', '0/_x', 'x.y/z_9', '-', '.']
ALIASES = ['t', 'T2', '_', 'x_y']
CODE_BITS = [' x ', 'p.n++', ' fmt.Println("hi") ', '{}', '{ {a} {b{c}} }', '\n\tif a {\n\t b()\n }\n', ' s := "str\\"ing" ',
             ' // c\n', "'x'", '<- / [', ' return `raw` ', '', ' ', ' \u2190 汉 ', '\t', ' a[i] = !b && c ', ' /* c */ ',
             ' type t struct{a int} ', '#', ' x := map[string]int{"a": 1} ',
             # braces inside Go strings, runes and comments do not count (fix of F-C10-5)
             ' s := "}" ', " r := '{' ", ' /* } */ ', ' // {\n', ' x := `}{` ', ' q := "\\"}" + "{" ']


def gen_code(rng):
    n = rng.choice([0, 1, 1, 2, 3])
    return ''.join(rng.choice(CODE_BITS) for _ in range(n))


class AstGen:
    def __init__(self, rng, stats, wide_cased=False):
        self.rng = rng
        self.stats = stats
        self.wide_cased = wide_cased

    def cp(self, ci=False):
        r = self.rng.random()
        if r < 0.45:
            return self.rng.choice(LETTERS)
        if r < 0.55:
            return self.rng.choice(DIGITS)
        if r < 0.78:
            return self.rng.choice(SPECIAL)
        if r < 0.88:
            return self.rng.choice(CONTROL)
        if ci:
            # case-insensitive positions: uncased and cased characters outside ASCII, the cased ones from a list of picks
            # and from ALL cased code points (cased_wide(): about 2800)
            r2 = self.rng.random()
            if r2 < 0.4:
                return self.rng.choice(WIDE)
            if r2 < 0.7:
                return self.rng.choice(CASED_WIDE_PICKS)
            return self.rng.choice(cased_wide())
        return self.rng.choice(WIDE)

    def range_bounds(self, ci):
        rng = self.rng
        r = rng.random()
        if r < 0.5:
            base = rng.choice([97, 65])
            lo = base + rng.randrange(0, 20)
            hi = lo + rng.randrange(0, 26 - (lo - base))
            return lo, hi
        if r < 0.7:
            lo = 48 + rng.randrange(0, 9)
            return lo, lo + rng.randrange(0, 58 - lo)
        if r < 0.85:
            # ASCII punctuation/control that stays on one side of the letters (case folding of the
            # BOUNDS then folds exactly the members)
            lo = rng.choice([0, 1, 9, 32, 33, 40, 58, 91, 93, 94, 123])
            hi = lo + rng.randrange(0, 6)
            if lo < 65 <= hi or lo < 97 <= hi:
                hi = lo
            return lo, hi
        if ci:
            # letters outside ASCII inside one alphabet whose two cases are parallel runs (folding the BOUNDS folds
            # exactly the members): à-ö / À-Ö, ø-þ / Ø-Þ, α-ρ / Α-Ρ, а-я / А-Я, and uncased runs
            base, n = rng.choice([(0xe0, 23), (0xc0, 23), (0xf8, 7), (0x3b1, 17), (0x391, 17), (0x430, 32), (0x410, 32),
                                  (0x4e00, 30), (0x1f600, 30), (0xe000, 30)])
            lo = base + rng.randrange(0, n)
            return lo, lo + rng.randrange(0, n - (lo - base))
        lo = rng.choice([0x80, 0x3b1, 0x4e00, 0x1f600, 0xe000])
        return lo, lo + rng.randrange(0, 30)

    def terminal(self):
        rng = self.rng
        r = rng.random()
        if r < 0.22:
            return ('lit', [self.cp() for _ in range(rng.choice([1, 1, 2, 3, 5]))])
        if r < 0.40:
            return ('dlit', [self.cp(ci=True) for _ in range(rng.choice([1, 1, 2, 3]))])
        if r < 0.70:
            ci = rng.random() < 0.35
            neg = rng.random() < 0.3
            items = []
            for _ in range(rng.choice([1, 1, 2, 3, 4])):
                if rng.random() < 0.4:
                    lo, hi = self.range_bounds(ci)
                    items.append(('r', lo, hi))
                else:
                    items.append(('c', self.cp(ci=ci)))
            return ('cls', items, neg, ci)
        if r < 0.78:
            return ('dot',)
        if r < 0.92:
            return ('name', rng.choice(NAMES))
        if r < 0.96:
            return ('act', gen_code(rng))
        if r < 0.98:
            return ('pred', gen_code(rng))
        return ('stmt', gen_code(rng))

    def expr(self, depth):
        rng = self.rng
        if depth <= 0 or rng.random() < 0.25:
            return self.terminal()
        r = rng.random()
        if r < 0.30:
            return ('seq', [self.expr(depth - 1) for _ in range(rng.choice([2, 2, 3, 4]))])
        if r < 0.52:
            return ('alt', [self.expr(depth - 1) for _ in range(rng.choice([1, 2, 2, 3, 4]))], rng.random() < 0.2)
        if r < 0.60:
            return ('and', self.expr(depth - 1))
        if r < 0.68:
            return ('not', self.expr(depth - 1))
        if r < 0.75:
            return ('q', self.expr(depth - 1))
        if r < 0.82:
            return ('star', self.expr(depth - 1))
        if r < 0.89:
            return ('plus', self.expr(depth - 1))
        if r < 0.96:
            return ('cap', self.expr(depth - 1))
        return ('nil',)

    def fix(self, e, top=True):
        """Remove shapes that have no spelling: `nil` anywhere but alone in a group, alt of one
        element without trailing slash."""
        t = e[0]
        if t == 'seq':
            xs = [self.fix(x, False) for x in e[1]]
            xs = [x if x[0] != 'nil' else ('cap', ('nil',)) for x in xs]
            return ('seq', xs)
        if t == 'alt':
            xs = [self.fix(x, False) for x in e[1]]
            xs = [x if x[0] != 'nil' else ('cap', ('nil',)) for x in xs]
            if len(xs) == 1 and not e[2]:
                return xs[0]
            return ('alt', xs, e[2])
        if t in ('and', 'not', 'q', 'star', 'plus'):
            x = self.fix(e[1], False)
            return (t, x)          # a nil operand is spelled `()` by the precedence rule
        if t == 'cap':
            return (t, self.fix(e[1], False))
        return e

    def header(self):
        rng = self.rng
        items = []
        n = rng.choice([0, 0, 1, 2, 4])
        for _ in range(n):
            if rng.random() < 0.6 or (items and items[-1][0] == 's'):
                m = rng.choice([0, 1, 5, 30])
                items.append(('c', ''.join(rng.choice(SAFE_COMMENT) for _ in range(m))))
            else:
                items.append(('s', ''.join(rng.choice([' ', '\t', '\n', '\r\n', '\r']) for _ in range(rng.choice([1, 2, 3])))))
        # '\r' followed by '\n' from two picks is one EndOfLine for the reader, still the same Space text
        return items

    def grammar(self):
        rng = self.rng
        imps = []
        for _ in range(rng.choice([0, 0, 1, 2, 3])):
            imps.append((rng.choice(ALIASES) if rng.random() < 0.35 else None, rng.choice(PATHS)))
        rules = []
        for i in range(rng.choice([1, 1, 2, 3, 5])):
            e = self.fix(self.expr(rng.choice([1, 2, 3, 4])))
            rules.append((rng.choice(NAMES), e))
        return {'header': self.header(), 'package': rng.choice(PKGS), 'imports': imps, 'peg': rng.choice(['T', 'Calc', 'p_1']),
                'state': gen_code(rng), 'rules': rules}


def nil_needs_group(e):
    return e[0] == 'nil'


# the renderer spells a nil operand of a prefix/suffix as "()": level(nil) must be below 3
Renderer.LEVEL['nil'] = -1


def _toks_nil_patch():
    orig = Renderer.toks

    def toks(self, e, need):
        if e[0] == 'nil' and need >= 1:
            self.stats.hit('construct', 'nil')
            return [('(', 's'), (')', 's')]
        if e[0] == 'nil':
            self.stats.hit('construct', 'nil')
            if self.rng.random() < 0.3:
                return [('(', 's'), (')', 's')]
            return []
        return orig(self, e, need)
    Renderer.toks = toks


_toks_nil_patch()


# ----------------------------------------------------------------------------------------------
# the systematic part: every escape spelling in every character position

CONTEXTS = ['lit1', 'litmid', 'dlit', 'cls1', 'cls2', 'rangelo', 'rangehi', 'neg', 'dcls', 'drange', 'dneg']


def context_expr(ctx, cp):
    """(expr, forced-spelling locator) for code point cp in context ctx; None when unsuitable."""
    ci = ctx in ('dlit', 'dcls', 'drange', 'dneg')
    if ci and not fold_ok(cp):
        return None                     # no independent answer for its case forms (fold_ok)
    if ctx == 'lit1':
        e = ('lit', [cp])
        return e, {0: None}
    if ctx == 'litmid':
        e = ('lit', [120, cp, 121])
        return e, {1: None}
    if ctx == 'dlit':
        e = ('dlit', [122, cp, 121])
        return e, {1: None}
    if ctx == 'cls1':
        return ('cls', [('c', cp)], False, False), {0: None}
    if ctx == 'cls2':
        return ('cls', [('c', 122), ('c', cp), ('c', 121)], False, False), {1: None}
    if ctx == 'rangelo':
        return ('cls', [('r', cp, 0x10ffff)], False, False), {0: ('lo',)}
    if ctx == 'rangehi':
        return ('cls', [('r', 0, cp)], False, False), {0: ('hi',)}
    if ctx == 'neg':
        return ('cls', [('c', cp)], True, False), {0: None}
    if ctx == 'dcls':
        return ('cls', [('c', 49), ('c', cp)], False, True), {1: None}
    if ctx == 'drange':
        return ('cls', [('r', cp, cp)], False, True), {0: ('lo',)}
    if ctx == 'dneg':
        return ('cls', [('c', cp)], True, True), {0: None}
    raise ValueError(ctx)


def systematic_rules(rng, full):
    """List of (expr, forced, kind, context, bad) so that every escape row occurs; `bad`: the digits of
    the forced spelling when it is a hex escape without a code point (the text must then be reported,
    naming `\\0x<bad>`), else None.  Every escape row occurs (quick: in one context, rotating, and
    every context sees every escape KIND; full: every row in every context)."""
    rows = escape_table()
    out = []
    seen_kind_ctx = set()
    k = 0
    for kind, sp, cp in rows:
        cpr = placeholder_cp(cp)
        bad = sp[3:] if cp is None else None    # digits of a hex escape without a code point
        ctxs = CONTEXTS if full else [CONTEXTS[k % len(CONTEXTS)]]
        if not full:
            for c in CONTEXTS:
                if (kind, c) not in seen_kind_ctx:
                    ctxs = ctxs + [c]
        k += 1
        used = 0
        for c in ctxs:
            r = context_expr(c, cpr)
            if r is None:
                continue
            e, loc = r
            forced = {}
            for idx, where in loc.items():
                if where is None:
                    forced[idx] = (kind, sp)
                elif where == ('lo',):
                    forced[idx] = ((kind, sp), None)
                else:
                    forced[idx] = (None, (kind, sp))
            out.append((e, forced, kind, c, bad))
            seen_kind_ctx.add((kind, c))
            used += 1
        if used == 0:
            # fall back to a context that takes everything
            e, loc = context_expr('lit1', cpr)
            out.append((e, {0: (kind, sp)}, kind, 'lit1', bad))
    return out


def make_wellformed(rng, stats, n_random, full_systematic, per_text=8):
    """Returns list of cases: dict(id, text, expect (denote), kind, bad_escapes).  `bad_escapes`: digit
    strings of the hex escapes without a code point the text is spelled with, in text order; when
    there are any the documented outcome is an error naming each of them, not `expect`."""
    cases = []
    sysr = systematic_rules(rng, full_systematic)
    rng.shuffle(sysr)
    gen = AstGen(rng, stats)
    i = 0
    while i < len(sysr):
        chunk = sysr[i:i + per_text]
        i += per_text
        g = gen.grammar()
        g['rules'] = []
        forced = {}
        bad_escapes = []
        for j, (e, f, kind, ctx, bad) in enumerate(chunk):
            g['rules'].append(('r%d' % j, e))
            forced[id(e)] = f
            stats.hit('escape-context', '%s@%s' % (kind, ctx))
            if bad is not None:
                bad_escapes.append(bad)
        r = Renderer(rng, stats, {'forced': forced})
        try:
            text = r.render(g)
        except ValueError:
            # an adjacency the forced spelling cannot stand in (e.g. hex before a hex digit)
            for (e, f, kind, ctx, bad) in chunk:
                g1 = gen.grammar()
                g1['rules'] = [('r0', e)]
                r1 = Renderer(rng, stats, {'forced': {id(e): f}})
                text1 = r1.render(g1)
                cases.append({'id': 'sys%d' % len(cases), 'text': text1, 'expect': denote(g1), 'kind': 'systematic',
                              'bad_escapes': [] if bad is None else [bad]})
            continue
        cases.append({'id': 'sys%d' % len(cases), 'text': text, 'expect': denote(g), 'kind': 'systematic', 'bad_escapes': bad_escapes})
    for k in range(n_random):
        g = gen.grammar()
        r = Renderer(rng, stats)
        text = r.render(g)
        cases.append({'id': 'rnd%d' % k, 'text': text, 'expect': denote(g), 'kind': 'random', 'bad_escapes': []})
    return cases


# ----------------------------------------------------------------------------------------------
# probes: texts in the grey zone of the documentation (each is reported, none is silently dropped)

HDR = 'package p\ntype T Peg {}\n'


def probes():
    """(id, text, what the documented syntax promises, note).  expect = list of rule bodies, 'error',
    or None (just record what happens)."""
    P = []

    def rule(body):
        return HDR + 'r <- ' + body + '\n'
    P.append(('ci-nonascii-literal', rule('"\u00e9"'), [N('Alternate', '', [CH(0xe9), CH(0xc9)])],
              'double-quoted literal with a non-ASCII letter: documented case-insensitive'))
    P.append(('ci-nonascii-class', rule('[[\u00e9]]'), [N('Alternate', '', [CH(0xe9), CH(0xc9)])],
              '[[é]]: documented case-insensitive'))
    P.append(('ci-escaped-letter-literal', rule('"\\0x61"'), [N('Alternate', '', [CH(97), CH(65)])],
              'an escape that denotes a letter inside a case-insensitive literal'))
    P.append(('ci-escaped-letter-class', rule('[[\\141]]'), [N('Alternate', '', [CH(97), CH(65)])],
              'an escape that denotes a letter inside [[…]]'))
    P.append(('ci-nonascii-titlecase', rule('"\u01c5"'), [N('Alternate', '', [CH(0x1c6), CH(0x1c4), CH(0x1c5)])],
              'a title case letter (ǅ) in a case-insensitive literal matches in lower case, in upper case and as written'))
    P.append(('ci-nonascii-nonbmp', rule('[[\U00010428]]'), [N('Alternate', '', [CH(0x10428), CH(0x10400)])], 'a cased letter outside the BMP (Deseret 𐐨)'))
    P.append(('ci-nonascii-dotted-I', rule('"\u0130"'), [N('Alternate', '', [CH(0x69), CH(0x130)])],
              'İ (U+0130): its lower case is i (UnicodeData simple mapping; the full mapping i + U+0307 is two characters)'))
    P.append(('ci-nonascii-uncased', rule('"1-\u6c49\u00df"'), [N('Sequence', '', [CH(49), CH(45), CH(0x6c49), CH(0xdf)])],
              'characters without case — digit, punctuation, 汉, ß (no one-character upper case) — stay plain characters'))
    P.append(('ci-escaped-letter-mixed', rule('"\\101b\\0x63" [[\\0x44\\145]]'),
              [N('Sequence', '', [N('Alternate', '', [CH(97), CH(65)]), N('Alternate', '', [CH(98), CH(66)]), N('Alternate', '', [CH(99), CH(67)]),
                                  N('Alternate', '', [CH(100), CH(68), N('Alternate', '', [CH(101), CH(69)])])])],
              'escaped and raw letters mixed in one case-insensitive literal / class'))
    P.append(('ci-range-nonascii', rule('[[\u00e0-\u00fe]]'), [N('Alternate', '', [N('Range', '', [CH(0xe0), CH(0xfe)]), N('Range', '', [CH(0xc0), CH(0xde)])])],
              '[[à-þ]]: a case-insensitive range with bounds outside ASCII'))
    P.append(('ci-range-escaped-bounds', rule('[[\\0x61-\\172]]'), [N('Alternate', '', [N('Range', '', [CH(97), CH(122)]), N('Range', '', [CH(65), CH(90)])])],
              '[[a-z]] with both bounds written as escapes'))
    P.append(('ci-range-mixed-A-z', rule('[[A-z]]'), None, '[[A-z]]: members 0x5b-0x60 ([\\]^_`) of [A-z] are lost by folding the bounds'))
    P.append(('ci-range-mixed-space-Z', rule('[[ -Z]]'), None, '[[ -Z]]: folding the bounds adds [\\]^_` and the range 0x5b-0x60'))
    P.append(('ci-range-a-Z', rule('[[a-Z]]'), None, '[[a-Z]]: [a-Z] is empty, the folded class is [a-z]/[A-Z]'))
    for v in (0xd800, 0xdfff, 0x110000, 0x7fffffff, 0xffffffff, 0xffffffffffffffffffff):
        P.append(('hex-no-codepoint-%x' % v, rule("'\\0x%x'" % v), 'error', 'hex escape without a code point'))
    P.append(('final-comment-no-newline', HDR + 'r <- a # end', [N('Name', 'a')], 'comment on the last line without a line end'))
    P.append(('final-comment-no-newline-slashes', HDR + 'r <- a // end', [N('Name', 'a')], 'same with //'))
    P.append(('header-comment-only-no-newline', '# c', 'error', 'nothing but a comment'))
    P.append(('grouped-import-crlf', 'package p\r\nimport (\r\n"fmt"\r\n)\r\ntype T Peg {}\r\nr <- a\r\n', None,
              'grouped import in a CRLF file (the grouped form is not documented)'))
    P.append(('grouped-import-trailing-space', 'package p\nimport (\n"fmt" \n)\ntype T Peg {}\nr <- a\n', None, 'space before the line end inside import ( … )'))
    P.append(('grouped-import-comment', 'package p\nimport (\n"fmt" // c\n)\ntype T Peg {}\nr <- a\n', None, 'comment inside import ( … )'))
    P.append(('grouped-import-one-line', 'package p\nimport ("fmt")\ntype T Peg {}\nr <- a\n', None, 'import ("fmt") on one line'))
    P.append(('import-path-tilde', 'package p\nimport "a/~b"\ntype T Peg {}\nr <- a\n', None, 'import path with a character outside [0-9a-zA-Z_/.-]'))
    P.append(('action-brace-in-string', rule('{ s := "}" }'), [N('Action', ' s := "}" ')], 'a brace inside a Go string inside an action'))
    P.append(('action-brace-in-string-accepted', rule("{ a(\"}\") } 'x' { b(\"{\") }"),
              [N('Sequence', '', [N('Action', ' a("}") '), CH(120), N('Action', ' b("{") ')])], 'braces inside Go strings'))
    P.append(('action-brace-in-comment', rule('{ // }\n }'), [N('Action', ' // }\n ')], 'a brace inside a Go comment inside an action'))
    # [a-]: peg(1) and regular expressions take a trailing dash literally; this project's documentation says nothing about it
    # (the dash has the escape \\-), so there is no documented meaning: rejecting it is as good as accepting it (no expectation)
    P.append(('class-trailing-dash', rule('[a-]'), None, '[a-]: undocumented; real must not crash and must agree with the model'))
    P.append(('class-caret-only', rule('[^]'), None, '[^]'))
    P.append(('escape-unknown', rule("'\\q'"), 'error', 'unknown escape'))
    P.append(('escape-x41', rule("'\\x41'"), 'error', '\\x41 is not the documented hex spelling'))
    P.append(('escape-upper-N', rule("'\\N'"), None, 'upper-case letter escapes are accepted (the escapes are double-quoted in peg.peg)'))
    P.append(('octal-400', rule("'\\400'"), None, '\\400 = \\40 followed by 0'))
    P.append(('octal-8', rule("'\\8'"), 'error', '\\8'))
    P.append(('hex-empty', rule("'\\0x'"), None, '\\0x without digits = NUL followed by x'))
    P.append(('double-suffix', rule('a**'), 'error', 'two suffixes'))
    P.append(('double-prefix', rule('!!a'), 'error', 'two prefixes'))
    P.append(('empty-alt-middle', rule('a / / b'), 'error', 'empty alternative in the middle'))
    P.append(('empty-alt-leading', rule('/ a'), 'error', 'empty alternative first'))
    P.append(('unicode-identifier', HDR + '\u00e9 <- a\n', 'error', 'non-ASCII identifier'))
    P.append(('no-rules', HDR, 'error', 'no rule at all'))
    P.append(('type-no-space', 'package p\ntypeT Peg {}\nr <- a\n', 'error', 'typeT'))
    P.append(('peg-glued', 'package p\ntype TPeg {}\nr <- a\n', 'error', 'TPeg'))
    P.append(('two-rules-one-line', HDR + 'r <- a s <- b\n', [N('Name', 'a'), N('Name', 'b')], 'two rules on one line'))
    return P


# ----------------------------------------------------------------------------------------------
# malformed stream

HAND = [
    ('empty', ''), ('nul', '\x00'), ('only-space', ' \n\t'), ('only-package', 'package'), ('package-name', 'package p'),
    ('no-type', 'package p\nr <- a\n'), ('no-peg-kw', 'package p\ntype T {}\nr <- a\n'),
    ('unbalanced-state', 'package p\ntype T Peg {\nr <- a\n'), ('state-extra-close', 'package p\ntype T Peg {}}\nr <- a\n'),
    ('empty-sq', HDR + "r <- ''\n"), ('empty-dq', HDR + 'r <- ""\n'), ('empty-class', HDR + 'r <- []\n'), ('empty-dclass', HDR + 'r <- [[]]\n'),
    ('empty-negclass', HDR + 'r <- [^]\n'), ('empty-dnegclass', HDR + 'r <- [[^]]\n'),
    ('empty-sq-then', HDR + "r <- '' 'a'\n"), ('empty-sq-second-rule', HDR + "q <- 'a'\nr <- ''\n"),
    ('unclosed-sq', HDR + "r <- 'abc\n"), ('unclosed-dq', HDR + 'r <- "abc\n'), ('unclosed-class', HDR + 'r <- [abc\n'),
    ('unclosed-dclass', HDR + 'r <- [[abc]\n'), ('unclosed-paren', HDR + 'r <- (a b\n'), ('extra-paren', HDR + 'r <- a b)\n'),
    ('unclosed-capture', HDR + 'r <- <a\n'), ('extra-capture', HDR + 'r <- a>\n'), ('unclosed-action', HDR + 'r <- { a {b}\n'),
    ('extra-brace', HDR + 'r <- {a}}\n'), ('missing-arrow', HDR + 'r a\n'), ('arrow-only', HDR + '<- a\n'), ('half-arrow', HDR + 'r < - a\n'),
    ('arrow-eq', HDR + 'r = a\n'), ('arrow-in-expr', HDR + 'r <- a <- b\n'), ('arrow-arrow', HDR + 'r <- <- b\n'),
    ('arrow-in-parens', HDR + 'r <- (a <- b)\n'), ('unicode-arrow-in-expr', HDR + 'r \u2190 a \u2190 b\n'),
    ('final-comment-nonl', HDR + 'r <- a #x'), ('final-comment-nonl2', HDR + 'r <- a\n#'), ('final-slashes-nonl', HDR + 'r <- a\n//'),
    ('reserved-semicolon', HDR + 'r <- a ; b\n'), ('reserved-colon', HDR + 'r <- a : b\n'), ('reserved-eq', HDR + 'r <- a = b\n'),
    ('reserved-pipe', HDR + 'r <- a | b\n'), ('reserved-tilde', HDR + 'r <- ~a\n'), ('reserved-at', HDR + 'r <- @a\n'),
    ('reserved-percent', HDR + 'r <- %a\n'), ('reserved-dollar', HDR + 'r <- $a\n'), ('reserved-backtick', HDR + 'r <- `a`\n'),
    ('reserved-comma', HDR + 'r <- a, b\n'), ('backslash-bare', HDR + 'r <- \\n\n'), ('digit-ident', HDR + '1r <- a\n'),
    ('nul-in-rule', HDR + 'r <- a \x00 b\n'), ('nul-in-literal', HDR + "r <- 'a\x00b'\n"), ('nul-in-comment', HDR + 'r <- a # \x00\n'),
    ('bom', '\ufeffpackage p\ntype T Peg {}\nr <- a\n'), ('fffd-in-rule', HDR + 'r <- \ufffd\n'),
    ('question-first', HDR + 'r <- ?a\n'), ('star-alone', HDR + 'r <- *\n'), ('and-alone', HDR + 'r <- &\n'), ('not-alone', HDR + 'r <- !\n'),
    ('slash-slash', HDR + 'r <- a // b\n'), ('slash-slash-eof', HDR + 'r <- a // b'), ('dot-dot', HDR + 'r <- ..\n'),
    ('bad-escape-in-class', HDR + 'r <- [\\q]\n'), ('backslash-end-literal', HDR + "r <- 'a\\'\n"), ('backslash-eof', HDR + "r <- 'a\\"),
    ('range-open', HDR + 'r <- [a-]\n'), ('class-close-first', HDR + 'r <- []a]\n'), ('dclass-single-close', HDR + 'r <- [[a]\n'),
    ('import-no-quote', 'package p\nimport fmt\ntype T Peg {}\nr <- a\n'), ('import-unclosed', 'package p\nimport "fmt\ntype T Peg {}\nr <- a\n'),
    ('import-empty', 'package p\nimport ""\ntype T Peg {}\nr <- a\n'), ('import-group-unclosed', 'package p\nimport (\n"fmt"\ntype T Peg {}\nr <- a\n'),
    ('import-after-type', 'package p\ntype T Peg {}\nimport "fmt"\nr <- a\n'), ('two-packages', 'package p\npackage q\ntype T Peg {}\nr <- a\n'),
    ('two-types', 'package p\ntype T Peg {}\ntype U Peg {}\nr <- a\n'), ('package-keyword-case', 'Package p\ntype T Peg {}\nr <- a\n'),
    ('garbage-after', HDR + 'r <- a\n)))\n'), ('garbage-before', '???\n' + HDR + 'r <- a\n'), ('pred-unclosed', HDR + 'r <- &{ a\n'),
    ('cr-only-comment', HDR + 'r <- a # c\rs <- b\r'), ('crlf-all', 'package p\r\ntype T Peg {}\r\nr <- a\r\n'),
    ('long-comment', HDR + 'r <- a # ' + 'x' * 20000 + '\n'), ('long-literal', HDR + "r <- '" + 'ab' * 4000 + "'\n"),
    ('long-ident', HDR + 'r' * 20000 + ' <- a\n'), ('long-line-garbage', HDR + 'r <- ' + '(' * 3000 + '\n'),
    ('deep-parens', HDR + 'r <- ' + '(' * 400 + 'a' + ')' * 400 + '\n'), ('long-alt', HDR + 'r <- ' + ' / '.join(['a'] * 3000) + '\n'),
    ('long-action', HDR + 'r <- {' + '{}' * 3000 + '}\n'), ('many-rules', HDR + ''.join('r%d <- a\n' % i for i in range(1500))),
]

STRUCT_CHARS = list('\'"[]()<>{}/\\-^&!?*+.#\n \t') + ['<-', '\u2190', '//', '[[', ']]', '\x00', '\ufffd', '\r', '\r\n', 'x', '0']


def mutate(rng, data, stats):
    """One random edit of a byte string. Returns (kind, bytes)."""
    kind = rng.choice(['truncate', 'truncate', 'delete', 'delete', 'insert', 'insert', 'swap', 'randbyte', 'dup', 'replace'])
    n = len(data)
    if n == 0:
        kind = 'insert'
    if kind == 'truncate':
        k = rng.randrange(0, n)
        out = data[:k]
    elif kind == 'delete':
        k = rng.randrange(0, n)
        m = rng.choice([1, 1, 1, 2, 3, 8])
        out = data[:k] + data[k + m:]
    elif kind == 'insert':
        k = rng.randrange(0, n + 1)
        out = data[:k] + rng.choice(STRUCT_CHARS).encode('utf-8') + data[k:]
    elif kind == 'swap':
        if n < 2:
            out = data
        else:
            k = rng.randrange(0, n - 1)
            out = data[:k] + data[k + 1:k + 2] + data[k:k + 1] + data[k + 2:]
    elif kind == 'randbyte':
        k = rng.randrange(0, n)
        out = data[:k] + bytes([rng.choice([0, 0x80, 0xff, 0xc0, 0xe2, 0xf4, rng.randrange(256)])]) + data[k + 1:]
    elif kind == 'dup':
        k = rng.randrange(0, n)
        m = rng.choice([1, 2, 5])
        out = data[:k] + data[k:k + m] + data[k:]
    else:
        k = rng.randrange(0, n)
        out = data[:k] + rng.choice(STRUCT_CHARS).encode('utf-8') + data[k + 1:]
    stats.hit('malformed', kind)
    return kind, out


def make_malformed(rng, stats, n, bases):
    """bases: list of valid texts (str). Returns list of dict(id, data(bytes), kind)."""
    out = []
    for name, t in HAND:
        out.append({'id': 'hand-' + name, 'data': t.encode('utf-8'), 'kind': 'hand'})
        stats.hit('malformed', 'hand')
    k = 0
    while len(out) < n:
        base = rng.choice(bases).encode('utf-8')
        m = rng.choice([1, 1, 1, 2, 3])
        kinds = []
        data = base
        for _ in range(m):
            kind, data = mutate(rng, data, stats)
            kinds.append(kind)
        if rng.random() < 0.03:
            data = bytes(rng.randrange(256) for _ in range(rng.choice([1, 5, 40, 200])))
            kinds = ['noise']
            stats.hit('malformed', 'noise')
        out.append({'id': 'mut%d' % k, 'data': data, 'kind': '+'.join(kinds)})
        k += 1
    return out


# ----------------------------------------------------------------------------------------------

def generate(seed, tier):
    rng = random.Random(seed)
    stats = Stats()
    if tier == 'quick':
        n_random, full, n_mal = 1000, True, 1600
    else:
        n_random, full, n_mal = 14000, True, 16000
    well = make_wellformed(rng, stats, n_random, full)
    bases = [c['text'] for c in well if len(c['text']) < 600] or [HDR + 'r <- a\n']
    mal = make_malformed(rng, stats, n_mal, bases)
    return {'well': well, 'malformed': mal, 'probes': probes(), 'stats': stats, 'escape_rows': len(escape_table())}


def main():
    import argparse
    import json
    ap = argparse.ArgumentParser()
    ap.add_argument('--seed', type=int, default=1)
    ap.add_argument('--tier', default='quick')
    ap.add_argument('--show', type=int, default=0, help='print the first N well-formed texts')
    a = ap.parse_args()
    g = generate(a.seed, a.tier)
    st = g['stats']
    summary = {'wellformed': len(g['well']), 'systematic': sum(1 for c in g['well'] if c['kind'] == 'systematic'),
               'malformed': len(g['malformed']), 'probes': len(g['probes']), 'escape_rows': g['escape_rows']}
    for grp in ('construct', 'escape', 'spelling', 'malformed', 'ci'):
        summary[grp + '_counts'] = dict(sorted(st.get(grp, {}).items()))
    ec = st.get('escape-context', {})
    summary['escape_kind_x_context_cells'] = len(ec)
    print(json.dumps(summary, indent=1, ensure_ascii=False))
    for c in g['well'][:a.show]:
        print('-----', c['id'])
        print(c['text'])
    return 0


if __name__ == '__main__':
    sys.exit(main())
