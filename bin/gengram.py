"""Type-directed generator of WELL-FORMED .peg grammars and of inputs for them.

Everything is derived from one `random.Random(seed)` so that a case replays exactly.

Well-formedness by construction (the Lean predicate `WF` re-checks it):
  * rules are generated last to first; a reference to a later rule is free (the unguarded reference
    graph is acyclic), a reference to the same or an earlier rule is placed only after an element of
    the enclosing sequence that must consume input (guarded recursion);
  * `*` and `+` are applied only to expressions that cannot succeed without consuming.
"""
import random

ALPHA = ['a', 'b', 'c']
WIDE = '汉'          # a 3-byte rune
EXTRA = ['\n', WIDE]


def esc_char(c, in_class=False):
    """Spelling of one character inside '…' or […]."""
    if c == '\n':
        return '\\n'
    if c == "'":
        return "\\'"
    if c == '\\':
        return '\\\\'
    if in_class and c in '[]-^':
        return '\\' + c
    return c


class G:
    """One generated grammar: rules[i] = expression tree (tuples)."""

    def __init__(self, rng, nrules, shape='core', alphabet=None):
        self.rng = rng
        self.n = nrules
        self.shape = shape
        self.alpha = list(alphabet or ALPHA)
        self.nullable = [None] * nrules
        self.rules = [None] * nrules
        self.nact = 0
        self.nstmt = 0
        self.has_capture = False
        self.cur = 0
        for i in reversed(range(nrules)):
            self.cur = i
            body = self.expr(self.depth0(), guarded=False, top=True)
            # make later rules reachable: force a reference from rule i to rule i+1
            if i + 1 < nrules and rng.random() < 0.8 and not self.mentions(body, i + 1):
                ref = ('name', i + 1)
                if rng.random() < 0.5:
                    body = ('seq', [body, ref])
                else:
                    body = ('seq', [ref, body]) if rng.random() < 0.5 else ('alt', [body, ref], False)
            self.rules[i] = body
            self.nullable[i] = self.is_nullable(body)

    def depth0(self):
        return self.rng.choice([2, 3, 3, 4])

    # ---- analysis helpers -------------------------------------------------------------------
    def mentions(self, e, j):
        t = e[0]
        if t == 'name':
            return e[1] == j
        if t in ('seq', 'alt'):
            return any(self.mentions(x, j) for x in e[1])
        if t in ('q', 'star', 'plus', 'and', 'not', 'cap'):
            return self.mentions(e[1], j)
        return False

    def is_nullable(self, e):
        t = e[0]
        if t in ('chr', 'rng', 'cls', 'dot', 'dchr'):
            return False
        if t in ('lit', 'dlit'):
            return len(e[1]) == 0
        if t == 'name':
            j = e[1]
            if j <= self.cur and self.nullable[j] is None:
                return True        # back reference: unknown, be conservative
            return bool(self.nullable[j]) if self.nullable[j] is not None else True
        if t == 'seq':
            return all(self.is_nullable(x) for x in e[1])
        if t == 'alt':
            return e[2] or any(self.is_nullable(x) for x in e[1])
        if t in ('q', 'star', 'and', 'not', 'act', 'pred', 'stmt'):
            return True
        if t in ('plus', 'cap'):
            return self.is_nullable(e[1])
        raise ValueError(t)

    # ---- generation -------------------------------------------------------------------------
    def char(self):
        r = self.rng.random()
        if r < 0.85:
            return self.rng.choice(self.alpha)
        return self.rng.choice(EXTRA)

    def terminal(self):
        rng = self.rng
        r = rng.random()
        if r < 0.40:
            return ('chr', self.char())
        if r < 0.50:
            return ('lit', ''.join(self.char() for _ in range(rng.choice([2, 2, 3]))))
        if r < 0.58:
            return ('dlit', ''.join(rng.choice(self.alpha) for _ in range(rng.choice([1, 2]))))
        if r < 0.70:
            lo = rng.choice(self.alpha[:-1])
            hi = rng.choice([c for c in self.alpha if c >= lo])
            return ('rng', lo, hi)
        if r < 0.82:
            items = []
            for _ in range(rng.choice([1, 2, 3])):
                if rng.random() < 0.3:
                    lo = rng.choice(self.alpha[:-1])
                    hi = rng.choice([c for c in self.alpha if c >= lo])
                    items.append((lo, hi))
                else:
                    items.append(self.char())
            return ('cls', items, rng.random() < 0.35, rng.random() < 0.2)
        if self.shape == 'switch' and rng.random() < 0.7:
            return ('chr', self.char())
        return ('dot',)

    def nonnull(self, depth, guarded):
        """An expression that must consume to succeed."""
        rng = self.rng
        if depth <= 0 or rng.random() < 0.35:
            return self.terminal()
        r = rng.random()
        if r < 0.30:
            k = rng.choice([2, 2, 3])
            pos = rng.randrange(k)
            items = []
            g = guarded
            for i in range(k):
                if i == pos:
                    x = self.nonnull(depth - 1, g)
                else:
                    x = self.expr(depth - 1, g)
                items.append(x)
                g = g or not self.is_nullable(x)
            return ('seq', items)
        if r < 0.50:
            k = rng.choice([2, 2, 3, 4]) if self.shape != 'switch' else rng.choice([3, 3, 4, 5])
            return ('alt', [self.nonnull(depth - 1, guarded) for _ in range(k)], False)
        if r < 0.60:
            return ('plus', self.nonnull(depth - 1, guarded))
        if r < 0.70:
            self.has_capture = True
            return ('cap', self.nonnull(depth - 1, guarded))
        if r < 0.90:
            cands = [j for j in range(self.cur + 1, self.n) if self.nullable[j] is False]
            if cands:
                return ('name', rng.choice(cands))
        return self.terminal()

    def expr(self, depth, guarded, top=False):
        rng = self.rng
        if depth <= 0:
            return self.terminal() if rng.random() < 0.8 else self.leafish(guarded)
        r = rng.random()
        sw = self.shape == 'switch'
        if r < (0.22 if not sw else 0.15):
            k = rng.choice([2, 2, 3, 4])
            items = []
            g = guarded
            for _ in range(k):
                x = self.expr(depth - 1, g)
                items.append(x)
                g = g or not self.is_nullable(x)
            return ('seq', items)
        if r < (0.42 if not sw else 0.55):
            k = rng.choice([2, 2, 3, 3, 4, 5]) if not sw else rng.choice([3, 3, 4, 4, 5])
            if sw:
                # mostly alternatives with a non-empty first set (otherwise the generator emits
                # `case '<nil>':`), some nullable / lookahead-first ones on purpose
                alts = [self.nonnull(depth - 1, guarded) if rng.random() < 0.88 else self.expr(depth - 1, guarded)
                        for _ in range(k)]
                return ('alt', alts, rng.random() < 0.04)
            alts = [self.expr(depth - 1, guarded) for _ in range(k)]
            return ('alt', alts, rng.random() < 0.12)
        if r < 0.50:
            return ('q', self.expr(depth - 1, guarded))
        if r < 0.58:
            return ('star', self.nonnull(depth - 1, guarded))
        if r < 0.64:
            return ('plus', self.nonnull(depth - 1, guarded))
        if r < 0.70:
            return ('and', self.expr(depth - 1, guarded))
        if r < 0.77:
            return ('not', self.expr(depth - 1, guarded))
        if r < 0.83:
            self.has_capture = True
            return ('cap', self.expr(depth - 1, guarded))
        if r < 0.93:
            return self.leafish(guarded)
        return self.terminal()

    def leafish(self, guarded):
        rng = self.rng
        r = rng.random()
        if r < 0.45:
            lo = 0 if guarded else self.cur + 1
            cands = list(range(lo, self.n))
            if cands:
                # prefer near rules
                return ('name', rng.choice(cands))
            return self.terminal()
        if r < 0.70:
            k = self.nact
            self.nact += 1
            return ('act', k)
        if r < 0.82:
            return ('pred', rng.choice(['position%2 == 0', 'position%2 == 1', 'position%3 == 0', 'true', 'false',
                                        'position%3 == 1']))
        if r < 0.90:
            k = self.nstmt
            self.nstmt += 1
            return ('stmt', k)
        return self.terminal()

    # ---- rendering --------------------------------------------------------------------------
    # precedence: alt(0) < seq(1) < prefix(2) < suffix(3) < primary(4)
    def render(self, e, ctx=0):
        t = e[0]
        if t == 'chr':
            return "'" + esc_char(e[1]) + "'"
        if t == 'lit':
            return "'" + ''.join(esc_char(c) for c in e[1]) + "'"
        if t == 'dlit':
            return '"' + e[1] + '"'
        if t == 'rng':
            return '[' + esc_char(e[1], True) + '-' + esc_char(e[2], True) + ']'
        if t == 'cls':
            body = ''
            for it in e[1]:
                if isinstance(it, tuple):
                    body += esc_char(it[0], True) + '-' + esc_char(it[1], True)
                else:
                    body += esc_char(it, True)
            neg = '^' if e[2] else ''
            return ('[[' + neg + body + ']]') if e[3] else ('[' + neg + body + ']')
        if t == 'dot':
            return '.'
        if t == 'name':
            return 'R%d' % e[1]
        if t == 'act':
            if self.use_text:
                return '{ p.Trace += "A%d<" + text + ">" }' % e[1]
            return '{ p.Trace += "A%d<>" }' % e[1]
        if t == 'pred':
            s = '&{' + e[1] + '}'
            return '(' + s + ')' if ctx > 2 else s
        if t == 'stmt':
            s = '!{p.STrace += "S%d;"}' % e[1]
            return '(' + s + ')' if ctx > 2 else s
        if t == 'seq':
            s = ' '.join(self.render(x, 2) for x in e[1])
            return '(' + s + ')' if ctx > 1 else s
        if t == 'alt':
            s = ' / '.join(self.render(x, 1) for x in e[1])
            if e[2]:
                s += ' /'
            return '(' + s + ')' if ctx > 0 else s
        if t in ('q', 'star', 'plus'):
            s = self.render(e[1], 4) + {'q': '?', 'star': '*', 'plus': '+'}[t]
            return '(' + s + ')' if ctx > 3 else s
        if t in ('and', 'not'):
            inner = self.render(e[1], 3)
            if inner.startswith('{'):      # `&{` and `!{` are predicate / state-change syntax
                inner = '(' + inner + ')'
            s = ('&' if t == 'and' else '!') + inner
            return '(' + s + ')' if ctx > 2 else s
        if t == 'cap':
            return '<' + self.render(e[1], 0) + '>'
        raise ValueError(t)

    def text(self, package='g'):
        self.use_text = self.has_capture_reachable()
        lines = ['package %s' % package, '', 'type P Peg {', ' Trace string', ' STrace string', '}', '']
        for i, body in enumerate(self.rules):
            lines.append('R%d <- %s' % (i, self.render(body, 0)))
        return '\n'.join(lines) + '\n'

    def reachable(self):
        seen = {0}
        todo = [0]
        while todo:
            i = todo.pop()
            for j in range(self.n):
                if j not in seen and self.mentions(self.rules[i], j):
                    seen.add(j)
                    todo.append(j)
        return seen

    def has_cap(self, e):
        t = e[0]
        if t == 'cap':
            return True
        if t in ('seq', 'alt'):
            return any(self.has_cap(x) for x in e[1])
        if t in ('q', 'star', 'plus', 'and', 'not'):
            return self.has_cap(e[1])
        return False

    def has_capture_reachable(self):
        return any(self.has_cap(self.rules[i]) for i in self.reachable())

    # ---- inputs -----------------------------------------------------------------------------
    def sample(self, e, budget):
        """A string that `e` plausibly matches (lookahead and predicates are ignored)."""
        rng = self.rng
        t = e[0]
        if budget[0] <= 0:
            return ''
        budget[0] -= 1
        if t == 'chr':
            return e[1]
        if t == 'lit':
            return e[1]
        if t == 'dlit':
            return ''.join(c.upper() if rng.random() < 0.5 else c for c in e[1])
        if t == 'rng':
            return rng.choice([c for c in self.alpha if e[1] <= c <= e[2]] or [e[1]])
        if t == 'cls':
            members = set()
            for it in e[1]:
                if isinstance(it, tuple):
                    members.update(c for c in self.alpha if it[0] <= c <= it[1])
                else:
                    members.add(it)
            if e[3]:
                members |= {c.upper() for c in members}
            if e[2]:
                pool = [c for c in self.alpha + EXTRA + ['z'] if c not in members]
                return rng.choice(pool or ['z'])
            return rng.choice(sorted(members))
        if t == 'dot':
            return rng.choice(self.alpha + EXTRA)
        if t == 'name':
            return self.sample(self.rules[e[1]], budget)
        if t == 'seq':
            return ''.join(self.sample(x, budget) for x in e[1])
        if t == 'alt':
            k = len(e[1]) + (1 if e[2] else 0)
            i = rng.randrange(k)
            return '' if i >= len(e[1]) else self.sample(e[1][i], budget)
        if t == 'q':
            return self.sample(e[1], budget) if rng.random() < 0.6 else ''
        if t == 'star':
            return ''.join(self.sample(e[1], budget) for _ in range(rng.choice([0, 1, 2, 3])))
        if t == 'plus':
            return ''.join(self.sample(e[1], budget) for _ in range(rng.choice([1, 1, 2, 3])))
        if t == 'cap':
            return self.sample(e[1], budget)
        return ''

    def inputs(self, nrand=30, nsample=25, short=True):
        return list(getattr(self, 'extra_inputs', [])) + self._inputs(nrand, nsample, short)

    def _inputs(self, nrand=30, nsample=25, short=True):
        rng = self.rng
        out = []
        seen = set()

        def add(s):
            if s not in seen and len(s) <= 40:
                seen.add(s)
                out.append(s)
        if short:
            add('')
            for a in self.alpha:
                add(a)
                for b in self.alpha:
                    add(a + b)
                    for c in self.alpha:
                        add(a + b + c)
        pool = self.alpha + EXTRA + ['A', 'z']
        for i in range(nsample):
            r = rng.randrange(self.n) if rng.random() < 0.3 else 0
            s = self.sample(self.rules[r], [60])
            add(s)
            if s and rng.random() < 0.7:   # mutations
                k = rng.randrange(len(s))
                add(s[:k] + s[k + 1:])
                add(s[:k] + rng.choice(pool) + s[k + 1:])
                add(s[:k] + rng.choice(pool) + s[k:])
                add(s + rng.choice(pool))
        for _ in range(nrand):
            add(''.join(rng.choice(pool) for _ in range(rng.randrange(1, 9))))
        return out

    def stats(self, acc):
        def walk(e):
            acc[e[0]] = acc.get(e[0], 0) + 1
            if e[0] in ('seq', 'alt'):
                for x in e[1]:
                    walk(x)
                if e[0] == 'alt' and e[2]:
                    acc['alt_trailing_empty'] = acc.get('alt_trailing_empty', 0) + 1
                if e[0] == 'alt' and len(e[1]) >= 3:
                    acc['alt3plus'] = acc.get('alt3plus', 0) + 1
            elif e[0] in ('q', 'star', 'plus', 'and', 'not', 'cap'):
                walk(e[1])
            elif e[0] == 'name' and e[1] <= self._walk_rule:
                acc['backref'] = acc.get('backref', 0) + 1
        for i, r in enumerate(self.rules):
            self._walk_rule = i
            walk(r)


def rename(e, perm):
    """Apply a renumbering of the rules to an expression tree."""
    if isinstance(e, tuple):
        if e and e[0] == 'name':
            return ('name', perm[e[1]])
        return tuple(rename(x, perm) for x in e)
    if isinstance(e, list):
        return [rename(x, perm) for x in e]
    return e


def permute(g, perm):
    """Reorder the rules (rule i becomes rule perm[i]).  The generator only makes first-position references to LATER rules;
    after a permutation the first rule of the file, from which the -switch analysis starts its depth-first walk, can reach a rule
    whose first-position references lead back to a rule still being analysed (guarded recursion through the entry rule)."""
    rules = [None] * g.n
    nullable = [None] * g.n
    for i in range(g.n):
        rules[perm[i]] = rename(g.rules[i], perm)
        nullable[perm[i]] = g.nullable[i]
    g.rules, g.nullable = rules, nullable
    return g


def recursive_family(rng):
    """S <- C !.  C <- t A / t   A <- C t D / t   D <- A t / t t / t t  — a rule (A) whose first-position reference (C) is still
    being analysed when the depth-first walk of the -switch analysis reaches it, used at the head of a dispatched choice (D)."""
    ts = rng.sample('abcdefghijklmnopqrstuvwxyz', 10)
    c = lambda ch: ('chr', ch)
    g = G.__new__(G)
    g.rng, g.n, g.shape, g.alpha = rng, 4, 'switch', sorted(set(ts[:6]))
    g.nact = g.nstmt = 0
    g.has_capture = False
    g.cur = 0
    g.rules = [
        ('seq', [('name', 1), ('not', ('dot',))]),
        ('alt', [('seq', [c(ts[0]), ('name', 2)]), c(ts[1])], False),
        ('alt', [('seq', [('name', 1), c(ts[2]), ('name', 3)]), c(ts[3])], False),
        ('alt', [('seq', [('name', 2), c(ts[4])]), ('seq', [c(ts[0] if rng.random() < 0.5 else ts[5]), c(ts[6])]), ('seq', [c(ts[7]), c(ts[8])])], False),
    ]
    g.nullable = [False, False, False, False]
    t = ts
    # inputs on which the dispatched choice in D must take its FIRST alternative although it begins like another one
    d1 = t[0] + t[3] + t[2] + t[7] + t[8] + t[4]
    d2 = t[1] + t[2] + t[7] + t[8] + t[4]
    g.extra_inputs = [t[0] + t[1] + t[2] + d1, t[0] + t[1] + t[2] + d2, t[0] + t[1] + t[2] + t[7] + t[8], t[1], t[0] + t[3]]
    return g


def memo_family(rng):
    """R0 <- R1 t / R2 u / R1 v   with R1 and R2 matching the same text: R1 succeeds inside an alternative that then fails, R2 (or a
    capture, or an action) overwrites the token slots R1 used, that alternative fails too, and R1 is re-entered at the same
    position AND the same token index — a memo hit whose tokens must be copied back."""
    ts = rng.sample('abcdefghijklmnopqrstuvwxyz', 6)
    c = lambda ch: ('chr', ch)
    g = G.__new__(G)
    g.rng, g.n, g.shape, g.alpha = rng, 4, 'core', sorted(set(ts[:4]))
    g.nact = g.nstmt = 0
    g.has_capture = False
    g.cur = 0
    variant = rng.randrange(3)
    if variant == 0:
        second = ('seq', [('name', 2), c(ts[2])])
    elif variant == 1:
        g.has_capture = True
        second = ('seq', [('cap', c(ts[0])), c(ts[2])])
    else:
        g.nact = 1
        second = ('seq', [('act', 0), c(ts[0]), c(ts[2])])
    g.rules = [
        ('seq', [('alt', [('seq', [('name', 1), c(ts[1])]), second, ('seq', [('name', 1), c(ts[3])])], False), ('not', ('dot',))]),
        ('seq', [('name', 3)]) if rng.random() < 0.5 else c(ts[0]),
        c(ts[0]),
        c(ts[0]),
    ]
    g.nullable = [False, False, False, False]
    g.extra_inputs = [ts[0] + ts[3], ts[0] + ts[2], ts[0] + ts[1], ts[0], ts[0] + ts[3] + ts[3]]
    return g


def gen_grammar(seed, idx, shape='core'):
    rng = random.Random('%s/%s/%s' % (seed, shape, idx))
    n = rng.choice([1, 2, 2, 3, 3, 4, 5])
    if shape == 'switch' and idx % 10 == 9:
        return recursive_family(rng)
    if shape == 'core' and idx % 10 == 9:
        return memo_family(rng)
    g = G(rng, n, shape)
    if shape == 'switch' and n >= 3 and rng.random() < 0.35:
        perm = list(range(n))
        rng.shuffle(perm)
        g = permute(g, perm)
    return g


# ---- exhaustive enumeration of small grammars (deterministic part of every tie) ---------------

def enum_exprs(k, names, memo=None):
    """All expressions with exactly k operator nodes over {a,b}; leaves are free."""
    if memo is None:
        memo = {}
    if k in memo:
        return memo[k]
    leaves = [('chr', 'a'), ('chr', 'b'), ('dot',), ('rng', 'a', 'b')] + [('name', j) for j in names]
    if k == 0:
        memo[k] = leaves
        return leaves
    out = []
    for sub in enum_exprs(k - 1, names, memo):
        for op in ('q', 'star', 'plus', 'and', 'not', 'cap'):
            out.append((op, sub))
    for i in range(k):
        for a in enum_exprs(i, names, memo):
            for b in enum_exprs(k - 1 - i, names, memo):
                out.append(('seq', [a, b]))
                out.append(('alt', [a, b], False))
    memo[k] = out
    return out


class EnumG(G):
    def __init__(self, rules):
        self.rng = random.Random(0)
        self.n = len(rules)
        self.shape = 'enum'
        self.alpha = ['a', 'b']
        self.rules = rules
        self.nullable = [None] * self.n
        self.cur = self.n
        self.nact = self.nstmt = 0
        self.has_capture = any(self.has_cap(r) for r in rules)
        # fixpoint nullability (least fixed point, then conservative check by caller)
        self.nullable = [False] * self.n
        changed = True
        while changed:
            changed = False
            for i, r in enumerate(rules):
                v = self.is_nullable(r)
                if v and not self.nullable[i]:
                    self.nullable[i] = True
                    changed = True

    def wf(self):
        """Ford's WF on the enumerated grammar: no unguarded cycle, no */+ over nullable."""
        def first_refs(e):   # names reachable without consuming
            t = e[0]
            if t == 'name':
                return {e[1]}
            if t == 'seq':
                out = set()
                for x in e[1]:
                    out |= first_refs(x)
                    if not self.is_nullable(x):
                        break
                return out
            if t == 'alt':
                out = set()
                for x in e[1]:
                    out |= first_refs(x)
                return out
            if t in ('q', 'star', 'plus', 'and', 'not', 'cap'):
                return first_refs(e[1])
            return set()

        def star_ok(e):
            t = e[0]
            if t in ('star', 'plus'):
                return not self.is_nullable(e[1]) and star_ok(e[1])
            if t in ('seq', 'alt'):
                return all(star_ok(x) for x in e[1])
            if t in ('q', 'and', 'not', 'cap'):
                return star_ok(e[1])
            return True
        edges = {i: first_refs(r) for i, r in enumerate(self.rules)}
        for i in range(self.n):
            seen = set()
            todo = list(edges[i])
            while todo:
                j = todo.pop()
                if j == i:
                    return False
                if j not in seen:
                    seen.add(j)
                    todo.extend(edges[j])
        return all(star_ok(r) for r in self.rules)


def enum_grammars(k):
    """All WF one-rule grammars with <= k operator nodes (self reference allowed when guarded)."""
    out = []
    memo = {}
    for kk in range(k + 1):
        for e in enum_exprs(kk, [0], memo):
            g = EnumG([e])
            if g.wf():
                out.append(g)
    return out
