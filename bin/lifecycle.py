"""Ties for C12 (reuse / Size / integer type), C13 (arbitrary byte strings, shipped grammars) and
C17 (bootstrap chain, regenerated front ends, shipped grammars across option sets)."""
import glob
import json
import os
import random
import re
import shutil
import subprocess

import gengram as GG
import peglib as L

SHIPPED = [
    ('peg', 'peg.peg', [], ['peg.peg', 'grammars/calculator/calculator.peg', 'grammars/fexl/fexl.peg']),
    ('calculator', 'grammars/calculator/calculator.peg', ['grammars/calculator/calculator.go'], None),
    ('calculatorast', 'grammars/calculatorast/calculator.peg', ['grammars/calculatorast/calculator.go'], None),
    ('c', 'grammars/c/c.peg', [], None),
    ('java', 'grammars/java/java_1_7.peg', [], ['grammars/java/example-1.java', 'grammars/java/example-2.java']),
    ('fexl', 'grammars/fexl/fexl.peg', [], ['grammars/fexl/doc/try.fxl']),
    ('long', 'grammars/longtest/long.peg', [], None),
]

SAMPLES = {
    'calculator': [b'1+2*3', b'( 1 - -3 ) / 3 + 2 * ( 3 + -4 ) + 3 % 2^2', b'2^3^2', b'', b'1+', b'(1', b'10 % 3 '],
    'calculatorast': [b'1+2*3', b'( 1 - -3 ) / 3 + 2 * ( 3 + -4 ) + 3 % 2^2', b'2^3^2', b'', b'1+', b'(1'],
    'c': [b'int main(void) { return 0; }\n', b'int x = 1;\n', b'struct s { int a; char *b; };\nint f(int a, int b) { if (a) return b; else return a + b; }\n',
          b'int main() {', b'', b'/* c */ typedef unsigned long u; u g(u x){ for(;;){ x++; if (x>3) break; } return x; }\n'],
    'long': [b'"' + b'a' * 50 + b'"', b'"abc"', b'', b'"'],
}


def byte_inputs(rng, base, n):
    """Arbitrary Go strings: empty, NUL, invalid UTF-8, non-BMP, max code point, long, mutations of samples."""
    out = [b'', b'\x00', b'\x00\x00a', b'\xff', b'\xc3', b'\xe6\xb1', b'\xf4\x90\x80\x80', b'\xed\xa0\x80', b'a\xffb',
           '\U0010FFFF'.encode(), '\U0001F600\U0010FFFFa'.encode(), 'é汉\n'.encode(), b'\xef\xbf\xbd', b'\r\n\t']
    pool = [b'a', b'b', b'c', b'\n', '汉'.encode(), b'\x00', b'\xff', '\U0010FFFF'.encode(), b' ', b'(', b')', b'"', b"'", b'{', b'}', b'<', b'-']
    for s in base:
        out.append(s)
        for _ in range(3):
            if not s:
                continue
            k = rng.randrange(len(s))
            r = rng.random()
            if r < 0.3:
                out.append(s[:k] + s[k + 1:])
            elif r < 0.6:
                out.append(s[:k] + rng.choice(pool) + s[k:])
            elif r < 0.8:
                out.append(s[:k])
            else:
                out.append(s[:k] + rng.choice(pool) + s[k + 1:])
    while len(out) < n:
        out.append(b''.join(rng.choice(pool) for _ in range(rng.randrange(1, 12))))
    seen = set()
    res = []
    for s in out:
        if s not in seen:
            seen.add(s)
            res.append(s)
    return res[:max(n, len(base) + 14)]


def tokens_in_range(obs, nrunes):
    for t in obs.get('toks') or []:
        if not (0 <= t[1] <= t[2] <= nrunes):
            return False
    m = obs.get('max')
    if m and not (0 <= m[1] <= m[2] <= nrunes):
        return False
    return True


# ---------------------------------------------------------------------------------------------
def c12(ctx):
    T = ctx.T()
    rng = random.Random('c12/%d' % ctx.seed)
    n = 40 if ctx.tier == 'quick' else 400
    gs = [GG.gen_grammar(ctx.seed, i, 'core') for i in range(n)]
    reqs = []
    for gi, g in enumerate(gs):
        for o in ['', 'n']:
            reqs.append({'id': 'h%d_%s' % (gi, o or 'd'), 'text': g.text(), 'opts': o, 'compile': True, 'src': True, 'tree': True, 'gi': gi})
    real = T.run_pegx_parallel(reqs)
    M = L.RunModule()
    for r, x in zip(reqs, real):
        if x.get('compiled'):
            M.add(r['id'], x['go'], 'n' not in r['opts'])
    bad = M.vet()
    good = set(M.build(exclude=bad))
    cases = []
    meta = {}
    mreq = {}
    for r, x in zip(reqs, real):
        if r['id'] not in good:
            continue
        g = gs[r['gi']]
        ins = g.inputs(nrand=10, nsample=12, short=False)
        if not ins:
            continue
        lst = []
        for h in range(3 if ctx.tier == 'quick' else 6):
            hist = [rng.choice(ins) for _ in range(6)]
            hist[1] = hist[0]                                  # repeated identical input
            hist[3] = hist[2][: max(0, len(hist[2]) // 2)]     # shrinking
            hist[4] = hist[3] + hist[2] + 'a'                  # growing
            hid = '%s|%d' % (r['id'], h)
            for u in (16, 32, 64, 0):
                for size in ((0, 1, 32768) if 'n' not in r['opts'] else (0,)):
                    k = '%s|u%d|s%d' % (hid, u, size)
                    cases.append({'pkg': r['id'], 'k': k, 'entry': 'R0', 'memo': True, 'u': u, 'size': size, 'hist': [L.b64(s) for s in hist]})
            for i, s in enumerate(hist):
                k = '%s|fresh%d' % (hid, i)
                cases.append({'pkg': r['id'], 'k': k, 'entry': 'R0', 'memo': True, 'u': 32, 'size': 0, 'b64': L.b64(s)})
                lst.append({'k': k, 'entry': 'R0', 'memo': True, 'bytes': L.bytes_of(s), 'spec': True})
            lst.append({'k': hid + '|mhist', 'entry': 'R0', 'memo': True, 'hist': [L.bytes_of(s) for s in hist]})
            meta[hid] = (r, hist)
        mreq[r['id']] = {'id': r['id'], 'tree': x['tree'], 'opts': r['opts'], 'cases': lst}
    robs = M.run(cases)
    mobs = {}
    for m in T.run_model('run', list(mreq.values())):
        for ob in m.get('obs', []):
            mobs[ob['k']] = ob
    nsteps = nfail_then_ok = nmodel_steps = 0
    for hid, (r, hist) in meta.items():
        ast = 'n' not in r['opts']
        fresh = [robs.get('%s|fresh%d' % (hid, i)) or {'v': 'missing'} for i in range(len(hist))]
        for i, f in enumerate(fresh):
            ob = mobs.get('%s|fresh%d' % (hid, i))
            if ob:
                d = L.obs_equal(f, ob['spec'], ast)
                if d and ob['spec'].get('v') != 'nofuel':
                    ctx.add('spec', 'T-run/fresh', 'fresh parser disagrees with the PEG semantics on %s' % d,
                            {'grammar': r['text'], 'opts': r['opts'], 'input': hist[i], 'real': f, 'spec': ob['spec']})
        for i in range(1, len(fresh)):
            if fresh[i - 1].get('v') == 'fail' and fresh[i].get('v') == 'ok':
                nfail_then_ok += 1
        # the Lean machine model run as ONE long-lived parser (St.reset between inputs, stale token buffer kept)
        mh = (mobs.get(hid + '|mhist') or {}).get('steps')
        if mh is None or len(mh) != len(hist):
            ctx.add('model', 'T-run/model-history', 'the model produced no history for %s' % hid, {'grammar': r['text'], 'opts': r['opts'], 'history': hist})
        else:
            for i, mo in enumerate(mh):
                nmodel_steps += 1
                d = L.obs_equal(fresh[i], mo, ast)
                if d:
                    ctx.add('model', 'T-run/model-history', 'step %d of the reused MODEL parser (St.reset) differs from the real fresh parser on %s; history %r' % (i, d, hist),
                            {'grammar': r['text'], 'opts': r['opts'], 'history': hist, 'step': i, 'fresh': fresh[i], 'model_reused': mo})
        for u in (16, 32, 64, 0):
            for size in ((0, 1, 32768) if ast else (0,)):
                o = robs.get('%s|u%d|s%d' % (hid, u, size)) or {}
                steps = o.get('steps') or []
                if o.get('v') != 'hist' or len(steps) != len(hist):
                    ctx.add('spec', 'T-run/history', 'long-lived parser run failed: %s' % json.dumps(o)[:300],
                            {'grammar': r['text'], 'opts': r['opts'], 'history': hist, 'u': u, 'size': size, 'obs': o})
                    continue
                for i, so in enumerate(steps):
                    nsteps += 1
                    d = L.obs_equal(fresh[i], so, ast)
                    if not d and (so.get('strace') or '') != (fresh[i].get('strace') or ''):
                        d = ['strace']
                    if d:
                        ctx.add('spec', 'T-run/history', 'step %d of a reused parser (U=uint%s, Size=%s) differs from a fresh parser on %s; history %r' % (
                            i, u or '', size or 'unset', d, hist),
                            {'grammar': r['text'], 'opts': r['opts'], 'history': hist, 'step': i, 'u': u, 'size': size, 'fresh': fresh[i], 'reused': so})
    ctx.coverage.update({
        'evaluations': nsteps, 'distinct_nontrivial': nfail_then_ok,
        'rule': 'random well-formed grammars (default and -noast); histories of 6 inputs on one instance (repeated, shrinking, growing, failing then succeeding) '
                'x U in {uint16,uint32,uint64,uint} x Size in {unset,1,32768}; every step compared with a fresh uint32 parser on that input alone '
                '(verdict, tokens, tree, AST walk, action and state-change traces, error token and message), and the fresh parser with the PEG semantics; '
                'the Lean machine model is run as one long-lived parser too (St.reset between inputs) and every step compared with the real fresh parser; '
                'non-trivial = histories containing a failing parse directly followed by a succeeding one',
        'samples': [{'history': h, 'grammar': r['text']} for (r, h) in list(meta.values())[:2]],
        'input_distribution': {'grammars': len(gs), 'histories': len(meta), 'steps': nsteps, 'fail_then_ok': nfail_then_ok, 'model_history_steps': nmodel_steps},
    })
    width_probe(ctx, T)
    L.cleanup()


def width_probe(ctx, T):
    """F-C12-1: the input fits uint16 but the number of token attempts does not."""
    text = 'package g\n\ntype P Peg {\n Trace string\n STrace string\n}\n\nR0 <- B* !.\nB <- C\nC <- D\nD <- .\n'
    x = T.run_pegx([{'id': 'w', 'text': text, 'opts': '', 'compile': True, 'src': True}])[0]
    M = L.RunModule()
    M.add('w', x['go'], True)
    M.build()
    inp = 'a' * 30000
    cases = [{'pkg': 'w', 'k': 'w|%d|%d' % (u, memo), 'entry': 'R0', 'memo': bool(memo), 'u': u, 'b64': L.b64(inp)} for u in (16, 32) for memo in (1, 0)]
    robs = M.run(cases)
    ref = robs['w|32|1']
    for u in (16,):
        for memo in (1, 0):
            o = robs['w|%d|%d' % (u, memo)]
            same = o.get('v') == ref.get('v') and len(o.get('toks') or []) == len(ref.get('toks') or [])
            if not same:
                ctx.add('spec', 'T-run/width', 'uint16 parser on a 30000-rune input (fits uint16) differs from uint32: verdict %s, %d tokens instead of %d (%s)' % (
                    o.get('v'), len(o.get('toks') or []), len(ref.get('toks') or []), (o.get('err') or '')[:80]),
                    {'grammar': text, 'input': 'a*30000', 'u': 16, 'memo': bool(memo), 'width_probe': True,
                     'got': {'v': o.get('v'), 'ntoks': len(o.get('toks') or []), 'err': (o.get('err') or '')[:200]},
                     'expected': {'v': ref.get('v'), 'ntoks': len(ref.get('toks') or [])}})
    ctx.coverage['width_probe'] = {k: {'v': v.get('v'), 'ntoks': len(v.get('toks') or [])} for k, v in robs.items()}


# ---------------------------------------------------------------------------------------------
def shipped_module(ctx, T, optsets):
    """Generate the shipped grammars under the given option sets into a run module."""
    M = L.RunModule()
    info = {}
    reqs = []
    for name, path, support, _ in SHIPPED:
        text = open(os.path.join(L.REPO, path)).read()
        for o in optsets:
            reqs.append({'id': '%s_%s' % (name, o or 'd'), 'text': text, 'opts': o, 'compile': True, 'src': True, 'strict': True, 'tree': True,
                         'name': name, 'support': support})
    real = T.run_pegx_parallel(reqs, timeout=300, jobs=min(L.NCPU, len(reqs)))
    for r, x in zip(reqs, real):
        if not x.get('compiled'):
            ctx.add('spec', 'shipped/generate', 'shipped grammar %s does not generate under -strict with options "%s": %s' % (
                r['name'], r['opts'], (x.get('compileError') or x.get('syntaxError') or x.get('panic') or str(x.get('timeout')))[:300]),
                {'grammar_file': r['name'], 'opts': r['opts']})
            continue
        src = x['go']
        m = re.search(r'^package (\w+)', src, re.M)
        M.add(r['id'], src, 'n' not in r['opts'], struct=x.get('structName') or 'P', probes=False,
              support=[os.path.join(L.REPO, f) for f in r['support']], execute=False)
        first = next((n for n in x['ir']['header']['ruleNames'] if n != 'Unknown'), None) if x.get('ir') else None
        info[r['id']] = {'name': r['name'], 'opts': r['opts'], 'tree': x.get('tree')}
    bad = M.vet()
    for k, v in bad.items():
        ctx.add('spec', 'shipped/go build', 'parser of shipped grammar %s (options "%s") does not compile: %s' % (info[k]['name'], info[k]['opts'], v[:300]),
                {'grammar_file': info[k]['name'], 'opts': info[k]['opts'], 'error': v[:1500]})
    good = set(M.build(exclude=bad))
    return M, info, good


def first_rule(tree):
    for n in tree or []:
        if n.get('t') == 'Rule':
            return n.get('s')
    return None


def shipped_inputs(rng, name, n):
    base = list(SAMPLES.get(name, []))
    for spec in SHIPPED:
        if spec[0] == name and spec[3]:
            for f in spec[3]:
                data = open(os.path.join(L.REPO, f), 'rb').read()
                base.append(data)
                base.append(data[:len(data) // 2])
                base.append(data[:200])
    return byte_inputs(rng, base, n)


class FixedG:
    """A hand-written grammar with its inputs, in the interface of gengram.G that c13 uses."""
    def __init__(self, text, inputs):
        self._text, self._inputs = text, inputs

    def text(self):
        return self._text

    def inputs(self, **kw):
        return list(self._inputs)


def c13(ctx):
    T = ctx.T()
    rng = random.Random('c13/%d' % ctx.seed)
    # generated grammars x byte-level inputs: real vs model (and spec)
    n = 30 if ctx.tier == 'quick' else 300
    gs = [GG.gen_grammar(ctx.seed, 1000 + i, 'core') for i in range(n)]
    # ranges and classes that reach the last code point (the end-of-input sentinel is the value just above it), NUL, and
    # negated classes — at the end of the input, under repetition
    hdr = 'package g\n\ntype P Peg {\n Trace string\n STrace string\n}\n\n'
    for body in ["R0 <- [\\0x80-\\0x10FFFF]+ !.", "R0 <- 'a' [\\0x00-\\0x10FFFF]* !.", "R0 <- ([\\0x10FFFE-\\0x10FFFF] / 'b')+", "R0 <- [^\\0x00-\\0x10FFFE]* 'c'?",
                 "R0 <- ('\\0x10FFFF' / [\\0x00-\\0x7f])* !.", "R0 <- <[\\0xe000-\\0x10FFFF]*> R1\nR1 <- [\\0x00-\\0xd7ff]*"]:
        gs.append(FixedG(hdr + body + '\n', ['', 'a', 'b', 'c', '\U0010ffff', 'a\U0010ffff', '\U0010ffff\U0010ffff', '\u00e9', 'a\x00', '\x00', '\u0085\U0010ffff',
                                              'b\U0010ffff\U0010ffffb', '\ue000', '\u6c49\ue000', 'abc', '\U0001f600\U0010ffff']))   # (runes of the quoting model's alphabet only)
    reqs = [{'id': 'b%d' % i, 'text': g.text(), 'opts': '', 'compile': True, 'src': True, 'tree': True} for i, g in enumerate(gs)]
    real = T.run_pegx_parallel(reqs)
    M = L.RunModule()
    for r, x in zip(reqs, real):
        if x.get('compiled'):
            M.add(r['id'], x['go'], True)
    bad = M.vet()
    good = set(M.build(exclude=bad))
    cases, mreq, inputs_of = [], {}, {}
    for gi, (r, x) in enumerate(zip(reqs, real)):
        if r['id'] not in good:
            continue
        g = gs[gi]
        base = [s.encode() for s in g.inputs(nrand=5, nsample=8, short=False)]
        ins = byte_inputs(rng, base, 40 if ctx.tier == 'quick' else 120)
        if gi % 10 == 0:
            ins.append((('ab' + '汉') * 30000).encode())          # long input
            ins.append(b'\xff' * 5000)
        inputs_of[r['id']] = ins
        warm = max(base, key=len) if base else b'abc'
        warm = warm + warm + b'abc\xe6\xb1\x89'
        lst = []
        for ii, s in enumerate(ins):
            k = '%s|%d' % (r['id'], ii)
            for memo in (True, False):
                cases.append({'pkg': r['id'], 'k': k + ('|m' if memo else '|n'), 'entry': 'R0', 'memo': memo, 'b64': L.b64(s)})
            # the same input as the SECOND use of a parser object that parsed a longer text before (stale offsets must not leak)
            if len(s) < 2000:
                cases.append({'pkg': r['id'], 'k': k + '|w', 'entry': 'R0', 'memo': True, 'b64': L.b64(s), 'warm': L.b64(warm)})
            if len(s) < 2000:
                lst.append({'k': k + '|m', 'entry': 'R0', 'memo': True, 'bytes': L.bytes_of(s), 'spec': True})
        mreq[r['id']] = {'id': r['id'], 'tree': x['tree'], 'opts': '', 'cases': lst}
    robs = M.run(cases, timeout=900)
    neval = npan = 0
    for k, o in robs.items():
        neval += 1
        rid, ii, _ = k.split('|')
        s = inputs_of[rid][int(ii)]
        nr = len(L.runes_of(s))
        if o.get('v') in ('panic', 'crash', 'missing'):
            npan += 1
            ctx.add('spec', 'T-run/bytes', 'generated parser crashed on input %r: %s' % (s[:60], (o.get('err') or '')[:200]),
                    {'grammar': reqs[int(rid[1:])]['text'], 'input_b64': L.b64(s), 'obs': o})
        elif not tokens_in_range(o, nr):
            ctx.add('spec', 'T-run/bytes', 'token offsets outside the rune sequence (%d runes) for input %r' % (nr, s[:60]),
                    {'grammar': reqs[int(rid[1:])]['text'], 'input_b64': L.b64(s), 'obs': o})
    nwarm = 0
    for k, o in robs.items():
        if k.endswith('|w'):
            nwarm += 1
            f = robs.get(k[:-2] + '|m') or {}
            d = L.obs_equal(f, o, True)
            if d:
                rid, ii, _ = k.split('|')
                ctx.add('spec', 'T-run/bytes-reuse', 'a reused parser (a longer text parsed before, then Buffer/Reset/Parse) differs from a fresh one on %s' % d,
                        {'grammar': reqs[int(rid[1:])]['text'], 'input_b64': L.b64(inputs_of[rid][int(ii)]), 'fresh': f, 'reused': o})
    for m in T.run_model('run', list(mreq.values())):
        for ob in m.get('obs', []):
            ro = robs.get(ob['k'])
            if ro is None:
                continue
            rid, ii, _ = ob['k'].split('|')
            for which in ('model', 'spec'):
                if which == 'spec' and ob['spec'].get('v') == 'nofuel':
                    continue
                d = L.obs_equal(ro, ob[which], True)
                if d:
                    ctx.add('spec' if which == 'spec' else 'model', 'T-run/bytes-' + which,
                            'real parser differs from the %s on %s for a byte-level input' % (which, d),
                            {'grammar': reqs[int(rid[1:])]['text'], 'input_b64': L.b64(inputs_of[rid][int(ii)]), 'real': ro, which: ob[which],
                             'model_agrees': which == 'spec' and not L.obs_equal(ro, ob['model'], True)})
    # shipped grammars: no panic, offsets in range, Error() works
    M2, info, good2 = shipped_module(ctx, T, ['', 'is'])
    cases2, in2 = [], {}
    for rid in sorted(good2):
        nm = info[rid]['name']
        ins = shipped_inputs(rng, nm, 30 if ctx.tier == 'quick' else 200)
        in2[rid] = ins
        entry = first_rule(info[rid]['tree'])
        for ii, s in enumerate(ins):
            cases2.append({'pkg': rid, 'k': '%s|%d' % (rid, ii), 'entry': entry, 'memo': True, 'b64': L.b64(s)})
    robs2 = M2.run(cases2, timeout=1800)
    nship = 0
    for k, o in robs2.items():
        nship += 1
        rid, ii = k.split('|')
        s = in2[rid][int(ii)]
        nr = len(L.runes_of(s))
        if o.get('v') in ('panic', 'crash', 'missing'):
            ctx.add('spec', 'shipped/bytes', 'parser of shipped grammar %s (options "%s") crashed: %s' % (info[rid]['name'], info[rid]['opts'], (o.get('err') or '')[:200]),
                    {'grammar_file': info[rid]['name'], 'opts': info[rid]['opts'], 'input_b64': L.b64(s), 'obs': {k2: v for k2, v in o.items() if k2 != 'toks'}})
        elif not tokens_in_range(o, nr):
            ctx.add('spec', 'shipped/bytes', 'token offsets outside the rune sequence for shipped grammar %s' % info[rid]['name'],
                    {'grammar_file': info[rid]['name'], 'opts': info[rid]['opts'], 'input_b64': L.b64(s)})
    # shipped grammars against the Lean model and the PEG semantics (they contain no predicates or state changes, so verdict,
    # tokens, tree and error are fully determined by the model; their actions are arbitrary Go, so no trace is compared)
    nmodel = 0
    mreq2 = []
    for rid in sorted(good2):
        lst = []
        for ii, s in enumerate(in2[rid]):
            if len(s) <= 1500 and len(lst) < (12 if ctx.tier == 'quick' else 60):
                lst.append({'k': '%s|%d' % (rid, ii), 'entry': first_rule(info[rid]['tree']), 'memo': True, 'bytes': L.bytes_of(s), 'spec': True})
        if lst:
            mreq2.append({'id': rid, 'tree': info[rid]['tree'], 'opts': info[rid]['opts'], 'cases': lst})
    for m in (T.run_model('run', mreq2, jobs=len(mreq2)) if mreq2 else []):
        if m.get('error'):
            ctx.add('model', 'shipped/model', 'the model could not run shipped grammar %s: %s' % (m.get('id'), m['error'][:200]), {'grammar_file': m.get('id')})
        for ob in m.get('obs', []):
            ro = robs2.get(ob['k'])
            if ro is None:
                continue
            nmodel += 1
            rid, ii = ob['k'].split('|')
            for which in ('model', 'spec'):
                if which == 'spec' and ob['spec'].get('v') == 'nofuel':
                    continue
                d = [f for f in L.obs_equal(ro, ob[which], True) if f != 'trace']
                if d:
                    ctx.add('spec' if which == 'spec' else 'model', 'shipped/' + which,
                            'parser of shipped grammar %s differs from the %s on %s' % (info[rid]['name'], which, d),
                            {'grammar_file': info[rid]['name'], 'input_b64': L.b64(in2[rid][int(ii)]),
                             'real': {k2: v for k2, v in ro.items() if k2 in ('v', 'max', 'err')}, which: {k2: v for k2, v in ob[which].items() if k2 in ('v', 'max', 'err')},
                             'model_agrees': which == 'spec' and not [f for f in L.obs_equal(ro, ob['model'], True) if f != 'trace']})
    ctx.coverage['shipped_vs_model_and_spec'] = nmodel
    ctx.coverage.update({
        'evaluations': neval + nship, 'distinct_nontrivial': sum(1 for o in robs.values() if o.get('v') == 'ok'),
        'rule': 'byte-level inputs (empty, NUL, invalid UTF-8 of every kind, surrogate encodings, non-BMP, U+10FFFF, 90000-rune and 5000-invalid-byte inputs, '
                'mutations of accepted samples) x generated grammars (memo on/off; real vs model vs spec, offsets checked against Go\'s []rune conversion) and x the shipped '
                'grammars peg, calculator, calculatorast, c, java, fexl, long under default and -inline -switch (no panic, offsets in range, Error() produced; inputs up to 1500 bytes also real vs Lean model vs PEG semantics: verdict, tokens, tree, error); every generated-grammar input also as the second use of a parser that parsed a longer text before; '
                'non-trivial = accepted inputs',
        'samples': [{'input_b64': L.b64(s)} for s in byte_inputs(rng, [], 16)[:4]],
        'input_distribution': {'generated_grammars': len(good), 'generated_cases': neval, 'shipped_parsers': len(good2), 'shipped_cases': nship, 'panics': npan},
    })
    L.cleanup()


# ---------------------------------------------------------------------------------------------
def c17(ctx):
    T = ctx.T()
    rng = random.Random('c17/%d' % ctx.seed)
    # (1) the six-stage bootstrap chain in a scratch copy reproduces peg.peg.go byte for byte
    d = L.scratch('boot-')
    cp = os.path.join(d, 'repo')
    shutil.copytree(L.REPO, cp, ignore=shutil.ignore_patterns('.git'))
    want = open(os.path.join(L.REPO, 'peg.peg.go'), 'rb').read()
    p = subprocess.run(['bash', 'bootstrap.bash'], cwd=cp, env=L.GOENV, capture_output=True, text=True, timeout=1800)
    got = open(os.path.join(cp, 'peg.peg.go'), 'rb').read() if os.path.exists(os.path.join(cp, 'peg.peg.go')) else b''
    if p.returncode != 0 or got != want:
        ctx.add('spec', 'bootstrap', 'bootstrap chain does not reproduce peg.peg.go (rc=%d, %d vs %d bytes): %s' % (p.returncode, len(got), len(want), (p.stderr or '')[-300:]),
                {'stderr': (p.stderr or '')[-3000:], 'same': got == want})
    ctx.coverage['bootstrap_chain'] = {'rc': p.returncode, 'byte_identical': got == want, 'bytes': len(want)}
    shutil.rmtree(d, ignore_errors=True)
    # (2) front ends regenerated from peg.peg under every option set build the same tree and emit the same code
    texts = []
    for f in ['peg.peg'] + sorted(glob.glob(os.path.join(L.REPO, 'grammars', '*', '*.peg'))):
        texts.append(open(os.path.join(L.REPO, f) if not os.path.isabs(f) else f).read())
    n = 60 if ctx.tier == 'quick' else 600
    for i in range(n):
        texts.append(GG.gen_grammar(ctx.seed, 5000 + i, 'core' if i % 2 else 'switch').text())
    mutated = []
    pool = ['a', '(', ')', '/', '<', '>', '{', '}', '[', ']', "'", '"', '\n', ' ', '\\', '*', '!', '&', '.', '-', '#']
    for t in texts[:40]:
        for _ in range(3):
            k = rng.randrange(max(1, len(t)))
            mutated.append(t[:k] + rng.choice(pool) + t[k + (rng.random() < 0.5):])
    # the END of the text: no trailing line break, a stray last character, truncation at every one of the last positions
    # (a front end that stops short of the end of input accepts these; one that does not, rejects them)
    for t in [texts[0]] + texts[-n:][:6 if ctx.tier == 'quick' else 40]:
        base = t.rstrip('\n')
        for ch in pool:
            mutated.append(base + ch)
            mutated.append(base + '\n' + ch)
        for k in range(1, 31 if len(base) > 40 else max(2, len(base) // 2)):
            mutated.append(base[:-k])
    texts += mutated
    ref = T.run_pegx_parallel([{'id': 't%d' % i, 'text': t, 'opts': 'is', 'tree': True, 'compile': True, 'src': True} for i, t in enumerate(texts)], timeout=300)
    refsig = [sig(x) for x in ref]
    pegpeg = open(os.path.join(L.REPO, 'peg.peg')).read()
    nfe = 0
    for o in L.OPTSETS:
        if 'n' in o:
            continue        # a front end needs Execute(): -noast front ends cannot drive the builder through tokens
        fe = build_frontend(ctx, T, pegpeg, o)
        if fe is None:
            continue
        nfe += 1
        data = ''.join(json.dumps({'id': 't%d' % i, 'text': t, 'opts': 'is', 'tree': True, 'compile': True, 'src': True}) + '\n' for i, t in enumerate(texts))
        pr = subprocess.run([fe, '-timeout', '300s'], input=data, capture_output=True, text=True, env=dict(L.GOENV, GOMEMLIMIT='3GiB'))
        outs = {}
        for l in pr.stdout.splitlines():
            try:
                x = json.loads(l)
                outs[x['id']] = x
            except ValueError:
                pass
        for i, t in enumerate(texts):
            x = outs.get('t%d' % i)
            if x is None or sig(x) != refsig[i]:
                ctx.add('spec', 'frontends/%s' % (o or 'default'), 'front end regenerated with options "%s" differs from the checked-in one on a grammar text (%s)' % (
                    o, 'no answer' if x is None else diffsig(sig(x), refsig[i])), {'text': t, 'opts': o})
                break
    ctx.coverage['regenerated_front_ends'] = {'option_sets': nfe, 'texts': len(texts), 'mutated': len(mutated)}
    # (3) shipped grammars generate under -strict and agree across option sets
    M, info, good = shipped_module(ctx, T, ['', 'i', 's', 'is'])
    cases, ins_of = [], {}
    for rid in sorted(good):
        nm = info[rid]['name']
        if nm not in ins_of:
            ins_of[nm] = shipped_inputs(random.Random('c17in/%s/%d' % (nm, ctx.seed)), nm, 25 if ctx.tier == 'quick' else 200)
        entry = first_rule(info[rid]['tree'])
        for ii, s in enumerate(ins_of[nm]):
            cases.append({'pkg': rid, 'k': '%s|%d' % (rid, ii), 'entry': entry, 'memo': True, 'b64': L.b64(s)})
    robs = M.run(cases, timeout=1800)
    ncmp = 0
    for nm in ins_of:
        base = '%s_d' % nm
        if base not in good:
            continue
        for ii, s in enumerate(ins_of[nm]):
            rb = robs.get('%s|%d' % (base, ii))
            for o in ('i', 's', 'is'):
                rid = '%s_%s' % (nm, o)
                if rid not in good or rb is None:
                    continue
                ro = robs.get('%s|%d' % (rid, ii))
                ncmp += 1
                dd = L.obs_equal(rb, ro or {'v': 'missing'}, True)
                dd = [x for x in dd if x in ('v', 'toks', 'tree', 'ast')]
                if dd:
                    ctx.add('spec', 'shipped/options', 'shipped grammar %s: options "%s" differ from default on %s for an input of %d bytes' % (nm, o, dd, len(s)),
                            {'grammar_file': nm, 'opts': o, 'input_b64': L.b64(s)[:4000], 'fields': dd,
                             'default': {'v': rb.get('v'), 'ntoks': len(rb.get('toks') or [])}, 'other': {'v': (ro or {}).get('v'), 'ntoks': len((ro or {}).get('toks') or [])}})
    ctx.coverage.update({
        'evaluations': len(texts) * (nfe + 1) + ncmp, 'distinct_nontrivial': ncmp,
        'rule': 'bootstrap.bash run in a scratch copy and its peg.peg.go compared byte for byte; front ends regenerated from peg.peg with the current generator under '
                'the four AST option sets, each fed shipped + generated + mutated grammar texts and compared with the checked-in front end on (syntax verdict, tree dump, '
                'warnings, emitted code); shipped grammars generated under -strict with four option sets, their parsers compared on sample inputs and mutations',
        'samples': [t[:300] for t in mutated[:2]],
    })
    L.cleanup()


def sig(x):
    return json.dumps([bool(x.get('syntaxError')), bool(x.get('panic')), x.get('tree'), x.get('warnings'), x.get('compileError'), x.get('go')], sort_keys=True)


def diffsig(a, b):
    a, b = json.loads(a), json.loads(b)
    names = ['syntaxError', 'panic', 'tree', 'warnings', 'compileError', 'go']
    return 'differs in ' + ','.join(n for n, x, y in zip(names, a, b) if x != y)


def build_frontend(ctx, T, pegpeg, opts):
    """A pegx whose front end is regenerated from peg.peg under the given options."""
    x = T.run_pegx([{'id': 'fe', 'text': pegpeg, 'opts': opts, 'compile': True, 'src': True, 'strict': True, 'args': ['peg'], 'file': 'peg.peg.go'}], timeout=300)[0]
    if not x.get('compiled'):
        ctx.add('spec', 'frontends/generate', 'peg.peg does not generate under -strict with options "%s": %s' % (opts, (x.get('compileError') or '')[:300]), {'opts': opts})
        return None
    d = L.scratch('fe-')
    with open(os.path.join(d, 'peg.peg.go'), 'w') as fh:
        fh.write(x['go'])
    for f in ('dump', 'irx', 'pegx', 'casex'):
        shutil.copy(os.path.join(L.VERIF, 'harness', 'pegx', f + '.go.txt'), os.path.join(d, f + '.go'))
    with open(os.path.join(d, 'go.mod'), 'w') as fh:
        fh.write('module pegx\ngo 1.25\nrequire github.com/pointlander/peg v0.0.0\nreplace github.com/pointlander/peg => %s\n' % L.REPO)
    out = os.path.join(d, 'pegx')
    p = L.sh(['go', 'build', '-o', out, '.'], cwd=d, check=False)
    if p.returncode != 0:
        ctx.add('spec', 'frontends/build', 'front end regenerated with options "%s" does not compile: %s' % (opts, p.stderr[:400]), {'opts': opts})
        return None
    return out
