#!/usr/bin/env python3
"""Regenerates /verif/MANIFEST.json from the table below (kept next to the checks so the two cannot drift)."""
import json, os, sys
sys.path.insert(0, os.path.dirname(os.path.abspath(__file__)))
import props as P

V = os.path.dirname(os.path.dirname(os.path.abspath(__file__)))

TEXT = {
 'C01': ('Lean theorems about the PEG semantics (determinism, soundness of the reference interpreter) and — as they are completed — the refinement theorem R (compile correctness of the default emission); tied to /repo by T-emit (whole emitted programs equal the model generator\'s IR) and T-run (compiled parsers vs model vs spec on every rule as entry).',
         'Lean model of Compile/runtime tied by differential execution; Go statement semantics, go/parser, go/printer trusted.'),
 'C02': ('-inline: same theorems and ties as C01 on the -inline emission, plus real-vs-real comparison with the default parser of the same grammar. -switch: tie pending the optimiser model.',
         'as C01'),
 'C03': ('token stream = post-order of the derivation forest: spec-level theorems + T-run comparison of Tokens() with postorder of the evalF forest (rune offsets, multi-byte inputs).', 'as C01'),
 'C04': ('Execute() = left-to-right action trace with the last completed capture: proved for all forests (C04Exec) over the token list; tied by T-run probe-action traces.', 'as C01; user action code is modelled as opaque trace events'),
 'C05': ('AST()/printers = pruned derivation tree: proved for all well-nested forests (C05Ast), incl. equal spans and zero-width tokens; tied by T-run (SprintSyntaxTree, up/next walk).', 'as C01; strconv.Quote is a parameter of the model (compared as strings in the tie)'),
 'C06': ('memoisation invisible: every case run with memo on and off (real vs real, vs model with the memo table, vs spec).', 'as C01'),
 'C07': ('-noast: verdict equal to the default parser and to the spec; inline-action trace equal to the spec\'s reach-order trace with last capture.', 'as C01'),
 'C11': ('error token = first furthest non-empty attempted token (tie vs spec fold over attempted tokens); translatePositions/Error() proved equal to the 1-based line/column specification for all buffers and offsets (C11Err), no panic; tied by T-err on the current template text.', 'as C01'),
}

def main():
    checks = []
    for pid in sorted(P.PROPS):
        text, note = TEXT.get(pid, ('', ''))
        checks.append({
            'property_id': pid,
            'quick_cmd': 'bin/check %s --tier quick' % pid,
            'thorough_cmd': 'bin/check %s --tier thorough' % pid,
            'evidence_file': 'evidence/%s.json' % pid,
            'replay_cmd_template': 'bin/check %s --replay {path}' % pid,
            'engine': 'pegverif',
            'level_claimed': {'category': 'proof', 'text': text, 'design_ref': 'DESIGN.md §5 ' + pid},
            'level_note': note,
            'technique': 'Lean 4 theorems over a model of generator and runtime + differential correspondence (T-emit, T-run) against /repo',
        })
    props = [json.loads(l)['id'] for l in open(os.path.join(V, 'properties.jsonl'))]
    na = [{'property_id': p, 'reason': 'check under construction in this session (model and tie not merged yet); not a claim that the technique cannot apply'}
          for p in props if p not in P.PROPS]
    m = {
        'version': 1,
        'setup_cmd': 'cd lean && lake build pegmodel PegVerif && cd .. && python3 bin/setup.py',
        'hooks': {'guard': 'verif', 'enable': 'no hooks are needed: every observation point is reachable from files placed inside the generated package, exported tree methods, or the built binary',
                  'baseline_off_cmd': "cd /repo && GOFLAGS=-mod=mod go test -vet=off -count=1 . ./set", 'source_commits': [], 'add_only': True},
        'engines': [{'name': 'pegverif', 'path': 'bin/check', 'serves_properties': sorted(P.PROPS),
                     'kind_free_text': 'Lean 4 model + theorems (lean/), tied to /repo by regenerated facts and differential execution (bin/, harness/)'}],
        'checks': checks,
        'not_applicable': na,
        'notes': 'See DESIGN.md. fix: commits made in /repo are listed in known_findings.json with status fixed.',
    }
    with open(os.path.join(V, 'MANIFEST.json'), 'w') as fh:
        json.dump(m, fh, indent=1)
        fh.write('\n')

main()
