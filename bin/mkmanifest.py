#!/usr/bin/env python3
"""Regenerates /verif/MANIFEST.json from the table below (kept next to the checks so the two cannot drift)."""
import json, os, sys
sys.path.insert(0, os.path.dirname(os.path.abspath(__file__)))
import props as P

V = os.path.dirname(os.path.dirname(os.path.abspath(__file__)))

TEXT = {
 'C01': ('refinement theorem R (compile correctness of the emission, by induction on PEG derivations, memo table included) and its closure C01_generated_parser: for every linked grammar passing decidable checks, every rule as entry and every input, each run of the function the model generator emits returns true exactly when the PEG semantics matches a prefix and stops at its end, never panics; plus determinism of the semantics and soundness of the reference interpreter; tied to /repo by T-emit (whole emitted programs equal the model generator\'s IR) and T-run (compiled parsers vs model vs spec on every rule as entry).',
         'Lean model of Compile/runtime tied by differential execution; Go statement semantics, go/parser, go/printer trusted.'),
 'C02': ('-inline: Eval_expandG_iff + R on the inlined program: C02_inline_same_as_default (same verdict, end, tokens, error token as the default parser). -switch: the rewrite is unsound on some grammars (it was unsound on the pinned code — repaired in /repo by four fix: commits found with these theorems), so it is decided by translation validation: a sound first-set analysis (firstE_sound), the decidable check switchSafe (valid rearrangement of every rewritten choice + parentDetect elisions justified by the case keys), and C02_switch_same_as_default: whenever switchSafe holds, the -switch parser and the default parser return the same verdict, prefix and token sequence on every input from every post-Reset state and never panic; the driver evaluates switchSafe on every -switch program of the sweeps, and a program on which the hypothesis fails is reported. Ties: T-emit (the Lean transcription of optimizeAlternates + compile equals the real emission on every program, all option sets), T-run real vs model vs spec incl. the exhaustive skeleton enumeration of 3-way choices, real vs real against the default parser.',
         'as C01; -inline -switch: C02_inline_switch_same_as_default under inlineSwitchSafe; the per-option hypothesis is evaluated on every -switch program of the sweeps and a program on which it fails is reported as a broken obligation'),
 'C03': ('token stream = post-order of the derivation forest: spec-level theorems + T-run comparison of Tokens() with postorder of the evalF forest (rune offsets, multi-byte inputs).', 'as C01'),
 'C04': ('Execute() = left-to-right action trace with the last completed capture: proved for all forests (C04Exec) over the token list; tied by T-run probe-action traces.', 'as C01; user action code is modelled as opaque trace events'),
 'C05': ('AST()/printers = pruned derivation tree: proved for all well-nested forests (C05Ast), incl. equal spans and zero-width tokens; tied by T-run (SprintSyntaxTree, up/next walk).', 'as C01; strconv.Quote is a parameter of the model (compared as strings in the tie)'),
 'C06': ('R is proved with the memo table present (invariant MemoOK + absorption lemma): C06_memo_invisible — the same emitted parser with memoisation and with DisableMemoize returns the same verdict, position, tokens and error token; C06_replay_exact — a hit restores exactly what a re-run would; tie: every case run with memo on and off (real vs real, vs model with the memo table, vs spec).', 'as C01'),
 'C07': ('RN_all / RNS_all: the refinement induction for parsers without AST (verdict, position, inline-action trace = reach-order trace of the attempted tokens with the last completed capture, maxToken over non-capture tokens), generalised over the parentDetect flags and covering switch nodes and rules compiled in place: C07_generated_parser (-noast), C07_inline_generated_parser (-inline -noast), C07_switch_generated_parser (-noast -switch), C07_inline_switch_generated_parser (-inline -noast -switch), each with verdict and end equal to the PEG semantics of the original grammar and to the default parser (…_same_language_as_default) under a decidable side condition that the driver evaluates on every program of the sweeps; ties: T-emit on all four -noast option sets, T-run verdict vs spec and vs the default parser, inline-action trace vs the reach-order spec (of the rewritten grammar under -switch).', 'as C01; grammars with state-change statements are outside the -noast theorems (tie only)'),
 'C08': ('hygiene theorems about the emission (labels unique per function, dry and real pass number labels identically and print the same jumps with -switch nodes too: C08_dry_real_same_jumps_switch, C08_switch_labels_unique) + the implementation-side validity oracle on every emitted file of both sweeps (go/parser inside peg, go build = parse + type-check, gofmt idempotence) under all eight option sets, plus streams the generator cannot produce (300/1200(+) rules, imports incl. alias/grouped/duplicate of a runtime import, header comments, control and non-ASCII literals, comments and braces inside actions, the rule-count boundaries of the rule-constant type, a reversed range under -switch).',
         'Go type checker, go/parser, go/printer and gofmt are oracles of the tie, not modelled; no mechanised Go semantics is available offline.'),
 'C09': ('logic core proved for all schedules (Bernstein: threads with disjoint read/write footprints give a schedule-independent final state; no conflicting access), instantiated by kernel-decided disjointness of the footprints of the two analysis goroutines, which a go/ast+go/types translator re-extracts from tree/peg.go on every run (also: no map iteration, no package-level writes, no unknown constructs); dynamic validation with the race detector: concurrent Compiles, GOMAXPROCS 1/2/16, byte-identical outputs and warnings across repetitions and processes.',
         'Go memory model (DRF => SC) and WaitGroup ordering assumed; extractor soundness assumed and validated by -race runs; determinism of the sequential rest of Compile is the Lean model of Compile tied by T-emit.'),
 'C12': ('C12_reset_like_fresh / C12_history_irrelevant: R holds from any post-Reset state (arbitrary stale token buffer), so a reused parser is indistinguishable from a fresh one; tie: histories on one instance x U in {uint16,uint32,uint64,uint} x Size in {unset,1,32768} against fresh parsers, the Lean machine model run as one long-lived parser (St.reset threaded) against the real steps, every third T-run case of the core sweep as a second use of its parser, plus the uint16 width probe (former finding F-C12-1, fixed).',
         'integers are unbounded in the model (width is the known finding); slice capacity/growth invisible in the model (covered by the tie).'),
 'C13': ('C13_no_panic / C13_token_slices from R: no run ends in the panic outcome and all offsets are inside the rune sequence; C13_every_buffer_is_admissible: the Lean model of Go\'s []rune(string) decoding never yields the end symbol for ANY byte string (so R applies to every Buffer) and is no longer than the byte string; tie: byte-level inputs (invalid UTF-8, NUL, non-BMP, U+10FFFF, 90000 runes) on generated grammars (real vs model vs spec) extreme ranges reaching U+10FFFF, every input also as the second use of a parser that parsed a longer text; and on the shipped grammars peg, calculator, C, Java, fexl (default and -inline -switch): no panic, offsets in range, and — they contain no predicates — real vs Lean model vs PEG semantics on verdict, tokens, tree and error.',
         'as C01; the actions of the shipped grammars are arbitrary Go, so no action trace is compared for them.'),
 'C14': ('product non-interference proved for all schedules and any number of instances (a step of instance i touches only component i), instantiated by kernel-decided facts re-extracted from generated code on every run (only package-level variable is the rul3s name table, never written; no goroutines); dynamic validation: 32 concurrent instances under the race detector equal sequential results.',
         'as C09; callers are assumed not to share receivers or user fields between instances.'),
 'C16': ('Lean model of set.go transcribed case by case (sentinels, seven-way insertion); for every sequence of in-domain insertions: invariant, Has/Len/Copy/Union/Intersects/Complement/Equal/String equal the set-of-integers meaning, no panic; tie: exhaustive small sequences + random long ones, structural dumps and all query results compared with the real package, operands checked for mutation.',
         'domain: 0 <= begin <= end < 2^31-1 (code points); aliasing is outside the value model (checked by the tie).'),
 'C17': ('C17_frontends_agree: any two emitted programs for peg.peg satisfying World agree on verdict and token list (instance of R), hence build the same tree; executed part: bootstrap.bash in a scratch copy reproduces peg.peg.go byte for byte, front ends regenerated under the four AST option sets agree with the checked-in one on shipped, generated and mutated texts (tree, warnings, emitted code), shipped grammars generate under -strict and their parsers agree across option sets on samples and mutations.',
         'the byte-for-byte comparison is a finite computation that is executed, not proved; -noast front ends are not considered (a front end needs Execute).'),
 'C18': ('CLI model transcribed from main.go over a finite scenario table (18432 rows); exit 0 => complete parser at the requested destination, errors => non-zero + message, flags irrelevant, all by kernel decision over the whole table; tie: every abstract scenario realised by >= 3 concrete runs of the built binary (permission faults via unprivileged uid, /dev/full, injected close errors).',
         'OS behaviour enters as abstract scenario classes; their concrete realisation is part of the tie.'),
 'C10': ('model front end = PEG semantics (evalF, proved sound) of the grammar peg.peg itself — regenerated into Lean from /repo/peg.peg on every run — composed with a Lean transcription of the tree builder; theorems re-checked by the kernel against the regenerated grammar: complete escape table (474 spellings), representative evaluations of every construct, precedence chain, and universal builder lemmas (list flattening, a balanced call sequence completes and an unbalanced one panics, hex/octal decoding for all digit strings, case folding of every rune: AddCaseFold on any node, rule DoubleChar on every raw character and on every escape spelling; model soundness w.r.t. Eval); Go\'s unicode.ToLower/ToUpper transcribed over unicode.CaseRanges regenerated from the linked library; tie T-front: every spelling variant of generated abstract grammars REAL vs denote (spec) vs model (cased, title case and uncased characters, ASCII and beyond, raw and escaped, in every case-insensitive position), strings.ToLower/ToUpper of every code point real vs model, plus a malformed stream (reject or agree with the model, never panic).',
         'the universal round trip frontEnd(render a sp) = denote a is tested, not proved; documentation deviations were recorded as known findings F-C10-* (all fixed).'),
 'C15': ('Lean transcription of checkRecursion/countRules/link diagnostics and an independent specification (Reachable, Undefined, LeftRec via first references and must-consume); for all grammars: duplicate diagnosed iff names repeat, "defined but not used" iff unreachable, "used but not defined" iff undefined (also the name PegText), left recursion reported iff some rule is left-recursive (LeftRec ⊆ warned ⊆ LeftRecW per rule), -strict fails iff any diagnostic; tie T-diag: ordered warning lines, strict failure and duplicate error of the real generator vs model, warned name sets vs an independent evaluation of the spec, on families + random + exhaustive small grammars.',
         'must-consume is the code\'s conservative syntactic notion (hence "possible" left recursion); rule names colliding with generated names (Action<k>, PegText) are outside the property.'),
 'C11': ('error token = first furthest non-empty attempted token (tie vs spec fold over attempted tokens); translatePositions/Error() proved equal to the 1-based line/column specification for all buffers and offsets (C11Err), no panic; tied by T-err on the current template text.', 'as C01'),
}

def main():
    checks = []
    for pid in sorted(P.PROPS):
        text, note = TEXT.get(pid, ('', ''))
        checks.append({
            'property_id': pid,
            'quick_cmd': 'bin/check %s --tier quick' % pid,
            'thorough_cmd': 'bin/check %s --tier thorough' % pid,
            'evidence_file': 'evidence/%s.json' % pid,
            'replay_cmd_template': 'bin/check %s --replay {path}' % pid,
            'engine': 'pegverif',
            'level_claimed': {'category': 'proof', 'text': text, 'design_ref': 'DESIGN.md §5 ' + pid},
            'level_note': note,
            'technique': 'Lean 4 theorems over a model of generator and runtime + differential correspondence (T-emit, T-run) against /repo',
        })
    props = [json.loads(l)['id'] for l in open(os.path.join(V, 'properties.jsonl'))]
    na = [{'property_id': p, 'reason': 'check under construction in this session (model and tie not merged yet); not a claim that the technique cannot apply'}
          for p in props if p not in P.PROPS]
    m = {
        'version': 1,
        'setup_cmd': 'cd lean && lake build pegmodel PegVerif && cd .. && python3 bin/setup.py',
        'hooks': {'guard': 'verif', 'enable': 'no hooks are needed: every observation point is reachable from files placed inside the generated package, exported tree methods, or the built binary',
                  'baseline_off_cmd': "cd /repo && GOFLAGS=-mod=mod go test -vet=off -count=1 . ./set", 'source_commits': [], 'add_only': True},
        'engines': [{'name': 'pegverif', 'path': 'bin/check', 'serves_properties': sorted(P.PROPS),
                     'kind_free_text': 'Lean 4 model + theorems (lean/), tied to /repo by regenerated facts and differential execution (bin/, harness/)'}],
        'checks': checks,
        'not_applicable': na,
        'notes': 'See DESIGN.md. fix: commits made in /repo are listed in known_findings.json with status fixed.',
    }
    with open(os.path.join(V, 'MANIFEST.json'), 'w') as fh:
        json.dump(m, fh, indent=1)
        fh.write('\n')

main()
