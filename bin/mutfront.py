#!/usr/bin/env python3
"""Mutation run for T-front: does the tie have teeth?  Works on a scratch copy <root>/repo_mut of the
repository (created from PEG_REPO or /repo, removed afterwards); the repository itself is never touched.

    mutfront.py a b b2 c d e
  a   peg.peg: the `\\t` escape action becomes p.AddCharacter("\v")
  b   peg.peg: swap the hex and the 3-digit octal alternatives of Escape (EQUIVALENT mutant: disjoint)
  b2  peg.peg: the 1-2 digit octal alternative in front of hex and 3-digit octal
  c   tree/peg.go: AddDoubleCharacter pushes Upper before Lower
  d   peg.peg: prefix operators bind tighter than suffix operators (!a* = (!a)*)
  e   tree/peg.go: AddOctalCharacter parses with bitSize 8
  f   tree/peg.go: AddCaseFold forgets the title case form (ǅ no longer matches itself)
  g   peg.peg: DoubleChar folds raw ASCII letters only again (the old defect F-C10-1)
For peg.peg mutations peg.peg.go is regenerated inside the copy with the copy's own peg binary.
Reports per mutation: REAL-vs-SPEC / REAL-vs-MODEL mismatch counts of `tfront.py --tier quick` and
the theorems of Props/C10*.lean that fail after regenerating PegGrammar.lean from the mutated peg.peg.
Afterwards PegGrammar.lean is regenerated from the unmutated repository."""
import shutil
import json
import os
import re
import subprocess
import sys
import time

ROOT = os.path.dirname(os.path.dirname(os.path.abspath(__file__)))
SRC = os.environ.get('PEG_REPO', '/repo')
MUT = ROOT + '/repo_mut'
ENV = dict(os.environ, GOFLAGS='-mod=mod', GOPROXY='off', PEG_REPO=MUT)
ENV.pop('GOTOOLCHAIN', None)
ENV.pop('GOSUMDB', None)


def sh(cmd, cwd=None, check=True, env=ENV, timeout=3000):
    p = subprocess.run(cmd, cwd=cwd, env=env, capture_output=True, text=True, timeout=timeout)
    if check and p.returncode != 0:
        raise RuntimeError('%s failed:\n%s\n%s' % (cmd, p.stdout[-3000:], p.stderr[-3000:]))
    return p


def restore():
    sh(['git', 'checkout', '--', '.'], cwd=MUT)
    assert sh(['git', 'status', '--short'], cwd=MUT).stdout.strip() == ''


def edit(path, old, new, count=1):
    p = os.path.join(MUT, path)
    s = open(p).read()
    assert s.count(old) == count, (path, old, s.count(old))
    open(p, 'w').write(s.replace(old, new))


def regen_parser():
    sh(['go', 'build', '-o', ROOT + '/peg_mut', '.'], cwd=MUT)
    sh([ROOT + '/peg_mut', '-inline', '-switch', 'peg.peg'], cwd=MUT)


def m_a():
    edit('peg.peg', '''/ "\\\\t"                      { p.AddCharacter("\\t") }   # ht''',
         '''/ "\\\\t"                      { p.AddCharacter("\\v") }   # ht''')
    regen_parser()


HEX = '''                 / '\\\\' "0x"<[0-9a-fA-F]+>     { p.AddHexaCharacter(text) }\n'''
OCT3 = '''                 / '\\\\' <[0-3][0-7][0-7]>     { p.AddOctalCharacter(text) }\n'''
OCT12 = '''                 / '\\\\' <[0-7][0-7]?>         { p.AddOctalCharacter(text) }\n'''


def m_b():
    edit('peg.peg', HEX + OCT3, OCT3 + HEX)
    regen_parser()


def m_b2():
    edit('peg.peg', HEX + OCT3 + OCT12, OCT12 + OCT3 + HEX)
    regen_parser()


def m_c():
    edit('tree/peg.go', '''	t.PushFront(&node{Type: TypeCharacter, string: strings.ToLower(text)})
	t.PushFront(&node{Type: TypeCharacter, string: strings.ToUpper(text)})
	t.AddAlternate()''', '''	t.PushFront(&node{Type: TypeCharacter, string: strings.ToUpper(text)})
	t.PushFront(&node{Type: TypeCharacter, string: strings.ToLower(text)})
	t.AddAlternate()''')


def m_d():
    # prefix operators bind tighter than suffix operators: !a* becomes (!a)*
    edit('peg.peg', 'Sequence	<- Prefix (Prefix		{ p.AddSequence() }', 'Sequence	<- Suffix (Suffix		{ p.AddSequence() }')
    edit('peg.peg', '		 / And Suffix			{ p.AddPeekFor() }\n		 / Not Suffix			{ p.AddPeekNot() }\n		 /     Suffix\n',
         '		 / And Primary			{ p.AddPeekFor() }\n		 / Not Primary			{ p.AddPeekNot() }\n		 /     Primary\n')
    edit('peg.peg', 'Suffix          <- Primary (Question', 'Suffix          <- Prefix (Question')
    regen_parser()


def m_e():
    # tree/peg.go: AddOctalCharacter parses with bitSize 8 again (the old bug)
    edit('tree/peg.go', 'octal, _ := strconv.ParseInt(text, 8, 32)', 'octal, _ := strconv.ParseInt(text, 8, 8)')


def m_f():
    edit('tree/peg.go', 'if text != lower && text != upper {', 'if false && text != lower && text != upper {')


def m_g():
    edit('peg.peg', "DoubleChar\t<- Char                       { p.AddCaseFold() }\n",
         "DoubleChar\t<- Escape\n\t\t / <[a-zA-Z]>                 { p.AddDoubleCharacter(text) }\n"
         "                 / !'\\\\' <.>                  { p.AddCharacter(text) }\n")
    regen_parser()


MUTS = {'a': m_a, 'b': m_b, 'b2': m_b2, 'c': m_c, 'd': m_d, 'e': m_e, 'f': m_f, 'g': m_g}


def run(name):
    restore()
    MUTS[name]()
    diff = sh(['git', 'diff', '--stat'], cwd=MUT).stdout.strip().splitlines()[-1:]
    out = {'mutation': name, 'diff': diff}
    t0 = time.time()
    p = sh([sys.executable, ROOT + '/bin/tfront.py', '--tier', 'quick', '--seed', '1', '--json', ROOT + '/out/mut_%s.json' % name],
           check=False)
    out['tfront_rc'] = p.returncode
    try:
        d = json.load(open(ROOT + '/out/mut_%s.json' % name))
        kinds = {}
        for m in d['mismatch_list']:
            kinds[m['kind']] = kinds.get(m['kind'], 0) + 1
        out['mismatch_kinds'] = kinds
        out['example'] = [(m['id'], m['kind'], m['detail'][:160]) for m in d['mismatch_list'][:2]]
        out['findings'] = d['findings']
    except Exception as e:      # noqa
        out['tfront_error'] = (p.stdout[-1500:] + p.stderr[-1500:])
    out['tfront_s'] = round(time.time() - t0, 1)
    t0 = time.time()
    p = sh(['lake', 'build', 'PegVerif.Props.C10'], cwd=ROOT + '/lean', check=False, env=dict(os.environ))
    out['lean_rc'] = p.returncode
    errs = []
    txt = p.stdout + p.stderr
    src = open(ROOT + '/lean/PegVerif/Props/C10.lean').read().split('\n')
    fl = open(ROOT + '/lean/PegVerif/Proofs/FrontLemmas.lean').read().split('\n')
    for m in re.finditer(r'error: PegVerif/(Props/C10Escapes|Props/C10|Proofs/FrontLemmas|Proofs/FrontHex|Proofs/FrontFold)\.lean:(\d+):(\d+): (.*)', txt):
        lines = open(ROOT + '/lean/PegVerif/' + m.group(1) + '.lean').read().split('\n')
        ln = int(m.group(2))
        # find the theorem this line belongs to
        th = None
        for k in range(ln - 1, -1, -1):
            mm = re.match(r'\s*(theorem|def)\s+(\S+)', lines[k])
            if mm:
                th = mm.group(2)
                break
        errs.append('%s:%d %s: %s' % (m.group(1), ln, th, m.group(4)[:80]))
    out['lean_failed'] = errs
    out['lean_s'] = round(time.time() - t0, 1)
    restore()
    return out


if __name__ == '__main__':
    if os.path.exists(MUT):
        shutil.rmtree(MUT)
    shutil.copytree(SRC, MUT, symlinks=True)
    os.makedirs(ROOT + '/out', exist_ok=True)
    try:
        for n in sys.argv[1:]:
            print(json.dumps(run(n), indent=1, ensure_ascii=False), flush=True)
    finally:
        shutil.rmtree(MUT, ignore_errors=True)
        env = dict(ENV)
        env.pop('PEG_REPO', None)
        if SRC != '/repo':
            env['PEG_REPO'] = SRC
        sh([sys.executable, ROOT + '/bin/genpeggrammar.py'], env=env)
