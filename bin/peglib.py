"""Shared machinery of the checks: tool building (always from /repo's current working tree),
drivers for the real generator (pegx) and for the Lean model (pegmodel), the ties T-emit / T-run,
evidence and violation reporting."""
import base64
import hashlib
import json
import os
import re
import shutil
import subprocess
import sys
import tempfile
import time

VERIF = os.path.dirname(os.path.dirname(os.path.abspath(__file__)))
REPO = os.environ.get('PEG_REPO', '/repo')
LEAN = os.path.join(VERIF, 'lean')
CACHE = os.path.join(VERIF, '.cache')
# Build output of the scratch modules (hundreds of generated parsers per check) goes to a Go build cache of our own, inside the
# ignored .cache directory, where it can be measured and removed — not to the user's cache, which it would fill by gigabytes per run.
GOCACHE_DIR = os.path.join(CACHE, 'gocache')
os.environ['GOCACHE'] = GOCACHE_DIR
GOCACHE_LIMIT_MB = 8000
GOENV = dict(os.environ, GOFLAGS='-mod=mod', GOPROXY='off')
GOENV.pop('GOTOOLCHAIN', None)
GOENV.pop('GOSUMDB', None)
NCPU = os.cpu_count() or 4

OPTSETS = ['', 'i', 's', 'is', 'n', 'in', 'sn', 'isn']


def log(*a):
    print(*a, file=sys.stderr, flush=True)


def sh(cmd, cwd=None, env=None, timeout=None, inp=None, check=True):
    p = subprocess.run(cmd, cwd=cwd, env=env or GOENV, timeout=timeout, input=inp, capture_output=True, text=True)
    if check and p.returncode != 0:
        raise RuntimeError('command failed (%d): %s\n%s\n%s' % (p.returncode, ' '.join(cmd), p.stdout[-4000:], p.stderr[-4000:]))
    return p


# ---------------------------------------------------------------------------------------------
# scratch space (outside /repo and /verif), removed at exit
_SCRATCH = []


def scratch(prefix='pegverif-'):
    d = tempfile.mkdtemp(prefix=prefix)
    _SCRATCH.append(d)
    return d


def cleanup():
    for d in _SCRATCH:
        shutil.rmtree(d, ignore_errors=True)
    del _SCRATCH[:]


import atexit
atexit.register(cleanup)


# ---------------------------------------------------------------------------------------------
# building the real tools from the CURRENT working tree of /repo

def repo_hash():
    h = hashlib.sha256()
    files = sh(['git', '-C', REPO, 'ls-files', '-co', '--exclude-standard']).stdout.split('\n')
    for f in sorted(files):
        if not f or f.startswith('grammars/') and not f.endswith('.peg'):
            continue
        p = os.path.join(REPO, f)
        if os.path.isfile(p):
            h.update(f.encode())
            with open(p, 'rb') as fh:
                h.update(fh.read())
    # the machinery itself: a sweep cached by an older generator, driver or model must not be reused
    for root in (os.path.join(VERIF, 'harness'), os.path.join(VERIF, 'bin'), os.path.join(VERIF, 'lean', 'PegVerif', 'Model'),
                 os.path.join(VERIF, 'lean', 'PegVerif', 'Exec')):
        for dp, dn, fn in sorted(os.walk(root)):
            for f in sorted(fn):
                p = os.path.join(dp, f)
                if '__pycache__' in p or f.endswith('.pyc') or '/harness/bin/' in p or f in ('mkmanifest.py', 'seedtest.py'):
                    continue        # (the last two do not take part in any check)
                h.update(p.encode())
                with open(p, 'rb') as fh:
                    h.update(fh.read())
    return h.hexdigest()[:20]


def trim_gocache():
    """Remove our Go build cache when it has grown past the limit (not while another check is running from it)."""
    try:
        os.makedirs(GOCACHE_DIR, exist_ok=True)
        p = subprocess.run(['du', '-sm', GOCACHE_DIR], capture_output=True, text=True, timeout=120)
        mb = int(p.stdout.split()[0])
        if mb <= GOCACHE_LIMIT_MB:
            return
        others = subprocess.run(['pgrep', '-f', os.path.join(VERIF, 'bin', 'check')], capture_output=True, text=True).stdout.split()
        if [x for x in others if x != str(os.getpid())]:
            return
        subprocess.run(['go', 'clean', '-cache'], env=GOENV, capture_output=True, text=True, timeout=600)
        shutil.rmtree(GOCACHE_DIR, ignore_errors=True)
        os.makedirs(GOCACHE_DIR, exist_ok=True)
    except Exception:
        pass


class Tools:
    """peg binary, pegx (real front end + generator in-process), pegmodel (Lean)."""

    def __init__(self, need_lean=True, race=False):
        self.hash = repo_hash()
        self.dir = os.path.join(CACHE, self.hash)
        os.makedirs(self.dir, exist_ok=True)
        try:    # keep the cache small: only the few most recently used trees
            os.utime(self.dir)
            # (never one that was used in the last six hours: another check — on another tree — may be running from it)
            old = sorted((d for d in os.listdir(CACHE) if os.path.isdir(os.path.join(CACHE, d)) and d != self.hash),
                         key=lambda d: os.path.getmtime(os.path.join(CACHE, d)), reverse=True)[3:]
            for d in old:
                if time.time() - os.path.getmtime(os.path.join(CACHE, d)) > 6 * 3600:
                    shutil.rmtree(os.path.join(CACHE, d), ignore_errors=True)
        except OSError:
            pass
        trim_gocache()
        self.peg = os.path.join(self.dir, 'peg')
        self.pegx = os.path.join(self.dir, 'pegx')
        self.pegmodel = os.path.join(LEAN, '.lake', 'build', 'bin', 'pegmodel')
        self.build_errors = []
        if not os.path.exists(self.peg):
            p = sh(['go', 'build', '-o', self.peg + '.tmp', '.'], cwd=REPO, check=False)
            if p.returncode != 0:
                raise RuntimeError('cannot build peg from %s:\n%s' % (REPO, p.stderr))
            os.rename(self.peg + '.tmp', self.peg)
        if not os.path.exists(self.pegx):
            d = scratch('pegx-')
            shutil.copy(os.path.join(REPO, 'peg.peg.go'), d)
            for f in ('dump', 'irx', 'pegx', 'casex'):
                shutil.copy(os.path.join(VERIF, 'harness', 'pegx', f + '.go.txt'), os.path.join(d, f + '.go'))
            with open(os.path.join(d, 'go.mod'), 'w') as fh:
                fh.write('module pegx\ngo 1.25\nrequire github.com/pointlander/peg v0.0.0\n'
                         'replace github.com/pointlander/peg => %s\n' % REPO)
            p = sh(['go', 'build', '-o', self.pegx + '.tmp', '.'], cwd=d, check=False)
            if p.returncode != 0:
                raise RuntimeError('cannot build pegx:\n%s' % p.stderr)
            os.rename(self.pegx + '.tmp', self.pegx)
        if need_lean:
            self.lake_build(['pegmodel'])

    def lake_build(self, targets):
        p = sh(['lake', 'build'] + targets, cwd=LEAN, env=os.environ, check=False, timeout=3600)
        if p.returncode != 0:
            raise LeanBuildError(targets, p.stdout + p.stderr)
        return p.stdout + p.stderr

    # -- real side ----------------------------------------------------------------------------
    def run_pegx(self, reqs, timeout=20):
        """Run requests through pegx; restart after a timed-out request. Returns list of responses."""
        out = []
        i = 0
        while i < len(reqs):
            batch = reqs[i:]
            data = ''.join(json.dumps(r) + '\n' for r in batch)
            p = subprocess.run([self.pegx, '-timeout', '%ds' % timeout], input=data, capture_output=True, text=True,
                               env=dict(GOENV, GOMEMLIMIT='3GiB'))
            lines = [json.loads(l) for l in p.stdout.split('\n') if l.strip()]
            out.extend(lines)
            i += len(lines)
            if len(lines) < len(batch) and p.returncode not in (3,):
                # crashed hard (fatal error): mark the request that killed it
                out.append({'id': batch[len(lines)]['id'], 'crash': (p.stderr or '')[-2000:], 'rc': p.returncode})
                i += 1
        return out

    def run_pegx_parallel(self, reqs, timeout=20, jobs=None):
        jobs = jobs or min(NCPU, max(1, len(reqs) // 40))
        if jobs <= 1:
            return self.run_pegx(reqs, timeout)
        from concurrent.futures import ThreadPoolExecutor
        chunks = [reqs[k::jobs] for k in range(jobs)]
        with ThreadPoolExecutor(jobs) as ex:
            res = list(ex.map(lambda c: self.run_pegx(c, timeout), chunks))
        byid = {}
        for r in res:
            for x in r:
                byid[x['id']] = x
        return [byid.get(r['id'], {'id': r['id'], 'crash': 'missing'}) for r in reqs]

    # -- model side ---------------------------------------------------------------------------
    def run_model(self, cmd, reqs, jobs=None):
        jobs = jobs or min(NCPU, max(1, len(reqs) // 20))
        chunks = [reqs[k::jobs] for k in range(jobs)] if jobs > 1 else [reqs]

        def one(chunk):
            data = ''.join(json.dumps(r) + '\n' for r in chunk)
            p = subprocess.run([self.pegmodel, cmd], input=data, capture_output=True, text=True)
            if p.returncode != 0:
                raise RuntimeError('pegmodel %s failed: %s' % (cmd, p.stderr[-2000:]))
            return [json.loads(l) for l in p.stdout.split('\n') if l.strip()]
        from concurrent.futures import ThreadPoolExecutor
        with ThreadPoolExecutor(max(1, jobs)) as ex:
            res = list(ex.map(one, chunks))
        byid = {}
        for r in res:
            for x in r:
                byid[x['id']] = x
        return [byid.get(r['id'], {'id': r['id'], 'error': 'missing'}) for r in reqs]


class LeanBuildError(Exception):
    def __init__(self, targets, output):
        Exception.__init__(self, 'lake build %s failed' % targets)
        self.targets = targets
        self.output = output


# ---------------------------------------------------------------------------------------------
# T-emit: IR extracted from the real generator's output == IR the Lean model generator emits

_ws = re.compile(r'[\s;]+')


def norm_line(line):
    """User code inside ifNotPred/stmt is compared modulo white space and ';' (go/printer reformats it)."""
    if line.startswith('stmt ') or line.startswith('ifNotPred '):
        head, rest = line.split(' ', 1)
        if head == 'ifNotPred':
            js, lbl = rest.rsplit(' ', 1)
            return 'ifNotPred %s %s' % (json.dumps(_ws.sub('', json.loads(js))), lbl)
        return 'stmt %s' % json.dumps(_ws.sub('', json.loads(rest)))
    return line


def norm_code(lines):
    """Normalise user code and merge adjacent `stmt` lines (irx cannot tell where one user
    statement list ends and the next begins)."""
    out = []
    for l in lines:
        l = norm_line(l)
        if l.startswith('stmt ') and out and out[-1].startswith('stmt '):
            out[-1] = 'stmt %s' % json.dumps(json.loads(out[-1][5:]) + json.loads(l[5:]))
        else:
            out.append(l)
    return out


def ir_diff(real_ir, model):
    """None if equal, else a short description of the first difference."""
    if 'rules' not in model:
        return 'model: %s' % json.dumps({k: v for k, v in model.items() if k != 'id'})[:300]
    rr = real_ir['rules'][1:]
    mr = model['rules']
    if len(real_ir['rules']) == 0 or not real_ir['rules'][0].get('nil'):
        return 'real: first _rules element is not nil'
    if len(rr) != len(mr):
        return 'rule count real=%d model=%d' % (len(rr), len(mr))
    names = model.get('ruleNames', [])
    for k, (a, b) in enumerate(zip(rr, mr)):
        nm = names[k] if k < len(names) else str(k)
        if bool(a.get('nil')) != bool(b.get('nil')):
            return 'rule %s: nil real=%s model=%s' % (nm, a.get('nil'), b.get('nil'))
        ca = norm_code(a.get('code') or [])
        cb = norm_code(b.get('code') or [])
        if ca != cb:
            for i in range(max(len(ca), len(cb))):
                x = ca[i] if i < len(ca) else None
                y = cb[i] if i < len(cb) else None
                if x != y:
                    return 'rule %s pc %d: real %s | model %s' % (nm, i, ca[max(0, i - 2):i + 2], cb[max(0, i - 2):i + 2])
    return None


def header_diff(rh, mh, opts):
    """Header facts extracted by irx vs the Lean header model. None if equal."""
    if not mh:
        return 'model: no header'
    ast = 'n' not in opts
    checks = [
        ('pegRuleType', rh.get('pegRuleType'), mh.get('pegRuleType')),
        ('ruleNames', rh.get('ruleNames'), mh.get('ruleNames')),
        ('rul3s', rh.get('rul3s'), mh.get('ruleNames')),
        ('rulesLen', str(rh.get('rulesLen')), str(mh.get('rulesLen'))),
        ('imports', rh.get('imports'), mh.get('imports')),
        ('matchDot', 'matchDot' in (rh.get('funcs') or []), bool(mh.get('hasDot'))),
        ('matchString', 'matchString' in (rh.get('funcs') or []), bool(mh.get('hasString'))),
        ('Execute', 'Execute' in (rh.get('methods') or []), bool(mh.get('hasActions')) and ast),
        ('PegText case', bool(rh.get('hasPegTextCase')), bool(mh.get('hasPush')) and bool(mh.get('hasActions')) and ast),
        ('endSymbol', rh.get('endSymbol'), '1114112'),
    ]
    if ast and mh.get('hasActions'):
        ra = {k: _ws.sub('', v) for k, v in (rh.get('actions') or {}).items()}
        ma = {k: _ws.sub('', v) for k, v in (mh.get('actions') or {}).items()}
        checks.append(('actions', ra, ma))
    for name, a, b in checks:
        if a != b:
            return 'header %s: real %s | model %s' % (name, json.dumps(a)[:200], json.dumps(b)[:200])
    return None


def b64(s):
    return base64.b64encode(s if isinstance(s, bytes) else s.encode('utf-8', 'surrogateescape')).decode()


def bytes_of(b):
    """The bytes of a Go string, as a list of ints (decoded to runes by the Lean model `runes`)."""
    if isinstance(b, str):
        b = b.encode('utf-8', 'surrogateescape')
    return list(b)


def runes_of(b):
    """Go's []rune(string(b)) (utf8.DecodeRune): an invalid byte becomes U+FFFD, width 1."""
    if isinstance(b, str):
        b = b.encode('utf-8', 'surrogateescape')
    out = []
    i = 0
    n = len(b)
    while i < n:
        c = b[i]
        if c < 0x80:
            out.append(c)
            i += 1
            continue
        if 0xC2 <= c <= 0xDF:
            size, lo, hi = 2, 0x80, 0xBF
        elif c == 0xE0:
            size, lo, hi = 3, 0xA0, 0xBF
        elif c == 0xED:
            size, lo, hi = 3, 0x80, 0x9F
        elif 0xE1 <= c <= 0xEF:
            size, lo, hi = 3, 0x80, 0xBF
        elif c == 0xF0:
            size, lo, hi = 4, 0x90, 0xBF
        elif 0xF1 <= c <= 0xF3:
            size, lo, hi = 4, 0x80, 0xBF
        elif c == 0xF4:
            size, lo, hi = 4, 0x80, 0x8F
        else:
            out.append(0xFFFD)
            i += 1
            continue
        if i + size > n or not (lo <= b[i + 1] <= hi) or any(not (0x80 <= b[i + k] <= 0xBF) for k in range(2, size)):
            out.append(0xFFFD)
            i += 1
            continue
        if size == 2:
            v = (c & 0x1F) << 6 | (b[i + 1] & 0x3F)
        elif size == 3:
            v = (c & 0x0F) << 12 | (b[i + 1] & 0x3F) << 6 | (b[i + 2] & 0x3F)
        else:
            v = (c & 0x07) << 18 | (b[i + 1] & 0x3F) << 12 | (b[i + 2] & 0x3F) << 6 | (b[i + 3] & 0x3F)
        out.append(v)
        i += size
    return out


# ---------------------------------------------------------------------------------------------
# T-run: compiled real parsers vs model (execF) vs spec (evalF)

RUN_GO = r'''package %(pkg)s

import (
	"encoding/base64"
	"encoding/json"
	"fmt"
	"io"
)

type RCase struct {
	K     string   `json:"k"`
	Entry string   `json:"entry"`
	Memo  bool     `json:"memo"`
	B64   string   `json:"b64"`
	U     int      `json:"u"`
	Size  int      `json:"size"`
	Hist  []string `json:"hist"`
	Warm  *string  `json:"warm"`
}

type RObs struct {
	K      string `json:"k"`
	V      string `json:"v"`
	Toks   []any  `json:"toks,omitempty"`
	Tree   string `json:"tree"`
	Ast    any    `json:"ast"`
	Trace  string `json:"trace"`
	STrace string `json:"strace"`
	Max    []any  `json:"max,omitempty"`
	Err    string `json:"err,omitempty"`
	Steps  []*RObs `json:"steps,omitempty"`
}

%(astwalk)s

func ruleIndex(name string) int {
	for i, n := range rul3s {
		if n == name {
			return i
		}
	}
	return -1
}

func parseOnce[U Uint](p *%(struct)s[U], entry string, o *RObs) {
	defer func() {
		if r := recover(); r != nil {
			o.V = "panic"
			o.Err = fmt.Sprint(r)
		}
	}()
%(traceinit)s
	err := p.Parse(ruleIndex(entry))
	if err == nil {
		o.V = "ok"
%(okpart)s
	} else {
		o.V = "fail"
		pe := err.(*parseError[U])
		o.Max = []any{rul3s[pe.maxToken.pegRule], uint64(pe.maxToken.begin), uint64(pe.maxToken.end)}
		o.Err = pe.Error()
	}
%(tracecopy)s
}

func runCase[U Uint](c *RCase) *RObs {
	o := &RObs{K: c.K}
	defer func() {
		if r := recover(); r != nil {
			o.V = "panic"
			o.Err = fmt.Sprint(r)
		}
	}()
	var opts []func(*%(struct)s[U]) error
%(optpart)s
	if len(c.Hist) == 0 {
		raw, _ := base64.StdEncoding.DecodeString(c.B64)
		if c.Warm != nil {
			// second use of one instance: parse another input first, then Buffer = …; Reset(); Parse()
			wraw, _ := base64.StdEncoding.DecodeString(*c.Warm)
			p := &%(struct)s[U]{Buffer: string(wraw)}
			_ = p.Init(opts...)
			parseOnce(p, c.Entry, &RObs{})
			p.Buffer = string(raw)
			p.Reset()
			parseOnce(p, c.Entry, o)
			return o
		}
		p := &%(struct)s[U]{Buffer: string(raw)}
		_ = p.Init(opts...)
		parseOnce(p, c.Entry, o)
		return o
	}
	// one long-lived instance fed a history of inputs
	p := &%(struct)s[U]{}
	_ = p.Init(opts...)
	for _, h := range c.Hist {
		raw, _ := base64.StdEncoding.DecodeString(h)
		p.Buffer = string(raw)
		p.Reset()
		so := &RObs{}
		parseOnce(p, c.Entry, so)
		o.Steps = append(o.Steps, so)
	}
	o.V = "hist"
	return o
}

func Run(c *RCase, w io.Writer) {
	var o *RObs
	switch c.U {
	case 16:
		o = runCase[uint16](c)
	case 64:
		o = runCase[uint64](c)
	case 0:
		o = runCase[uint](c)
	default:
		o = runCase[uint32](c)
	}
	enc := json.NewEncoder(w)
	enc.SetEscapeHTML(false)
	_ = enc.Encode(o)
}
'''

RUN_AST_WALK = r'''
func walkAST[U Uint](n *node[U]) any {
	if n == nil {
		return nil
	}
	kids := []any{}
	for k := n.up; k != nil; k = k.next {
		kids = append(kids, walkAST(k))
	}
	return []any{rul3s[n.pegRule], uint64(n.begin), uint64(n.end), kids}
}
'''

RUN_OK_AST = r'''		o.Toks = []any{}
		for _, t := range p.Tokens() {
			o.Toks = append(o.Toks, []any{rul3s[t.pegRule], uint64(t.begin), uint64(t.end)})
		}
		o.Tree = p.SprintSyntaxTree()
		o.Ast = walkAST(p.AST())
%(execute)s'''

RUN_OPT_AST = r'''	if !c.Memo {
		opts = append(opts, DisableMemoize[U]())
	}
	if c.Size > 0 {
		opts = append(opts, Size[U](c.Size))
	}
'''

MAIN_GO = r'''package main

import (
	"bufio"
	"encoding/json"
	"os"

%(imports)s
)

type req struct {
	Pkg string `json:"pkg"`
}

func main() {
	in := bufio.NewReaderSize(os.Stdin, 1<<20)
	out := bufio.NewWriterSize(os.Stdout, 1<<20)
	defer out.Flush()
	for {
		line, err := in.ReadBytes('\n')
		if len(line) > 1 {
			var r req
			_ = json.Unmarshal(line, &r)
			switch r.Pkg {
%(cases)s
			}
			out.Flush()
		}
		if err != nil {
			break
		}
	}
}
'''


class RunModule:
    """A scratch Go module holding emitted parsers (one package each) plus runners."""

    def __init__(self):
        self.dir = scratch('pegrun-')
        with open(os.path.join(self.dir, 'go.mod'), 'w') as fh:
            fh.write('module run\n\ngo 1.25\n\nrequire github.com/pointlander/peg v0.0.0\n\nreplace github.com/pointlander/peg => %s\n' % REPO)
        self.pkgs = {}

    def add(self, pkg, gosrc, ast, struct='P', probes=True, support=(), execute=True):
        d = os.path.join(self.dir, pkg)
        os.makedirs(d, exist_ok=True)
        for f in support:
            shutil.copy(f, d)
        m = re.search(r'^package (\w+)', gosrc, re.M)
        gopkg = m.group(1) if m else 'g'
        if gopkg == 'main':      # a program cannot be imported by the runner
            gopkg = 'mainpkg'
            gosrc = re.sub(r'^package main\b', 'package mainpkg', gosrc, count=1, flags=re.M)
        with open(os.path.join(d, 'p.go'), 'w') as fh:
            fh.write(gosrc)
        has_exec = re.search(r'^func \(p \*%s\[_\]\) Execute\(\)' % struct, gosrc, re.M) is not None
        okpart = ''
        if ast:
            okpart = RUN_OK_AST % {'execute': '\t\tp.Execute()' if (has_exec and execute) else ''}
        src = RUN_GO % {'pkg': gopkg, 'struct': struct, 'astwalk': RUN_AST_WALK if ast else '',
                        'okpart': okpart, 'optpart': RUN_OPT_AST if ast else '\t_ = opts\n',
                        'traceinit': '\tp.Trace, p.STrace = "", ""' if probes else '',
                        'tracecopy': '\to.Trace, o.STrace = p.Trace, p.STrace' if probes else ''}
        with open(os.path.join(d, 'run.go'), 'w') as fh:
            fh.write(src)
        self.pkgs[pkg] = {'ast': ast}

    def vet(self):
        """Compile every package; returns {pkg: error text} for those that do not build."""
        bad = {}
        pkgs = sorted(self.pkgs)
        if not pkgs:
            return bad
        # generous: thousands of packages, or a few with tens of thousands of rules, on a loaded machine with a cold build cache
        p = sh(['go', 'build', './...'], cwd=self.dir, check=False, timeout=max(10800, 20 * len(pkgs)))
        if p.returncode != 0:
            cur = None
            for line in (p.stderr + p.stdout).splitlines():
                m = re.match(r'^# run/(\S+)', line)
                if m:
                    cur = m.group(1)
                    bad[cur] = ''
                    continue
                m = re.match(r'^(\S+?)/[^/]+\.go:\d+', line)
                if m and m.group(1) in self.pkgs:
                    cur = m.group(1)
                    bad.setdefault(cur, '')
                if cur is not None:
                    bad[cur] += line + '\n'
            if not bad:
                raise RuntimeError('go build failed without package errors:\n' + p.stderr[-3000:])
        return bad

    def build(self, exclude=()):
        good = [p for p in sorted(self.pkgs) if p not in exclude]
        imports = '\n'.join('\t%s "run/%s"' % (p, p) for p in good)
        cases = '\n'.join('\t\t\tcase "%s":\n\t\t\t\tvar c %s.RCase\n\t\t\t\t_ = json.Unmarshal(line, &c)\n\t\t\t\t%s.Run(&c, out)' % (p, p, p)
                          for p in good)
        md = os.path.join(self.dir, 'cmd')
        os.makedirs(md, exist_ok=True)
        with open(os.path.join(md, 'main.go'), 'w') as fh:
            fh.write(MAIN_GO % {'imports': imports, 'cases': cases})
        self.bin = os.path.join(self.dir, 'runner')
        sh(['go', 'build', '-o', self.bin, './cmd'], cwd=self.dir, timeout=max(10800, 20 * len(good)))
        return good

    def run(self, cases, timeout=600, jobs=None):
        """cases: list of dicts with pkg,k,entry,memo,b64,(u,size,hist). Returns {k: obs}."""
        jobs = jobs or min(NCPU, max(1, len(cases) // 2000))
        chunks = [cases[i::jobs] for i in range(jobs)]

        def one(chunk):
            out = {}
            i = 0
            while i < len(chunk):
                data = ''.join(json.dumps(c) + '\n' for c in chunk[i:])
                try:
                    p = subprocess.run([self.bin], input=data, capture_output=True, text=True, timeout=timeout,
                                       env=dict(GOENV, GOMEMLIMIT='2GiB'))
                    lines = p.stdout.split('\n')
                    err = p.stderr
                except subprocess.TimeoutExpired as e:
                    lines = (e.stdout or b'').decode('utf-8', 'replace').splitlines() if isinstance(e.stdout, bytes) else (e.stdout or '').splitlines()
                    err = 'TIMEOUT'
                n = 0
                for l in lines:
                    try:
                        o = json.loads(l)
                    except ValueError:
                        break
                    out[o['k']] = o
                    n += 1
                i += n
                if i < len(chunk) and n < len(chunk[i - n:]):
                    # the process died on case chunk[i]
                    out[chunk[i]['k']] = {'k': chunk[i]['k'], 'v': 'crash', 'err': err[-1500:]}
                    i += 1
            return out
        from concurrent.futures import ThreadPoolExecutor
        res = {}
        with ThreadPoolExecutor(jobs) as ex:
            for r in ex.map(one, chunks):
                res.update(r)
        return res


def obs_equal(real, model, ast):
    """Compare a real observation with a model/spec observation. Returns list of differing keys."""
    diffs = []
    rv = real.get('v')
    mv = model.get('v')
    if rv != mv:
        return ['v']
    if rv == 'ok':
        keys = ['toks', 'tree', 'ast', 'trace'] if ast else ['trace']
    elif rv == 'fail':
        keys = ['max', 'err'] + ([] if ast else ['trace'])
    else:
        keys = []
    for k in keys:
        a, b = real.get(k), model.get(k)
        if k == 'toks':
            a = a or []
            b = b or []
        if k in ('trace', 'tree', 'err'):
            a = a or ''
            b = b or ''
        if a != b:
            diffs.append(k)
    return diffs


# ---------------------------------------------------------------------------------------------
# evidence / violations

def write_json(path, obj):
    os.makedirs(os.path.dirname(path), exist_ok=True)
    tmp = path + '.tmp'
    with open(tmp, 'w') as fh:
        json.dump(obj, fh, indent=1, ensure_ascii=False)
        fh.write('\n')
    os.rename(tmp, path)
