"""Per-property check logic (see bin/check)."""
import json
import os
import re
import subprocess
import time

import peglib as L
import sweep as S

VERIF = L.VERIF
ALLOWED_AXIOMS = {'propext', 'Classical.choice', 'Quot.sound'}
FORBIDDEN = re.compile(r'\b(sorry|admit|native_decide|bv_decide|implemented_by)\b|^\s*axiom\s|^\s*unsafe\s|maxHeartbeats\s+0', re.M)

TRUSTED_BASE = [
    'Lean 4.33.0 kernel (theorems re-elaborated on every run; leanchecker in the thorough tier)',
    'axioms allowed: propext, Classical.choice, Quot.sound (audited with #print axioms on every property theorem)',
    'tie: harness/pegx (go/ast extraction of the emitted Go into the model IR, fails closed) and the differential runners',
    'Go semantics of the ~25 emitted statement shapes, slices as values, maps as association lists (validated by T-run, not proved)',
]


def load_known():
    p = os.path.join(VERIF, 'known_findings.json')
    if not os.path.exists(p):
        return []
    with open(p) as fh:
        return json.load(fh)


class Ctx:
    def __init__(self, pid, tier, seed):
        self.pid = pid
        self.tier = tier
        self.seed = seed
        self.dis = []           # disagreements: dict(kind=spec|model|proof, tie=..., what=..., replay={...})
        self.obligations = []   # (theorem, axioms)
        self.proof_errors = []
        self.coverage = {}
        self.assumptions = []
        self.harness_error = None
        self.tools = None
        self.checker_cmds = []
        self.known = [k for k in load_known() if k.get('property') == pid and k.get('status') == 'open']
        self.known_hits = {}

    # -- tools ----------------------------------------------------------------------------------
    def T(self):
        if self.tools is None:
            self.tools = L.Tools(need_lean=True)
        return self.tools

    # -- proofs ---------------------------------------------------------------------------------
    def proofs(self, modules):
        """Build and re-elaborate the given Props modules; audit axioms and forbidden constructs."""
        lean = L.LEAN
        for m in modules:
            path = os.path.join(lean, *m.split('.')) + '.lean'
            self.checker_cmds.append('cd lean && lake build %s && lake env lean %s' % (m, os.path.relpath(path, lean)))
            try:
                self.T().lake_build([m])
            except L.LeanBuildError as e:
                errs = [l for l in e.output.splitlines() if 'error' in l.lower()][:12]
                self.proof_errors.append({'module': m, 'errors': errs})
                self.dis.append({'kind': 'proof', 'tie': 'lake build %s' % m,
                                 'what': 'proof obligation no longer checks: %s' % ('; '.join(errs)[:600]),
                                 'replay': {'module': m, 'output': e.output[-6000:]}})
                continue
            p = subprocess.run(['lake', 'env', 'lean', os.path.relpath(path, lean)], cwd=lean, capture_output=True, text=True)
            out = p.stdout + p.stderr
            if p.returncode != 0:
                self.dis.append({'kind': 'proof', 'tie': 'lean %s' % m, 'what': 'elaboration failed: ' + out[-600:],
                                 'replay': {'module': m, 'output': out[-6000:]}})
                continue
            for mm in re.finditer(r"'([^']+)' depends on axioms: \[([^\]]*)\]", out):
                axs = [x.strip() for x in mm.group(2).split(',') if x.strip()]
                self.obligations.append((mm.group(1), axs))
                extra = [x for x in axs if x not in ALLOWED_AXIOMS]
                if extra:
                    self.dis.append({'kind': 'proof', 'tie': 'axioms %s' % mm.group(1), 'what': 'unexpected axioms %s' % extra,
                                     'replay': {'theorem': mm.group(1), 'axioms': axs}})
            for mm in re.finditer(r"'([^']+)' does not depend on any axioms", out):
                self.obligations.append((mm.group(1), []))
            if 'sorry' in out:
                self.dis.append({'kind': 'proof', 'tie': 'lean %s' % m, 'what': 'declaration uses sorry', 'replay': {'module': m}})
        # forbidden constructs anywhere in the project sources
        for dp, dn, fn in os.walk(os.path.join(lean, 'PegVerif')):
            for f in fn:
                if f.endswith('.lean'):
                    src = open(os.path.join(dp, f)).read()
                    src = re.sub(r'/-.*?-/', '', src, flags=re.S)
                    src = re.sub(r'--.*', '', src)
                    m = FORBIDDEN.search(src)
                    if m:
                        self.dis.append({'kind': 'proof', 'tie': 'grep', 'what': 'forbidden construct %r in %s' % (m.group(0), f),
                                         'replay': {'file': f}})

    # -- disagreements --------------------------------------------------------------------------
    def add(self, kind, tie, what, replay):
        self.dis.append({'kind': kind, 'tie': tie, 'what': what, 'replay': replay})

    def match_known(self, d):
        for k in self.known:
            fn = KNOWN_MATCHERS.get(k.get('id'))
            if fn is not None and fn(d, k):
                return k
        return None

    # -- finish ---------------------------------------------------------------------------------
    def finish(self, wall):
        pid = self.pid
        viol_spec, viol_other = [], []
        for d in self.dis:
            k = self.match_known(d)
            if k is not None:
                self.known_hits.setdefault(k['id'], [k, 0])[1] += 1
                continue
            (viol_spec if d['kind'] == 'spec' else viol_other).append(d)
        for kid, (k, n) in sorted(self.known_hits.items()):
            print('KNOWN-FINDING: property=%s %s (%s; %d occurrence(s) this run)' % (pid, k['what'], kid, n))
        rc = 0
        rdir = os.path.join(VERIF, 'replays')
        if self.harness_error:
            print('HARNESS-ERROR property=%s %s' % (pid, self.harness_error))
            rc = 2
        if viol_spec:
            d = viol_spec[0]
            path = os.path.join(rdir, '%s-%s-%d.json' % (pid, self.tier, self.seed))
            L.write_json(path, {'property': pid, 'tie': d['tie'], 'what': d['what'], 'case': d['replay'],
                                'more': [{'tie': x['tie'], 'what': x['what']} for x in (viol_spec[1:6] + viol_other[:6])],
                                'rerun': 'bin/check %s --replay %s' % (pid, path)})
            print('VIOLATION property=%s replay=%s' % (pid, path))
            print('  %s: %s' % (d['tie'], d['what'][:400]))
            rc = 1
        elif viol_other:
            d = viol_other[0]
            path = os.path.join(rdir, '%s-%s-%d.json' % (pid, self.tier, self.seed))
            L.write_json(path, {'property': pid, 'broken': d['tie'], 'what': d['what'], 'detail': d['replay'],
                                'searched': self.coverage.get('search', 'the spec (evalF / reference functions) was compared with the real code on every case of this run; no disagreement'),
                                'more': [{'tie': x['tie'], 'what': x['what']} for x in viol_other[1:8]]})
            print('VIOLATION property=%s replay=%s no-failing-input-found' % (pid, path))
            print('  %s: %s' % (d['tie'], d['what'][:400]))
            rc = 1
        cov = dict(self.coverage)
        nob = len(self.obligations) + len(self.proof_errors)
        cov.setdefault('obligations', max(nob, 0))
        cov.setdefault('discharged', len([o for o in self.obligations if set(o[1]) <= ALLOWED_AXIOMS]))
        cov.setdefault('checker_cmd', ' ; '.join(self.checker_cmds) or 'n/a')
        cov.setdefault('trusted_base', TRUSTED_BASE)
        cov['theorems'] = [{'name': n, 'axioms': a} for n, a in self.obligations]
        cov.setdefault('evaluations', 0)
        cov.setdefault('distinct_nontrivial', 0)
        cov['known_findings_hit'] = {k: v[1] for k, v in self.known_hits.items()}
        ev = {'property_id': pid, 'tier': self.tier, 'seed': self.seed, 'level': 'proof', 'coverage': cov,
              'assumptions': self.assumptions, 'wall_s': round(wall, 1), 'violations': len(viol_spec) + len(viol_other)}
        if self.harness_error:
            ev['harness_error'] = self.harness_error
        L.write_json(os.path.join(VERIF, 'evidence', pid + '.json'), ev)
        print('%s %s seed=%d: obligations=%d discharged=%d evaluations=%s violations=%d wall=%.0fs' % (
            pid, self.tier, self.seed, cov['obligations'], cov['discharged'], cov.get('evaluations'), ev['violations'], wall))
        return rc


# ---------------------------------------------------------------------------------------------
# known-finding matchers: predicate(disagreement, entry) -> bool.  Deliberately narrow.

KNOWN_MATCHERS = {}


def matcher(fid):
    def deco(fn):
        KNOWN_MATCHERS[fid] = fn
        return fn
    return deco


# ---------------------------------------------------------------------------------------------
# the core group: C01, C03, C04, C05, C06, C07, C11 (+ inline part of C02)

CORE_OPTSETS = ['', 'i', 'n', 'in']


def core(ctx, optsets_needed, fields, cross=None, note=''):
    """Shared logic: T-emit on the option sets the property depends on, T-run fields it observes."""
    T = ctx.T()
    sw = S.get_sweep(T, ctx.tier, ctx.seed, CORE_OPTSETS, 'core')
    st = sw['stats']
    want = set(optsets_needed)
    for d in sw['emit_diffs']:
        if d['opts'] in want:
            ctx.add('model', 'T-emit/%s' % (d['opts'] or 'default'), 'emitted IR differs from the model generator: ' + d['diff'],
                    {'grammar': d['text'], 'opts': d['opts'], 'diff': d['diff']})
    for d in sw['front_problems']:
        if d['opts'] in want:
            ctx.add('model', 'T-emit/front', 'real front end/generator failed on a generated well-formed grammar: %s' % json.dumps(d['resp'])[:300],
                    {'grammar': d['text'], 'opts': d['opts'], 'resp': d['resp']})
    for k, v in sw['vet_bad'].items():
        if v['opts'] in want:
            ctx.add('model', 'go build', 'emitted parser does not compile: ' + v['error'][:300], {'grammar': v['text'], 'opts': v['opts'], 'error': v['error']})
    for d in sw['run_diffs']:
        if d['opts'] not in want:
            continue
        fs = [f for f in d.get('fields_spec', []) if f in fields]
        fm = [f for f in d.get('fields_model', []) if f in fields or f == 'error']
        rep = {'grammar': d['text'], 'opts': d['opts'], 'entry': d.get('entry'), 'memo': d.get('memo'), 'input': d.get('input'),
               'real': d.get('real'), 'model': d.get('model'), 'spec': d.get('spec'), 'case': d['k']}
        if fs:
            ctx.add('spec', 'T-run/spec', 'real parser disagrees with the PEG semantics on %s for input %r (entry %s, opts "%s")' % (
                fs, d.get('input'), d.get('entry'), d['opts']), rep)
        elif fm:
            ctx.add('model', 'T-run/model', 'real parser disagrees with the runtime model on %s for input %r' % (fm, d.get('input')), rep)
    for d in sw.get('cross', []):
        if cross and d['kind'] == cross and d['opts'] in want and [f for f in d['fields'] if f in fields]:
            ctx.add('spec', 'T-run/%s' % cross, 'real parser differs between %s on %s for input %r' % (
                'memoisation on/off' if cross == 'memo' else 'option sets "%s" and "%s"' % (d['opts'], d.get('base', '')), d['fields'], d['input']),
                {'grammar': d['text'], 'opts': d['opts'], 'entry': d['entry'], 'input': d['input'], 'a': d['a'], 'b': d['b']})
    by = st.get('by_opts', {})
    ev = sum(by.get(o or 'd', {}).get('cases', 0) for o in want)
    ctx.coverage.update({
        'evaluations': ev,
        'programs_compared_T_emit': sum(1 for _ in range(st.get('programs', 0))),
        'rule': 'random well-formed grammars (type-directed generator, seed %d) + exhaustive enumeration of one-rule grammars with <= %d operator nodes over {a,b}; '
                'inputs: all strings of length <= 3 over {a,b,c} (<= 4 over {a,b} for enumerated grammars), strings sampled from the grammar, their mutations, random strings; '
                'every rule as entry point; memoisation on and off. ' % (ctx.seed, (S.THOROUGH if ctx.tier == 'thorough' else S.QUICK)['enum_k']) + note,
        'samples': st.get('samples', [])[:3],
        'input_distribution': {'operators': st.get('ops'), 'grammar_kinds': st.get('kinds'), 'by_option_set': {o: by.get(o or 'd') for o in want}},
        'sweep_wall_s': st.get('wall_s'),
    })
    return sw, by


def c01(ctx):
    ctx.proofs(['PegVerif.Props.C01'])
    sw, by = core(ctx, [''], ['v', 'toks'], note='Non-trivial = accepted (a prefix was consumed and its end offset compared).')
    ctx.coverage['distinct_nontrivial'] = by.get('d', {}).get('ok', 0)


def c03(ctx):
    ctx.proofs(['PegVerif.Props.C03'])
    sw, by = core(ctx, [''], ['toks'], note='Non-trivial = accepted with at least 3 recorded tokens.')
    ctx.coverage['distinct_nontrivial'] = by.get('d', {}).get('ok_multi_tok', 0)


def c04(ctx):
    ctx.proofs(['PegVerif.Props.C04Exec', 'PegVerif.Props.C04'])
    sw, by = core(ctx, [''], ['trace'], note='Non-trivial = the probe-action trace after Execute() is non-empty.')
    ctx.coverage['distinct_nontrivial'] = by.get('d', {}).get('trace_nonempty', 0)


def c05(ctx):
    ctx.proofs(['PegVerif.Props.C05Ast', 'PegVerif.Props.C05'])
    sw, by = core(ctx, [''], ['tree', 'ast'], note='Non-trivial = accepted with an AST of depth >= 3.')
    ctx.coverage['distinct_nontrivial'] = by.get('d', {}).get('nested_ast', 0)


def c06(ctx):
    ctx.proofs(['PegVerif.Props.C06'])
    sw, by = core(ctx, [''], ['v', 'toks', 'max', 'err'], cross='memo',
                  note='Every case is run with memoisation on and off and the two real observations are compared with each other, with the model and with the spec.')
    ctx.coverage['distinct_nontrivial'] = sw['stats'].get('memo_pairs', 0) // 4
    ctx.coverage['memo_pairs_compared'] = sw['stats'].get('memo_pairs', 0)


def c07(ctx):
    ctx.proofs(['PegVerif.Props.C07'])
    sw, by = core(ctx, ['n', 'in'], ['v', 'trace'], cross='opts',
                  note='-noast and -noast -inline parsers; verdict compared with the default parser, trace of inline actions with the spec (reach order, last capture).')
    ctx.coverage['distinct_nontrivial'] = by.get('n', {}).get('trace_nonempty', 0) + by.get('in', {}).get('trace_nonempty', 0)
    ctx.assumptions.append('-switch combinations of -noast are covered by C02\'s switch tie once the optimiser model is in place')


def c11(ctx):
    ctx.proofs(['PegVerif.Props.C11Err', 'PegVerif.Props.C11'])
    sw, by = core(ctx, [''], ['v', 'max', 'err'], note='Non-trivial = rejected with a non-empty furthest token (message, line/column and quoted text compared).')
    ctx.coverage['distinct_nontrivial'] = by.get('d', {}).get('fail_with_max', 0)
    errx(ctx)


def errx(ctx):
    """T-err: translatePositions / Error() of the current template vs the Lean functions."""
    T = ctx.T()
    work = L.scratch('errx-')
    env = dict(L.GOENV, REPO=L.REPO, ROOT=VERIF, WORK=work)
    p = subprocess.run(['sh', os.path.join(VERIF, 'harness', 'cmd', 'errx', 'check.sh'), ctx.tier, str(ctx.seed)],
                       env=env, capture_output=True, text=True)
    ctx.coverage['t_err'] = (p.stdout.strip().splitlines() or [''])[-1][:300]
    if p.returncode == 1:
        diff = ''
        try:
            diff = open(os.path.join(work, 'diff.txt')).read()[:3000]
        except OSError:
            pass
        ctx.add('spec', 'T-err', 'translatePositions/Error() of the template differs from the proved model (which equals the line/column specification): ' + p.stdout[-400:],
                {'diff_real_vs_model': diff, 'rerun': 'harness/cmd/errx/check.sh %s %d' % (ctx.tier, ctx.seed)})
    elif p.returncode != 0:
        raise RuntimeError('errx set-up failed: ' + p.stdout[-500:] + p.stderr[-1500:])


def c02(ctx):
    ctx.proofs(['PegVerif.Props.C02'])
    sw, by = core(ctx, ['i'], ['v', 'toks'], cross='opts', note='-inline against the default parser of the same grammar.')
    ctx.coverage['distinct_nontrivial'] = by.get('i', {}).get('ok', 0)
    ctx.assumptions.append('-switch tie pending the optimiser model (see DESIGN.md)')


def go_tool(ctx, name):
    """Build harness/cmd/<name> against the current /repo into the cache dir."""
    T = ctx.T()
    out = os.path.join(T.dir, name)
    if not os.path.exists(out):
        L.sh(['go', 'build', '-o', out, './cmd/' + name], cwd=os.path.join(VERIF, 'harness'))
    return out


def c16(ctx):
    ctx.proofs(['PegVerif.Props.C16'])
    T = ctx.T()
    setx = go_tool(ctx, 'setx')
    work = L.scratch('setx-')
    cases = os.path.join(work, 'cases')
    with open(cases, 'w') as fh:
        p = subprocess.run([setx, 'gen', '-tier', ctx.tier, '-seed', str(ctx.seed)], stdout=fh, stderr=subprocess.PIPE, text=True)
    if p.returncode != 0:
        raise RuntimeError('setx gen failed: ' + p.stderr[-500:])
    try:
        stats = json.loads(p.stderr)
    except ValueError:
        stats = {'raw': p.stderr[-500:]}
    with open(cases) as fh:
        real = subprocess.run([setx, 'run', '-watch'], stdin=fh, capture_output=True, text=True, timeout=3600)
    with open(cases) as fh:
        model = subprocess.run([T.pegmodel, 'set'], stdin=fh, capture_output=True, text=True, timeout=3600)
    rl, ml = real.stdout.splitlines(), model.stdout.splitlines()
    cl = open(cases).read().splitlines()
    n = len(cl)
    ndiff = 0
    if len(rl) != n or len(ml) != n:
        ctx.add('model', 'T-set', 'line count differs: cases=%d real=%d model=%d (%s)' % (n, len(rl), len(ml), (real.stderr or model.stderr)[-200:]), {})
    for i in range(min(n, len(rl), len(ml))):
        if rl[i] != ml[i]:
            ndiff += 1
            if ndiff <= 5:
                ctx.add('spec', 'T-set', 'set package differs from the proved set-of-integers model on case %r' % cl[i],
                        {'case': cl[i], 'real': rl[i], 'model': ml[i], 'rerun': 'echo %r | harness setx run' % cl[i]})
    ctx.coverage.update({
        'evaluations': n,
        'distinct_nontrivial': max((stats.get('cases_with') or {'x': 0}).values()),
        'exhaustive': True,
        'rule': 'exhaustive: every pair of insertion sequences (A,B) with |A|+|B| <= %s over a small universe, every limit, every probe; plus seeded random long sequences incl. values near 0, the limit and 2^31-2. '
                'Per case: structure after every insertion, Has for every probe, Len, String, Copy, Union (both orders), Intersects, Complement(limit), Equal, operand-unchanged and link-consistency checks. '
                'Non-trivial = the case contains an overlapping, adjacent or nested insertion.' % ('4' if ctx.tier == 'thorough' else '3'),
        'samples': cl[:2] + cl[n // 2:n // 2 + 2],
        'input_distribution': stats,
        'differing_cases': ndiff,
    })


def c18(ctx):
    ctx.proofs(['PegVerif.Props.C18'])
    T = ctx.T()
    clix = go_tool(ctx, 'clix')
    work = L.scratch('clix-')
    model = os.path.join(work, 'model.txt')
    with open(model, 'w') as fh:
        subprocess.run([T.pegmodel, 'cli'], input='ALL\n', stdout=fh, text=True, check=True)
    obs = os.path.join(work, 'observed.txt')
    p = subprocess.run([clix, '-peg', T.peg, '-tier', ctx.tier, '-seed', str(ctx.seed), '-model', model, '-obs', obs],
                       capture_output=True, text=True, timeout=7200)
    summary = {}
    for chunk in (p.stderr, p.stdout):
        i = chunk.rfind('\n{')
        try:
            summary = json.loads(chunk[i + 1:] if i >= 0 else chunk)
            break
        except ValueError:
            continue
    nscen = sum(1 for _ in open(model))
    nobs = sum(1 for _ in open(obs)) if os.path.exists(obs) else 0
    if p.returncode == 1:
        ctx.add('spec', 'T-cli', 'the peg binary behaves differently from the CLI model (for which exit 0 => complete parser is proved over the whole table): ' + p.stdout[-1200:],
                {'clix_output': p.stdout[-6000:], 'rerun': 'harness/cmd/clix/check.sh %s %d' % (ctx.tier, ctx.seed)})
    elif p.returncode != 0:
        raise RuntimeError('clix failed (%d): %s' % (p.returncode, (p.stderr or p.stdout)[-1500:]))
    samples = []
    if os.path.exists(obs):
        with open(obs) as fh:
            for i, l in enumerate(fh):
                if i % max(1, nobs // 4) == 0 and len(samples) < 4:
                    samples.append(l.strip())
    ctx.coverage.update({
        'evaluations': nobs, 'distinct_nontrivial': nscen, 'exhaustive': True,
        'rule': 'every abstract scenario of the finite table (source x grammar class x destination x strict x option set x mode) realised by >= %d concrete representatives '
                '(different grammar texts, file names, relative/absolute paths, permission faults via an unprivileged uid, /dev/full, strace-injected close errors); '
                'observed exit status, stderr non-empty, destination state (nothing / truncated / raw invalid / complete = parses as Go and equals the stdout-mode output); '
                'non-trivial = distinct abstract scenarios' % (10 if ctx.tier == 'thorough' else 3),
        'samples': samples, 'input_distribution': summary,
    })


PROPS = {'C01': c01, 'C16': c16, 'C18': c18, 'C02': c02, 'C03': c03, 'C04': c04, 'C05': c05, 'C06': c06, 'C07': c07, 'C11': c11}


def replay(ctx, path):
    with open(path) as fh:
        r = json.load(fh)
    print(json.dumps(r, indent=1, ensure_ascii=False)[:4000])
    return 0
