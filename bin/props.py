"""Per-property check logic (see bin/check)."""
import json
import os
import re
import subprocess
import sys
import time

import peglib as L
import sweep as S
import lifecycle as LC

VERIF = L.VERIF
ALLOWED_AXIOMS = {'propext', 'Classical.choice', 'Quot.sound'}
FORBIDDEN = re.compile(r'\b(sorry|admit|native_decide|bv_decide|implemented_by)\b|^\s*axiom\s|^\s*unsafe\s|maxHeartbeats\s+0', re.M)

TRUSTED_BASE = [
    'Lean 4.33.0 kernel (theorems re-elaborated on every run; leanchecker in the thorough tier)',
    'axioms allowed: propext, Classical.choice, Quot.sound (audited with #print axioms on every property theorem)',
    'tie: harness/pegx (go/ast extraction of the emitted Go into the model IR, fails closed) and the differential runners',
    'Go semantics of the ~25 emitted statement shapes, slices as values, maps as association lists (validated by T-run, not proved)',
]


def load_known():
    p = os.path.join(VERIF, 'known_findings.json')
    if not os.path.exists(p):
        return []
    with open(p) as fh:
        return json.load(fh)


class Ctx:
    def __init__(self, pid, tier, seed):
        self.pid = pid
        self.tier = tier
        self.seed = seed
        self.dis = []           # disagreements: dict(kind=spec|model|proof, tie=..., what=..., replay={...})
        self.obligations = []   # (theorem, axioms)
        self.proof_errors = []
        self.coverage = {}
        self.assumptions = []
        self.harness_error = None
        self.tools = None
        self.checker_cmds = []
        self.known = [k for k in load_known() if k.get('property') == pid and k.get('status') == 'open']
        self.known_hits = {}

    # -- tools ----------------------------------------------------------------------------------
    def T(self):
        if self.tools is None:
            self.tools = L.Tools(need_lean=True)
        return self.tools

    # -- proofs ---------------------------------------------------------------------------------
    def proofs(self, modules):
        """Build and re-elaborate the given Props modules; audit axioms and forbidden constructs."""
        lean = L.LEAN
        for m in modules:
            path = os.path.join(lean, *m.split('.')) + '.lean'
            self.checker_cmds.append('cd lean && lake build %s && lake env lean %s' % (m, os.path.relpath(path, lean)))
            rel = os.path.relpath(path, lean)
            try:
                out = self.T().lake_build([m])
            except L.LeanBuildError as e:
                errs = [l for l in e.output.splitlines() if 'error' in l.lower()][:12]
                self.proof_errors.append({'module': m, 'errors': errs})
                self.dis.append({'kind': 'proof', 'tie': 'lake build %s' % m,
                                 'what': 'proof obligation no longer checks: %s' % ('; '.join(errs)[:600]),
                                 'replay': {'module': m, 'output': e.output[-6000:]}})
                continue
            # lake replays the messages of an up-to-date module, so the `#print axioms` lines are in `out`;
            # the thorough tier re-elaborates the file and runs the independent checker as well
            mine = [l for l in out.splitlines() if rel in l]
            if self.tier == 'thorough' or not any('axioms' in l for l in mine):
                p = subprocess.run(['lake', 'env', 'lean', rel], cwd=lean, capture_output=True, text=True)
                if p.returncode != 0:
                    self.dis.append({'kind': 'proof', 'tie': 'lean %s' % m, 'what': 'elaboration failed: ' + (p.stdout + p.stderr)[-600:],
                                     'replay': {'module': m, 'output': (p.stdout + p.stderr)[-6000:]}})
                    continue
                mine = (p.stdout + p.stderr).splitlines()
            if self.tier == 'thorough':
                p = subprocess.run(['lake', 'env', 'leanchecker', m], cwd=lean, capture_output=True, text=True)
                self.coverage.setdefault('leanchecker', {})[m] = 'ok' if p.returncode == 0 else (p.stdout + p.stderr)[-300:]
                if p.returncode != 0:
                    self.dis.append({'kind': 'proof', 'tie': 'leanchecker %s' % m, 'what': (p.stdout + p.stderr)[-400:], 'replay': {'module': m}})
            out = '\n'.join(mine)
            for mm in re.finditer(r"'([^']+)' depends on axioms: \[([^\]]*)\]", out):
                axs = [x.strip() for x in mm.group(2).split(',') if x.strip()]
                self.obligations.append((mm.group(1), axs))
                extra = [x for x in axs if x not in ALLOWED_AXIOMS]
                if extra:
                    self.dis.append({'kind': 'proof', 'tie': 'axioms %s' % mm.group(1), 'what': 'unexpected axioms %s' % extra,
                                     'replay': {'theorem': mm.group(1), 'axioms': axs}})
            for mm in re.finditer(r"'([^']+)' does not depend on any axioms", out):
                self.obligations.append((mm.group(1), []))
            if 'sorry' in out:
                self.dis.append({'kind': 'proof', 'tie': 'lean %s' % m, 'what': 'declaration uses sorry', 'replay': {'module': m}})
        # forbidden constructs anywhere in the project sources
        for dp, dn, fn in os.walk(os.path.join(lean, 'PegVerif')):
            for f in fn:
                if f.endswith('.lean'):
                    src = open(os.path.join(dp, f)).read()
                    src = re.sub(r'/-.*?-/', '', src, flags=re.S)
                    src = re.sub(r'--.*', '', src)
                    m = FORBIDDEN.search(src)
                    if m:
                        self.dis.append({'kind': 'proof', 'tie': 'grep', 'what': 'forbidden construct %r in %s' % (m.group(0), f),
                                         'replay': {'file': f}})

    # -- disagreements --------------------------------------------------------------------------
    def add(self, kind, tie, what, replay):
        self.dis.append({'kind': kind, 'tie': tie, 'what': what, 'replay': replay})

    def match_known(self, d):
        for k in self.known:
            fn = KNOWN_MATCHERS.get(k.get('id'))
            if fn is not None and fn(d, k):
                return k
        return None

    # -- finish ---------------------------------------------------------------------------------
    def finish(self, wall):
        pid = self.pid
        viol_spec, viol_other = [], []
        for d in self.dis:
            k = self.match_known(d)
            if k is not None:
                self.known_hits.setdefault(k['id'], [k, 0])[1] += 1
                continue
            (viol_spec if d['kind'] == 'spec' else viol_other).append(d)
        for kid, (k, n) in sorted(self.known_hits.items()):
            print('KNOWN-FINDING: property=%s %s (%s; %d occurrence(s) this run)' % (pid, k['what'], kid, n))
        rc = 0
        rdir = os.path.join(VERIF, 'replays')
        if self.harness_error:
            print('HARNESS-ERROR property=%s %s' % (pid, self.harness_error))
            rc = 2
        if viol_spec:
            d = viol_spec[0]
            path = os.path.join(rdir, '%s-%s-%d.json' % (pid, self.tier, self.seed))
            L.write_json(path, {'property': pid, 'tie': d['tie'], 'what': d['what'], 'case': d['replay'],
                                'more': [{'tie': x['tie'], 'what': x['what']} for x in (viol_spec[1:6] + viol_other[:6])],
                                'rerun': 'bin/check %s --replay %s' % (pid, path)})
            print('VIOLATION property=%s replay=%s' % (pid, path))
            print('  %s: %s' % (d['tie'], d['what'][:400]))
            rc = 1
        elif viol_other:
            d = viol_other[0]
            path = os.path.join(rdir, '%s-%s-%d.json' % (pid, self.tier, self.seed))
            L.write_json(path, {'property': pid, 'broken': d['tie'], 'what': d['what'], 'detail': d['replay'],
                                'searched': self.coverage.get('search', 'the spec (evalF / reference functions) was compared with the real code on every case of this run; no disagreement'),
                                'more': [{'tie': x['tie'], 'what': x['what']} for x in viol_other[1:8]]})
            print('VIOLATION property=%s replay=%s no-failing-input-found' % (pid, path))
            print('  %s: %s' % (d['tie'], d['what'][:400]))
            rc = 1
        if rc == 0:     # a replay left by an earlier run on a different tree would be misleading
            try:
                os.remove(os.path.join(rdir, '%s-%s-%d.json' % (pid, self.tier, self.seed)))
            except OSError:
                pass
        cov = dict(self.coverage)
        nob = len(self.obligations) + len(self.proof_errors)
        cov.setdefault('obligations', max(nob, 0))
        cov.setdefault('discharged', len([o for o in self.obligations if set(o[1]) <= ALLOWED_AXIOMS]))
        cov.setdefault('checker_cmd', ' ; '.join(self.checker_cmds) or 'n/a')
        cov.setdefault('trusted_base', TRUSTED_BASE)
        cov['theorems'] = [{'name': n, 'axioms': a} for n, a in self.obligations]
        cov.setdefault('evaluations', 0)
        cov.setdefault('distinct_nontrivial', 0)
        cov['known_findings_hit'] = {k: v[1] for k, v in self.known_hits.items()}
        ev = {'property_id': pid, 'tier': self.tier, 'seed': self.seed, 'level': 'proof', 'coverage': cov,
              'assumptions': self.assumptions, 'wall_s': round(wall, 1), 'violations': len(viol_spec) + len(viol_other)}
        if self.harness_error:
            ev['harness_error'] = self.harness_error
        L.write_json(os.path.join(VERIF, 'evidence', pid + '.json'), ev)
        print('%s %s seed=%d: obligations=%d discharged=%d evaluations=%s violations=%d wall=%.0fs' % (
            pid, self.tier, self.seed, cov['obligations'], cov['discharged'], cov.get('evaluations'), ev['violations'], wall))
        return rc


# ---------------------------------------------------------------------------------------------
# known-finding matchers: predicate(disagreement, entry) -> bool.  Deliberately narrow.

KNOWN_MATCHERS = {}


def matcher(fid):
    def deco(fn):
        KNOWN_MATCHERS[fid] = fn
        return fn
    return deco


@matcher('F-C02-1')
def _m_c02_1(d, k):
    r = d.get('replay') or {}
    return (d['kind'] == 'spec' and d['tie'].startswith('T-run') and 's' in (r.get('opts') or '') and r.get('model_agrees') is True
            and r.get('switch_safe') is not True)


@matcher('F-C07-1')
def _m_c07_1(d, k):
    r = d.get('replay') or {}
    return (d['kind'] == 'spec' and d['tie'].startswith('T-run') and 's' in (r.get('opts') or '') and 'n' in (r.get('opts') or '')
            and r.get('model_agrees') is True and r.get('switch_safe') is not True)


@matcher('F-C08-3')
def _m_c08_3(d, k):
    r = d.get('replay') or {}
    return d['tie'] == 'go/parser' and 's' in (r.get('opts') or '') and r.get('model_predicts_nil_case') is True


@matcher('F-C08-2')
def _m_c08_2(d, k):
    r = d.get('replay') or {}
    err = r.get('error') or ''
    lines = [l for l in err.splitlines() if l.strip() and not l.startswith('#')]
    return (d['tie'] == 'go build' and 's' in (r.get('opts') or '') and r.get('model_predicts_unused_label') is True
            and len(lines) > 0 and all(re.search(r'label l\d+ defined and not used', l) for l in lines))


# ---------------------------------------------------------------------------------------------
# the core group: C01, C03, C04, C05, C06, C07, C11 (+ inline part of C02)

CORE_OPTSETS = ['', 'i', 'n', 'in']


SWITCH_OPTSETS = ['', 'n', 's', 'is', 'sn', 'isn']


def core(ctx, optsets_needed, fields, cross=None, note='', sweep='core', build_matters=False, cross_fields=None):
    """Shared logic: T-emit on the option sets the property depends on, T-run fields it observes."""
    T = ctx.T()
    sw = S.get_sweep(T, ctx.tier, ctx.seed, SWITCH_OPTSETS if sweep == 'switch' else CORE_OPTSETS, sweep)
    st = sw['stats']
    want = set(optsets_needed)
    for d in sw['emit_diffs']:
        if d['opts'] in want:
            ctx.add('model', 'T-emit/%s' % (d['opts'] or 'default'), 'emitted IR differs from the model generator: ' + d['diff'],
                    {'grammar': d['text'], 'opts': d['opts'], 'diff': d['diff']})
    for d in sw['front_problems']:
        if d['opts'] in want:
            # for C08 this IS the violation (an accepted grammar for which no valid Go comes out), with the grammar as the failing input
            ctx.add('spec' if build_matters else 'model', 'T-emit/front', 'real front end/generator failed on a generated well-formed grammar: %s' % json.dumps(d['resp'])[:300],
                    {'grammar': d['text'], 'opts': d['opts'], 'resp': d['resp']})
    nb = sum(1 for v in sw['vet_bad'].values() if v['opts'] in want) + sum(1 for d in sw.get('nilcase', []) if d['opts'] in want)
    ctx.coverage['emitted_files_that_do_not_compile (decided by C08)'] = ctx.coverage.get('emitted_files_that_do_not_compile (decided by C08)', 0) + nb
    for k, v in (sw['vet_bad'].items() if build_matters else []):
        if v['opts'] in want:
            ctx.add('spec', 'go build', 'emitted parser does not compile: ' + v['error'][:300],
                    {'grammar': v['text'], 'opts': v['opts'], 'error': v['error'],
                     'model_predicts_unused_label': bool(sw.get('model_unused_label', {}).get(k))})
    for d in (sw.get('nilcase', []) if build_matters else []):
        if d['opts'] in want:
            ctx.add('spec', 'go/parser', 'emitted file is not Go (empty case list): ' + (d.get('error') or '')[:200],
                    {'grammar': d['text'], 'opts': d['opts'], 'error': d.get('error'), 'model_predicts_nil_case': True})
    for d in sw['run_diffs']:
        if d['opts'] not in want:
            continue
        fs = [f for f in d.get('fields_spec', []) if f in fields]
        fm = [f for f in d.get('fields_model', []) if f in fields or f == 'error']
        rep = {'grammar': d['text'], 'opts': d['opts'], 'entry': d.get('entry'), 'memo': d.get('memo'), 'input': d.get('input'),
               'real': d.get('real'), 'model': d.get('model'), 'spec': d.get('spec'), 'case': d['k'],
               'model_agrees': not d.get('fields_model'),
               # the decidable hypothesis of C02_switch_same_as_default on this grammar ('s' programs only)
               'switch_safe': (sw.get('switch_hyps', {}).get(d['k'].split('|')[0]) or {}).get('switchSafe')}
        if fs:
            ctx.add('spec', 'T-run/spec', 'real parser disagrees with the PEG semantics on %s for input %r (entry %s, opts "%s")' % (
                fs, d.get('input'), d.get('entry'), d['opts']), rep)
        elif fm:
            ctx.add('model', 'T-run/model', 'real parser disagrees with the runtime model on %s for input %r' % (fm, d.get('input')), rep)
    for d in sw.get('cross', []):
        if cross and d['kind'] == cross and d['opts'] in want and [f for f in d['fields'] if f in (cross_fields or fields)]:
            ctx.add('spec', 'T-run/%s' % cross, 'real parser differs between %s on %s for input %r' % (
                'memoisation on/off' if cross == 'memo' else 'option sets "%s" and "%s"' % (d['opts'], d.get('base', '')), d['fields'], d['input']),
                {'grammar': d['text'], 'opts': d['opts'], 'entry': d['entry'], 'input': d['input'], 'a': d['a'], 'b': d['b'],
                 'model_agrees': d.get('model_agrees', False)})
    by = st.get('by_opts', {})
    ev = sum(by.get(o or 'd', {}).get('cases', 0) for o in want) + ctx.coverage.get('evaluations', 0)
    prev_dist = ctx.coverage.get('input_distribution')
    prev_tcov = ctx.coverage.get('theorem_coverage_by_option_set')
    ctx.coverage.update({
        'evaluations': ev,
        'programs_compared_T_emit': st.get('programs', 0) + ctx.coverage.get('programs_compared_T_emit', 0),
        'rule': 'random well-formed grammars (type-directed generator, seed %d) + exhaustive enumeration of one-rule grammars with <= %d operator nodes over {a,b}; '
                'inputs: all strings of length <= 3 over {a,b,c} (<= 4 over {a,b} for enumerated grammars), strings sampled from the grammar, their mutations, random strings; '
                'every rule as entry point; memoisation on and off; every third case is the second use of its parser object (another input parsed first, then Buffer/Reset/Parse). ' % (ctx.seed, (S.THOROUGH if ctx.tier == 'thorough' else S.QUICK)['enum_k']) + note,
        'samples': st.get('samples', [])[:3],
        'input_distribution': {'operators': st.get('ops'), 'grammar_kinds': st.get('kinds'), 'by_option_set': {o: by.get(o or 'd') for o in want},
                               'second_use_cases': st.get('second_use_cases')},
        'sweep_wall_s': st.get('wall_s'),
        'theorem_hypotheses_on_sweep_grammars': st.get('theorem_hypotheses'),
    })
    tcov = dict(prev_tcov or {})
    tcov.update({o or 'd': (st.get('theorem_coverage') or {}).get(o or 'd') for o in want})
    ctx.coverage['theorem_coverage_by_option_set'] = tcov
    if prev_dist:
        ctx.coverage['input_distribution_' + sweep] = ctx.coverage['input_distribution']
        ctx.coverage['input_distribution'] = prev_dist
    if sweep == 'switch':
        sh = sw.get('switch_hyps', {})
        # the hypothesis of the -switch theorems must hold on every program the real optimiser produced: where it does not,
        # the property is no longer shown to hold for that program (reported with no-failing-input-found unless T-run finds one)
        texts = sw.get('texts', {})
        for rid, h in sorted(sh.items()):
            o = rid.rsplit('_', 1)[1]
            if o not in want:
                continue
            if h.get('swOK') is False or (h.get('switchSafe') is False and h.get('base_ok') is not False):
                ctx.add('model', 'switchSafe', 'the decidable hypothesis of the -switch end-to-end theorem (%s) fails on the optimiser output for program %s' % (
                    'swOK' if h.get('swOK') is False else h.get('theorem_hyp'), rid), {'program': rid, 'opts': o, 'hyps': h, 'grammar': texts.get(rid)})
        ctx.coverage['switch_sweep'] = {'nil_case_outputs': len(sw.get('nilcase', [])), 'slow_generations_skipped': len(sw.get('slow', [])),
                                        'theorem_hypotheses_switch': st.get('switch_hypotheses'),
                                        'spec_disagreements_on_switchSafe_programs': sum(
                                            1 for d in sw['run_diffs'] if d.get('fields_spec') and (sh.get(d['k'].split('|')[0]) or {}).get('switchSafe')),
                                        'spec_disagreements_reproduced_by_model': sum(1 for d in sw['run_diffs'] if d.get('fields_spec') and not d.get('fields_model'))}
    return sw, by


def c01(ctx):
    ctx.proofs(['PegVerif.Props.C01', 'PegVerif.Props.AllOptions'])
    sw, by = core(ctx, [''], ['v', 'toks'], note='Non-trivial = accepted (a prefix was consumed and its end offset compared).')
    ctx.coverage['distinct_nontrivial'] = by.get('d', {}).get('ok', 0)


def c03(ctx):
    ctx.proofs(['PegVerif.Props.C03'])
    sw, by = core(ctx, [''], ['toks'], note='Non-trivial = accepted with at least 3 recorded tokens.')
    ctx.coverage['distinct_nontrivial'] = by.get('d', {}).get('ok_multi_tok', 0)


def c04(ctx):
    ctx.proofs(['PegVerif.Props.C04Exec', 'PegVerif.Props.C04'])
    sw, by = core(ctx, [''], ['trace'], note='Non-trivial = the probe-action trace after Execute() is non-empty.')
    ctx.coverage['distinct_nontrivial'] = by.get('d', {}).get('trace_nonempty', 0)


def c05(ctx):
    ctx.proofs(['PegVerif.Props.C05Ast', 'PegVerif.Props.C05'])
    sw, by = core(ctx, [''], ['tree', 'ast'], note='Non-trivial = accepted with an AST of depth >= 3.')
    ctx.coverage['distinct_nontrivial'] = by.get('d', {}).get('nested_ast', 0)
    ctx.coverage['evaluations'] = ctx.coverage.get('evaluations', 0) + c05_deep(ctx)


def c05_deep(ctx):
    """Deep derivation trees (the sweeps' trees are at most a few levels deep): nested parentheses, right recursion and a chain of
    rules, up to depth 70 — SprintSyntaxTree (indentation per level) and the AST walk of the real parser against the Lean model
    and the PEG semantics."""
    T = ctx.T()
    hdr = 'package g\n\ntype P Peg {\n Trace string\n STrace string\n}\n\n'
    gs = {
        'parens': (hdr + "R0 <- E !.\nE <- '(' E ')' / <'x'>\n", ['(' * d + 'x' + ')' * d for d in list(range(0, 24)) + [31, 32, 33, 47, 48, 49, 63, 64, 65, 70]]),
        'rightrec': (hdr + "R0 <- L !.\nL <- 'a' L / 'b'\n", ['a' * d + 'b' for d in list(range(0, 24)) + [31, 32, 33, 48, 64, 65]]),
        'chain': (hdr + ''.join('R%d <- R%d\n' % (i, i + 1) for i in range(0, 40)) + "R40 <- 'a' R0? / 'b'\n", ['b', 'ab', 'aab', 'aaab']),
    }
    reqs = [{'id': 'deep_' + k, 'text': v[0], 'opts': '', 'compile': True, 'src': True, 'tree': True} for k, v in gs.items()]
    real = T.run_pegx_parallel(reqs)
    M = L.RunModule()
    for r, x in zip(reqs, real):
        if x.get('compiled'):
            M.add(r['id'], x['go'], True)
    good = set(M.build(exclude=M.vet()))
    cases, mreq = [], []
    for r, x in zip(reqs, real):
        if r['id'] not in good:
            ctx.add('model', 'T-run/deep', 'the deep-tree grammar %s did not build' % r['id'], {'grammar': r['text']})
            continue
        lst = []
        for ii, s in enumerate(gs[r['id'][5:]][1]):
            k = '%s|%d' % (r['id'], ii)
            cases.append({'pkg': r['id'], 'k': k, 'entry': 'R0', 'memo': True, 'b64': L.b64(s)})
            lst.append({'k': k, 'entry': 'R0', 'memo': True, 'bytes': L.bytes_of(s), 'spec': True})
        mreq.append({'id': r['id'], 'tree': x['tree'], 'opts': '', 'cases': lst})
    robs = M.run(cases)
    n = deepest = 0
    for m in T.run_model('run', mreq):
        for ob in m.get('obs', []):
            ro = robs.get(ob['k']) or {'v': 'missing'}
            n += 1
            depth = max([len(l) - len(l.lstrip(' ')) for l in (ro.get('tree') or '').split('\n')] + [0])
            deepest = max(deepest, depth)
            for which in ('model', 'spec'):
                if which == 'spec' and ob['spec'].get('v') == 'nofuel':
                    continue
                d = [f for f in L.obs_equal(ro, ob[which], True) if f in ('v', 'tree', 'ast', 'toks')]
                if d:
                    gid, ii = ob['k'].split('|')
                    ctx.add('spec' if which == 'spec' else 'model', 'T-run/deep-' + which, 'real parser differs from the %s on %s for a deep derivation (input %r)' % (
                        which, d, gs[gid[5:]][1][int(ii)][:80]), {'grammar': gs[gid[5:]][0], 'input': gs[gid[5:]][1][int(ii)], 'real_tree': (ro.get('tree') or '')[-600:],
                                                                   which + '_tree': (ob[which].get('tree') or '')[-600:]})
    ctx.coverage['deep_trees'] = {'cases': n, 'deepest_indentation_columns': deepest}
    L.cleanup()
    return n


def c06(ctx):
    ctx.proofs(['PegVerif.Props.C06'])
    sw, by = core(ctx, [''], ['v', 'toks', 'max', 'err'], cross='memo',
                  note='Every case is run with memoisation on and off and the two real observations are compared with each other, with the model and with the spec.')
    ctx.coverage['distinct_nontrivial'] = sw['stats'].get('memo_pairs', 0) // 4
    ctx.coverage['memo_pairs_compared'] = sw['stats'].get('memo_pairs', 0)


def c02_shipped(ctx):
    """The decidable hypotheses of C01_wellformed and C02_switch_same_as_default evaluated on the SHIPPED grammars (the property's
    quantifier names them): where they hold, the theorems apply to the parser peg generates for that grammar (tied by T-emit)."""
    T = ctx.T()
    import lifecycle as LC
    names = ['peg', 'calculator', 'calculatorast', 'fexl', 'long'] + (['c', 'java'] if ctx.tier == 'thorough' else [])
    reqs = []
    for name, path, support, _ in LC.SHIPPED:
        if name in names:
            for o in ('', 's'):
                reqs.append({'id': '%s_%s' % (name, o or 'd'), 'text': open(os.path.join(L.REPO, path)).read(), 'opts': o, 'tree': True, 'compile': True, 'ir': True, 'name': name})
    real = T.run_pegx_parallel(reqs, timeout=600)
    mreqs = [{'id': r['id'], 'tree': x['tree'], 'opts': r['opts']} for r, x in zip(reqs, real) if x.get('tree')]
    model = {m['id']: m for m in T.run_model('emit', mreqs, jobs=len(mreqs))}
    out = {}
    for r, x in zip(reqs, real):
        m = model.get(r['id']) or {}
        h = m.get('hyps') or {}
        base = all(h.get(k) for k in ('wfb', 'grammarOK', 'linkedOK', 'plain'))
        out[r['id']] = {'default_theorem_hypotheses': base, 'switchSafe': h.get('switchSafe'), 'rewritten': h.get('rewritten')} if r['opts'] else {'default_theorem_hypotheses': base}
        if x.get('ir') and m.get('rules') is not None:
            d = L.ir_diff(x['ir'], m) or L.header_diff(x['ir']['header'], m.get('header'), r['opts'])
            out[r['id']]['T_emit_equal'] = d is None
            if d:
                ctx.add('model', 'T-emit/shipped', 'emitted program for the shipped grammar %s (opts "%s") differs from the model generator: %s' % (r['name'], r['opts'], d[:300]),
                        {'grammar_file': r['name'], 'opts': r['opts'], 'diff': d})
        if not base or (r['opts'] == 's' and h.get('switchSafe') is False):
            ctx.add('model', 'switchSafe' if base else 'hypotheses', 'the decidable hypotheses of the end-to-end theorem fail on the shipped grammar %s (opts "%s"): %s' % (r['name'], r['opts'], h),
                    {'grammar_file': r['name'], 'opts': r['opts'], 'hyps': h})
    ctx.coverage['shipped_grammars_theorem_hypotheses'] = out


def c07(ctx):
    ctx.proofs(['PegVerif.Props.C07', 'PegVerif.Props.C07Switch', 'PegVerif.Props.C07Inline'])
    sw, by = core(ctx, ['n', 'in'], ['v', 'trace'], cross='opts',
                  note='-noast and -noast -inline parsers; verdict compared with the default parser, trace of inline actions with the spec (reach order, last capture).')
    n1 = by.get('n', {}).get('trace_nonempty', 0) + by.get('in', {}).get('trace_nonempty', 0)
    # with -switch the dispatch does not enter alternatives that cannot match the next symbol, so the inline actions REACHED
    # differ from those of the plain -noast parser: the trace is compared with the reach-order spec of the rewritten grammar,
    # and across option sets only the verdict (what the property states)
    sw2, by2 = core(ctx, ['sn', 'isn'], ['v', 'trace'], cross='opts', sweep='switch', cross_fields=['v'],
                    note='-noast with -switch / -inline -switch: verdict against the default parser and the semantics of the original grammar; '
                         'inline-action trace against the reach-order trace of the rewritten grammar.')
    ctx.coverage['distinct_nontrivial'] = n1 + by2.get('sn', {}).get('trace_nonempty', 0) + by2.get('isn', {}).get('trace_nonempty', 0)


def c11(ctx):
    ctx.proofs(['PegVerif.Props.C11Err', 'PegVerif.Props.C11'])
    sw, by = core(ctx, [''], ['v', 'max', 'err'], note='Non-trivial = rejected with a non-empty furthest token (message, line/column and quoted text compared).')
    ctx.coverage['distinct_nontrivial'] = by.get('d', {}).get('fail_with_max', 0)
    errx(ctx)


def errx(ctx):
    """T-err: translatePositions / Error() of the current template vs the Lean functions."""
    T = ctx.T()
    work = L.scratch('errx-')
    env = dict(L.GOENV, REPO=L.REPO, ROOT=VERIF, WORK=work)
    p = subprocess.run(['sh', os.path.join(VERIF, 'harness', 'cmd', 'errx', 'check.sh'), ctx.tier, str(ctx.seed)],
                       env=env, capture_output=True, text=True)
    ctx.coverage['t_err'] = (p.stdout.strip().splitlines() or [''])[-1][:300]
    if p.returncode == 1:
        diff = ''
        try:
            diff = open(os.path.join(work, 'diff.txt')).read()[:3000]
        except OSError:
            pass
        ctx.add('spec', 'T-err', 'translatePositions/Error() of the template differs from the proved model (which equals the line/column specification): ' + p.stdout[-400:],
                {'diff_real_vs_model': diff, 'rerun': 'harness/cmd/errx/check.sh %s %d' % (ctx.tier, ctx.seed)})
    elif p.returncode != 0:
        raise RuntimeError('errx set-up failed: ' + p.stdout[-500:] + p.stderr[-1500:])


def c02(ctx):
    ctx.proofs(['PegVerif.Props.C02', 'PegVerif.Props.C02Switch', 'PegVerif.Props.C02InlineSwitch'])
    sw, by = core(ctx, ['i'], ['v', 'toks'], cross='opts', note='-inline against the default parser of the same grammar.')
    n1 = by.get('i', {}).get('ok', 0)
    sw2, by2 = core(ctx, ['s', 'is'], ['v', 'toks'], cross='opts', sweep='switch',
                    note='-switch and -inline -switch on switch-shaped grammars (>= 3-way choices with nullable, lookahead-first, range-first, nested alternatives).')
    ctx.coverage['distinct_nontrivial'] = n1 + by2.get('s', {}).get('ok', 0) + by2.get('is', {}).get('ok', 0)
    c02_shipped(ctx)


def go_tool(ctx, name):
    """Build harness/cmd/<name> against the current /repo into the cache dir."""
    T = ctx.T()
    out = os.path.join(T.dir, name)
    if not os.path.exists(out):
        L.sh(['go', 'build', '-o', out, './cmd/' + name], cwd=os.path.join(VERIF, 'harness'))
    return out


def c16(ctx):
    ctx.proofs(['PegVerif.Props.C16'])
    T = ctx.T()
    setx = go_tool(ctx, 'setx')
    work = L.scratch('setx-')
    cases = os.path.join(work, 'cases')
    with open(cases, 'w') as fh:
        p = subprocess.run([setx, 'gen', '-tier', ctx.tier, '-seed', str(ctx.seed)], stdout=fh, stderr=subprocess.PIPE, text=True)
    if p.returncode != 0:
        raise RuntimeError('setx gen failed: ' + p.stderr[-500:])
    try:
        stats = json.loads(p.stderr)
    except ValueError:
        stats = {'raw': p.stderr[-500:]}
    with open(cases) as fh:
        real = subprocess.run([setx, 'run', '-watch'], stdin=fh, capture_output=True, text=True, timeout=3600)
    with open(cases) as fh:
        model = subprocess.run([T.pegmodel, 'set'], stdin=fh, capture_output=True, text=True, timeout=3600)
    rl, ml = real.stdout.splitlines(), model.stdout.splitlines()
    cl = open(cases).read().splitlines()
    n = len(cl)
    ndiff = 0
    if len(rl) != n or len(ml) != n:
        ctx.add('model', 'T-set', 'line count differs: cases=%d real=%d model=%d (%s)' % (n, len(rl), len(ml), (real.stderr or model.stderr)[-200:]), {})
    for i in range(min(n, len(rl), len(ml))):
        if rl[i] != ml[i]:
            ndiff += 1
            if ndiff <= 5:
                ctx.add('spec', 'T-set', 'set package differs from the proved set-of-integers model on case %r' % cl[i],
                        {'case': cl[i], 'real': rl[i], 'model': ml[i], 'rerun': 'echo %r | harness setx run' % cl[i]})
    ctx.coverage.update({
        'evaluations': n,
        'distinct_nontrivial': max((stats.get('cases_with') or {'x': 0}).values()),
        'exhaustive': True,
        'rule': 'exhaustive: every pair of insertion sequences (A,B) with |A|+|B| <= %s over a small universe, every limit, every probe; plus seeded random long sequences incl. values near 0, the limit and 2^31-2. '
                'Per case: structure after every insertion, Has for every probe, Len, String, Copy, Union (both orders), Intersects, Complement(limit), Equal, operand-unchanged and link-consistency checks. '
                'Non-trivial = the case contains an overlapping, adjacent or nested insertion.' % ('4' if ctx.tier == 'thorough' else '3'),
        'samples': cl[:2] + cl[n // 2:n // 2 + 2],
        'input_distribution': stats,
        'differing_cases': ndiff,
    })


def c18(ctx):
    ctx.proofs(['PegVerif.Props.C18'])
    T = ctx.T()
    clix = go_tool(ctx, 'clix')
    work = L.scratch('clix-')
    model = os.path.join(work, 'model.txt')
    with open(model, 'w') as fh:
        subprocess.run([T.pegmodel, 'cli'], input='ALL\n', stdout=fh, text=True, check=True)
    obs = os.path.join(work, 'observed.txt')
    p = subprocess.run([clix, '-peg', T.peg, '-tier', ctx.tier, '-seed', str(ctx.seed), '-model', model, '-obs', obs],
                       capture_output=True, text=True, timeout=7200)
    summary = {}
    for chunk in (p.stderr, p.stdout):
        i = chunk.rfind('\n{')
        try:
            summary = json.loads(chunk[i + 1:] if i >= 0 else chunk)
            break
        except ValueError:
            continue
    nscen = sum(1 for _ in open(model))
    nobs = sum(1 for _ in open(obs)) if os.path.exists(obs) else 0
    if p.returncode == 1:
        ctx.add('spec', 'T-cli', 'the peg binary behaves differently from the CLI model (for which exit 0 => complete parser is proved over the whole table): ' + p.stdout[-1200:],
                {'clix_output': p.stdout[-6000:], 'rerun': 'harness/cmd/clix/check.sh %s %d' % (ctx.tier, ctx.seed)})
    elif p.returncode != 0:
        raise RuntimeError('clix failed (%d): %s' % (p.returncode, (p.stderr or p.stdout)[-1500:]))
    samples = []
    if os.path.exists(obs):
        with open(obs) as fh:
            for i, l in enumerate(fh):
                if i % max(1, nobs // 4) == 0 and len(samples) < 4:
                    samples.append(l.strip())
    ctx.coverage.update({
        'evaluations': nobs, 'distinct_nontrivial': nscen, 'exhaustive': True,
        'rule': 'every abstract scenario of the finite table (source x grammar class x destination x strict x option set x mode) realised by >= %d concrete representatives '
                '(different grammar texts, file names, relative/absolute paths, permission faults via an unprivileged uid, /dev/full, strace-injected close errors); '
                'observed exit status, stderr non-empty, destination state (nothing / truncated / raw invalid / complete = parses as Go and equals the stdout-mode output); '
                'non-trivial = distinct abstract scenarios' % (10 if ctx.tier == 'thorough' else 3),
        'samples': samples, 'input_distribution': summary,
    })


def c08(ctx):
    ctx.proofs(['PegVerif.Props.C08'])
    sw, by = core(ctx, ['', 'i', 'n', 'in'], [], build_matters=True,
                  note='C08: every emitted file is parsed, type-checked and compiled by `go build`; peg itself runs go/parser + go/printer on its output.')
    sw2, by2 = core(ctx, ['s', 'is', 'sn', 'isn'], [], sweep='switch', build_matters=True, note='the four -switch option sets.')
    ctx.coverage['distinct_nontrivial'] = ctx.coverage.get('programs_compared_T_emit', 0)
    c08_extra(ctx)


def c08_extra(ctx):
    """Grammars outside the random generator: many rules, user imports, header comments, odd literals, comments in code."""
    T = ctx.T()
    cases = []

    def add(name, text):
        cases.append((name, text))
    hdr = 'package g\n\ntype P Peg {\n Trace string\n STrace string\n}\n\n'
    # 254…257: the boundary of the one-byte rule-constant type (the constants, ruleUnknown included, must fit)
    for n in ([254, 255, 256, 257, 300, 1200] if ctx.tier == 'quick' else [254, 255, 256, 257, 300, 1200, 3000, 8000]):      # (tens of thousands of rules give a ~100 MB Go file that the Go compiler needs more than an hour for: out of reach of a check)
        rules = ['R0 <- ' + ' / '.join('R%d' % i for i in range(1, n, 50))]       # the heads of the chains: every rule is reachable
        for i in range(1, n):
            # chains of at most 50 rules: with -inline a chain is compiled as nested blocks, and go/parser refuses more than
            # 100000 levels of nesting (a resource limit of the Go toolchain, outside the property)
            nxt = ' R%d?' % (i + 1) if (i + 1 < n and i % 50 != 0) else ''
            rules.append("R%d <- 'a%s'%s" % (i, chr(98 + i % 20), nxt))
        add('rules%d' % n, hdr + '\n'.join(rules) + '\n')
    # more than 255 rule names, fewer than 256 of them reachable: the rule-constant type must follow the names
    rules = ['R0 <- ' + ' / '.join('R%d' % i for i in range(1, 60))]
    for i in range(1, 300):
        rules.append("R%d <- 'a%s'" % (i, chr(98 + i % 20)))
    add('rules300_mostly_unused', hdr + '\n'.join(rules) + '\n')
    add('import_plain', 'package g\n\nimport "strings"\n\ntype P Peg {\n Trace string\n STrace string\n}\n\nR0 <- <\'a\'+> { p.Trace += strings.ToUpper(text) }\n')
    add('import_alias', 'package g\n\nimport str "strings"\n\ntype P Peg {\n Trace string\n STrace string\n}\n\nR0 <- <\'a\'+> { p.Trace += str.ToUpper(text) }\n')
    add('import_group', 'package g\n\nimport (\n"strings"\n"unicode"\n)\n\ntype P Peg {\n Trace string\n STrace string\n}\n\nR0 <- <.> { if unicode.IsLetter([]rune(text)[0]) { p.Trace += strings.ToUpper(text) } }\n')
    # a reversed range matches nothing; with -switch the first-character analysis used to insert it into the interval set
    add('reversed_range', hdr + "R0 <- ([z-a] 'q' / 'd' 'x' / 'e' 'y') !.\n")
    add('import_alias_runtime', 'package g\n\nimport sc "strconv"\n\ntype P Peg {\n Trace string\n STrace string\n}\n\nR0 <- <.> { p.Trace += sc.Itoa(len(text)) }\n')
    add('import_dup_runtime', 'package g\n\nimport "fmt"\n\ntype P Peg {\n Trace string\n STrace string\n}\n\nR0 <- <.> { p.Trace += fmt.Sprint(text) }\n')
    add('header_comments', '# a header comment\n// another one\n\n\npackage g\n\ntype P Peg {\n Trace string\n STrace string\n}\n\nR0 <- \'a\' R1 # trailing\n// between\nR1 <- \'b\'\n')
    add('odd_literals', hdr + "R0 <- '\\0x00' '\\t' '\\\\' '\\'' \"\\\"\" '\\0x7f' '\\0x80' '\\0xfffd' '\\0x10FFFF' 'é' '汉' [\\]\\[\\-] [\\0x00-\\0x1f] '*/' '/*' '`'\n")
    add('comment_in_action', hdr + "R0 <- 'a' { /* c */ p.Trace += \"x\" } &{ true /* c */ } 'b' { // line\n p.Trace += \"y\" }\n")
    add('braces_in_action', hdr + "R0 <- 'a' { if true { p.Trace += \"{}\" } }\n")
    reqs = []
    for name, text in cases:
        for o in L.OPTSETS:
            if name.startswith('rules') and ('s' in o) and int(re.match(r'rules(\d+)', name).group(1)) > 1200:
                continue
            reqs.append({'id': '%s_%s' % (name, o or 'd'), 'text': text, 'opts': o, 'compile': True, 'src': True, 'tree': True, 'name': name})
    real = T.run_pegx_parallel(reqs, timeout=600 if ctx.tier == 'quick' else 3600)      # (the 70000-rule grammars take minutes on a loaded machine)
    M = L.RunModule()
    for r, x in zip(reqs, real):
        if x.get('timeout'):
            # a huge grammar that is merely slow is not a verdict; a SMALL grammar whose generation does not return is
            # (the reversed-range replay of db22052 made `peg -switch` loop)
            if not (r['name'].startswith('rules') and int(re.match(r'rules(\d+)', r['name']).group(1)) >= 3000):
                ctx.add('spec', 'extra/generate', 'generation did not return within the time limit for the accepted grammar %s (opts "%s")' % (r['name'], r['opts']),
                        {'grammar': r['text'][:3000], 'opts': r['opts'], 'name': r['name']})
            continue
        if not x.get('compiled'):
            ctx.add('spec', 'extra/generate', 'generation failed for an accepted grammar (%s, opts "%s"): %s' % (r['name'], r['opts'], (x.get('compileError') or x.get('syntaxError') or x.get('panic') or '')[:200]),
                    {'grammar': r['text'][:3000], 'opts': r['opts'], 'name': r['name'], 'resp': {k: v for k, v in x.items() if k not in ('tree', 'go', 'ir')}})
            continue
        if x.get('warnings') and r['name'] != 'rules300_mostly_unused':
            ctx.add('spec', 'extra/warnings', 'unexpected warning for %s: %s' % (r['name'], x['warnings'][:200]), {'grammar': r['text'][:3000], 'opts': r['opts'], 'name': r['name']})
        M.add(r['id'], x['go'], 'n' not in r['opts'])
        # gofmt idempotence
        g = subprocess.run(['gofmt', '-l'], input=x['go'], capture_output=True, text=True, env=L.GOENV)
        if g.returncode != 0 or g.stdout.strip():
            ctx.add('spec', 'extra/gofmt', 'output of %s (opts "%s") is not gofmt-clean: %s' % (r['name'], r['opts'], (g.stdout + g.stderr)[:200]),
                    {'grammar': r['text'][:3000], 'opts': r['opts'], 'name': r['name']})
    bad = M.vet()
    for k, v in bad.items():
        r = next(q for q in reqs if q['id'] == k)
        ctx.add('spec', 'extra/go build', 'emitted parser does not compile (%s, opts "%s"): %s' % (r['name'], r['opts'], v[:300]),
                {'grammar': r['text'][:3000], 'opts': r['opts'], 'name': r['name'], 'error': v[:2000]})
    ctx.coverage['extra_streams'] = {'cases': [c[0] for c in cases], 'programs': len(reqs), 'failing': len(bad)}
    ctx.coverage['evaluations'] = ctx.coverage.get('evaluations', 0) + len(reqs)
    L.cleanup()


def regen_facts(ctx):
    """T-facts: rewrite lean/PegVerif/Generated/Footprints.lean from the current source."""
    import fcntl
    facts = go_tool(ctx, 'facts')
    out = os.path.join(L.LEAN, 'PegVerif', 'Generated', 'Footprints.lean')
    with open(os.path.join(ctx.T().dir, 'facts.lock'), 'w') as lock:
        fcntl.flock(lock, fcntl.LOCK_EX)
        tmp = os.path.join(ctx.T().dir, 'Footprints.lean')
        p = subprocess.run([facts, '-repo', L.REPO, '-out', tmp], capture_output=True, text=True, env=L.GOENV)
        if p.returncode != 0:
            raise RuntimeError('facts translator failed: ' + (p.stderr or p.stdout)[-1500:])
        new = open(tmp).read()
        old = open(out).read() if os.path.exists(out) else ''
        if new != old:
            with open(out, 'w') as fh:
                fh.write(new)
        return new, new != old


def racex(ctx, only):
    rx = go_tool(ctx, 'racex')
    work = L.scratch('racex-')
    p = subprocess.run([rx, '-repo', L.REPO, '-tier', ctx.tier, '-only', only, '-work', work], capture_output=True, text=True,
                       env=L.GOENV, timeout=7200)
    out = p.stdout + p.stderr
    return p.returncode, out


def conc(ctx, pid, module, only, what):
    facts, changed = regen_facts(ctx)
    ctx.coverage['facts_regenerated'] = {'changed_vs_committed_snapshot': changed, 'bytes': len(facts)}
    ctx.proofs([module])
    rc, out = racex(ctx, only)
    tail = '\n'.join(out.strip().splitlines()[-25:])
    nums = [int(x) for x in re.findall(r'(?:compiles|runs)=(\d+)', out)]
    jobs = [int(x) for x in re.findall(r'jobs=(\d+)', out)]
    ctx.coverage.update({
        'evaluations': sum(nums) if nums else 1,
        'distinct_nontrivial': max(jobs) if jobs else 0,
        'rule': what,
        'samples': [l for l in out.splitlines() if l.strip()][-6:],
        'racex_tail': tail[-1500:],
    })
    if rc != 0:
        ctx.add('spec', 'racex/' + only, 'dynamic validation failed (race report or differing output): ' + tail[-600:], {'output': out[-8000:]})
    ctx.assumptions += ['Go memory model: data-race-free programs are sequentially consistent; WaitGroup orders the goroutines',
                        'extractor soundness: the real closures respect the extracted read/write footprints (validated by the race detector runs)']


def c09(ctx):
    conc(ctx, 'C09', 'PegVerif.Props.C09', 'c09',
         'footprints of the two analysis goroutines re-extracted from the source (go/ast + go/types), disjointness decided by the kernel; '
         'dynamic: K concurrent Compile calls of independent trees under the race detector, GOMAXPROCS in {1,2,16}, repeated, every output and warning text compared '
         'byte-for-byte with the first sequential run and across processes')


def c14(ctx):
    conc(ctx, 'C14', 'PegVerif.Props.C14', 'c14',
         'package-level state of a generated parser re-extracted from generated code; dynamic: 32 goroutines, each its own instance of the same/different parsers, '
         'Init/Parse/Execute/SprintSyntaxTree/Error concurrently under the race detector, results compared with sequential runs')


@matcher('F-C12-1')
def _m_c12_1(d, k):
    r = d.get('replay') or {}
    return d['tie'] == 'T-run/width' and r.get('width_probe') is True and r.get('u') == 16


def c12(ctx):
    ctx.proofs(['PegVerif.Props.C12'])
    LC.c12(ctx)


def c13(ctx):
    ctx.proofs(['PegVerif.Props.C13'])
    LC.c13(ctx)


def c17(ctx):
    ctx.proofs(['PegVerif.Props.C17'])
    LC.c17(ctx)


def c15(ctx):
    ctx.proofs(['PegVerif.Props.C15'])
    ctx.T()
    p = subprocess.run([sys.executable, os.path.join(VERIF, 'bin', 'tdiag.py'), '--tier', 'quick' if ctx.tier == 'quick' else 'thorough', '--seed', str(ctx.seed)],
                       capture_output=True, text=True, env=L.GOENV, timeout=7200)
    out = p.stdout
    i = out.rfind('\n{')
    summary = {}
    try:
        summary = json.loads(out[i + 1:] if i >= 0 else out)
    except ValueError:
        pass
    counts = summary.get('counts', summary)
    n = int(summary.get('grammars', counts.get('grammars', 0)) or 0)
    if p.returncode == 1:
        head = out[:i] if i >= 0 else out
        ctx.add('spec', 'T-diag', 'diagnostics of the real generator differ from the model / the independent specification: ' + head[-900:],
                {'output': head[-6000:], 'rerun': 'python3 bin/tdiag.py --tier %s --seed %d' % (ctx.tier, ctx.seed)})
    elif p.returncode != 0:
        raise RuntimeError('tdiag failed: ' + (p.stderr or out)[-1500:])
    # (F-C15-1, fixed: an unreported reference to the undefined name PegText is no longer counted as a
    #  tolerated deviation by bin/tdiag.py — it is a 'SPEC undefined' mismatch like any other name)
    ctx.coverage.update({
        'evaluations': n or 1, 'distinct_nontrivial': int(counts.get('kind_leftrec', 0)) + int(counts.get('kind_undefined', 0)) + int(counts.get('kind_unused', 0)) + int(counts.get('kind_dup', 0)),
        'exhaustive': True,
        'rule': 'ill-formed and borderline grammars: families (direct/indirect/nullable-prefix left recursion, recursion under ? * + & ! <>, later alternatives, guarded recursion that must stay silent, '
                'unreachable rules and cycles, names used only from unreachable rules, undefined names — among them the name PegText, with and without captures elsewhere in the grammar —, duplicates, empty bodies, '
                'actions and captures), seeded random ones, and the exhaustive enumeration of small two-rule grammars (once more with PegText as a leaf); per grammar the ordered warning lines, -strict failure and duplicate error of the real generator are compared with the Lean model, and the warned name sets with an '
                'independent evaluation of Reachable / Undefined / LeftRec; non-trivial = grammars with at least one diagnostic',
        'samples': [summary.get('examples')], 'input_distribution': counts,
    })


def c10(ctx):
    # regenerate G_peg from the current peg.peg (T-facts) and re-check the theorems against it
    T = ctx.T()
    p = subprocess.run([sys.executable, os.path.join(VERIF, 'bin', 'genpeggrammar.py')], capture_output=True, text=True, env=L.GOENV)
    if p.returncode != 0:
        raise RuntimeError('genpeggrammar failed: ' + (p.stderr or p.stdout)[-1500:])
    # … and the case table the builder model searches (unicode.CaseRanges of the Go library the front end is linked with)
    p = subprocess.run([sys.executable, os.path.join(VERIF, 'bin', 'gencasetable.py')], capture_output=True, text=True, env=L.GOENV)
    if p.returncode != 0:
        raise RuntimeError('gencasetable failed: ' + (p.stderr or p.stdout)[-1500:])
    ctx.proofs(['PegVerif.Props.C10Escapes', 'PegVerif.Props.C10'])
    T.lake_build(['pegmodel'])
    js = os.path.join(L.scratch('tfront-'), 'tfront.json')
    p = subprocess.run([sys.executable, os.path.join(VERIF, 'bin', 'tfront.py'), '--tier', ctx.tier, '--seed', str(ctx.seed), '--json', js, '--no-regen'],
                       capture_output=True, text=True, env=L.GOENV, timeout=7200)
    if not os.path.exists(js):
        raise RuntimeError('tfront failed: ' + (p.stderr or p.stdout)[-1500:])
    r = json.load(open(js))
    for m in (r.get('mismatch_list') or [])[:10]:
        kind = 'spec' if 'spec' in json.dumps(m).lower() else 'model'
        ctx.add(kind, 'T-front', 'front end differs from %s: %s' % ('the documented meaning (denote)' if kind == 'spec' else 'the model front end', json.dumps(m)[:400]), m)
    for f in r.get('finding_list') or []:
        ctx.add('spec', 'T-front/probe', 'probe %s: %s (documented: %s, real: %s)' % (f.get('id'), f.get('note'), str(f.get('documented'))[:80], str(f.get('real'))[:80]),
                {'probe': f.get('id'), 'text': f.get('text'), 'documented': f.get('documented'), 'real': f.get('real')})
    nimp = c10_imports(ctx, T)
    c = r.get('counts', {})
    ctx.coverage.update({
        'evaluations': int(c.get('well', 0)) + int(c.get('malformed', 0)) + int(c.get('probes', 0)) + nimp,
        'distinct_nontrivial': int(c.get('well', 0)),
        'rule': 'abstract grammars rendered in every spelling variant (quote style, every escape spelling in every character position, both arrows, # and // comments, spacing, CR/LF/CRLF, redundant parentheses, '
                'imports single/aliased/grouped, header comments; in case-insensitive positions every kind of character: cased / title case / uncased, ASCII / outside ASCII incl. beyond the BMP, raw / escaped) compared REAL vs denote (spec); strings.ToLower/ToUpper of EVERY code point real vs model (and vs the spec\'s own case forms);  the import specs of the GENERATED file (go/ast) of import streams — plain, aliased, grouped, duplicates of and aliases for the runtime\'s own imports, under all option sets — contain every import of the grammar with its alias and equal the header model; and REAL vs the model front end (PEG semantics of the regenerated peg.peg + builder model); malformed stream '
                '(truncate/delete/insert/swap/random bytes/hand-written shapes): real must reject or agree with the model, never panic; non-trivial = well-formed spelled texts',
        'samples': [(r.get('probe_results') or [{}])[0].get('text')], 'input_distribution': r.get('distribution'), 'counts': c,
    })


def c10_imports(ctx, T):
    """"imports keep their path and alias" in the GENERATED file: the import specs extracted from the emitted Go (go/ast) must
    contain every import of the grammar with its alias, and equal the header model of T-emit."""
    hdr = 'type P Peg {\n Trace string\n STrace string\n}\n\nR0 <- <.> { p.Trace += text }\n'
    streams = {
        'plain': (['"strings"'], 'import "strings"\n'),
        'alias': (['str "strings"'], 'import str "strings"\n'),
        'group': (['"strings"', '"unicode"'], 'import (\n"strings"\n"unicode"\n)\n'),
        'group_alias': (['"strings"', 'u "unicode"'], 'import (\n"strings"\nu "unicode"\n)\n'),
        'dup_runtime': (['"fmt"'], 'import "fmt"\n'),
        'alias_runtime': (['sc "strconv"'], 'import sc "strconv"\n'),
        'alias_and_plain_runtime': (['"fmt"', 'f2 "fmt"'], 'import "fmt"\nimport f2 "fmt"\n'),
        'same_path_two_aliases': (['a1 "strings"', 'a2 "strings"'], 'import a1 "strings"\nimport a2 "strings"\n'),
        'dot_path': (['"path/filepath"', 'mr "math/rand"'], 'import "path/filepath"\nimport mr "math/rand"\n'),
    }
    reqs, want = [], {}
    for name, (specs, imp) in streams.items():
        for o in L.OPTSETS:
            rid = 'imp_%s_%s' % (name, o or 'd')
            reqs.append({'id': rid, 'text': 'package g\n\n' + imp + '\n' + hdr, 'opts': o, 'tree': True, 'compile': True, 'ir': True})
            want[rid] = (name, o, specs)
    real = T.run_pegx_parallel(reqs)
    model = {m['id']: m for m in T.run_model('emit', [{'id': r['id'], 'tree': x['tree'], 'opts': r['opts']} for r, x in zip(reqs, real) if x.get('tree')])}
    n = 0
    for r, x in zip(reqs, real):
        name, o, specs = want[r['id']]
        n += 1
        got = ((x.get('ir') or {}).get('header') or {}).get('imports')
        if got is None:
            ctx.add('spec', 'T-front/imports', 'no generated file for the import stream %s (opts "%s"): %s' % (name, o, str({k: v for k, v in x.items() if k not in ('tree', 'go', 'ir')})[:300]),
                    {'grammar': r['text'], 'opts': o})
            continue
        norm = [re.sub(r'\s+', ' ', g.strip()) for g in got]
        missing = [sp for sp in specs if sp not in norm]
        if missing:
            ctx.add('spec', 'T-front/imports', 'the generated file lost the import(s) %s of the grammar (stream %s, opts "%s"): it imports %s' % (missing, name, o, norm),
                    {'grammar': r['text'], 'opts': o, 'generated_imports': norm, 'missing': missing})
        mh = ((model.get(r['id']) or {}).get('header') or {}).get('imports')
        if mh is not None and mh != got:
            ctx.add('model', 'T-emit/imports', 'import specs of the generated file differ from the header model (stream %s, opts "%s"): real %s | model %s' % (name, o, got, mh),
                    {'grammar': r['text'], 'opts': o, 'real': got, 'model': mh})
    ctx.coverage['import_streams'] = {'streams': sorted(streams), 'option_sets': len(L.OPTSETS), 'generated_files_checked': n}
    return n


def _probe_matcher(prefixes):
    def fn(d, k):
        pr = (d.get('replay') or {}).get('probe') or ''
        return d['tie'] == 'T-front/probe' and any(pr.startswith(x) for x in prefixes)
    return fn


KNOWN_MATCHERS['F-C10-1'] = _probe_matcher(['ci-nonascii', 'ci-escaped-letter'])
KNOWN_MATCHERS['F-C10-3'] = _probe_matcher(['hex-no-codepoint'])
KNOWN_MATCHERS['F-C10-4'] = _probe_matcher(['final-comment-no-newline'])
KNOWN_MATCHERS['F-C10-5'] = _probe_matcher(['action-brace-in-string'])


PROPS = {'C01': c01, 'C08': c08, 'C10': c10, 'C15': c15, 'C09': c09, 'C12': c12, 'C13': c13, 'C14': c14, 'C17': c17, 'C16': c16, 'C18': c18, 'C02': c02, 'C03': c03, 'C04': c04, 'C05': c05, 'C06': c06, 'C07': c07, 'C11': c11}


def replay(ctx, path):
    """Re-run one recorded case against the CURRENT tree.  Replays that carry a grammar are re-generated with the real generator and
    compared again (T-emit: emitted program vs model; T-run: compiled parser vs model vs PEG semantics on the recorded input);
    other replays (set operation sequences, CLI scenarios, diagnostics, proof obligations) are printed with the command that
    re-runs their tie."""
    with open(path) as fh:
        r = json.load(fh)
    case = r.get('case') or r.get('detail') or {}
    print(json.dumps({k: v for k, v in r.items() if k not in ('case', 'detail')}, indent=1, ensure_ascii=False)[:1500])
    text, opts = case.get('grammar'), case.get('opts')
    if not isinstance(text, str) or opts is None:
        print(json.dumps(case, indent=1, ensure_ascii=False)[:3000])
        print('replay: this record has no grammar; re-run its tie with: bin/check %s --tier %s' % (ctx.pid, ctx.tier))
        return 0
    T = ctx.T()
    x = T.run_pegx([{'id': 'r', 'text': text, 'opts': opts, 'tree': True, 'compile': True, 'ir': True, 'src': True}])[0]
    bad = 0
    if not x.get('compiled'):
        print('replay: the generator fails on the grammar: %s' % str({k: v for k, v in x.items() if k not in ('tree', 'go', 'ir')})[:400])
        bad = 1
    if x.get('tree'):
        m = T.run_model('emit', [{'id': 'r', 'tree': x['tree'], 'opts': opts}])[0]
        if x.get('ir') and m.get('rules') is not None:
            d = L.ir_diff(x['ir'], m) or L.header_diff(x['ir']['header'], m.get('header'), opts)
            print('replay T-emit: %s' % ('emitted program = model program' if d is None else 'DIFFERS: ' + d[:400]))
            bad |= d is not None
    inp = case.get('input')
    if x.get('compiled') and inp is not None and case.get('entry'):
        M = L.RunModule()
        M.add('rp0', x['go'], 'n' not in opts)
        if 'rp0' in set(M.build(exclude=M.vet())):
            memo = case.get('memo') if case.get('memo') is not None else True
            ro = M.run([{'pkg': 'rp0', 'k': 'k', 'entry': case['entry'], 'memo': memo, 'b64': L.b64(inp)}]).get('k') or {}
            mo = T.run_model('run', [{'id': 'r', 'tree': x['tree'], 'opts': opts,
                                      'cases': [{'k': 'k', 'entry': case['entry'], 'memo': memo, 'bytes': L.bytes_of(inp), 'spec': True}]}])[0]
            ob = (mo.get('obs') or [{}])[0]
            for which in ('model', 'spec'):
                d = L.obs_equal(ro, ob.get(which) or {}, 'n' not in opts)
                print('replay T-run: real vs %s on input %r: %s' % (which, inp, 'equal' if not d else 'DIFFERS on %s' % d))
                bad |= bool(d) and not (which == 'spec' and (ob.get('spec') or {}).get('v') == 'nofuel')
            print(' real : %s' % json.dumps(ro, ensure_ascii=False)[:600])
            print(' spec : %s' % json.dumps(ob.get('spec'), ensure_ascii=False)[:600])
        else:
            print('replay: the emitted parser does not build')
            bad = 1
    L.cleanup()
    if bad:
        print('VIOLATION property=%s replay=%s' % (ctx.pid, path))
        return 1
    print('replay: the recorded case no longer fails on the current tree')
    return 0
