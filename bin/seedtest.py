#!/usr/bin/env python3
"""seedtest.py <name> <dir with patch.diff demo.sh meta.json> <prop> [<prop> ...]

Confirms a seeded breaking change independently (scratch worktree: applies, builds, the baseline
tests pass, the demonstration fails with it and passes without it), stores it under
/verif/seeded/<name>/, then applies it to /repo, runs the given checks and undoes it straight away.
The outcome of each check is recorded in seeded/<name>/meta.json ("checks")."""
import json
import os
import shutil
import subprocess
import sys

V = os.path.dirname(os.path.dirname(os.path.abspath(__file__)))
ENV = dict(os.environ, GOFLAGS='-mod=mod', GOPROXY='off')
ENV.pop('GOTOOLCHAIN', None)


def sh(cmd, cwd=None, timeout=1800):
    p = subprocess.run(cmd, cwd=cwd, env=ENV, capture_output=True, text=True, errors='replace', timeout=timeout)
    return p.returncode, (p.stdout + p.stderr)


def apply_patch(tree, patch):
    """git apply; when the patch's copy of the generated peg.peg.go no longer applies (the tree moved on), apply the
    source part and regenerate peg.peg.go with the patched generator, twice, as the maintainers do."""
    rc, out = sh(['git', '-C', tree, 'apply', patch])
    if rc == 0:
        return True, 'applied'
    rc, out = sh(['git', '-C', tree, 'apply', '--exclude=peg.peg.go', patch])
    if rc != 0:
        return False, out
    tmp = '/tmp/seedpeg_%d' % os.getpid()
    for _ in range(2):
        rc, out = sh(['go', 'build', '-o', tmp, '.'], cwd=tree)
        if rc != 0:
            return False, out
        rc, out = sh([tmp, '-inline', '-switch', 'peg.peg'], cwd=tree, timeout=900)
        if rc != 0:
            return False, out
    os.remove(tmp)
    return True, 'applied without peg.peg.go, which was regenerated'


def main():
    name, src = sys.argv[1], sys.argv[2]
    props = sys.argv[3:]
    dst = os.path.join(V, 'seeded', name)
    os.makedirs(dst, exist_ok=True)
    for f in ('patch.diff', 'demo.sh', 'meta.json'):
        if os.path.exists(os.path.join(src, f)) and os.path.realpath(src) != os.path.realpath(dst):
            shutil.copy(os.path.join(src, f), dst)
    meta = json.load(open(os.path.join(dst, 'meta.json'))) if os.path.exists(os.path.join(dst, 'meta.json')) else {}
    patch = os.path.join(dst, 'patch.diff')
    wt = '/tmp/seedwt_%s' % name
    sh(['git', '-C', '/repo', 'worktree', 'remove', '--force', wt])
    rc, out = sh(['git', '-C', '/repo', 'worktree', 'add', '--detach', wt, 'HEAD'])
    confirm = {}
    try:
        okp, how = apply_patch(wt, patch)
        confirm['applies'] = okp
        confirm['how_applied'] = how
        rc, out = sh(['go', 'build', './...'], cwd=wt)
        rc1, out1 = sh(['go', 'build', '-o', '/dev/null', '.'], cwd=wt)
        confirm['builds'] = rc1 == 0
        rc, out = sh(['go', 'test', '-vet=off', '-count=1', '.', './set'], cwd=wt)
        confirm['baseline_tests_pass'] = rc == 0
        rc, out = sh(['bash', os.path.join(dst, 'demo.sh'), wt], timeout=900)
        confirm['demo_fails_with_change'] = rc != 0
        confirm['demo_with_change_tail'] = out[-400:]
        sh(['git', '-C', wt, 'checkout', '--', '.'])
        rc, out = sh(['bash', os.path.join(dst, 'demo.sh'), wt], timeout=900)
        confirm['demo_passes_without_change'] = rc == 0
    finally:
        sh(['git', '-C', '/repo', 'worktree', 'remove', '--force', wt])
    meta['confirmed'] = confirm
    ok = all(confirm.get(k) for k in ('applies', 'builds', 'baseline_tests_pass', 'demo_fails_with_change', 'demo_passes_without_change'))
    print('confirmed' if ok else 'NOT CONFIRMED', json.dumps({k: v for k, v in confirm.items() if k != 'demo_with_change_tail'}))
    results = {}
    if ok and props:
        # evidence/ and replays/ must keep describing the UNCHANGED tree: save them, restore afterwards
        keep = '/tmp/seedtest_keep_%d' % os.getpid()
        shutil.rmtree(keep, ignore_errors=True)
        os.makedirs(keep)
        for d in ('evidence', 'replays'):
            if os.path.isdir(os.path.join(V, d)):
                shutil.copytree(os.path.join(V, d), os.path.join(keep, d))
        okp, how = apply_patch('/repo', patch)
        try:
            assert okp, how
            for p in props:
                rc, out = sh([os.path.join(V, 'bin', 'check'), p, '--tier', 'quick'], cwd=V, timeout=3600)
                lines = [l for l in out.splitlines() if l.startswith('VIOLATION') or l.startswith('HARNESS') or l.startswith('  ')]
                results[p] = {'exit': rc, 'lines': lines[:4]}
                rp = os.path.join(V, 'replays', '%s-quick-%s.json' % (p, os.environ.get('VERIF_SEED', '1')))
                if rc == 1 and os.path.exists(rp):      # keep the replay the check wrote, next to the seeded change
                    shutil.copy(rp, os.path.join(dst, 'replay-%s.json' % p))
                print(p, 'exit', rc, ' | '.join(lines[:2])[:300])
        finally:
            sh(['git', '-C', '/repo', 'checkout', '--', '.'])
            rc, out = sh(['git', '-C', '/repo', 'status', '--short'])
            if out.strip():
                print('WARNING /repo not clean:', out)
            for d in ('evidence', 'replays'):
                if os.path.isdir(os.path.join(keep, d)):
                    shutil.rmtree(os.path.join(V, d), ignore_errors=True)
                    shutil.copytree(os.path.join(keep, d), os.path.join(V, d))
            shutil.rmtree(keep, ignore_errors=True)
            sh(['git', '-C', V, 'checkout', '--', 'lean/PegVerif/Generated'])
    meta['checks'] = results
    meta['base_commit'] = sh(['git', '-C', '/repo', 'rev-parse', '--short', 'HEAD'])[1].strip()
    meta['what_was_run'] = 'bin/seedtest.py: scratch worktree confirmation (apply, go build, go test . ./set, demo.sh both ways), then bin/check <prop> --tier quick on /repo with the patch applied, then git checkout'
    json.dump(meta, open(os.path.join(dst, 'meta.json'), 'w'), indent=1)


main()
