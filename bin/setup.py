#!/usr/bin/env python3
"""MANIFEST.setup_cmd helper: build the real tools once so the first check does not pay for it."""
import os, sys
sys.path.insert(0, os.path.dirname(os.path.abspath(__file__)))
import peglib as L
T = L.Tools(need_lean=True)
print('tools ready:', T.dir)
