"""The shared differential sweep behind C01–C07, C11 (and parts of C08, C12, C13):

  for every generated grammar × option set:
     T-emit : IR of the real generator's output  vs  IR the Lean model generator emits
     go build of the emitted file (validity oracle)
     T-run  : compiled real parser  vs  model (execF on the model program)  vs  spec (evalF)

The result is cached per (/repo working-tree hash, tier, seed): every property check reads the
part it depends on.
"""
import fcntl
import json
import os
import time

import gengram as GG
import peglib as L

QUICK = {'random': 60, 'switchshape': 30, 'enum_k': 2, 'pack': 220}
THOROUGH = {'random': 700, 'switchshape': 300, 'enum_k': 3, 'pack': 250}


def pack_enum(k, pack):
    """Pack enumerated one-rule grammars as independent rules of a few big grammars.
    Rule R0 references every other rule so that all are reachable."""
    gs = GG.enum_grammars(k)
    packs = []
    for i in range(0, len(gs), pack):
        chunk = gs[i:i + pack]
        rules = []
        for j, g in enumerate(chunk):
            # rename the self reference R0 -> R(j+1)
            def ren(e, j=j):
                t = e[0]
                if t == 'name':
                    return ('name', j + 1)
                if t in ('seq',):
                    return ('seq', [ren(x) for x in e[1]])
                if t == 'alt':
                    return ('alt', [ren(x) for x in e[1]], e[2])
                if t in ('q', 'star', 'plus', 'and', 'not', 'cap'):
                    return (t, ren(e[1]))
                return e
            rules.append(ren(g.rules[0]))
        top = ('alt', [('name', j + 1) for j in range(len(rules))], False)
        packs.append(GG.EnumG([top] + rules))
    return packs


def switch_skeletons(pack, full=True):
    """Exhaustive: every 3-way choice over a pool of alternative shapes that matter to the -switch rewrite
    (nullable heads, nested choices with a nullable last alternative, lookahead-first, ranges, repetitions,
    rule references, captures, actions)."""
    X = 0   # placeholder for the shared rule, patched below
    def pool(x):
        return [
            ('seq', [('chr', 'a'), ('chr', 'q')]),
            ('seq', [('rng', 'b', 'c'), ('chr', 'q')]),
            ('seq', [('alt', [('chr', 'd'), ('q', ('chr', 'e'))], False), ('chr', 'f')]),
            ('seq', [('q', ('chr', 'g')), ('chr', 'h')]),
            ('seq', [('and', ('chr', 'i')), ('chr', 'i')]),
            ('seq', [('not', ('chr', 'j')), ('rng', 'j', 'w')]),
            ('seq', [('star', ('chr', 'k')), ('chr', 'l')]),
            ('seq', [('alt', [('chr', 'm'), ('chr', 'n')], False), ('chr', 'o')]),
            ('seq', [('name', x), ('chr', 'z')]),
            ('plus', ('chr', 'p')),
            ('cap', ('chr', 'r')),
            ('seq', [('act', 0), ('chr', 's')]),
            ('seq', [('chr', 't'), ('q', ('chr', 'u'))]),                              # ends in `?`: the emitted case body ends in a bare label
            ('seq', [('chr', 'v'), ('alt', [('chr', 'w'), ('chr', '1')], False)]),     # ends in a choice: likewise
            ('seq', [('rng', '2', '2'), ('chr', 'q')]),                                # a single-key range: its test is elided inside a case
        ]
    n = len(pool(0))
    idx = list(range(n)) if full else [0, 1, 2, 3, 4, 6, 8, 11, 12, 14]
    combos = [(a, b, c) for a in idx for b in idx for c in idx]
    packs = []
    for i in range(0, len(combos), pack):
        chunk = combos[i:i + pack]
        x = len(chunk) + 1
        P = pool(x)
        rules = [('alt', [('name', j + 1) for j in range(len(chunk))], False)]
        for (a, b, c) in chunk:
            rules.append(('alt', [P[a], P[b], P[c]], False))
        rules.append(('alt', [('chr', 'x'), ('q', ('chr', 'y'))], False))
        packs.append(GG.EnumG(rules))
    return packs


SKEL_INPUTS = ['', 'aq', 'bq', 'cq', 'df', 'ef', 'f', 'gh', 'h', 'i', 'ii', 'x', 'jx', 'kl', 'kkl', 'l', 'mo', 'no', 'xz', 'yz', 'z', 'p', 'pp', 'r', 's', 'aqx', 'q', 'e', 't', 'tu', 'tq', 'vw', 'v1', 'v', '2q', '2', '3q']


def grammars(tier, seed, name='core'):
    cfg = THOROUGH if tier == 'thorough' else QUICK
    out = []
    if name == 'switch':
        for i in range(cfg['switchshape'] * 3):
            out.append(('w%d' % i, GG.gen_grammar(seed, i, 'switch'), 'switchshape'))
        for i in range(cfg['random'] // 2):
            out.append(('r%d' % i, GG.gen_grammar(seed, i, 'core'), 'random'))
        for i, g in enumerate(switch_skeletons(128, full=(tier == 'thorough'))):
            out.append(('k%d' % i, g, 'skeleton'))
        return out
    for i in range(cfg['random']):
        out.append(('r%d' % i, GG.gen_grammar(seed, i, 'core'), 'random'))
    for i in range(cfg['switchshape']):
        out.append(('w%d' % i, GG.gen_grammar(seed, i, 'switch'), 'switchshape'))
    for i, g in enumerate(pack_enum(cfg['enum_k'], cfg['pack'])):
        out.append(('e%d' % i, g, 'enum'))
    return out


def enum_inputs():
    out = ['']
    for a in 'ab':
        out.append(a)
        for b in 'ab':
            out.append(a + b)
            for c in 'ab':
                out.append(a + b + c)
                for d in 'ab':
                    out.append(a + b + c + d)
    out += ['c', 'ac', 'aac', 'abab' + 'a', 'bbbbb']
    return out


def run_sweep(T, tier, seed, optsets, name='core'):
    t_start = time.time()
    gl = grammars(tier, seed, name)
    stats = {'grammars': len(gl), 'optsets': optsets, 'ops': {}, 'kinds': {}}
    for gid, g, kind in gl:
        stats['kinds'][kind] = stats['kinds'].get(kind, 0) + 1
        g.stats(stats['ops'])
    reqs = []
    meta = {}
    for gid, g, kind in gl:
        text = g.text()
        for o in optsets:
            if kind == 'enum' and 'i' in o:
                continue
            if kind == 'skeleton' and o in ('', 'n') and False:
                continue      # every packed rule has one reference: -inline would inline them all
            rid = '%s_%s' % (gid, o or 'd')
            reqs.append({'id': rid, 'text': text, 'opts': o, 'tree': True, 'compile': True, 'ir': True, 'src': True})
            meta[rid] = (gid, g, kind, o, text)
    real = T.run_pegx_parallel(reqs, timeout=90)
    realby = {x['id']: x for x in real}
    res = {'emit_diffs': [], 'front_problems': [], 'vet_bad': {}, 'run_diffs': [], 'nilcase': [], 'slow': [], 'stats': stats}
    allm = []
    for r in reqs:
        x = realby[r['id']]
        if x.get('timeout'):
            res['slow'].append({'id': r['id'], 'opts': r['opts'], 'text': r['text']})
            continue
        if x.get('syntaxError') or x.get('panic') or x.get('crash') or not x.get('tree'):
            res['front_problems'].append({'id': r['id'], 'opts': r['opts'], 'text': r['text'],
                                          'resp': {k: v for k, v in x.items() if k not in ('tree', 'go', 'ir', 'post')}})
            continue
        allm.append({'id': r['id'], 'tree': x['tree'], 'opts': r['opts']})
    model = {m['id']: m for m in T.run_model('emit', allm)}
    mreqs = []
    for r in allm:
        x = realby[r['id']]
        m = model[r['id']]
        if not x.get('compiled'):
            # the only modelled reason for unparsable output: `case '<nil>':` (empty first set under -switch)
            if m.get('nilCase') and 'rune literal' in (x.get('compileError') or ''):
                res['nilcase'].append({'id': r['id'], 'opts': r['opts'], 'text': meta[r['id']][4], 'error': x.get('compileError')})
            else:
                res['front_problems'].append({'id': r['id'], 'opts': r['opts'], 'text': meta[r['id']][4],
                                              'resp': {k: v for k, v in x.items() if k not in ('tree', 'go', 'ir', 'post')}})
            continue
        if m.get('unusedLabel') is not None:
            res.setdefault('model_unused_label', {})[r['id']] = m.get('unusedLabel')
        if m.get('nilCase'):
            res['emit_diffs'].append({'id': r['id'], 'opts': r['opts'], 'text': meta[r['id']][4],
                                      'diff': 'model predicts an empty case list (invalid Go) but the real output compiled'})
            continue
        mreqs.append(r)
    stats['programs'] = len(mreqs)
    hy = {'grammars': 0, 'all_hypotheses_hold': 0, 'wfb': 0, 'grammarOK': 0, 'linkedOK': 0, 'plain': 0}
    for r in allm:
        if r['opts'] == '' and model[r['id']].get('hyps'):
            h = model[r['id']]['hyps']
            hy['grammars'] += 1
            for k in ('wfb', 'grammarOK', 'linkedOK', 'plain'):
                hy[k] += 1 if h.get(k) else 0
            hy['all_hypotheses_hold'] += 1 if all(h.get(k) for k in ('wfb', 'grammarOK', 'linkedOK', 'plain')) else 0
    stats['theorem_hypotheses'] = hy
    # -switch: how much of the real optimiser's output the validated-translation theorem covers
    sh = {'programs': 0, 'rewritten': 0, 'swOK': 0, 'rewritten_and_swOK': 0, 'switchSafe': 0}
    for r in allm:
        h = model[r['id']].get('hyps') or {}
        if 's' in r['opts'] and 'swOK' in h:
            sh['programs'] += 1
            sh['rewritten'] += 1 if h.get('rewritten') else 0
            sh['swOK'] += 1 if h.get('swOK') else 0
            sh['rewritten_and_swOK'] += 1 if h.get('swOK') and h.get('rewritten') else 0
            # the end-to-end theorem of THIS option set: C02_switch_same_as_default (s), C02_inline_switch_same_as_default (is),
            # C07_switch_generated_parser (sn); for isn only the Eval-level swOK
            key = {'s': 'switchSafe', 'is': 'inlineSwitchSafe', 'sn': 'noastSwitchSafe', 'isn': 'inlineNoastSwitchSafe'}.get(r['opts'])
            safe = bool(h.get(key)) if (key and key in h) else None
            # the summary hypothesis (all_options_same_verdict; the -noast cases with the kit Kacts, which admits state-change
            # statements) supersedes the per-option one where the driver printed it
            if 'theoremApplies' in h:
                key, safe = 'theoremApplies', bool(h['theoremApplies'])
                h = dict(h, theoremApplies_key=True)
            if key and (key in h):
                sh.setdefault('by_opts', {}).setdefault(r['opts'], {'programs': 0, 'rewritten': 0, 'safe': 0, 'rewritten_and_safe': 0})
                b = sh['by_opts'][r['opts']]
                b['programs'] += 1
                b['rewritten'] += 1 if h.get('rewritten') else 0
                b['safe'] += 1 if safe else 0
                b['rewritten_and_safe'] += 1 if safe and h.get('rewritten') else 0
            if r['opts'] == 's':
                sh['switchSafe'] += 1 if safe else 0
            # the theorem's hypotheses on the ORIGINAL grammar (default parser side; the -noast fragment for sn): where they fail
            # the program is outside the theorem with or without -switch
            base_ok = all(h.get(k) for k in ('wfb', 'grammarOK', 'linkedOK', 'plain')) and (h.get('grammarOKN') is not False)
            if h.get('theoremApplies_key'):
                # the same grammar WITHOUT -switch: is it inside its theorem's fragment at all?
                o0 = r['opts'].replace('s', '')
                h0 = (model.get('%s_%s' % (r['id'].rsplit('_', 1)[0], o0 or 'd')) or {}).get('hyps') or {}
                if 'theoremApplies' in h0:
                    base_ok = bool(h0['theoremApplies'])
            if key and key in h:
                b['base_ok'] = b.get('base_ok', 0) + (1 if base_ok else 0)
                b['base_ok_and_safe'] = b.get('base_ok_and_safe', 0) + (1 if base_ok and safe else 0)
            res.setdefault('switch_hyps', {})[r['id']] = {'swOK': h.get('swOK'), 'rewritten': h.get('rewritten'), 'switchSafe': safe, 'theorem_hyp': key, 'base_ok': base_ok}
            if not h.get('swOK') or safe is False:
                res.setdefault('texts', {})[r['id']] = meta[r['id']][4]
    stats['switch_hypotheses'] = sh
    # every option set: on how many programs of the sweep do the decidable hypotheses of ITS end-to-end theorem hold
    tc = {}
    for r in allm:
        h = model[r['id']].get('hyps') or {}
        if not h:
            continue
        o = r['opts']
        base = all(h.get(k) for k in ('wfb', 'grammarOK', 'linkedOK', 'plain'))
        extra = {'': [], 'i': ['grammarOKI'], 'n': ['grammarOKN'], 'in': ['inlineNoastSafe'], 's': ['switchSafe'], 'is': ['inlineSwitchSafe'],
                 'sn': ['noastSwitchSafe'], 'isn': ['inlineNoastSwitchSafe']}.get(o, [])
        c = tc.setdefault(o or 'd', {'programs': 0, 'hypotheses_evaluated': 0, 'covered_by_theorem': 0})
        c['programs'] += 1
        if 'theoremApplies' in h:
            # the Bool hypothesis of the summary theorem all_options_same_verdict, evaluated by the driver
            c['hypotheses_evaluated'] += 1
            c['covered_by_theorem'] += 1 if h['theoremApplies'] else 0
            if bool(h['theoremApplies']) != bool(base and all(h.get(k) for k in extra if k in h)) and all(k in h for k in extra):
                c['inconsistent'] = c.get('inconsistent', 0) + 1
        elif all(k in h for k in extra):
            c['hypotheses_evaluated'] += 1
            c['covered_by_theorem'] += 1 if base and all(h.get(k) for k in extra) else 0
    stats['theorem_coverage'] = tc
    for r in mreqs:
        x = realby[r['id']]
        if x.get('irError') or not x.get('ir'):
            res['emit_diffs'].append({'id': r['id'], 'opts': r['opts'], 'text': meta[r['id']][4], 'diff': 'irx: %s' % x.get('irError')})
            continue
        d = L.ir_diff(x['ir'], model[r['id']]) or L.header_diff(x['ir']['header'], model[r['id']].get('header'), r['opts'])
        if d:
            res['emit_diffs'].append({'id': r['id'], 'opts': r['opts'], 'text': meta[r['id']][4], 'diff': d})
    stats['t_emit_s'] = round(time.time() - t_start, 1)
    # ---- build
    t0 = time.time()
    M = L.RunModule()
    for r in mreqs:
        M.add(r['id'], realby[r['id']]['go'], 'n' not in r['opts'])
    bad = M.vet()
    for k, v in bad.items():
        res['vet_bad'][k] = {'opts': meta[k][3], 'text': meta[k][4], 'error': v[:2000]}
    good = set(M.build(exclude=bad))
    stats['t_build_s'] = round(time.time() - t0, 1)
    # ---- run
    t0 = time.time()
    cases = []
    mcases = {}
    inputs_of = {}
    for r in mreqs:
        rid = r['id']
        if rid not in good:
            continue
        gid, g, kind, o, text = meta[rid]
        if gid not in inputs_of:
            inputs_of[gid] = enum_inputs() if kind == 'enum' else (SKEL_INPUTS if kind == 'skeleton' else g.inputs())
        inputs = inputs_of[gid]
        x = realby[rid]
        names = x['ir']['header']['ruleNames']
        lst = []
        for ei in range(g.n):
            e = 'R%d' % ei
            if e not in names or x['ir']['rules'][names.index(e)].get('nil'):
                continue
            if kind in ('enum', 'skeleton') and ei == 0:
                continue
            ins = inputs if (ei == 0 or kind in ('enum', 'skeleton')) else inputs[:20]
            if kind == 'skeleton' and o not in ('', 's'):
                continue      # the other option sets of the skeleton packs are compared by T-emit only
            for memo in ([True, False] if ('n' not in o and kind != 'skeleton') else [True]):
                for ii, s in enumerate(ins):
                    k = '%s|%s|%d|%d' % (rid, e, 1 if memo else 0, ii)
                    c = {'pkg': rid, 'k': k, 'entry': e, 'memo': memo, 'b64': L.b64(s)}
                    if ii % 3 == 2:
                        # every third case is the SECOND use of its parser object (another input parsed first, then
                        # Buffer/Reset/Parse): what a parse records must not depend on the instance's past
                        c['warm'] = L.b64(ins[(ii * 7 + 1) % len(ins)])
                        stats['second_use_cases'] = stats.get('second_use_cases', 0) + 1
                    cases.append(c)
                    lst.append({'k': k, 'entry': e, 'memo': memo, 'bytes': L.bytes_of(s), 'spec': True})
        mcases[rid] = {'id': rid, 'tree': x['tree'], 'opts': o, 'cases': lst}
    robs = M.run(cases)
    stats['t_run_real_s'] = round(time.time() - t0, 1)
    t0 = time.time()
    mobs = T.run_model('run', [m for m in mcases.values() if m['cases']])
    stats['t_run_model_s'] = round(time.time() - t0, 1)
    n_cases = n_ok = n_backtrack_tok = 0
    samples = []
    realobs = {}
    for m in mobs:
        rid = m['id']
        gid, g, kind, o, text = meta[rid]
        ast = 'n' not in o
        if 'obs' not in m:
            res['run_diffs'].append({'k': rid, 'opts': o, 'text': text, 'model_error': m.get('error'), 'fields_model': ['error'], 'fields_spec': []})
            continue
        for ob in m['obs']:
            n_cases += 1
            k = ob['k']
            ro = robs.get(k) or {'v': 'missing'}
            realobs[k] = ro
            if ro.get('v') == 'ok':
                n_ok += 1
            cnt = stats.setdefault('by_opts', {}).setdefault(o or 'd', {'cases': 0, 'ok': 0, 'ok_multi_tok': 0, 'fail_with_max': 0,
                                                                       'trace_nonempty': 0, 'nested_ast': 0, 'multibyte': 0})
            cnt['cases'] += 1
            if ro.get('v') == 'ok':
                cnt['ok'] += 1
                if len(ro.get('toks') or []) >= 3:
                    cnt['ok_multi_tok'] += 1
                if ro.get('ast') and any(k[3] for k in (ro['ast'][3] or [])):
                    cnt['nested_ast'] += 1
            if ro.get('v') == 'fail' and (ro.get('max') or [0, 0, 0])[2] > 0:
                cnt['fail_with_max'] += 1
            if ro.get('trace'):
                cnt['trace_nonempty'] += 1
            if '\u6c49' in (ro.get('tree') or '') + (ro.get('err') or '') or '汉' in (ro.get('tree') or '') + (ro.get('err') or ''):
                cnt['multibyte'] += 1
            fm = L.obs_equal(ro, ob['model'], ast)
            fs = L.obs_equal(ro, ob['spec'], ast)
            if ob['spec'].get('v') == 'nofuel':
                fs = []
            if fm or fs:
                _, e, memo, ii = k.split('|')
                s = inputs_of[gid][int(ii)]
                res['run_diffs'].append({'k': k, 'opts': o, 'entry': e, 'memo': memo == '1', 'input': s, 'text': text,
                                         'fields_model': fm, 'fields_spec': fs, 'real': ro, 'model': ob['model'], 'spec': ob['spec']})
            elif len(samples) < 6 and ro.get('v') == 'ok' and len(ro.get('toks') or []) > 3 and kind == 'random':
                samples.append({'grammar': text, 'opts': o, 'entry': k.split('|')[1], 'input': inputs_of[gid][int(k.split('|')[3])],
                                'real': ro})
    # memo on vs off, option set vs default (real vs real)
    cross = []
    for k, ro in realobs.items():
        rid, e, memo, ii = k.split('|')
        gid, g, kind, o, text = meta[rid]
        if memo == '1' and 'n' not in o:
            k0 = '%s|%s|0|%s' % (rid, e, ii)
            r0 = realobs.get(k0)
            if r0 is not None:
                d = L.obs_equal(ro, r0, True)
                if d:
                    cross.append({'kind': 'memo', 'k': k, 'opts': o, 'text': text, 'entry': e, 'input': inputs_of[gid][int(ii)], 'fields': d, 'a': ro, 'b': r0})
        if o != '' and memo == '1':
            base = 'n' if ('n' in o and o != 'n') else ''
            kb = '%s_%s|%s|%s|%s' % (gid, base or 'd', e, memo, ii)
            rb = realobs.get(kb)
            if rb is not None and o != base:
                if 'n' in o and base == '':
                    d = ['v'] if ro.get('v') != rb.get('v') else []
                else:
                    d = L.obs_equal(ro, rb, 'n' not in o)
                if d:
                    cross.append({'kind': 'opts', 'k': k, 'opts': o, 'base': base, 'text': text, 'entry': e, 'input': inputs_of[gid][int(ii)], 'fields': d, 'a': ro, 'b': rb})
    model_bad = set(d['k'] for d in res['run_diffs'] if d.get('fields_model'))
    for c in cross:
        kb = c['k']
        c['model_agrees'] = c['k'] not in model_bad
    res['cross'] = cross
    stats['memo_pairs'] = sum(1 for k in realobs if k.split('|')[2] == '1' and 'n' not in meta[k.split('|')[0]][3])
    stats['opts_pairs'] = {}
    for k in realobs:
        o = meta[k.split('|')[0]][3]
        if o != '' and k.split('|')[2] == '1':
            stats['opts_pairs'][o] = stats['opts_pairs'].get(o, 0) + 1
    stats['cases'] = n_cases
    stats['accepted'] = n_ok
    stats['samples'] = samples
    stats['wall_s'] = round(time.time() - t_start, 1)
    L.cleanup()
    return res


def get_sweep(T, tier, seed, optsets=None, name='core'):
    """Cached per working-tree hash."""
    optsets = optsets if optsets is not None else L.OPTSETS
    path = os.path.join(T.dir, 'sweep_%s_%s_%s.json' % (name, tier, seed))
    lock = open(os.path.join(T.dir, 'sweep.lock'), 'w')
    fcntl.flock(lock, fcntl.LOCK_EX)
    try:
        if os.path.exists(path):
            with open(path) as fh:
                return json.load(fh)
        res = run_sweep(T, tier, seed, optsets, name)
        L.write_json(path, res)
        return res
    finally:
        fcntl.flock(lock, fcntl.LOCK_UN)
        lock.close()
