#!/usr/bin/env python3
"""T-diag: correspondence check for the grammar diagnostics (property C15).

For every generated grammar (bin/diaggen.py):
  real   : pegx (the REAL front end + tree.Compile of $PEG_REPO, default /repo), twice:
           not strict → `warnings` (stderr text), strict → `compileError`
  model  : `pegmodel diag` on the tree dump (Lean `PegVerif.diagnostics`)
  spec   : an independent evaluation (this file) of Reachable / Undefined / LeftRec / LeftRecW on the
           tree dump, compared as SETS of rule names with what the real generator warns about.
Compared per grammar: ordered warning lines, strict failure and its text, non-strict error text
(duplicate definition), panics.  Exit status 1 on any mismatch.

  bin/tdiag.py --tier quick|thorough|exhaustive --seed N [--max-show K]
    quick      (<60 s)  families, 3000 random, all 1-rule grammars ≤2 ops, all 2-rule grammars ≤1 op per rule,
                        8000 sampled 2-rule grammars ≤2 ops per rule
    thorough   families, 100000 random, all 2-rule grammars with ≤2 ops in one rule and ≤1 in the other,
                        600000 sampled 2-rule grammars ≤2 ops per rule
    exhaustive families, 100000 random, ALL 2-rule grammars ≤2 ops per rule (4.7 million)
    every tier, last: the name PegText as a leaf — all 1-rule grammars ≤2 ops, all 2-rule grammars ≤1 op per rule
                        (with and without captures <…>), and those with a definition of PegText (5800 grammars).
                        A reference to the undefined name PegText must be reported like any other name; a grammar
                        that only captures must stay silent (stats PegText_ref_*, capture_only_PegText_silent).
"""
import argparse
import json
import os
import re
import sys
import time

sys.path.insert(0, os.path.dirname(os.path.abspath(__file__)))
import peglib as L
import diaggen

RE_LR = re.compile(r"^possible infinite left recursion in rule '(.*)'$")
RE_UD = re.compile(r"^rule '(.*)' used but not defined$")
RE_UN = re.compile(r"^rule '(.*)' defined but not used$")


# ---- independent evaluation of the specification on the front end's tree -----------------------
UN = {'PeekFor', 'PeekNot', 'Query', 'Star', 'Plus', 'Push'}


def kids(n):
    return n.get('k') or []


def mentions(n, out):
    if n['t'] == 'Name':
        out.add(n['s'])
    for k in kids(n):
        if k['t'] != 'RuleRef':
            mentions(k, out)


def has_type(n, t):
    return n['t'] == t or any(has_type(k, t) for k in kids(n) if k['t'] != 'RuleRef')


def actions(n, out):
    if n['t'] == 'Action':
        out.append(n)
    for k in kids(n):
        if k['t'] != 'RuleRef':
            actions(k, out)


def must_consume(n, mc, syn):
    """mc: rule name → bool (current approximation of the least fixed point)"""
    t = n['t']
    if t in ('Dot', 'Range'):
        return True
    if t in ('Character', 'String'):
        return len(n['s']) > 0
    if t == 'Sequence':
        return any(must_consume(k, mc, syn) for k in kids(n))
    if t == 'Alternate':
        return all(must_consume(k, mc, syn) for k in kids(n))
    if t == 'Name':
        return (not syn) and mc.get(n['s'], False)
    if t in ('Plus', 'Push'):
        return must_consume(kids(n)[0], mc, syn)
    return False       # Query Star PeekFor PeekNot Predicate StateChange Action Nil


def first_refs(n, mc, syn, out):
    t = n['t']
    if t == 'Name':
        out.add(n['s'])
    elif t == 'Sequence':
        for k in kids(n):
            first_refs(k, mc, syn, out)
            if must_consume(k, mc, syn):
                break
    elif t == 'Alternate':
        for k in kids(n):
            first_refs(k, mc, syn, out)
    elif t in UN:
        first_refs(kids(n)[0], mc, syn, out)


def closure_plus(step, a):
    seen = set()
    todo = list(step.get(a, ()))
    while todo:
        x = todo.pop()
        if x not in seen:
            seen.add(x)
            todo.extend(step.get(x, ()))
    return seen


def spec_eval(tree):
    rules = [(n['s'], kids(n)[0]) for n in tree if n['t'] == 'Rule']
    names = [r[0] for r in rules]
    res = {'dup': None}
    seen = set()
    for nm in names:
        if nm in seen:
            res['dup'] = nm
            return res
        seen.add(nm)
    body = dict(rules)
    men = {}
    for nm, b in rules:
        s = set()
        mentions(b, s)
        men[nm] = s
    # Reachable: reflexive-transitive closure of "body mentions" from the first rule
    reach = {names[0]} | closure_plus(men, names[0]) if names else set()
    res['unused'] = {nm for nm in names if nm not in reach}
    # Action<N> rules (appended by link) belong to the rule that holds the action
    k = 0
    for nm, b in rules:
        acts = []
        actions(b, acts)
        for _ in acts:
            if nm not in reach:
                res['unused'].add('Action%d' % k)
            k += 1
    allm = set().union(*men.values()) if men else set()
    res['undefined'] = {x for x in allm if x not in body}
    res['mentioned'] = allm
    res['defined'] = set(body)
    res['has_capture'] = any(has_type(b, 'Push') for _, b in rules)
    # MustConsume: least fixed point
    mc = {nm: False for nm in names}
    changed = True
    while changed:
        changed = False
        for nm, b in rules:
            if not mc[nm] and must_consume(b, mc, False):
                mc[nm] = True
                changed = True
    for syn, key in ((False, 'leftrec'), (True, 'leftrecW')):
        step = {}
        for nm, b in rules:
            s = set()
            first_refs(b, mc, syn, s)
            step[nm] = s
        res[key] = {nm for nm in names if nm in closure_plus(step, nm)}
    return res


# ---- comparison ----------------------------------------------------------------------------------
def lines_of(text, prefix='warning: '):
    out = []
    for l in text.split('\n'):
        if l == '':
            continue
        out.append(l[len(prefix):] if l.startswith(prefix) else '?' + l)
    return out


def compare(case, rn, rs, md, stats, problems, notes):
    """rn/rs: real responses (not strict / strict); md: model response."""
    cid = case['id']

    def bad(kind, detail):
        problems.append({'id': cid, 'kind': kind, 'detail': detail, 'text': case['text'][len(diaggen.HEADER):]})
    for r, tag in ((rn, 'lax'), (rs, 'strict')):
        if r.get('panic') or r.get('crash') or r.get('timeout'):
            stats['real_panic'] += 1
            bad('REAL PANIC (%s)' % tag, (r.get('panic') or r.get('crash') or 'timeout')[:300])
            return
        if r.get('syntaxError'):
            stats['syntax_error'] += 1
            bad('generator bug: syntax error', r['syntaxError'][:200])
            return
    if 'error' in md:
        bad('model error', md['error'])
        return
    real_w = lines_of(rn.get('warnings', ''))
    real_err_lax = rn.get('compileError') or None
    real_err_strict = rs.get('compileError') or None
    # -- model vs real
    if real_err_lax != md['errLax']:
        bad('non-strict error', {'real': real_err_lax, 'model': md['errLax']})
    if real_err_strict != md['errStrict']:
        bad('strict error text', {'real': real_err_strict, 'model': md['errStrict']})
    if (real_err_strict is not None) != md['strictFails']:
        bad('strict failure', {'real': real_err_strict is not None, 'model': md['strictFails']})
    if md['dup'] is None and real_w != md['warnings']:
        bad('warning lines', {'real': real_w, 'model': md['warnings']})
    if md['dup'] is not None and (real_w or rs.get('warnings')):
        bad('warnings printed although duplicate', real_w)
    if rs.get('warnings'):
        bad('strict run printed warnings', rs['warnings'])
    if real_err_lax is None and not rn.get('compiled'):
        bad('not compiled without error', '')
    # silent iff no diagnostics
    silent = real_w == [] and real_err_lax is None and real_err_strict is None
    if silent:
        stats['silent'] += 1
    # -- spec vs real (sets of names)
    sp = spec_eval(rn['tree'])
    if sp['dup'] is not None:
        stats['kind_dup'] += 1
        want = "rule '%s' defined more than once" % sp['dup']
        if real_err_lax != want or real_err_strict != want:
            bad('SPEC duplicate', {'want': want, 'lax': real_err_lax, 'strict': real_err_strict})
        return
    if real_err_lax is not None:
        bad('SPEC: error without duplicate', real_err_lax)
        return
    lr, ud, un, other = [], [], [], []
    for l in real_w:
        for rx, acc in ((RE_LR, lr), (RE_UD, ud), (RE_UN, un)):
            m = rx.match(l)
            if m:
                acc.append(m.group(1))
                break
        else:
            other.append(l)
    if other:
        bad('unknown warning line', other)
    if lr:
        stats['kind_leftrec'] += 1
    if ud:
        stats['kind_undefined'] += 1
    if un:
        stats['kind_unused'] += 1
    if len(lr) != len(set(lr)):
        stats['leftrec_repeated_lines'] += 1
    if set(un) != sp['unused']:
        bad('SPEC unused', {'real': sorted(set(un)), 'spec': sorted(sp['unused'])})
    if set(ud) != sp['undefined']:
        bad('SPEC undefined', {'real': sorted(set(ud)), 'spec': sorted(sp['undefined'])})
    # the name PegText (also the name of the rule link makes for a capture) is a name like any other
    if 'PegText' in sp['mentioned']:
        key = 'PegText_ref_%s_%s' % ('undefined' if 'PegText' in sp['undefined'] else 'defined',
                                     'with_capture' if sp['has_capture'] else 'no_capture')
        stats[key] += 1
        if 'PegText' in sp['undefined']:
            if 'PegText' in ud:
                stats['PegText_ref_undefined_reported'] += 1
            notes.setdefault('ref_' + key, case['text'][len(diaggen.HEADER):])
    elif sp['has_capture'] and 'PegText' not in sp['defined']:
        stats['capture_only_PegText_silent'] += 1
        if 'PegText' in ud:
            bad('SPEC undefined', {'real': sorted(set(ud)), 'spec': sorted(sp['undefined']), 'note': 'capture without reference'})
    W = set(lr)
    if bool(W) != bool(sp['leftrec']):
        bad('SPEC leftrec (grammar level)', {'real': sorted(W), 'spec': sorted(sp['leftrec'])})
    if not sp['leftrec'] <= W:
        bad('SPEC leftrec incomplete', {'real': sorted(W), 'spec': sorted(sp['leftrec'])})
    if not W <= sp['leftrecW']:
        bad('SPEC leftrec above upper bound', {'real': sorted(W), 'specW': sorted(sp['leftrecW'])})
    if W != sp['leftrec']:
        stats['leftrec_per_rule_imprecise'] += 1
        notes.setdefault('imprecise', case['text'][len(diaggen.HEADER):])
    if sp['leftrec'] != sp['leftrecW']:
        stats['leftrec_neq_leftrecW'] += 1
    if (real_err_strict is not None) != bool(real_w):
        bad('SPEC strict', {'strictError': real_err_strict, 'warnings': real_w})


_T = None


def process(batch):
    """worker: one sub-batch through pegx (twice), pegmodel, and the comparisons"""
    from collections import Counter
    stats, feats, problems, notes = Counter(), Counter(), [], {}
    reqs = []
    for c in batch:
        reqs.append({'id': c['id'] + 'N', 'text': c['text'], 'opts': '', 'tree': True, 'compile': True, 'strict': False})
        reqs.append({'id': c['id'] + 'S', 'text': c['text'], 'opts': '', 'tree': False, 'compile': True, 'strict': True})
    real = _T.run_pegx(reqs, timeout=30)
    byid = {r['id']: r for r in real}
    # a timeout / hard crash may be a transient stall of the machine: retry those requests alone
    # once; only a second failure is reported (as REAL PANIC)
    again = [q for q in reqs if byid.get(q['id'], {'crash': 1}).get('timeout') or byid.get(q['id'], {'crash': 1}).get('crash')]
    for q in again:
        stats['retried_after_timeout'] += 1
        for r in _T.run_pegx([q], timeout=60):
            byid[r['id']] = r
    mreqs = []
    for c in batch:
        rn = byid.get(c['id'] + 'N', {})
        if rn.get('tree'):
            mreqs.append({'id': c['id'], 'tree': rn['tree']})
    model = {m['id']: m for m in _T.run_model('diag', mreqs, jobs=1)} if mreqs else {}
    for c in batch:
        for f in c['feat']:
            feats[f] += 1
        rn = byid.get(c['id'] + 'N', {'crash': 'missing'})
        rs = byid.get(c['id'] + 'S', {'crash': 'missing'})
        md = model.get(c['id'], {'error': 'no tree'})
        if md.get('uniq') is False:
            stats['side_condition_uniq_false'] += 1
        compare(c, rn, rs, md, stats, problems, notes)
    return len(batch), stats, feats, problems, notes


def chunks(gen, n):
    batch = []
    for c in gen:
        batch.append(c)
        if len(batch) >= n:
            yield batch
            batch = []
    if batch:
        yield batch


def main():
    global _T
    ap = argparse.ArgumentParser()
    ap.add_argument('--tier', default='quick', choices=['quick', 'thorough', 'exhaustive'])
    ap.add_argument('--seed', type=int, default=1)
    ap.add_argument('--max-show', type=int, default=12)
    ap.add_argument('--batch', type=int, default=1500)
    args = ap.parse_args()
    t0 = time.time()
    _T = L.Tools()
    from collections import Counter
    import multiprocessing as mp
    stats = Counter()
    feats = Counter()
    problems = []
    notes = {}
    total = 0
    last = 0
    with mp.Pool(L.NCPU) as pool:      # fork: workers inherit _T
        for n, st, ft, pr, nt in pool.imap_unordered(process, chunks(diaggen.cases(args.tier, args.seed), args.batch)):
            total += n
            stats.update(st)
            feats.update(ft)
            problems.extend(pr)
            for k, v in nt.items():
                notes.setdefault(k, v)
            if total - last >= 100000:
                last = total
                L.log('  %d grammars, %d problems, %.0fs' % (total, len(problems), time.time() - t0))
    problems.sort(key=lambda p: int(p['id'][1:]))
    for p in problems[:args.max_show]:
        print('MISMATCH %s [%s]: %s\n--- grammar\n%s---' % (p['id'], p['kind'], json.dumps(p['detail'], ensure_ascii=False), p['text']))
    kinds = Counter(p['kind'] for p in problems)
    summary = {'tier': args.tier, 'seed': args.seed, 'repo': L.REPO, 'grammars': total, 'mismatches': len(problems),
               'mismatch_kinds': dict(kinds), 'features': dict(sorted(feats.items())),
               'stats': dict(sorted(stats.items())), 'examples': notes, 'seconds': round(time.time() - t0, 1)}
    print(json.dumps(summary, indent=1, ensure_ascii=False))
    return 1 if problems else 0


if __name__ == '__main__':
    sys.exit(main())
