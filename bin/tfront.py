#!/usr/bin/env python3
"""T-front (property C10): the reader of .peg texts.

Three observers of the same text:
    REAL   the front end of the repository (peg.peg.go + tree.Add*), in-process through pegx: the rule
           tree reachable through the exported accessors before Compile, and the error Compile returns
           BEFORE DOING ANYTHING ELSE when the builder recorded errors while reading the text (pegx:
           frontError; the output of Compile is discarded, any other Compile error is not the front end's)
    SPEC   frontgen.denote(ast): the tree the documentation promises for the abstract grammar the
           text was rendered from (the spec never reads the text); a text spelled with a hex escape
           that has no code point must be REPORTED, with an error naming every such escape
    MODEL  `pegmodel front`: PEG semantics (evalF) of the grammar REGENERATED from peg.peg + Lean
           model of the builder (its case folding: unicode.ToLower/ToUpper over the REGENERATED
           unicode.CaseRanges of the Go library, bin/gencasetable.py)

  well-formed texts : REAL == SPEC and REAL == MODEL
  malformed texts   : REAL never panics; REAL and MODEL agree on accept/reject, on the tree and on the
                      text of the builder's errors
  case maps         : strings.ToLower / ToUpper of every code point: REAL (pegx -casemap) == MODEL (pegmodel casemap), and
                      == the spec's own case forms wherever the generator may use the character case-insensitively
  probes            : grey-zone texts with the outcome the documentation suggests; disagreements are
                      FINDINGS (listed, they do not fail the run unless --fail-on-findings)

    tfront.py --tier quick|thorough --seed N [--json FILE] [--no-regen] [--fail-on-findings]
Exit status 1 on any mismatch.
"""
import argparse
import json
import os
import resource
import subprocess
import sys
import time

sys.path.insert(0, os.path.dirname(os.path.abspath(__file__)))
import peglib as L      # noqa: E402
import frontgen as FG   # noqa: E402


def big_stack():
    try:
        resource.setrlimit(resource.RLIMIT_STACK, (resource.RLIM_INFINITY, resource.RLIM_INFINITY))
    except (ValueError, OSError):
        try:
            soft, hard = resource.getrlimit(resource.RLIMIT_STACK)
            resource.setrlimit(resource.RLIMIT_STACK, (hard, hard))
        except (ValueError, OSError):
            pass


def run_model(pegmodel, reqs, jobs):
    """`pegmodel front` over the requests (deep recursion of evalF on long lines: large stack)."""
    from concurrent.futures import ThreadPoolExecutor
    jobs = max(1, min(jobs, len(reqs)))
    # long texts first so that the chunks are balanced
    order = sorted(range(len(reqs)), key=lambda i: -len(reqs[i]['runes']))
    chunks = [[reqs[i] for i in order[k::jobs]] for k in range(jobs)]

    def one(chunk):
        out = {}
        i = 0
        while i < len(chunk):
            data = ''.join(json.dumps(r) + '\n' for r in chunk[i:])
            p = subprocess.run([pegmodel, 'front'], input=data, capture_output=True, text=True, preexec_fn=big_stack)
            lines = [json.loads(l) for l in p.stdout.split('\n') if l.strip()]
            for x in lines:
                out[x['id']] = x
            i += len(lines)
            if i < len(chunk) and p.returncode != 0:
                out[chunk[i]['id']] = {'id': chunk[i]['id'], 'result': {'crash': 'pegmodel died (rc %d): %s' % (p.returncode, p.stderr[-300:])}}
                i += 1
            elif i < len(chunk) and not lines:
                raise RuntimeError('pegmodel front produced nothing: ' + p.stderr[-500:])
        return out
    res = {}
    with ThreadPoolExecutor(jobs) as ex:
        for r in ex.map(one, chunks):
            res.update(r)
    return res


def run_real(pegx, reqs, jobs, timeout=60):
    """pegx over the requests.  (Not peglib.run_pegx: that one uses str.splitlines, which also splits
    at U+0085/U+2028/… that Go's JSON encoder leaves unescaped inside strings.)"""
    from concurrent.futures import ThreadPoolExecutor
    jobs = max(1, min(jobs, len(reqs)))
    chunks = [reqs[k::jobs] for k in range(jobs)]

    def one(chunk):
        out = {}
        i = 0
        while i < len(chunk):
            data = ''.join(json.dumps(r) + '\n' for r in chunk[i:])
            p = subprocess.run([pegx, '-timeout', '%ds' % timeout], input=data.encode('utf-8'), capture_output=True,
                               env=dict(L.GOENV, GOMEMLIMIT='3GiB'))
            lines = [json.loads(l) for l in p.stdout.decode('utf-8').split('\n') if l.strip()]
            for x in lines:
                out[x['id']] = x
            i += len(lines)
            if i < len(chunk) and p.returncode != 3:
                out[chunk[i]['id']] = {'id': chunk[i]['id'], 'crash': p.stderr.decode('utf-8', 'replace')[-1500:] or 'pegx died', 'rc': p.returncode}
                i += 1
        return out
    res = {}
    with ThreadPoolExecutor(jobs) as ex:
        for r in ex.map(one, chunks):
            res.update(r)
    return res


def case_maps(tools):
    """strings.ToLower / strings.ToUpper of the Go library the real front end is linked with (`pegx -casemap`) against the
    model's (`pegmodel casemap`: the transcription of unicode.ToLower/ToUpper over the regenerated unicode.CaseRanges), on
    EVERY code point.  Returns (number of code points whose case strings differ from themselves, list of differences)."""
    pr = subprocess.run([tools.pegx, '-casemap'], capture_output=True, text=True, env=L.GOENV)
    pm = subprocess.run([tools.pegmodel, 'casemap'], capture_output=True, text=True)
    if pr.returncode != 0 or pm.returncode != 0 or not pr.stdout.strip():
        raise RuntimeError('casemap failed: pegx rc %d %s | pegmodel rc %d %s' % (pr.returncode, pr.stderr[-300:], pm.returncode, pm.stderr[-300:]))

    def table(out):
        t = {}
        for line in out.split('\n'):
            f = line.split()
            if f:
                t[int(f[0])] = (f[1], f[2])
        return t
    tr, tm = table(pr.stdout), table(pm.stdout)
    diffs = []
    for cp in sorted(set(tr) | set(tm)):
        if tr.get(cp) != tm.get(cp):
            diffs.append({'cp': cp, 'real': tr.get(cp, (str(cp), str(cp))), 'model': tm.get(cp, (str(cp), str(cp)))})
    return len(tr), diffs


def spec_case_maps(tools):
    """The spec's own case forms (frontgen.go_lower/go_upper, Python's Unicode database) against the real library on every
    code point the generator may put into a case-insensitive position (frontgen.fold_ok): a difference means the spec and
    the front end do not mean the same by "lower case" / "upper case" of that character."""
    pr = subprocess.run([tools.pegx, '-casemap'], capture_output=True, text=True, env=L.GOENV)
    tr = {}
    for line in pr.stdout.split('\n'):
        f = line.split()
        if f:
            tr[int(f[0])] = (f[1], f[2])
    diffs = []
    n = 0
    for cp in range(0x110000):
        if 0xd800 <= cp <= 0xdfff or not FG.fold_ok(cp):
            continue
        n += 1
        want = (str(FG.go_lower(cp)), str(FG.go_upper(cp)))
        got = tr.get(cp, (str(cp), str(cp)))
        if want != got:
            diffs.append({'cp': cp, 'spec': want, 'real': got})
    return n, diffs


def real_outcome(r):
    if r.get('crash') or r.get('timeout'):
        return ('crash', r.get('crash') or 'timeout')
    if r.get('panic'):
        return ('panic', r['panic'].split('\n')[0])
    if r.get('syntaxError'):
        return ('syntaxError', None)
    if r.get('frontError'):
        return ('compileError', r['frontError'])
    return ('tree', r.get('tree') or [])


def names_escapes(msg, digits):
    """Does the error text name, one per line and in order, the hex escapes with these digit strings?"""
    lines = msg.split('\n')
    return len(lines) == len(digits) and all(('\\0x' + d) in l.split() for l, d in zip(lines, digits))


def model_outcome(m):
    res = m.get('result')
    if res is None:
        return ('crash', json.dumps(m)[:200])
    if 'crash' in res:
        return ('crash', res['crash'])
    if res.get('syntaxError'):
        return ('syntaxError', None)
    if 'panic' in res:
        return ('panic', res['panic'])
    if 'unsupported' in res:
        return ('unsupported', res['unsupported'])
    if 'compileError' in res:
        return ('compileError', res['compileError'])
    return ('tree', res.get('tree') or [])


def short(x, n=300):
    s = x if isinstance(x, str) else json.dumps(x, ensure_ascii=False)
    return s if len(s) <= n else s[:n] + '…'


def first_diff(a, b, path='top'):
    """Human-readable first difference of two JSON trees."""
    if isinstance(a, list) and isinstance(b, list):
        for i, (x, y) in enumerate(zip(a, b)):
            d = first_diff(x, y, '%s[%d]' % (path, i))
            if d:
                return d
        if len(a) != len(b):
            return '%s: %d vs %d elements; extra: %s' % (path, len(a), len(b), short((a + b)[min(len(a), len(b))], 120))
        return None
    if isinstance(a, dict) and isinstance(b, dict):
        for k in ('t', 's', 'id'):
            if a.get(k) != b.get(k):
                return '%s.%s: %r vs %r' % (path, k, a.get(k), b.get(k))
        return first_diff(a.get('k', []), b.get('k', []), path + '/' + a.get('t', '?'))
    return None if a == b else '%s: %r vs %r' % (path, a, b)


def rule_bodies(tree):
    return [(n.get('k') or [None])[0] for n in tree if n['t'] == 'Rule']


def main():
    ap = argparse.ArgumentParser()
    ap.add_argument('--tier', default='quick', choices=['quick', 'thorough'])
    ap.add_argument('--seed', type=int, default=1)
    ap.add_argument('--json', default='')
    ap.add_argument('--no-regen', action='store_true', help='do not regenerate PegGrammar.lean / rebuild pegmodel')
    ap.add_argument('--fail-on-findings', action='store_true')
    ap.add_argument('--max-print', type=int, default=25)
    a = ap.parse_args()
    t_start = time.time()
    tools = L.Tools(need_lean=False)
    if not a.no_regen:
        import genpeggrammar
        src = genpeggrammar.generate(tools, L.REPO)
        out = os.path.join(L.LEAN, 'PegVerif', 'Generated', 'PegGrammar.lean')
        old = open(out).read() if os.path.exists(out) else None
        if old != src:
            os.makedirs(os.path.dirname(out), exist_ok=True)
            with open(out, 'w') as fh:
                fh.write(src)
            L.log('regenerated', out)
        import gencasetable
        out = os.path.join(L.LEAN, 'PegVerif', 'Generated', 'CaseRanges.lean')
        if gencasetable.write_if_changed(out, gencasetable.generate(tools)):
            L.log('regenerated', out)
        tools.lake_build(['pegmodel'])
    t_build = time.time()

    # Where the spec's oracle for "upper/lower case" (Python's Unicode database) and the Go library disagree — a different
    # Unicode version on either side — the spec has no independent answer: the generator keeps such code points out of
    # case-insensitive positions instead of blaming the front end (the model's maps are compared with Go's everywhere).
    n_spec_cp, sc_diffs = spec_case_maps(tools)
    FG.FOLD_EXCLUDE.update(d['cp'] for d in sc_diffs)
    g = FG.generate(a.seed, a.tier)
    well, mal, probes, stats = g['well'], g['malformed'], g['probes'], g['stats']
    texts = {}
    for c in well:
        texts[c['id']] = L.runes_of(c['text'].encode('utf-8'))
    for c in mal:
        texts[c['id']] = L.runes_of(c['data'])
    for pid, text, expect, note in probes:
        texts['probe-' + pid] = L.runes_of(text.encode('utf-8'))
    for k, rs in texts.items():
        assert all(r < 0x110000 and not (0xd800 <= r <= 0xdfff) for r in rs), k
    ids = list(texts)
    t_gen = time.time()
    real = run_real(tools.pegx, [{'id': k, 'text': ''.join(map(chr, texts[k])), 'tree': True, 'compile': True} for k in ids], L.NCPU)
    t_real = time.time()
    model = run_model(tools.pegmodel, [{'id': k, 'runes': texts[k]} for k in ids], L.NCPU)
    t_model = time.time()

    mismatches = []
    findings = []
    n_cased, cm_diffs = case_maps(tools)
    for d in cm_diffs[:20]:
        mismatches.append({'id': 'casemap-U+%04X' % d['cp'], 'kind': 'real-vs-model',
                           'detail': 'strings.ToLower/ToUpper of U+%04X: real %s / %s, model %s / %s' % ((d['cp'],) + tuple(d['real']) + tuple(d['model'])),
                           'text': chr(d['cp'])})
    t_case = time.time()
    counts = {'well': len(well), 'malformed': len(mal), 'probes': len(probes), 'real_vs_spec_ok': 0, 'real_vs_model_ok': 0,
              'model_unsupported': 0, 'spec_shape_only': 0, 'hex_without_codepoint_reported': 0,
              'malformed_rejected': 0, 'malformed_reported_by_compile': 0, 'malformed_accepted': 0, 'panics': 0,
              'casemap_code_points': 0x110000 - 0x800, 'casemap_cased': 0, 'casemap_real_vs_model_diffs': 0,
              'casemap_spec_code_points': 0, 'casemap_python_vs_go_code_points_excluded_from_generation': 0, 'ci_positions_cased_nonascii': 0, 'ci_positions_escaped_letter': 0}
    unsupported_reasons = {}

    def show(text_runes):
        return short(''.join(map(chr, text_runes)), 700)

    def cmp_model(cid, ro):
        mo = model_outcome(model.get(cid, {}))
        if mo[0] == 'unsupported':
            counts['model_unsupported'] += 1
            unsupported_reasons[mo[1]] = unsupported_reasons.get(mo[1], 0) + 1
            # (nothing is outside the model any more: strings.ToLower/ToUpper are modelled on every rune)
            mismatches.append({'id': cid, 'kind': 'model-unsupported', 'detail': mo[1], 'text': show(texts[cid])})
            return
        if mo[0] != ro[0] or (mo[0] in ('tree', 'panic', 'compileError') and mo[1] != ro[1]):
            d = first_diff(ro[1], mo[1]) if mo[0] == ro[0] == 'tree' else '%s vs %s' % (short(ro, 150), short(mo, 150))
            mismatches.append({'id': cid, 'kind': 'real-vs-model', 'detail': d, 'text': show(texts[cid])})
        else:
            counts['real_vs_model_ok'] += 1

    for c in well:
        ro = real_outcome(real[c['id']])
        if ro[0] in ('panic', 'crash'):
            counts['panics'] += 1
        if c['bad_escapes']:
            # spelled with hex escapes that have no code point: must be reported, naming each of them
            if ro[0] == 'compileError' and names_escapes(ro[1], c['bad_escapes']):
                counts['real_vs_spec_ok'] += 1
                counts['hex_without_codepoint_reported'] += 1
            else:
                mismatches.append({'id': c['id'], 'kind': 'real-vs-spec', 'detail': 'hex escape(s) without a code point (%s) not reported as such: %s' % (
                    ' '.join('\\0x' + d for d in c['bad_escapes']), short(ro, 300)), 'text': show(texts[c['id']])})
        elif ro[0] != 'tree':
            mismatches.append({'id': c['id'], 'kind': 'real-vs-spec', 'detail': 'well-formed text not accepted: %s %s' % (ro[0], short(real[c['id']].get('syntaxError', '') or ro[1] or '', 200)),
                               'text': show(texts[c['id']])})
        elif ro[1] != c['expect']:
            if [FG.flatten(n) for n in ro[1]] == [FG.flatten(n) for n in c['expect']]:
                counts['spec_shape_only'] += 1
                kind = 'real-vs-spec-shape'
            else:
                kind = 'real-vs-spec'
            mismatches.append({'id': c['id'], 'kind': kind, 'detail': first_diff(ro[1], c['expect']), 'text': show(texts[c['id']])})
        else:
            counts['real_vs_spec_ok'] += 1
        cmp_model(c['id'], ro)

    accepted_hand = []
    for c in mal:
        ro = real_outcome(real[c['id']])
        if ro[0] in ('panic', 'crash'):
            counts['panics'] += 1
            mismatches.append({'id': c['id'], 'kind': 'real-' + ro[0], 'detail': ro[1], 'text': show(texts[c['id']])})
        elif ro[0] == 'syntaxError':
            counts['malformed_rejected'] += 1
        elif ro[0] == 'compileError':
            counts['malformed_reported_by_compile'] += 1
        else:
            counts['malformed_accepted'] += 1
            if not any(n['t'] == 'Rule' for n in ro[1]):
                mismatches.append({'id': c['id'], 'kind': 'accepted-without-rules', 'detail': short(ro[1]), 'text': show(texts[c['id']])})
            if c['kind'] == 'hand':
                accepted_hand.append({'id': c['id'], 'rules': short(rule_bodies(ro[1]), 260), 'text': show(texts[c['id']])[-120:] if len(texts[c['id']]) > 200 else show(texts[c['id']])})
        cmp_model(c['id'], ro)

    probe_results = []
    for pid, text, expect, note in probes:
        cid = 'probe-' + pid
        ro = real_outcome(real[cid])
        cmp_model(cid, ro)
        if ro[0] in ('panic', 'crash'):
            counts['panics'] += 1
            mismatches.append({'id': cid, 'kind': 'real-' + ro[0], 'detail': ro[1], 'text': text})
        got = 'error' if ro[0] in ('syntaxError', 'compileError') else (rule_bodies(ro[1]) if ro[0] == 'tree' else ro[0])
        ok = None if expect is None else (got == expect)
        rec = {'id': pid, 'note': note, 'text': text, 'documented': 'error' if expect == 'error' else (None if expect is None else short(expect, 200)),
               'real': short(got, 260), 'agrees': ok}
        probe_results.append(rec)
        if ok is False:
            findings.append(rec)

    ci = stats.get('ci', {})
    counts.update({'casemap_cased': n_cased, 'casemap_real_vs_model_diffs': len(cm_diffs), 'casemap_spec_code_points': n_spec_cp,
                   'casemap_python_vs_go_code_points_excluded_from_generation': len(sc_diffs),
                   'ci_positions_cased_nonascii': sum(v for k, v in ci.items() if k.split('-')[0] in ('cased', 'titlecase') and '-wide-' in k),
                   'ci_positions_escaped_letter': sum(v for k, v in ci.items() if k.split('-')[0] in ('cased', 'titlecase') and k.endswith('-escaped'))})
    t_end = time.time()
    summary = {
        'tier': a.tier, 'seed': a.seed, 'repo': L.REPO, 'counts': counts,
        'mismatches': len(mismatches), 'findings': len(findings),
        'model_unsupported_reasons': unsupported_reasons,
        'escape_rows': g['escape_rows'],
        'escape_kind_x_context_cells': len(stats.get('escape-context', {})),
        'distribution': {k: dict(sorted(stats.get(k, {}).items())) for k in ('construct', 'escape', 'spelling', 'malformed', 'ci')},
        'seconds': {'build': round(t_build - t_start, 1), 'generate': round(t_gen - t_build, 1), 'real': round(t_real - t_gen, 1),
                    'model': round(t_model - t_real, 1), 'casemaps': round(t_case - t_model, 1), 'total': round(t_end - t_start, 1)},
        'model_ms_per_text': round(1000.0 * (t_model - t_real) * min(L.NCPU, len(ids)) / max(1, len(ids)), 2),
    }
    for m in mismatches[:a.max_print]:
        print('MISMATCH %s [%s] %s\n--- text ---\n%s\n------------' % (m['id'], m['kind'], m['detail'], m['text']))
    if len(mismatches) > a.max_print:
        print('… %d more mismatches' % (len(mismatches) - a.max_print))
    for f in findings:
        print('FINDING %s: %s\n   text: %r\n   documented: %s\n   real: %s' % (f['id'], f['note'], f['text'], f['documented'], f['real']))
    print('OBSERVED (probes without a documented outcome):')
    for r in probe_results:
        if r['agrees'] is None:
            print('   %s: %r -> %s' % (r['id'], r['text'][len(FG.HDR):] if r['text'].startswith(FG.HDR) else r['text'], r['real']))
    print('ACCEPTED hand-written malformed shapes:')
    for r in accepted_hand:
        print('   %s: %r -> %s' % (r['id'], r['text'][len(FG.HDR):] if r['text'].startswith(FG.HDR) else r['text'], r['rules']))
    print(json.dumps(summary, ensure_ascii=False))
    if a.json:
        summary['mismatch_list'] = mismatches
        summary['finding_list'] = findings
        summary['probe_results'] = probe_results
        summary['accepted_hand'] = accepted_hand
        L.write_json(a.json, summary)
    bad = len(mismatches) > 0 or (a.fail_on_findings and findings)
    return 1 if bad else 0


if __name__ == '__main__':
    sys.exit(main())
