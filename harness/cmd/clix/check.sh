#!/bin/bash
# C18 correspondence check: Lean model `cli` vs the peg binary built from the current /repo tree.
#   usage: check.sh [quick|thorough] [seed]        (env: REPO=/repo LEAN=<lake project dir> WORK=<scratch dir>)
set -euo pipefail
export GOFLAGS=-mod=mod GOPROXY=off
TIER=${1:-quick}
SEED=${2:-1}
HERE=$(cd "$(dirname "$0")" && pwd)
HARNESS=$(cd "$HERE/../.." && pwd)
REPO=${REPO:-/repo}
LEAN=${LEAN:-$(cd "$HARNESS/../lean" && pwd)}
WORK=${WORK:-$(mktemp -d)}
mkdir -p "$WORK"
(cd "$REPO" && go build -o "$WORK/peg" .)
(cd "$HARNESS" && go build -o "$WORK/clix" ./cmd/clix)
(cd "$LEAN" && lake build pegmodel >/dev/null)
echo ALL | "$LEAN/.lake/build/bin/pegmodel" cli > "$WORK/model.txt"
"$WORK/clix" -peg "$WORK/peg" -tier "$TIER" -seed "$SEED" -model "$WORK/model.txt" -obs "$WORK/observed.txt"
echo "clix: no mismatch ($(wc -l < "$WORK/observed.txt") observed lines, $(wc -l < "$WORK/model.txt") scenarios) in $WORK" >&2
