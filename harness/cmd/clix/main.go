// clix — correspondence check for property C18 (command-line behaviour of peg).
//
// It enumerates every abstract scenario of the Lean table (PegVerif/Model/Cli.lean,
// `Scenario.all`, same order, same canonical text), realises each one by several concrete
// representatives in fresh temporary directories, runs the real peg binary and prints what it
// observed in the canonical Outcome text of the Lean driver:
//
//	<scenario> | exit=N stderr=0|1 written=nothing|truncatedEmpty|rawInvalid|complete dest=none|defaultFile|namedFile|stdout
//
// With -model FILE (output of `echo ALL | pegmodel cli`) every observed line must be equal to the
// model's line for its scenario; mismatches are reported with the concrete command line, the
// directory listing, exit status and stderr, and the exit status of clix is 1.
//
//	clix -list                                  # scenario lines only
//	clix -peg ./peg -tier quick -seed 1 -model model.txt [-obs observed.txt]
package main

import (
	"bufio"
	"bytes"
	"context"
	"crypto/sha256"
	"encoding/json"
	"errors"
	"flag"
	"fmt"
	"go/parser"
	"go/token"
	"hash/fnv"
	"io"
	"math/rand"
	"os"
	"os/exec"
	"path/filepath"
	"regexp"
	"runtime"
	"sort"
	"strings"
	"sync"
	"syscall"
	"time"
)

// ---------------------------------------------------------------- scenarios

var (
	sources  = []string{"fileOk", "fileMissing", "fileUnreadable", "fileIsDir", "stdinNoArg", "stdinDash"}
	grammars = []string{"validSilent", "validWarn", "syntaxError", "emptyText", "duplicateRule", "invalidGo"}
	dests    = []string{"default", "named", "namedMissingDir", "namedNoPerm", "namedIsDir", "namedFull", "stdoutDash", "stdoutFull"}
	modes    = []string{"plain", "dump", "closeFail", "version"}
	bools    = []bool{false, true}
)

type Scenario struct {
	Src, Gram, Dest               string
	Strict, Inline, Switch, Noast bool
	Mode                          string
}

func (s Scenario) Dump() bool      { return s.Mode == "dump" }
func (s Scenario) Version() bool   { return s.Mode == "version" }
func (s Scenario) CloseFail() bool { return s.Mode == "closeFail" }

func b01(b bool) string {
	if b {
		return "1"
	}
	return "0"
}

func (s Scenario) Enc() string {
	return fmt.Sprintf("src=%s gram=%s dest=%s strict=%s inline=%s switch=%s noast=%s mode=%s",
		s.Src, s.Gram, s.Dest, b01(s.Strict), b01(s.Inline), b01(s.Switch), b01(s.Noast), s.Mode)
}

func allScenarios() []Scenario {
	var out []Scenario
	for _, a := range sources {
		for _, b := range grammars {
			for _, c := range dests {
				for _, d := range bools {
					for _, e := range bools {
						for _, f := range bools {
							for _, g := range bools {
								for _, h := range modes {
									out = append(out, Scenario{a, b, c, d, e, f, g, h})
								}
							}
						}
					}
				}
			}
		}
	}
	return out
}

func (s Scenario) hasFileArg() bool {
	return s.Src != "stdinNoArg" && s.Src != "stdinDash"
}

// ---------------------------------------------------------------- grammar texts

// A template is a warning-free grammar whose generated parser is syntactically valid Go under
// every option combination.  {S} is replaced by a random identifier suffix, %X% (end of the first
// rule's sequence) and %RULES% (end of text) are the hooks for the other classes.
type template struct {
	text  string
	rules []string // names of defined rules (with {S})
}

var templates = []template{
	{"package main\ntype P{S} Peg {}\nStart{S} <- 'a' B{S}%X%\nB{S} <- 'b'\n%RULES%", []string{"Start{S}", "B{S}"}},
	{`# Grammar {S}: header comment
// second comment style
package calc{S}

import "fmt"
import m "math"

type Calc{S} Peg {
	n     int
	stack []int
}

Expr{S} <- Term{S} ('+' Term{S} { p.n++ })* !.%X%
Term{S} <- < [0-9]+ > { fmt.Println(text, m.Pi); p.stack = append(p.stack, len(text)) }
%RULES%`, []string{"Expr{S}", "Term{S}"}},
	{`package main
type G{S} Peg { ok bool }
Top{S} <- Sp{S} Word{S} (',' Sp{S} Word{S})* EOT{S}%X%
Word{S} <- < [a-zA-Z_] [a-zA-Z0-9_]* > Sp{S} { p.ok = true }
Sp{S} <- (' ' / '\t' / '\n')*
EOT{S} <- !.
%RULES%`, []string{"Top{S}", "Word{S}", "Sp{S}", "EOT{S}"}},
	{`package q{S}
type Q{S} Peg { depth int }
S{S} <- &{ p.depth >= 0 } Item{S}+ !.%X%
Item{S} <- "key" [^\n]* '\n' / !'#' .
%RULES%`, []string{"S{S}", "Item{S}"}},
	{`package main

import "strconv"

type Calc{S} Peg { vals []int }

E{S}    <- Sum{S} !.%X%
Sum{S}  <- Prod{S} (('+' / '-') Prod{S})*
Prod{S} <- Val{S} (('*' / '/') Val{S})*
Val{S}  <- < [0-9]+ > { v, _ := strconv.Atoi(text); p.vals = append(p.vals, v) }
         / '(' Sum{S} ')'
%RULES%`, []string{"E{S}", "Sum{S}", "Prod{S}", "Val{S}"}},
	{`package main
type U{S} Peg {}
Doc{S} <- (Greek{S} / Esc{S})+ End{S}%X%
Greek{S} <- [α-ω]+ / 'λ'
Esc{S} <- '\n' / '\t' / '\\' / '\'' / "\"" / [\[\]] / '\101'
End{S} <- !.
%RULES%`, []string{"Doc{S}", "Greek{S}", "Esc{S}", "End{S}"}},
	{`# chain of rules {S}

package chain{S}

type Chain{S} Peg {}

R0{S} <- R1{S} R2{S}%X%   # start
R1{S} <- 'x' R3{S}?
R2{S} <- R4{S}* R5{S}
R3{S} <- [0-9] R6{S}
R4{S} <- 'y' / 'z'
R5{S} <- R7{S}+
R6{S} <- .
R7{S} <- !'q' [a-p]

%RULES%`, []string{"R0{S}", "R1{S}", "R2{S}", "R3{S}", "R4{S}", "R5{S}", "R6{S}", "R7{S}"}},
	{`package main
type N{S} Peg { s string; n int }
Top{S} <- (Tok{S} { if len(text) > 0 { p.n++; for i := 0; i < 2; i++ { p.n += i } } })+ !.%X%
Tok{S} <- < [a-z]+ > ' '? { p.s = text }
%RULES%`, []string{"Top{S}", "Tok{S}"}},
	{`package main
type A{S} Peg {}
Top{S} ← Left{S} Right{S}%X%
Left{S} ← 'l'+
Right{S} ← 'r'*
%RULES%`, []string{"Top{S}", "Left{S}", "Right{S}"}},
	{`// json-ish {S}
package j{S}

import (
	"fmt"
)

type J{S} Peg {
	depth int
}

Value{S}  <- WS{S} (Obj{S} / Arr{S} / Str{S} / Num{S} / "true" / "false" / "null") WS{S}%X%
Obj{S}    <- '{' { p.depth++ } (Pair{S} (',' Pair{S})*)? WS{S} '}' { p.depth-- }
Pair{S}   <- WS{S} Str{S} WS{S} ':' Value{S}
Arr{S}    <- '[' (Value{S} (',' Value{S})*)? WS{S} ']'
Str{S}    <- '"' < (!'"' .)* > '"' { fmt.Println(text) }
Num{S}    <- '-'? [0-9]+ ('.' [0-9]+)?
WS{S}     <- [ \t\r\n]*
%RULES%`, []string{"Value{S}", "Obj{S}", "Pair{S}", "Arr{S}", "Str{S}", "Num{S}", "WS{S}"}},
	{`package main
type M{S} Peg { a, b int }
Top{S} <- !{ p.a = 3 } &{ p.a > 2 } < Head{S} > { p.a++ } < Tail{S} > { p.b++ } !.%X%
Head{S} <- [A-Z]
Tail{S} <- [a-z]*
%RULES%`, []string{"Top{S}", "Head{S}", "Tail{S}"}},
	{"package main\r\ntype W{S} Peg {}\r\nTop{S} <- 'a' Nl{S}%X%\r\nNl{S} <- '\\r'? '\\n'\r\n%RULES%", []string{"Top{S}", "Nl{S}"}},
}

var emptyTexts = []string{"", "\n", "  \n\n", "# comment only\n", "\t", "// only a comment\n", "\n\n\n", " ", "# a\n# b\n", "\r\n", "#", "   # x"}

var badActions = []string{
	" { this is not go ((( }",
	" { if }",
	" { x := := 1 }",
	" &{ ??? }",
	" { func( }",
	" { p.n = ) }",
	" !{ ))) }",
	" { var }",
	" { return return }",
	" { a b c d }",
	" { @ }",
	" { for for }",
}

// syntax-error mutations of a valid text: op(text) string
var syntaxBreakers = []func(string) string{
	func(t string) string { return t + "\nBroken <- ( 'a'\n" },
	func(t string) string { return t + "\nBroken <- 'unterminated\n" },
	func(t string) string { return t + "\nBroken <- )\n" },
	func(t string) string { return "%%%\n" + t },
	func(t string) string { return strings.Replace(t, "package", "", 1) },
	func(t string) string { return t + "\nBroken <- [a-\n" },
	func(t string) string { return t + "\nBroken <- { unclosed action\n" },
	func(t string) string { return t + "\nBroken <- <'a'\n" },
	func(t string) string { return t + "\nBroken <- 'a' ) 'b'\n" },
	func(t string) string { return strings.Replace(t, "Peg", "Pog", 1) },
	func(t string) string { return t + "\n<- 'a'\n" },
	func(t string) string { return t + "\nBroken <- 'a' @\n" },
}

func suffix(rng *rand.Rand) string {
	const letters = "abcdefghijklmnopqrstuvwxyz0123456789"
	n := 1 + rng.Intn(5)
	b := make([]byte, n)
	for i := range b {
		b[i] = letters[rng.Intn(len(letters))]
	}
	return string(b)
}

// grammarText returns a text of class gram; k selects the variant deterministically so that
// consecutive representatives differ in template AND in kind.
func grammarText(gram string, k int, rng *rand.Rand) (text, note string) {
	if gram == "emptyText" {
		return emptyTexts[k%len(emptyTexts)], fmt.Sprintf("empty#%d", k%len(emptyTexts))
	}
	ti := (k + rng.Intn(len(templates))) % len(templates)
	t := templates[ti]
	sfx := suffix(rng)
	x, rules := "", ""
	switch gram {
	case "validSilent":
		note = fmt.Sprintf("tmpl%d", ti)
	case "validWarn":
		switch k % 3 {
		case 0:
			rules = "Unused" + sfx + " <- 'u'\n"
			note = fmt.Sprintf("tmpl%d+unused", ti)
		case 1:
			x = " Undef" + sfx
			note = fmt.Sprintf("tmpl%d+undefined", ti)
		case 2:
			x = " LR" + sfx
			rules = "LR" + sfx + " <- LR" + sfx + " 'x' / 'y'\n"
			note = fmt.Sprintf("tmpl%d+leftrec", ti)
		}
	case "duplicateRule":
		r := t.rules[(k/len(templates)+rng.Intn(len(t.rules)))%len(t.rules)]
		rules = r + " <- 'dup'\n"
		note = fmt.Sprintf("tmpl%d+dup(%s)", ti, strings.ReplaceAll(r, "{S}", sfx))
	case "invalidGo":
		a := badActions[k%len(badActions)]
		x = a
		note = fmt.Sprintf("tmpl%d+badaction#%d", ti, k%len(badActions))
	case "syntaxError":
		note = fmt.Sprintf("tmpl%d+break#%d", ti, k%len(syntaxBreakers))
	}
	text = t.text
	text = strings.ReplaceAll(text, "%X%", x)
	text = strings.ReplaceAll(text, "%RULES%", rules)
	text = strings.ReplaceAll(text, "{S}", sfx)
	if gram == "syntaxError" {
		text = syntaxBreakers[k%len(syntaxBreakers)](text)
	}
	return text, note
}

// ---------------------------------------------------------------- capabilities

type caps struct {
	DropUID   bool   `json:"drop_uid"`  // can run the binary as uid 65534 (permission scenarios)
	Strace    string `json:"strace"`    // strace invocation used for Close fault injection ("" = unavailable)
	ROMount   string `json:"ro_mount"`  // a directory on a read-only file system ("" = none)
	Immutable bool   `json:"immutable"` // chattr +i works
	DevFull   bool   `json:"dev_full"`  // /dev/full exists
	IsRoot    bool   `json:"is_root"`
}

var (
	pegPath    string // copy of the binary inside the temp root (reachable by uid 65534)
	tmpRoot    string
	capsv      caps
	straceArgs []string
	timeout    = 60 * time.Second
)

const nobody = 65534

func probeCaps() {
	capsv.IsRoot = os.Geteuid() == 0
	if _, err := os.Stat("/dev/full"); err == nil {
		capsv.DevFull = true
	}
	if !capsv.IsRoot {
		capsv.DropUID = true // nothing to drop: mode bits already apply to us
	} else {
		cmd := exec.Command(pegPath, "-version")
		cmd.SysProcAttr = &syscall.SysProcAttr{Credential: &syscall.Credential{Uid: nobody, Gid: nobody, NoSetGroups: false}}
		if err := cmd.Run(); err == nil {
			capsv.DropUID = true
		}
	}
	if st, err := exec.LookPath("strace"); err == nil {
		for _, extra := range [][]string{{"--seccomp-bpf"}, {}} {
			args := append([]string{"-f"}, extra...)
			args = append(args, "-o", "/dev/null", "-e", "trace=close", "-e", "inject=close:error=EIO")
			cmd := exec.Command(st, append(append([]string{}, args...), pegPath, "-version")...)
			if out, err := cmd.Output(); err == nil && bytes.HasPrefix(out, []byte("version:")) {
				straceArgs = append([]string{st}, args...)
				capsv.Strace = strings.Join(straceArgs, " ")
				break
			}
		}
	}
	if data, err := os.ReadFile("/proc/mounts"); err == nil {
		for _, line := range strings.Split(string(data), "\n") {
			f := strings.Fields(line)
			if len(f) < 4 || !strings.HasPrefix(f[0], "/dev/") {
				continue
			}
			ro := false
			for _, o := range strings.Split(f[3], ",") {
				if o == "ro" {
					ro = true
				}
			}
			if !ro {
				continue
			}
			p := filepath.Join(f[1], fmt.Sprintf("clix-probe-%d", os.Getpid()))
			_, err := os.OpenFile(p, os.O_RDWR|os.O_CREATE|os.O_TRUNC, 0o644)
			if errors.Is(err, syscall.EROFS) {
				capsv.ROMount = f[1]
				break
			}
			os.Remove(p)
		}
	}
	if ch, err := exec.LookPath("chattr"); err == nil && capsv.IsRoot {
		p := filepath.Join(tmpRoot, "immutable-probe")
		if os.WriteFile(p, []byte("x"), 0o644) == nil {
			if exec.Command(ch, "+i", p).Run() == nil {
				if _, err := os.OpenFile(p, os.O_RDWR|os.O_TRUNC, 0o644); err != nil {
					capsv.Immutable = true
				}
				_ = exec.Command(ch, "-i", p).Run()
			}
			os.Remove(p)
		}
	}
}

// ---------------------------------------------------------------- representatives

type rep struct {
	sc       Scenario
	idx      int
	dir      string   // cwd
	args     []string // peg arguments
	stdin    []byte
	text     string
	note     []string
	nobody   bool
	stdoutTo string // "", "full", "rdonly"
	// candidate locations
	defaultPath string // "" if none
	namedPath   string // "" if none
	stale       map[string][]byte
	cleanup     []func()
	unreal      string // reason when the scenario cannot be realised
}

var grammarNames = []string{"g.peg", "my grammar.peg", "sub/x.peg", "noext", "UPPER.PEG", "a b/c d.peg", "grämmar.peg", "x.peg.peg", "dot.dir/g.v2.peg", "=eq.peg", "deep/er/path/p.peg"}
var outNames = []string{"out.go", "my out.go", "sub2/o.go", "parser_gen.go", "o", "gen/x y/z.peg.go", "ünï.go", "out.txt"}

func mustMkdirAll(p string) {
	if err := os.MkdirAll(p, 0o777); err != nil {
		panic(err)
	}
	// make every component below tmpRoot world accessible (for uid 65534)
	for q := p; strings.HasPrefix(q, tmpRoot) && q != tmpRoot; q = filepath.Dir(q) {
		_ = os.Chmod(q, 0o777)
	}
}

func mustWrite(p string, data []byte, mode os.FileMode) {
	mustMkdirAll(filepath.Dir(p))
	if err := os.WriteFile(p, data, mode); err != nil {
		panic(err)
	}
	_ = os.Chmod(p, mode)
}

func boolFlag(name string, rng *rand.Rand) string {
	switch rng.Intn(3) {
	case 0:
		return "-" + name
	case 1:
		return "--" + name
	}
	return "-" + name + "=true"
}

func build(sc Scenario, idx int, seed int64) *rep {
	h := fnv.New64a()
	h.Write([]byte(sc.Enc()))
	rng := rand.New(rand.NewSource(seed ^ int64(h.Sum64()) ^ int64(idx)*7919))
	r := &rep{sc: sc, idx: idx, stale: map[string][]byte{}}
	dir, err := os.MkdirTemp(tmpRoot, "r")
	if err != nil {
		panic(err)
	}
	_ = os.Chmod(dir, 0o777)
	r.dir = dir
	// variant index: consecutive representatives take consecutive variants (so 0,1,2 cover the
	// three warning kinds); the scenario hash shifts the starting template for the other classes
	k := idx
	if sc.Gram != "validWarn" {
		k += int(h.Sum64() % 7)
	}
	text, note := grammarText(sc.Gram, k, rng)
	r.text = text
	r.note = append(r.note, note)

	abs := (idx+rng.Intn(2))%2 == 1
	pathArg := func(rel string) string {
		if abs {
			return filepath.Join(dir, rel)
		}
		return rel
	}

	var flags [][]string
	add := func(f ...string) { flags = append(flags, f) }
	if sc.Strict {
		add(boolFlag("strict", rng))
	}
	if sc.Inline {
		add(boolFlag("inline", rng))
	} else if rng.Intn(4) == 0 {
		add("-inline=false")
	}
	if sc.Switch {
		add(boolFlag("switch", rng))
	}
	if sc.Noast {
		add(boolFlag("noast", rng))
	} else if rng.Intn(4) == 0 {
		add("-noast=false")
	}
	if sc.Dump() {
		switch idx % 3 {
		case 0:
			add("-syntax")
		case 1:
			add("-print")
		case 2:
			add("-print")
			add("-syntax")
		}
	}
	if sc.Version() {
		add(boolFlag("version", rng))
	}

	// ---- source
	var posArg []string
	gname := grammarNames[(idx+rng.Intn(len(grammarNames)))%len(grammarNames)]
	switch sc.Src {
	case "fileOk":
		mustWrite(filepath.Join(dir, gname), []byte(text), 0o644)
		posArg = []string{pathArg(gname)}
	case "fileMissing":
		switch idx % 3 {
		case 0:
			mustMkdirAll(filepath.Dir(filepath.Join(dir, gname)))
			r.note = append(r.note, "ENOENT")
		case 1:
			gname = "nodir" + suffix(rng) + "/" + filepath.Base(gname)
			r.note = append(r.note, "ENOENT(parent)")
		case 2:
			mustWrite(filepath.Join(dir, "afile"), []byte(text), 0o644)
			gname = "afile/" + filepath.Base(gname)
			r.note = append(r.note, "ENOTDIR")
		}
		posArg = []string{pathArg(gname)}
	case "fileUnreadable":
		v := idx % 4
		if !capsv.DropUID {
			v = 3
		}
		switch v {
		case 0:
			mustWrite(filepath.Join(dir, gname), []byte(text), 0o000)
			r.nobody = true
			r.note = append(r.note, "EACCES(mode 0000, uid 65534)")
		case 1:
			gname = "locked/" + filepath.Base(gname)
			mustWrite(filepath.Join(dir, gname), []byte(text), 0o644)
			p := filepath.Join(dir, "locked")
			_ = os.Chmod(p, 0o000)
			r.cleanup = append(r.cleanup, func() { _ = os.Chmod(p, 0o777) })
			r.nobody = true
			r.note = append(r.note, "EACCES(parent 0000, uid 65534)")
		case 2:
			mustWrite(filepath.Join(dir, gname), []byte(text), 0o200)
			r.nobody = true
			r.note = append(r.note, "EACCES(mode 0200, uid 65534)")
		case 3:
			mustMkdirAll(filepath.Dir(filepath.Join(dir, gname)))
			if err := os.Symlink(filepath.Base(gname), filepath.Join(dir, gname)); err != nil {
				panic(err)
			}
			r.note = append(r.note, "ELOOP(symlink loop)")
		}
		posArg = []string{pathArg(gname)}
	case "fileIsDir":
		mustMkdirAll(filepath.Join(dir, gname))
		if idx%2 == 1 {
			mustWrite(filepath.Join(dir, gname, "inner.peg"), []byte(text), 0o644)
		}
		posArg = []string{pathArg(gname)}
	case "stdinNoArg":
		r.stdin = []byte(text)
	case "stdinDash":
		r.stdin = []byte(text)
		posArg = []string{"-"}
	}
	if sc.hasFileArg() {
		r.defaultPath = filepath.Join(dir, gname) + ".go"
	}

	// ---- destination
	outFlag := func(v string) {
		switch rng.Intn(3) {
		case 0:
			add("-output", v)
		case 1:
			add("-output=" + v)
		case 2:
			add("--output", v)
		}
	}
	absOut := (idx/2+rng.Intn(2))%2 == 1
	outArg := func(rel string) string {
		if absOut {
			return filepath.Join(dir, rel)
		}
		return rel
	}
	oname := outNames[(idx+rng.Intn(len(outNames)))%len(outNames)]
	preStale := func(p string) {
		if (idx+rng.Intn(2))%2 == 1 {
			mustWrite(p, []byte("STALE\n"), 0o666)
			r.stale[p] = []byte("STALE\n")
			r.note = append(r.note, "stale destination")
		}
	}
	switch sc.Dest {
	case "default":
		if r.defaultPath != "" && sc.Src != "fileMissing" && sc.Src != "fileUnreadable" {
			preStale(r.defaultPath)
		}
	case "named":
		mustMkdirAll(filepath.Dir(filepath.Join(dir, oname)))
		r.namedPath = filepath.Join(dir, oname)
		preStale(r.namedPath)
		outFlag(outArg(oname))
	case "namedMissingDir":
		switch idx % 2 {
		case 0:
			oname = "nodir" + suffix(rng) + "/" + filepath.Base(oname)
		case 1:
			oname = "no/such/dir/" + filepath.Base(oname)
		}
		r.namedPath = filepath.Join(dir, oname)
		outFlag(outArg(oname))
	case "namedNoPerm":
		var variants []int
		if capsv.DropUID {
			variants = append(variants, 0, 1)
		}
		if capsv.ROMount != "" {
			variants = append(variants, 2)
		}
		if capsv.Immutable {
			variants = append(variants, 3)
		}
		if len(variants) == 0 {
			r.unreal = "no way to make a file unwritable (not root-droppable, no ro mount, no chattr)"
			return r
		}
		switch variants[idx%len(variants)] {
		case 0:
			p := filepath.Join(dir, oname)
			mustWrite(p, []byte("STALE\n"), 0o444)
			r.stale[p] = []byte("STALE\n")
			r.namedPath = p
			r.nobody = true
			outFlag(outArg(oname))
			r.note = append(r.note, "EACCES(file 0444, uid 65534)")
		case 1:
			oname = "rodir/" + filepath.Base(oname)
			p := filepath.Join(dir, oname)
			mustMkdirAll(filepath.Dir(p))
			d := filepath.Dir(p)
			_ = os.Chmod(d, 0o555)
			r.cleanup = append(r.cleanup, func() { _ = os.Chmod(d, 0o777) })
			r.namedPath = p
			r.nobody = true
			outFlag(outArg(oname))
			r.note = append(r.note, "EACCES(dir 0555, uid 65534)")
		case 2:
			p := filepath.Join(capsv.ROMount, fmt.Sprintf("clix-%d-%s.go", os.Getpid(), suffix(rng)))
			r.namedPath = p
			outFlag(p)
			r.note = append(r.note, "EROFS")
		case 3:
			p := filepath.Join(dir, oname)
			mustWrite(p, []byte("STALE\n"), 0o644)
			r.stale[p] = []byte("STALE\n")
			if err := exec.Command("chattr", "+i", p).Run(); err != nil {
				panic(err)
			}
			r.cleanup = append(r.cleanup, func() { _ = exec.Command("chattr", "-i", p).Run() })
			r.namedPath = p
			outFlag(outArg(oname))
			r.note = append(r.note, "EPERM(chattr +i)")
		}
	case "namedIsDir":
		switch idx % 3 {
		case 0:
			mustMkdirAll(filepath.Join(dir, oname))
			r.namedPath = filepath.Join(dir, oname)
			outFlag(outArg(oname))
		case 1:
			r.namedPath = dir
			if absOut {
				outFlag(dir)
			} else {
				outFlag(".")
			}
		case 2:
			mustMkdirAll(filepath.Join(dir, oname))
			r.namedPath = filepath.Join(dir, oname)
			outFlag(outArg(oname) + "/")
		}
	case "namedFull":
		if !capsv.DevFull {
			r.unreal = "/dev/full missing"
			return r
		}
		if idx%2 == 0 {
			r.namedPath = "/dev/full"
			outFlag("/dev/full")
		} else {
			p := filepath.Join(dir, oname)
			mustMkdirAll(filepath.Dir(p))
			if err := os.Symlink("/dev/full", p); err != nil {
				panic(err)
			}
			r.namedPath = p
			outFlag(outArg(oname))
			r.note = append(r.note, "symlink to /dev/full")
		}
	case "stdoutDash":
		outFlag("-")
	case "stdoutFull":
		outFlag("-")
		if idx%2 == 0 && capsv.DevFull {
			r.stdoutTo = "full"
			r.note = append(r.note, "stdout=/dev/full (ENOSPC)")
		} else {
			r.stdoutTo = "rdonly"
			r.note = append(r.note, "stdout=O_RDONLY descriptor (EBADF)")
		}
	}
	if sc.CloseFail() && len(straceArgs) == 0 {
		r.unreal = "strace unavailable: cannot inject Close failures"
		return r
	}

	rng.Shuffle(len(flags), func(i, j int) { flags[i], flags[j] = flags[j], flags[i] })
	for _, f := range flags {
		r.args = append(r.args, f...)
	}
	r.args = append(r.args, posArg...)
	return r
}

// ---------------------------------------------------------------- running and observing

type runResult struct {
	exit     int
	signaled bool
	timedOut bool
	stdout   []byte
	stderr   []byte
}

// runPeg runs the binary once more when the run was cut off by the harness itself (its own time limit, or the I/O of an already
// exited process not drained in time — both happen on a heavily loaded machine); a binary that really hangs does so again.
func runPeg(dir string, args []string, stdin []byte, asNobody bool, stdoutTo string, inject bool) runResult {
	res := runPegOnce(dir, args, stdin, asNobody, stdoutTo, inject)
	for try := 0; try < 2 && (res.timedOut || res.exit == -1); try++ {
		res = runPegOnce(dir, args, stdin, asNobody, stdoutTo, inject)
	}
	return res
}

func runPegOnce(dir string, args []string, stdin []byte, asNobody bool, stdoutTo string, inject bool) runResult {
	ctx, cancel := context.WithTimeout(context.Background(), timeout)
	defer cancel()
	argv := []string{pegPath}
	if inject {
		argv = append(append([]string{}, straceArgs...), pegPath)
	}
	argv = append(argv, args...)
	cmd := exec.CommandContext(ctx, argv[0], argv[1:]...)
	cmd.Dir = dir
	cmd.Stdin = bytes.NewReader(stdin)
	var so, se bytes.Buffer
	cmd.Stderr = &se
	switch stdoutTo {
	case "full":
		f, err := os.OpenFile("/dev/full", os.O_WRONLY, 0)
		if err != nil {
			panic(err)
		}
		defer f.Close()
		cmd.Stdout = f
	case "rdonly":
		f, err := os.Open("/dev/null")
		if err != nil {
			panic(err)
		}
		defer f.Close()
		cmd.Stdout = f
	default:
		cmd.Stdout = &so
	}
	cmd.SysProcAttr = &syscall.SysProcAttr{Setpgid: true}
	if asNobody && capsv.IsRoot {
		cmd.SysProcAttr.Credential = &syscall.Credential{Uid: nobody, Gid: nobody}
	}
	cmd.Cancel = func() error {
		if cmd.Process != nil {
			return syscall.Kill(-cmd.Process.Pid, syscall.SIGKILL)
		}
		return nil
	}
	cmd.WaitDelay = 20 * time.Second
	err := cmd.Run()
	res := runResult{stdout: so.Bytes(), stderr: se.Bytes()}
	if ctx.Err() != nil {
		res.timedOut = true
	}
	if err != nil {
		var ee *exec.ExitError
		if errors.As(err, &ee) {
			res.exit = ee.ExitCode()
			if ws, ok := ee.Sys().(syscall.WaitStatus); ok && ws.Signaled() {
				res.signaled = true
				res.exit = 128 + int(ws.Signal())
			}
		} else {
			res.exit = -1
			res.stderr = append(res.stderr, []byte("\n[clix] "+err.Error())...)
		}
	}
	return res
}

// reference output of `peg <parser options> -output -` for a text
type refKey struct {
	inline, sw, noast bool
	sum               [32]byte
}
type refVal struct {
	ok   bool
	body string // without the generator line
}

var (
	refMu    sync.Mutex
	refCache = map[refKey]*refVal{}
	goMu     sync.Mutex
	goCache  = map[[32]byte]bool{}
)

func isGo(src []byte) bool {
	k := sha256.Sum256(src)
	goMu.Lock()
	v, ok := goCache[k]
	goMu.Unlock()
	if ok {
		return v
	}
	_, err := parser.ParseFile(token.NewFileSet(), "x.go", src, parser.ParseComments|parser.SkipObjectResolution)
	v = err == nil
	goMu.Lock()
	goCache[k] = v
	goMu.Unlock()
	return v
}

func stripGenerator(b []byte) string {
	s := string(b)
	if strings.HasPrefix(s, "// Code generated by peg") {
		if i := strings.IndexByte(s, '\n'); i >= 0 {
			return s[i+1:]
		}
	}
	return s
}

func reference(sc Scenario, text string) *refVal {
	k := refKey{sc.Inline, sc.Switch, sc.Noast, sha256.Sum256([]byte(text))}
	refMu.Lock()
	v, ok := refCache[k]
	refMu.Unlock()
	if ok {
		return v
	}
	var args []string
	if sc.Inline {
		args = append(args, "-inline")
	}
	if sc.Switch {
		args = append(args, "-switch")
	}
	if sc.Noast {
		args = append(args, "-noast")
	}
	args = append(args, "-output", "-")
	res := runPeg(tmpRoot, args, []byte(text), false, "", false)
	v = &refVal{}
	if res.exit == 0 && !res.timedOut && len(res.stdout) > 0 && isGo(res.stdout) {
		v.ok = true
		v.body = stripGenerator(res.stdout)
	}
	refMu.Lock()
	refCache[k] = v
	refMu.Unlock()
	return v
}

var bannerRe = regexp.MustCompile(`\Aversion: \S+\n\z`)

// classify a non-empty content
func classifyContent(sc Scenario, text string, content []byte) string {
	if !isGo(content) {
		return "rawInvalid"
	}
	ref := reference(sc, text)
	if !ref.ok {
		return "goButNoReference"
	}
	if stripGenerator(content) != ref.body {
		return "goButDiffersFromReference"
	}
	return "complete"
}

func fileState(r *rep, p string) string {
	if p == "" {
		return "nothing"
	}
	st, err := os.Stat(p)
	if err != nil || !st.Mode().IsRegular() {
		return "nothing" // missing, directory, device
	}
	data, err := os.ReadFile(p)
	if err != nil {
		// unreadable for us?  we are root or the owner; report loudly
		return "unreadable(" + err.Error() + ")"
	}
	if old, ok := r.stale[p]; ok && bytes.Equal(old, data) {
		return "nothing"
	}
	if len(data) == 0 {
		return "truncatedEmpty"
	}
	return classifyContent(r.sc, r.text, data)
}

type observed struct {
	line string
	res  runResult
}

func listing(dir string) string {
	var b strings.Builder
	_ = filepath.Walk(dir, func(p string, info os.FileInfo, err error) error {
		if err != nil {
			fmt.Fprintf(&b, "  %s: %v\n", p, err)
			return nil
		}
		rel, _ := filepath.Rel(dir, p)
		fmt.Fprintf(&b, "  %s %8d %s\n", info.Mode(), info.Size(), rel)
		return nil
	})
	return b.String()
}

func observe(r *rep) observed {
	res := runPeg(r.dir, r.args, r.stdin, r.nobody, r.stdoutTo, r.sc.CloseFail())
	for _, f := range r.cleanup {
		f()
	}
	dState := fileState(r, r.defaultPath)
	nState := fileState(r, r.namedPath)
	if r.defaultPath != "" && r.defaultPath == r.namedPath {
		dState = "nothing"
	}
	sState := "nothing"
	if len(res.stdout) > 0 && !bannerRe.Match(res.stdout) {
		sState = classifyContent(r.sc, r.text, res.stdout)
	}
	written, dest := "nothing", "none"
	switch {
	case dState != "nothing" && nState != "nothing":
		written, dest = dState+"+"+nState, "defaultFile+namedFile"
	case dState != "nothing":
		written, dest = dState, "defaultFile"
	case nState != "nothing":
		written, dest = nState, "namedFile"
	case sState != "nothing":
		written, dest = sState, "stdout"
	}
	if dest != "stdout" && dest != "none" && !r.sc.Dump() && len(res.stdout) > 0 {
		dest += "+stdout"
	}
	exit := fmt.Sprint(res.exit)
	if res.timedOut {
		exit = "timeout"
	} else if res.signaled {
		exit = fmt.Sprintf("signal%d", res.exit-128)
	}
	line := fmt.Sprintf("exit=%s stderr=%s written=%s dest=%s", exit, b01(len(res.stderr) > 0), written, dest)
	return observed{line: line, res: res}
}

func shellQuote(args []string) string {
	var out []string
	for _, a := range args {
		if a == "" || strings.ContainsAny(a, " \t\n'\"\\$&|;<>()*?[]{}=~#") {
			a = "'" + strings.ReplaceAll(a, "'", `'\''`) + "'"
		}
		out = append(out, a)
	}
	return strings.Join(out, " ")
}

func clip(b []byte, n int) string {
	if len(b) > n {
		return string(b[:n]) + fmt.Sprintf("… [%d bytes]", len(b))
	}
	return string(b)
}

// ---------------------------------------------------------------- main

type mismatch struct {
	Scenario string `json:"scenario"`
	Rep      int    `json:"rep"`
	Expected string `json:"expected"`
	Observed string `json:"observed"`
	detail   string
}

func loadModel(path string) (map[string]string, error) {
	f, err := os.Open(path)
	if err != nil {
		return nil, err
	}
	defer f.Close()
	m := map[string]string{}
	sc := bufio.NewScanner(f)
	sc.Buffer(make([]byte, 1<<20), 1<<20)
	for sc.Scan() {
		line := strings.TrimSpace(sc.Text())
		if line == "" || strings.HasPrefix(line, "#") {
			continue
		}
		parts := strings.SplitN(line, " | ", 2)
		if len(parts) != 2 {
			return nil, fmt.Errorf("bad model line: %q", line)
		}
		if _, dup := m[parts[0]]; dup {
			return nil, fmt.Errorf("duplicate model line for %q", parts[0])
		}
		m[parts[0]] = parts[1]
	}
	return m, sc.Err()
}

func main() {
	pegFlag := flag.String("peg", "", "path to the built peg binary")
	tier := flag.String("tier", "quick", "quick (>=3 representatives per scenario) or thorough (>=10)")
	seed := flag.Int64("seed", 1, "seed for the choice of texts, names and flag spellings")
	modelPath := flag.String("model", "", "model output (`echo ALL | pegmodel cli`) to compare with")
	obsPath := flag.String("obs", "", "write observed lines to this file instead of standard output")
	list := flag.Bool("list", false, "print the scenario lines and exit")
	only := flag.String("only", "", "restrict to scenarios whose line contains this text (debugging)")
	workers := flag.Int("workers", runtime.NumCPU(), "parallel runs")
	reps := flag.Int("reps", 0, "override the number of representatives")
	maxDetail := flag.Int("maxdetail", 12, "number of mismatches shown in detail")
	keep := flag.Bool("keep", false, "keep the temporary directory")
	flag.Parse()

	scs := allScenarios()
	if *list {
		w := bufio.NewWriter(os.Stdout)
		for _, s := range scs {
			fmt.Fprintln(w, s.Enc())
		}
		w.Flush()
		return
	}
	n := 3
	switch *tier {
	case "quick":
	case "thorough":
		n = 10
	default:
		fmt.Fprintln(os.Stderr, "clix: -tier must be quick or thorough")
		os.Exit(2)
	}
	if *reps > 0 {
		n = *reps
	}
	if *pegFlag == "" {
		fmt.Fprintln(os.Stderr, "clix: -peg is required")
		os.Exit(2)
	}
	start := time.Now()

	var model map[string]string
	if *modelPath != "" {
		var err error
		model, err = loadModel(*modelPath)
		if err != nil {
			fmt.Fprintln(os.Stderr, "clix:", err)
			os.Exit(2)
		}
		// the two enumerations must describe the same table
		bad := 0
		for _, s := range scs {
			if _, ok := model[s.Enc()]; !ok {
				if bad < 5 {
					fmt.Fprintln(os.Stderr, "clix: scenario missing from the model:", s.Enc())
				}
				bad++
			}
		}
		if bad > 0 || len(model) != len(scs) {
			fmt.Fprintf(os.Stderr, "clix: table mismatch: %d scenarios enumerated, %d model lines, %d missing\n", len(scs), len(model), bad)
			os.Exit(1)
		}
	}

	var err error
	tmpRoot, err = os.MkdirTemp("", "clix-")
	if err != nil {
		panic(err)
	}
	_ = os.Chmod(tmpRoot, 0o755)
	cleanupRoot := func() {
		if !*keep {
			_ = filepath.Walk(tmpRoot, func(p string, info os.FileInfo, err error) error {
				if err == nil && info.IsDir() {
					_ = os.Chmod(p, 0o777)
				}
				return nil
			})
			_ = os.RemoveAll(tmpRoot)
		}
	}
	defer cleanupRoot()
	src, err := os.ReadFile(*pegFlag)
	if err != nil {
		fmt.Fprintln(os.Stderr, "clix:", err)
		cleanupRoot()
		os.Exit(2)
	}
	pegPath = filepath.Join(tmpRoot, "peg")
	if err := os.WriteFile(pegPath, src, 0o755); err != nil {
		panic(err)
	}
	probeCaps()

	type job struct {
		sc  Scenario
		idx int
	}
	var selected []Scenario
	for _, s := range scs {
		if *only == "" || strings.Contains(s.Enc(), *only) {
			selected = append(selected, s)
		}
	}
	jobs := make(chan struct {
		j     job
		order int
	}, 1024)
	lines := make([]string, len(selected)*n)
	var (
		mu         sync.Mutex
		mismatches []mismatch
		unreal     = map[string]string{}
		repCount   int
		perClass   = map[string]int{}
		perOutcome = map[string]int{}
		asNobody   int
		injected   int
	)
	var wg sync.WaitGroup
	for w := 0; w < *workers; w++ {
		wg.Add(1)
		go func() {
			defer wg.Done()
			for it := range jobs {
				sc, idx := it.j.sc, it.j.idx
				r := build(sc, idx, *seed)
				if r.unreal != "" {
					for _, f := range r.cleanup {
						f()
					}
					_ = os.RemoveAll(r.dir)
					mu.Lock()
					unreal[sc.Enc()] = r.unreal
					mu.Unlock()
					continue
				}
				ob := observe(r)
				enc := sc.Enc()
				lines[it.order] = enc + " | " + ob.line
				mu.Lock()
				repCount++
				perClass["src="+sc.Src]++
				perClass["gram="+sc.Gram]++
				perClass["dest="+sc.Dest]++
				perOutcome[ob.line]++
				if r.nobody {
					asNobody++
				}
				if sc.CloseFail() {
					injected++
				}
				if model != nil && model[enc] != ob.line {
					var d strings.Builder
					fmt.Fprintf(&d, "MISMATCH %s  (representative %d: %s)\n", enc, idx, strings.Join(r.note, ", "))
					fmt.Fprintf(&d, "  model   : %s\n  observed: %s\n", model[enc], ob.line)
					pre := ""
					if r.nobody {
						pre = "[uid 65534] "
					}
					if sc.CloseFail() {
						pre += strings.Join(straceArgs, " ") + " "
					}
					redir := ""
					switch r.stdoutTo {
					case "full":
						redir = " >/dev/full"
					case "rdonly":
						redir = " 1</dev/null"
					}
					if r.stdin != nil {
						redir += " <grammar-on-stdin"
					}
					fmt.Fprintf(&d, "  cwd     : %s\n  command : %speg %s%s\n", r.dir, pre, shellQuote(r.args), redir)
					fmt.Fprintf(&d, "  exit    : %d  signaled=%v timeout=%v\n", ob.res.exit, ob.res.signaled, ob.res.timedOut)
					fmt.Fprintf(&d, "  stderr  : %q\n  stdout  : %q\n", clip(ob.res.stderr, 400), clip(ob.res.stdout, 200))
					fmt.Fprintf(&d, "  grammar : %q\n", clip([]byte(r.text), 300))
					fmt.Fprintf(&d, "  files after the run:\n%s", listing(r.dir))
					mismatches = append(mismatches, mismatch{enc, idx, model[enc], ob.line, d.String()})
				}
				mu.Unlock()
				if err := os.RemoveAll(r.dir); err != nil {
					_ = filepath.Walk(r.dir, func(p string, info os.FileInfo, err error) error {
						if err == nil && info.IsDir() {
							_ = os.Chmod(p, 0o777)
						}
						return nil
					})
					_ = os.RemoveAll(r.dir)
				}
			}
		}()
	}
	order := 0
	for _, s := range selected {
		for i := 0; i < n; i++ {
			jobs <- struct {
				j     job
				order int
			}{job{s, i}, order}
			order++
		}
	}
	close(jobs)
	wg.Wait()

	var out io.Writer = os.Stdout
	if *obsPath != "" {
		f, err := os.Create(*obsPath)
		if err != nil {
			panic(err)
		}
		defer f.Close()
		out = f
	}
	bw := bufio.NewWriter(out)
	for _, l := range lines {
		if l != "" {
			fmt.Fprintln(bw, l)
		}
	}
	bw.Flush()

	sort.Slice(mismatches, func(i, j int) bool {
		if mismatches[i].Scenario != mismatches[j].Scenario {
			return mismatches[i].Scenario < mismatches[j].Scenario
		}
		return mismatches[i].Rep < mismatches[j].Rep
	})
	for i, m := range mismatches {
		if i >= *maxDetail {
			fmt.Fprintf(os.Stderr, "… %d more mismatches (use -maxdetail)\n", len(mismatches)-i)
			break
		}
		fmt.Fprint(os.Stderr, m.detail)
	}
	// mismatches grouped by (expected -> observed)
	groups := map[string]int{}
	misScen := map[string]bool{}
	for _, m := range mismatches {
		groups[m.Expected+"  ->  "+m.Observed]++
		misScen[m.Scenario] = true
	}
	var unrealReasons = map[string]int{}
	for _, v := range unreal {
		unrealReasons[v]++
	}
	summary := map[string]any{
		"tier":                  *tier,
		"seed":                  *seed,
		"scenarios":             len(selected),
		"scenarios_in_table":    len(scs),
		"representatives_each":  n,
		"representatives_run":   repCount,
		"unrealised_scenarios":  len(unreal),
		"unrealised_reasons":    unrealReasons,
		"runs_as_uid_65534":     asNobody,
		"runs_with_close_fault": injected,
		"reference_runs":        len(refCache),
		"per_class":             perClass,
		"per_outcome":           perOutcome,
		"capabilities":          capsv,
		"compared_with_model":   model != nil,
		"mismatches":            len(mismatches),
		"mismatching_scenarios": len(misScen),
		"mismatch_groups":       groups,
		"elapsed_seconds":       time.Since(start).Seconds(),
	}
	js, _ := json.MarshalIndent(summary, "", " ")
	fmt.Fprintln(os.Stderr, string(js))
	if len(mismatches) > 0 {
		cleanupRoot()
		os.Exit(1)
	}
}
