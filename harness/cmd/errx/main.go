// errx — case generator for the C11 error-reporting correspondence check
// (Lean model `pegmodel err` vs the real generated runtime, see run.go.txt and check.sh).
//
//	errx gen -tier quick|thorough -seed N
//
// Case lines go to stdout, a distribution summary (JSON) to stderr.  Line formats:
//
//	<pretty 0|1> <b> <e> <rule name> <rune>*       Error() on token {rule,b,e}; runes are decimal
//	                                                code points of the input WITHOUT the sentinel
//	T <raw 0|1> <n> <position>{n} <rune>*           translatePositions; raw=1: buffer as is
//
// quick:    all buffers of length <= 4 over {'a','\n'} x all 0 <= b <= e <= len, + 3000 random
// thorough: length <= 6 exhaustive, + 100000 random
//
// Alphabet of the random buffers (must stay inside what goQuote of ErrDriver.lean implements):
// ASCII printable incl. `"` and `\`, \n \t \r, NUL, 0x01, 0x1b, 0x7f, é 汉 U+1F600 U+FFFD
// (printable), U+85 U+200B U+E000 U+10FFFF (not printable).
package main

import (
	"bufio"
	"encoding/json"
	"flag"
	"fmt"
	"math/rand"
	"os"
	"strconv"
	"strings"
)

type summary struct {
	Tier             string `json:"tier"`
	Seed             int64  `json:"seed"`
	Cases            int    `json:"cases"`
	Exhaustive       int    `json:"exhaustive_error_cases"`
	ErrorCases       int    `json:"error_cases"`
	TransCases       int    `json:"translate_cases"`
	BEqE             int    `json:"b_eq_e"`
	EAtEnd           int    `json:"e_at_end_of_input"`
	BAtZero          int    `json:"b_at_zero"`
	OnNewline        int    `json:"offset_on_newline"`
	EmptyInput       int    `json:"empty_input"`
	MultiLine        int    `json:"multi_line"`
	NonASCII         int    `json:"non_ascii_input"`
	Pretty           int    `json:"pretty"`
	SentinelInSlice  int    `json:"e_past_sentinel_no_panic"`
	ExpectPanic      int    `json:"error_expect_panic"`
	TDups            int    `json:"t_with_duplicates"`
	TUnsorted        int    `json:"t_unsorted"`
	TOutOfRange      int    `json:"t_out_of_range"`
	TEmptyPositions  int    `json:"t_empty_positions"`
	TRaw             int    `json:"t_raw_buffer"`
	TEmptyBuffer     int    `json:"t_empty_buffer"`
	MaxLen           int    `json:"max_input_len"`
}

var alphabet = []struct {
	r rune
	w int
}{
	{'a', 10}, {'b', 6}, {'z', 2}, {' ', 4}, {'\n', 9}, {'"', 2}, {'\\', 2}, {'\t', 2}, {'\r', 2},
	{0, 1}, {1, 1}, {0x1b, 1}, {0x7f, 1}, {'~', 1}, {'0', 1},
	{0xE9, 2}, {0x6C49, 2}, {0x1F600, 2}, {0xFFFD, 1},
	{0x85, 1}, {0x200B, 1}, {0xE000, 1}, {0x10FFFF, 1},
}

var totalW int

func init() {
	for _, a := range alphabet {
		totalW += a.w
	}
}

func randRune(rng *rand.Rand) rune {
	k := rng.Intn(totalW)
	for _, a := range alphabet {
		if k < a.w {
			return a.r
		}
		k -= a.w
	}
	panic("unreachable")
}

func randBuffer(rng *rand.Rand, maxLen int) []rune {
	n := 0
	switch k := rng.Intn(100); {
	case k < 3:
		n = 0
	case k < 30:
		n = 1 + rng.Intn(6)
	default:
		n = 1 + rng.Intn(maxLen)
	}
	rs := make([]rune, n)
	for i := range rs {
		rs[i] = randRune(rng)
	}
	return rs
}

type gen struct {
	w *bufio.Writer
	s *summary
}

func runesField(rs []rune) string {
	var b strings.Builder
	for _, r := range rs {
		b.WriteByte(' ')
		b.WriteString(strconv.Itoa(int(r)))
	}
	return b.String()
}

func (g *gen) errLine(pretty bool, b, e int, rule string, rs []rune) {
	s, n := g.s, len(rs)
	s.Cases++
	s.ErrorCases++
	if n > s.MaxLen {
		s.MaxLen = n
	}
	if b == e {
		s.BEqE++
	}
	if e == n {
		s.EAtEnd++
	}
	if b == 0 {
		s.BAtZero++
	}
	if (b < n && rs[b] == '\n') || (e < n && rs[e] == '\n') {
		s.OnNewline++
	}
	if n == 0 {
		s.EmptyInput++
	}
	nl, na := 0, false
	for _, r := range rs {
		if r == '\n' {
			nl++
		}
		if r >= 0x80 {
			na = true
		}
	}
	if nl > 0 {
		s.MultiLine++
	}
	if na {
		s.NonASCII++
	}
	if b > e || e > n+1 {
		s.ExpectPanic++
	} else if e == n+1 {
		s.SentinelInSlice++
	}
	p := 0
	if pretty {
		p = 1
		s.Pretty++
	}
	fmt.Fprintf(g.w, "%d %d %d %s%s\n", p, b, e, rule, runesField(rs))
}

func (g *gen) transLine(raw bool, positions []int, rs []rune) {
	s := g.s
	s.Cases++
	s.TransCases++
	blen := len(rs) + 1
	r := 0
	if raw {
		r, blen = 1, len(rs)
		s.TRaw++
		if len(rs) == 0 {
			s.TEmptyBuffer++
		}
	}
	if len(positions) == 0 {
		s.TEmptyPositions++
	}
	seen, dup, unsorted, oor := map[int]bool{}, false, false, false
	for i, p := range positions {
		if seen[p] {
			dup = true
		}
		seen[p] = true
		if i > 0 && positions[i-1] > p {
			unsorted = true
		}
		if p >= blen {
			oor = true
		}
	}
	if dup {
		s.TDups++
	}
	if unsorted {
		s.TUnsorted++
	}
	if oor {
		s.TOutOfRange++
	}
	var b strings.Builder
	for _, p := range positions {
		b.WriteByte(' ')
		b.WriteString(strconv.Itoa(p))
	}
	fmt.Fprintf(g.w, "T %d %d%s%s\n", r, len(positions), b.String(), runesField(rs))
}

func (g *gen) exhaustive(maxLen int) {
	for n := 0; n <= maxLen; n++ {
		for bits := 0; bits < 1<<n; bits++ {
			rs := make([]rune, n)
			for i := range rs {
				if bits>>i&1 == 1 {
					rs[i] = '\n'
				} else {
					rs[i] = 'a'
				}
			}
			for b := 0; b <= n; b++ {
				for e := b; e <= n; e++ {
					g.errLine((b+e+bits)%5 == 0, b, e, "S", rs)
					g.s.Exhaustive++
				}
			}
			// every offset of the buffer (sentinel included), descending, each twice
			var ps []int
			for p := n; p >= 0; p-- {
				ps = append(ps, p, p)
			}
			g.transLine(false, ps, rs)
		}
	}
}

func (g *gen) random(rng *rand.Rand, count, maxLen int) {
	rules := []string{"S", "Unknown"}
	for i := 0; i < count; i++ {
		rs := randBuffer(rng, maxLen)
		n := len(rs)
		if rng.Intn(100) < 60 {
			var b, e int
			switch k := rng.Intn(100); {
			case k < 55:
				e = rng.Intn(n + 1)
				b = rng.Intn(e + 1)
			case k < 65:
				e = rng.Intn(n + 1)
				b = e
			case k < 80:
				e = n
				b = rng.Intn(n + 1)
			case k < 90:
				// put an end of the token on a newline, if there is one
				var nls []int
				for j, r := range rs {
					if r == '\n' {
						nls = append(nls, j)
					}
				}
				if len(nls) == 0 {
					e = rng.Intn(n + 1)
					b = rng.Intn(e + 1)
				} else if rng.Intn(2) == 0 {
					b = nls[rng.Intn(len(nls))]
					e = b + rng.Intn(n+1-b)
				} else {
					e = nls[rng.Intn(len(nls))]
					b = rng.Intn(e + 1)
				}
			case k < 93:
				e = n + 1 // the slice includes the sentinel; end offset is outside the buffer
				b = rng.Intn(e + 1)
			case k < 97:
				b = 1 + rng.Intn(n+1) // begin > end: slice bounds panic
				e = rng.Intn(b)
			default:
				e = n + 1000 + rng.Intn(1000) // far beyond cap(buffer): slice bounds panic
				b = rng.Intn(n + 1)
			}
			g.errLine(rng.Intn(4) == 0, b, e, rules[rng.Intn(2)], rs)
		} else {
			raw := rng.Intn(100) < 20
			if raw && rng.Intn(100) < 15 {
				rs = nil
				n = 0
			}
			np := 0
			if rng.Intn(100) >= 5 {
				np = 1 + rng.Intn(6)
			}
			ps := make([]int, np)
			for j := range ps {
				if j > 0 && rng.Intn(100) < 30 {
					ps[j] = ps[rng.Intn(j)]
				} else {
					ps[j] = rng.Intn(n + 4)
				}
			}
			g.transLine(raw, ps, rs)
		}
	}
}

func main() {
	if len(os.Args) < 2 || os.Args[1] != "gen" {
		fmt.Fprintln(os.Stderr, "usage: errx gen -tier quick|thorough -seed N")
		os.Exit(2)
	}
	fs := flag.NewFlagSet("gen", flag.ExitOnError)
	tier := fs.String("tier", "quick", "quick|thorough")
	seed := fs.Int64("seed", 1, "random seed")
	fs.Parse(os.Args[2:])
	w := bufio.NewWriterSize(os.Stdout, 1<<20)
	defer w.Flush()
	g := &gen{w: w, s: &summary{Tier: *tier, Seed: *seed}}
	rng := rand.New(rand.NewSource(*seed))
	switch *tier {
	case "quick":
		g.exhaustive(4)
		g.random(rng, 3000, 40)
	case "thorough":
		g.exhaustive(6)
		g.random(rng, 100000, 80)
	default:
		fmt.Fprintln(os.Stderr, "unknown tier", *tier)
		os.Exit(2)
	}
	js, _ := json.Marshal(g.s)
	fmt.Fprintln(os.Stderr, string(js))
}
