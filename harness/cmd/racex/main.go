// Command racex is the dynamic validation for C09 and C14: it supports the facts extractor
// (cmd/facts) and checks the executable part of both properties with the Go race detector.
//
//	go run ./cmd/racex -repo /repo                  # quick tier  (K=16, R=20 / N=32, 50 rounds)
//	go run ./cmd/racex -repo /repo -tier thorough   # K=16, R=200, all option sets incl. -switch on every grammar / N=32, 1000 rounds
//	go run ./cmd/racex -repo /repo -only c09|c14
//
// C09: a scratch `package main` = COPY of <repo>/peg.peg.go (the real front end) + c09_driver.go,
// built with -race against <repo>/tree; run under GOMAXPROCS 1, 2 and 16.  Inside one process K
// goroutines build independent trees and call the real Compile concurrently; every output, returned
// warning text (Strict) and stderr text must be byte-identical to the first sequential result.  The
// per-job digests of the three processes must be identical as well (other process, other scheduler).
//
// C14: the peg built from <repo> generates three parsers (default, -inline -switch, -noast) with
// actions into a scratch module; a -race runner starts N goroutines, each with its own instance,
// and compares with solo results.
//
// Nothing is written into <repo>.
package main

import (
	"bytes"
	_ "embed"
	"flag"
	"fmt"
	"os"
	"os/exec"
	"path/filepath"
	"sort"
	"strings"
	"time"
)

//go:embed c09_driver.go.txt
var c09Driver string

//go:embed c14_runner.go.txt
var c14Runner string

//go:embed ga.peg
var gaPeg string

//go:embed ga_helpers.go.txt
var gaHelpers string

//go:embed gb.peg
var gbPeg string

//go:embed gc.peg
var gcPeg string

func sh(dir string, env []string, name string, args ...string) (string, int, time.Duration) {
	cmd := exec.Command(name, args...)
	cmd.Dir = dir
	cmd.Env = append(append(os.Environ(), "GOFLAGS=-mod=mod", "GOPROXY=off"), env...)
	var b bytes.Buffer
	cmd.Stdout, cmd.Stderr = &b, &b
	t0 := time.Now()
	err := cmd.Run()
	code := 0
	if err != nil {
		code = 1
		if ee, ok := err.(*exec.ExitError); ok {
			code = ee.ExitCode()
		} else {
			b.WriteString("\n" + err.Error())
		}
	}
	return b.String(), code, time.Since(t0)
}

func must(err error) {
	if err != nil {
		fmt.Println("racex:", err)
		os.Exit(2)
	}
}

func write(path, content string) {
	must(os.MkdirAll(filepath.Dir(path), 0o755))
	must(os.WriteFile(path, []byte(content), 0o644))
}

var failed bool

func fail(format string, a ...any) {
	failed = true
	fmt.Printf("FAIL "+format+"\n", a...)
}

func tail(s string, n int) string {
	lines := strings.Split(strings.TrimRight(s, "\n"), "\n")
	if len(lines) > n {
		lines = append([]string{fmt.Sprintf("... (%d lines omitted)", len(lines)-n)}, lines[len(lines)-n:]...)
	}
	return strings.Join(lines, "\n")
}

func checkRun(what, out string, code int) {
	races := strings.Count(out, "WARNING: DATA RACE")
	if races > 0 {
		fail("%s: %d data race report(s) from the race detector", what, races)
		// first report
		if i := strings.Index(out, "WARNING: DATA RACE"); i >= 0 {
			rep := out[i:]
			if j := strings.Index(rep, "=================="); j > 0 {
				rep = rep[:j]
			}
			fmt.Println(tail(rep, 200))
		}
	}
	for _, l := range strings.Split(out, "\n") {
		if strings.HasPrefix(l, "FAIL") {
			fail("%s: %s", what, l)
		}
	}
	if code != 0 {
		fail("%s: exit status %d", what, code)
		if races == 0 {
			fmt.Println(tail(out, 30))
		}
	}
	if !strings.Contains(out, "SUMMARY ") {
		fail("%s: no SUMMARY line", what)
	}
}

func moduleFile(name, repo string) string {
	return fmt.Sprintf("module %s\n\ngo 1.25\n\nrequire github.com/pointlander/peg v0.0.0\n\nreplace github.com/pointlander/peg => %s\n", name, repo)
}

func c09(repo, work string, k, r int, tier string, procs []string) {
	t0 := time.Now()
	dir := filepath.Join(work, "c09drv")
	must(os.RemoveAll(dir))
	front, err := os.ReadFile(filepath.Join(repo, "peg.peg.go"))
	must(err)
	write(filepath.Join(dir, "peg.peg.go"), string(front)) // COPY of the real front end
	write(filepath.Join(dir, "driver.go"), c09Driver)
	write(filepath.Join(dir, "go.mod"), moduleFile("c09drv", repo))
	out, code, d := sh(dir, nil, "go", "build", "-race", "-o", "c09drv", ".")
	if code != 0 {
		fail("c09: build of the driver failed\n%s", tail(out, 40))
		return
	}
	fmt.Printf("c09: built -race driver in %.1fs\n", d.Seconds())
	grammars, _ := filepath.Glob(filepath.Join(repo, "grammars", "*", "*.peg"))
	sort.Strings(grammars)
	grammars = append([]string{filepath.Join(repo, "peg.peg")}, grammars...)
	// snapshot the grammar texts so that the three processes read the same bytes even if <repo>
	// is being edited meanwhile (the tree package is fixed in the one driver binary)
	for i, g := range grammars {
		b, err := os.ReadFile(g)
		must(err)
		rel, _ := filepath.Rel(repo, g)
		write(filepath.Join(dir, "grammars", rel), string(b))
		grammars[i] = filepath.Join("grammars", rel)
	}
	digests := map[string]map[string]string{} // label -> gomaxprocs -> digest
	for _, p := range procs {
		args := append([]string{"-k", fmt.Sprint(k), "-r", fmt.Sprint(r), "-tier", tier}, grammars...)
		out, code, d := sh(dir, []string{"GOMAXPROCS=" + p, "GORACE=halt_on_error=0 exitcode=66"}, "./c09drv", args...)
		checkRun("c09 GOMAXPROCS="+p, out, code)
		for _, l := range strings.Split(out, "\n") {
			if strings.HasPrefix(l, "DIGEST ") {
				f := strings.SplitN(l, " ", 3)
				label := strings.Replace(f[2], repo+"/", "", 1)
				if digests[label] == nil {
					digests[label] = map[string]string{}
				}
				digests[label][p] = f[1]
			}
			if strings.HasPrefix(l, "SUMMARY ") {
				fmt.Printf("c09: %s  (%.1fs)\n", l, d.Seconds())
			}
		}
	}
	bad := 0
	for label, m := range digests {
		first := ""
		for _, p := range procs {
			if first == "" {
				first = m[p]
			}
			if m[p] != first {
				bad++
				fail("c09: %s: output/warnings differ between processes: %v", label, m)
				break
			}
		}
	}
	fmt.Printf("c09: %d job digests compared across %d processes (GOMAXPROCS %s): %d differ   [%.1fs total]\n",
		len(digests), len(procs), strings.Join(procs, ","), bad, time.Since(t0).Seconds())
}

func c14(repo, work string, n, rounds int, procs []string) {
	t0 := time.Now()
	dir := filepath.Join(work, "c14run")
	must(os.RemoveAll(dir))
	must(os.MkdirAll(dir, 0o755))
	peg := filepath.Join(work, "peg")
	if out, code, _ := sh(repo, nil, "go", "build", "-o", peg, "."); code != 0 {
		fail("c14: building peg from %s failed\n%s", repo, tail(out, 40))
		return
	}
	type g struct {
		name, src string
		flags     []string
	}
	for _, x := range []g{{"ga", gaPeg, nil}, {"gb", gbPeg, []string{"-inline", "-switch"}}, {"gc", gcPeg, []string{"-noast"}}} {
		write(filepath.Join(dir, x.name, x.name+".peg"), x.src)
		args := append(append([]string{}, x.flags...), "-strict", "-output", filepath.Join(dir, x.name, x.name+".peg.go"), filepath.Join(dir, x.name, x.name+".peg"))
		if out, code, _ := sh(dir, nil, peg, args...); code != 0 || strings.TrimSpace(out) != "" {
			fail("c14: peg %v: exit %d\n%s", args, code, tail(out, 20))
			return
		}
	}
	write(filepath.Join(dir, "ga", "helpers.go"), gaHelpers)
	write(filepath.Join(dir, "main.go"), c14Runner)
	write(filepath.Join(dir, "go.mod"), "module c14run\n\ngo 1.25\n")
	out, code, d := sh(dir, nil, "go", "build", "-race", "-o", "c14run", ".")
	if code != 0 {
		fail("c14: build of the runner failed\n%s", tail(out, 40))
		return
	}
	fmt.Printf("c14: generated 3 parsers with the peg built from %s, built -race runner in %.1fs\n", repo, d.Seconds())
	for _, p := range procs {
		out, code, d := sh(dir, []string{"GOMAXPROCS=" + p, "GORACE=halt_on_error=0 exitcode=66"}, "./c14run", "-n", fmt.Sprint(n), "-rounds", fmt.Sprint(rounds))
		checkRun("c14 GOMAXPROCS="+p, out, code)
		for _, l := range strings.Split(out, "\n") {
			if strings.HasPrefix(l, "SUMMARY ") {
				fmt.Printf("c14: %s  (%.1fs)\n", l, d.Seconds())
			}
		}
	}
	fmt.Printf("c14: done   [%.1fs total]\n", time.Since(t0).Seconds())
}

func main() {
	repo := flag.String("repo", "/repo", "pointlander/peg source tree (never written)")
	tier := flag.String("tier", "quick", "quick | thorough")
	only := flag.String("only", "", "c09 | c14 (default both)")
	work := flag.String("work", "", "scratch directory (default: a temporary one, removed afterwards)")
	k := flag.Int("k", 16, "C09: concurrent Compile calls per round")
	r := flag.Int("r", 0, "C09: rounds (default 20 quick, 200 thorough)")
	n := flag.Int("n", 32, "C14: goroutines")
	rounds := flag.Int("rounds", 0, "C14: rounds (default 50 quick, 1000 thorough)")
	procsFlag := flag.String("procs", "1,2,16", "GOMAXPROCS values")
	flag.Parse()

	abs, err := filepath.Abs(*repo)
	must(err)
	if *r == 0 {
		*r = 20
		if *tier == "thorough" {
			*r = 200
		}
	}
	if *rounds == 0 {
		*rounds = 50
		if *tier == "thorough" {
			*rounds = 1000
		}
	}
	w := *work
	if w == "" {
		w, err = os.MkdirTemp("", "racex")
		must(err)
		defer os.RemoveAll(w)
	}
	w, err = filepath.Abs(w)
	must(err)
	procs := strings.Split(*procsFlag, ",")
	t0 := time.Now()
	if *only == "" || *only == "c09" {
		c09(abs, w, *k, *r, *tier, procs)
	}
	if *only == "" || *only == "c14" {
		c14(abs, w, *n, *rounds, procs)
	}
	verdict := "PASS"
	if failed {
		verdict = "FAIL"
	}
	fmt.Printf("racex: %s (tier %s, %.1fs)\n", verdict, *tier, time.Since(t0).Seconds())
	if failed {
		if *work == "" {
			os.RemoveAll(w)
		}
		os.Exit(1)
	}
}
