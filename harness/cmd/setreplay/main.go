package main

import (
	"fmt"

	"github.com/pointlander/peg/set"
)

func show(name string, f func() string) {
	defer func() {
		if r := recover(); r != nil {
			fmt.Printf("%s: PANIC %v\n", name, r)
		}
	}()
	fmt.Printf("%s: %s\n", name, f())
}

func main() {
	// Complement outside its precondition
	s := set.NewSet()
	s.AddRange(3, 5)
	s.AddRange(6, 8)
	show("{3..5,6..8}.Complement(5)", func() string { return s.Complement(5).String() })
	t := set.NewSet()
	t.Add(7)
	show("{7}.Complement(5)", func() string { return t.Complement(5).String() })
	u := set.NewSet()
	u.AddRange(3, 10)
	u.AddRange(20, 30)
	show("{3..10,20..30}.Complement(5)", func() string { return u.Complement(5).String() })
	d := set.NewSet()
	d.Add(0x110000)
	c := d.Complement(0x10FFFF)
	show("{0x110000}.Complement(0x10FFFF) Len/Has", func() string {
		return fmt.Sprint(c.Len(), c.Has(0), c.Has(0x10FFFF), c.Has(0x110000))
	})
	// out of domain
	r := set.NewSet()
	r.AddRange(5, 2)
	show("AddRange(5,2) on empty: Len,Has(3),Has(5)", func() string { return fmt.Sprint(r.Len(), r.Has(3), r.Has(5), r.String()) })
	n := set.NewSet()
	n.AddRange(-5, -3)
	show("{-5..-3}: Has(0), Has(-4), Has(-6)", func() string { return fmt.Sprint(n.Has(0), n.Has(-4), n.Has(-6)) })
	m := set.NewSet()
	m.AddRange(1, 2)
	m.AddRange(6, 7)
	show("{1,2,6,7}.AddRange(9,0) then walk", func() string {
		m.AddRange(9, 0)
		out := ""
		nd := m.Head.Forward
		for i := 0; i < 8 && nd != nil; i++ {
			out += fmt.Sprintf("(%d,%d) ", nd.Begin, nd.End)
			nd = nd.Forward
		}
		return out + fmt.Sprintf("Tail.Forward!=nil:%v Head.Backward!=nil:%v", m.Tail.Forward != nil, m.Head.Backward != nil)
	})
	e := set.NewSet()
	e.AddRange(2, 2147483647)
	show("AddRange(2,MaxInt32) then AddRange(0,0): structure", func() string {
		e.AddRange(0, 0)
		out := ""
		nd := e.Head.Forward
		for i := 0; i < 8 && nd != nil; i++ {
			out += fmt.Sprintf("(%d,%d) ", nd.Begin, nd.End)
			nd = nd.Forward
		}
		return out
	})
}
