// setx: differential-test harness for github.com/pointlander/peg/set (property C16).
//
//	setx gen -tier quick|thorough|wild -seed N   case lines on stdout, JSON summary on stderr
//	setx run [-watch]                            reads case lines, runs them on the real package
//
// Case line:   <A ops>|<B ops>|<limits>|<probes>|<flags>
//
//	ops/probes: space separated, "b:e" = AddRange(b,e) / probe range, "a" = Add(a) / single probe
//	flags: "s" = also print String() results, "-" = do not (huge intervals)
//
// The output line format is documented in lean/PegVerif/Exec/SetDriver.lean; both programs must
// print byte-identical lines.
package main

import (
	"bufio"
	"encoding/json"
	"flag"
	"fmt"
	"math"
	"math/rand"
	"os"
	"strconv"
	"strings"
	"time"

	"github.com/pointlander/peg/set"
)

type op struct {
	b, e   rune
	single bool
}

func (o op) String() string {
	if o.single {
		return strconv.Itoa(int(o.b))
	}
	return strconv.Itoa(int(o.b)) + ":" + strconv.Itoa(int(o.e))
}

// ---------------------------------------------------------------------------------------------
// structural dump through the exported fields, with consistency checks

const maxNodes = 100000

// intervals returns the node list, or ok=false if the structure is not a well formed list.
func intervals(s *set.Set) (ivs [][2]rune, state string) {
	if s.Head.Forward == nil {
		if s.Tail.Backward != nil || s.Head.Backward != nil || s.Tail.Forward != nil {
			return nil, "CORRUPT"
		}
		return nil, "nil"
	}
	if s.Head.Backward != nil || s.Tail.Forward != nil {
		return nil, "CORRUPT"
	}
	prev, n := &s.Head, s.Head.Forward
	for steps := 0; ; steps++ {
		if n == nil || steps > maxNodes || n == &s.Head {
			return nil, "CORRUPT"
		}
		if n.Backward != prev {
			return nil, "CORRUPT" // Forward/Backward links not mutually consistent
		}
		if n == &s.Tail {
			break
		}
		ivs = append(ivs, [2]rune{n.Begin, n.End})
		prev, n = n, n.Forward
	}
	if s.Head.Begin != math.MaxInt32 || s.Head.End != 0 || s.Tail.Begin != 0 || s.Tail.End != 0 {
		return nil, "CORRUPT" // a sentinel was overwritten
	}
	if len(ivs) == 0 {
		return nil, "LINKED-EMPTY"
	}
	return ivs, ""
}

func dump(s *set.Set) string {
	if s == nil {
		return "NILSET"
	}
	ivs, state := intervals(s)
	if state != "" {
		return state
	}
	var sb strings.Builder
	sb.WriteByte('[')
	for i, iv := range ivs {
		if i > 0 {
			sb.WriteByte(',')
		}
		sb.WriteString(strconv.Itoa(int(iv[0])))
		sb.WriteByte(':')
		sb.WriteString(strconv.Itoa(int(iv[1])))
	}
	sb.WriteByte(']')
	return sb.String()
}

func nodes(s *set.Set, into map[*set.Node]bool) {
	into[&s.Head], into[&s.Tail] = true, true
	n := s.Head.Forward
	for steps := 0; n != nil && steps < maxNodes; steps++ {
		into[n] = true
		n = n.Forward
	}
}

// ---------------------------------------------------------------------------------------------
// run

func try(f func() string) (r string) {
	defer func() {
		if recover() != nil {
			r = "PANIC"
		}
	}()
	return f()
}

func b2s(b bool) string {
	if b {
		return "1"
	}
	return "0"
}

func parseOps(f string) ([]op, error) {
	var ops []op
	for _, t := range strings.Fields(f) {
		if i := strings.IndexByte(t, ':'); i >= 0 {
			b, err1 := strconv.ParseInt(t[:i], 10, 32)
			e, err2 := strconv.ParseInt(t[i+1:], 10, 32)
			if err1 != nil || err2 != nil {
				return nil, fmt.Errorf("bad op %q", t)
			}
			ops = append(ops, op{rune(b), rune(e), false})
		} else {
			a, err := strconv.ParseInt(t, 10, 32)
			if err != nil {
				return nil, fmt.Errorf("bad op %q", t)
			}
			ops = append(ops, op{rune(a), rune(a), true})
		}
	}
	return ops, nil
}

func buildTrace(ops []op) (string, *set.Set) {
	s := set.NewSet()
	out := dump(s)
	for _, o := range ops {
		r := try(func() string {
			if o.single {
				s.Add(o.b)
			} else {
				s.AddRange(o.b, o.e)
			}
			return ""
		})
		if r == "PANIC" {
			return out + ">PANIC", nil
		}
		d := dump(s)
		out += ">" + d
		if d == "CORRUPT" {
			return out, nil
		}
	}
	return out, s
}

func runCase(line string) string {
	f := strings.Split(line, "|")
	if len(f) != 5 {
		return "BADINPUT"
	}
	opsA, e1 := parseOps(f[0])
	opsB, e2 := parseOps(f[1])
	limOps, e3 := parseOps(f[2])
	probeOps, e4 := parseOps(f[3])
	if e1 != nil || e2 != nil || e3 != nil || e4 != nil {
		return "BADINPUT"
	}
	withStr := strings.Contains(f[4], "s")
	ta, a := buildTrace(opsA)
	if a == nil {
		return "A=" + ta
	}
	tb, b := buildTrace(opsB)
	if b == nil {
		return "A=" + ta + ";B=" + tb
	}
	var sb strings.Builder
	sb.WriteString("A=" + ta + ";B=" + tb)

	// every operation is run under `guard`: recover from a panic, and check that neither operand
	// changed (structure dump before/after).
	da, db := dump(a), dump(b)
	guard := func(f func() string) string {
		r := try(f)
		if dump(a) != da || dump(b) != db {
			r += "!MUTATED"
		}
		return r
	}
	var results []*set.Set
	keep := func(s *set.Set) *set.Set { results = append(results, s); return s }

	hasStr := func(s *set.Set) string {
		return guard(func() string {
			var h strings.Builder
			for _, p := range probeOps {
				for x := int64(p.b); x <= int64(p.e); x++ {
					h.WriteString(b2s(s.Has(rune(x))))
				}
			}
			return h.String()
		})
	}
	str := func(s *set.Set) string { return guard(func() string { return s.String() }) }
	sb.WriteString(";hA=" + hasStr(a) + ";hB=" + hasStr(b))
	sb.WriteString(";lA=" + guard(func() string { return strconv.Itoa(a.Len()) }))
	sb.WriteString(";lB=" + guard(func() string { return strconv.Itoa(b.Len()) }))
	if withStr {
		sb.WriteString(";sA=" + str(a) + ";sB=" + str(b))
	}
	sb.WriteString(";cpA=" + guard(func() string { return dump(keep(a.Copy())) }))
	sb.WriteString(";cpB=" + guard(func() string { return dump(keep(b.Copy())) }))
	var uab *set.Set
	duab := guard(func() string { uab = keep(a.Union(b)); return dump(uab) })
	sb.WriteString(";uAB=" + duab)
	sb.WriteString(";uBA=" + guard(func() string { return dump(keep(b.Union(a))) }))
	uOK := uab != nil && strings.HasPrefix(duab, "[") || duab == "nil"
	if withStr {
		if uOK {
			sb.WriteString(";suAB=" + str(uab))
		} else {
			sb.WriteString(";suAB=" + duab)
		}
	}
	sb.WriteString(";iAB=" + guard(func() string { return b2s(a.Intersects(b)) }))
	sb.WriteString(";iBA=" + guard(func() string { return b2s(b.Intersects(a)) }))
	for _, l := range limOps {
		ls := strconv.Itoa(int(l.b))
		var ca *set.Set
		sb.WriteString(";cA" + ls + "=" + guard(func() string { ca = keep(a.Complement(l.b)); return dump(ca) }))
		sb.WriteString(";cB" + ls + "=" + guard(func() string { return dump(keep(b.Complement(l.b))) }))
		if withStr {
			sb.WriteString(";scA" + ls + "=" + guard(func() string { return ca.String() }))
		}
	}
	sb.WriteString(";eAB=" + guard(func() string { return b2s(a.Equal(b)) }))
	sb.WriteString(";eBA=" + guard(func() string { return b2s(b.Equal(a)) }))
	sb.WriteString(";eAA=" + guard(func() string { return b2s(a.Equal(a)) }))
	sb.WriteString(";eBB=" + guard(func() string { return b2s(b.Equal(b)) }))
	if uOK {
		sb.WriteString(";eAuAB=" + guard(func() string { return b2s(a.Equal(uab)) }))
	} else {
		sb.WriteString(";eAuAB=" + duab)
	}
	// aliasing: no result may share a node with an operand or with another result
	seen := map[*set.Node]bool{}
	nodes(a, seen)
	if b != a {
		nodes(b, seen)
	}
	for _, r := range results {
		if r == nil {
			continue
		}
		mine := map[*set.Node]bool{}
		nodes(r, mine)
		for n := range mine {
			if seen[n] {
				sb.WriteString(";ALIASED")
				break
			}
		}
		for n := range mine {
			seen[n] = true
		}
	}
	return sb.String()
}

func cmdRun(args []string) {
	fs := flag.NewFlagSet("run", flag.ExitOnError)
	watch := fs.Bool("watch", false, "run every case under a 2 s watchdog (prints HANG)")
	fs.Parse(args)
	in := bufio.NewScanner(os.Stdin)
	in.Buffer(make([]byte, 1<<20), 1<<24)
	out := bufio.NewWriterSize(os.Stdout, 1<<20)
	defer out.Flush()
	for in.Scan() {
		line := in.Text()
		if line == "" {
			continue
		}
		if *watch {
			ch := make(chan string, 1)
			go func() { ch <- runCase(line) }()
			select {
			case r := <-ch:
				out.WriteString(r)
			case <-time.After(2 * time.Second):
				out.WriteString("HANG")
			}
		} else {
			out.WriteString(runCase(line))
		}
		out.WriteByte('\n')
	}
}

// ---------------------------------------------------------------------------------------------
// gen

type stats struct {
	Tier        string         `json:"tier"`
	Seed        int64          `json:"seed"`
	Cases       int            `json:"cases"`
	Exhaustive  int            `json:"exhaustive_cases"`
	Random      int            `json:"random_cases"`
	Insertions  int            `json:"insertions"`
	Branch      map[string]int `json:"addrange_branch_hits"`
	Relation    map[string]int `json:"insertions_by_relation"`
	CasesWith   map[string]int `json:"cases_with"`
	MaxNodes    int            `json:"max_nodes_in_a_set"`
	LenHist     map[string]int `json:"cases_by_total_insertions"`
	OutOfLimit  int            `json:"complement_calls_on_set_exceeding_limit"`
	EqualNonTri int            `json:"cases_A_B_same_members_different_structure"`
}

// branchOf recomputes, read only and on the real structure, which of the seven branches
// AddRange(b, e) is about to take.
func branchOf(s *set.Set, begin, end rune) int {
	beginNode := &s.Head
	for beginNode.Forward != nil && begin > beginNode.Forward.End {
		beginNode = beginNode.Forward
	}
	endNode := &s.Tail
	for endNode.Backward != nil && end < endNode.Backward.Begin {
		endNode = endNode.Backward
	}
	switch {
	case beginNode.Forward == nil && endNode.Backward == nil:
		return 1
	case beginNode.Forward == endNode.Backward:
		return 2
	case beginNode.Forward != nil && endNode.Backward == nil:
		return 3
	case beginNode.Forward == nil && endNode.Backward != nil:
		return 4
	case beginNode.Forward == endNode:
		return 5
	case beginNode == endNode.Backward:
		return 6
	}
	return 7
}

type generator struct {
	st  stats
	out *bufio.Writer
}

func (g *generator) account(ops []op, flagsSeen map[string]bool) *set.Set {
	s := set.NewSet()
	for _, o := range ops {
		g.st.Insertions++
		g.st.Branch[strconv.Itoa(branchOf(s, o.b, o.e))]++
		ivs, _ := intervals(s)
		rel := "disjoint_nonadjacent"
		if len(ivs) == 0 {
			rel = "into_empty"
		}
		for _, iv := range ivs {
			lo, hi := int64(iv[0]), int64(iv[1])
			b, e := int64(o.b), int64(o.e)
			switch {
			case b > e:
				rel = "reversed"
			case e+1 == lo || hi+1 == b:
				if rel == "disjoint_nonadjacent" {
					rel = "adjacent"
				}
				flagsSeen["adjacent"] = true
			case e < lo || hi < b:
			case (lo <= b && e <= hi) || (b <= lo && hi <= e):
				rel = "nested"
				flagsSeen["nested"] = true
			default:
				if rel != "nested" {
					rel = "overlapping"
				}
				flagsSeen["overlapping"] = true
			}
		}
		g.st.Relation[rel]++
		func() {
			defer func() { recover() }()
			s.AddRange(o.b, o.e)
		}()
		if _, state := intervals(s); state == "CORRUPT" {
			flagsSeen["corrupt"] = true
			return nil
		}
		if ivs, _ := intervals(s); len(ivs) > g.st.MaxNodes {
			g.st.MaxNodes = len(ivs)
		}
	}
	return s
}

func joinOps(ops []op) string {
	parts := make([]string, len(ops))
	for i, o := range ops {
		parts[i] = o.String()
	}
	return strings.Join(parts, " ")
}

func (g *generator) emit(a, b []op, limits []rune, probes string, flags string, exhaustive bool) {
	g.st.Cases++
	if exhaustive {
		g.st.Exhaustive++
	} else {
		g.st.Random++
	}
	seen := map[string]bool{}
	sa := g.account(a, seen)
	sbb := g.account(b, seen)
	for k := range seen {
		g.st.CasesWith[k]++
	}
	g.st.LenHist[strconv.Itoa(len(a)+len(b))]++
	if sa != nil && sbb != nil {
		ia, _ := intervals(sa)
		ib, _ := intervals(sbb)
		for _, l := range limits {
			for _, ivs := range [][][2]rune{ia, ib} {
				if len(ivs) > 0 && ivs[len(ivs)-1][1] > l {
					g.st.OutOfLimit++
				}
			}
		}
		if len(ia) > 0 && dump(sa) != dump(sbb) && sa.Equal(sbb) {
			g.st.EqualNonTri++
		}
	}
	ls := make([]string, len(limits))
	for i, l := range limits {
		ls[i] = strconv.Itoa(int(l))
	}
	fmt.Fprintf(g.out, "%s|%s|%s|%s|%s\n", joinOps(a), joinOps(b), strings.Join(ls, " "), probes, flags)
}

func (g *generator) exhaustive(v int, total int, limits []rune) {
	var ranges []op
	for b := 0; b <= v; b++ {
		for e := b; e <= v; e++ {
			ranges = append(ranges, op{rune(b), rune(e), b == e})
		}
	}
	probes := fmt.Sprintf("-1:%d", v+2)
	seq := make([]op, 0, total)
	var rec func()
	rec = func() {
		for i := 0; i <= len(seq); i++ {
			g.emit(seq[:i], seq[i:], limits, probes, "s", true)
		}
		if len(seq) == total {
			return
		}
		for _, r := range ranges {
			seq = append(seq, r)
			rec()
			seq = seq[:len(seq)-1]
		}
	}
	rec()
}

const maxRune = math.MaxInt32 - 1 // largest in-domain value

func clamp(x int64) rune {
	if x < 0 {
		return 0
	}
	if x > maxRune {
		return maxRune
	}
	return rune(x)
}

// randomOps draws n in-domain insertions; values come from pick().  With some probability an
// insertion is made adjacent to / overlapping with / nested in an interval inserted before.
func randomOps(r *rand.Rand, n int, pick func() int64) []op {
	var ops []op
	for i := 0; i < n; i++ {
		var b, e int64
		if len(ops) > 0 && r.Intn(3) == 0 {
			o := ops[r.Intn(len(ops))]
			switch r.Intn(6) {
			case 0: // adjacent above
				b = int64(o.e) + 1
				e = b + int64(r.Intn(3))
			case 1: // adjacent below
				e = int64(o.b) - 1
				b = e - int64(r.Intn(3))
			case 2: // overlap above
				b = int64(o.e) - int64(r.Intn(2))
				e = int64(o.e) + 1 + int64(r.Intn(3))
			case 3: // overlap below
				e = int64(o.b) + int64(r.Intn(2))
				b = int64(o.b) - 1 - int64(r.Intn(3))
			case 4: // superset
				b = int64(o.b) - int64(r.Intn(3))
				e = int64(o.e) + int64(r.Intn(3))
			default: // same
				b, e = int64(o.b), int64(o.e)
			}
		} else {
			b, e = pick(), pick()
			if r.Intn(4) == 0 {
				e = b
			}
		}
		if b > e {
			b, e = e, b
		}
		bb, ee := clamp(b), clamp(e)
		if bb > ee {
			bb = ee
		}
		ops = append(ops, op{bb, ee, bb == ee && r.Intn(2) == 0})
	}
	return ops
}

func (g *generator) random(r *rand.Rand, n int) {
	for i := 0; i < n; i++ {
		switch mode := r.Intn(10); {
		case mode < 4: // small universe, limit at / next to the top value
			u := int64(8 + r.Intn(13))
			pick := func() int64 {
				switch r.Intn(8) {
				case 0:
					return 0
				case 1:
					return u
				case 2:
					return u - 1
				}
				return r.Int63n(u + 1)
			}
			a := randomOps(r, 3+r.Intn(8), pick)
			b := randomOps(r, r.Intn(7), pick)
			limits := []rune{rune(u) + 3, rune(u) + rune(r.Intn(3)), rune(r.Int63n(u + 1))}
			g.emit(a, b, limits, fmt.Sprintf("-2:%d", u+5), "s", false)
		case mode < 7: // medium universe, longer sequences
			u := int64(60)
			pick := func() int64 {
				if r.Intn(6) == 0 {
					return []int64{0, 1, u, u - 1}[r.Intn(4)]
				}
				return r.Int63n(u + 1)
			}
			a := randomOps(r, 4+r.Intn(12), pick)
			b := randomOps(r, r.Intn(10), pick)
			limits := []rune{rune(u) + 4, rune(u), rune(r.Int63n(u + 1))}
			g.emit(a, b, limits, fmt.Sprintf("-1:%d", u+4), "s", false)
		default: // wide values: near 0, near the limit, near MaxInt32-1; no String (huge intervals)
			limit := []int64{0x10FFFF, maxRune, 1000, 0x110000 - 1}[r.Intn(4)]
			pick := func() int64 {
				switch r.Intn(5) {
				case 0:
					return int64(r.Intn(7))
				case 1:
					return limit - 6 + int64(r.Intn(9))
				case 2:
					return maxRune - int64(r.Intn(8))
				case 3:
					return r.Int63n(limit + 1)
				}
				return r.Int63n(maxRune + 1)
			}
			a := randomOps(r, 2+r.Intn(8), pick)
			b := randomOps(r, r.Intn(6), pick)
			hiP := limit + 3
			if hiP > math.MaxInt32 {
				hiP = math.MaxInt32
			}
			probes := fmt.Sprintf("-1:8 %d:%d %d:%d", limit-8, hiP, int64(math.MaxInt32)-9, int64(math.MaxInt32))
			g.emit(a, b, []rune{rune(limit), maxRune}, probes, "-", false)
		}
	}
}

// wild: OUT of the property's domain (reversed ranges, negative values, MaxInt32).  Not part of the
// correspondence check; used to document what the code does there.  Run with `setx run -watch`.
func (g *generator) wild(r *rand.Rand, n int) {
	vals := []int64{-3, -1, 0, 1, 2, 3, 4, 5, 6, 7, math.MaxInt32 - 1, math.MaxInt32, math.MinInt32}
	for i := 0; i < n; i++ {
		mk := func(k int) []op {
			var ops []op
			for j := 0; j < k; j++ {
				b, e := vals[r.Intn(len(vals))], vals[r.Intn(len(vals))]
				if r.Intn(3) != 0 && b > e {
					b, e = e, b
				}
				ops = append(ops, op{rune(b), rune(e), false})
			}
			return ops
		}
		g.emit(mk(1+r.Intn(4)), mk(r.Intn(3)), []rune{5, 7}, "-4:9 2147483645:2147483647", "-", false)
	}
}

func cmdGen(args []string) {
	fs := flag.NewFlagSet("gen", flag.ExitOnError)
	tier := fs.String("tier", "quick", "quick | thorough | wild")
	seed := fs.Int64("seed", 1, "seed of the random part")
	fs.Parse(args)
	out := bufio.NewWriterSize(os.Stdout, 1<<20)
	defer out.Flush()
	g := &generator{out: out}
	g.st = stats{Tier: *tier, Seed: *seed, Branch: map[string]int{}, Relation: map[string]int{},
		CasesWith: map[string]int{}, LenHist: map[string]int{}}
	r := rand.New(rand.NewSource(*seed))
	switch *tier {
	case "quick":
		g.exhaustive(6, 3, []rune{5, 6})
		g.random(r, 2000)
	case "thorough":
		g.exhaustive(7, 4, []rune{6, 7})
		g.random(r, 100000)
	case "wild":
		g.wild(r, 3000)
	default:
		fmt.Fprintln(os.Stderr, "unknown tier", *tier)
		os.Exit(2)
	}
	js, _ := json.MarshalIndent(g.st, "", "  ")
	fmt.Fprintln(os.Stderr, string(js))
}

func main() {
	if len(os.Args) < 2 {
		fmt.Fprintln(os.Stderr, "usage: setx gen -tier quick|thorough|wild -seed N | setx run [-watch]")
		os.Exit(2)
	}
	switch os.Args[1] {
	case "gen":
		cmdGen(os.Args[2:])
	case "run":
		cmdRun(os.Args[2:])
	default:
		fmt.Fprintln(os.Stderr, "unknown mode", os.Args[1])
		os.Exit(2)
	}
}
