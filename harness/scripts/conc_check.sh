#!/bin/bash
# C09/C14 tie: regenerate the facts from the current source, re-check the Lean theorems against
# them, run the dynamic validation.   usage: conc_check.sh [repo] [verif-root] [quick|thorough]
set -eu
export GOFLAGS=-mod=mod GOPROXY=off
REPO=${1:-/repo}; ROOT=${2:-$(cd "$(dirname "$0")/../.." && pwd)}; TIER=${3:-quick}
cd "$ROOT/harness"
go run ./cmd/facts -repo "$REPO" -out "$ROOT/lean/PegVerif/Generated/Footprints.lean"
(cd "$ROOT/lean" && lake build PegVerif.Props.C09 PegVerif.Props.C14)
go run ./cmd/racex -repo "$REPO" -tier "$TIER"
