#!/bin/bash
# Teeth check for C09/C14: apply one mutation at a time to a scratch COPY of the peg source,
# regenerate the facts from the copy, rebuild the Lean theorems against them and run racex.
# usage: conc_mutations.sh <repo> <verif-root (contains lean/ and harness/)> <workdir> [a b c d]
set -u
export GOFLAGS=-mod=mod GOPROXY=off
REPO=${1:-/repo}; ROOT=${2:-/tmp/ag_conc}; WORK=${3:-/tmp/ag_conc/mutwork}; shift 3 || true
MUTS=${*:-a b c d}
MUT=$WORK/repo_mut; LEAN=$WORK/lean_mut
mkdir -p "$WORK"
rm -rf "$LEAN"; cp -r "$ROOT/lean" "$LEAN"

apply() { # $1 = mutation id
python3 - "$1" "$MUT" <<'PY'
import sys
m, root = sys.argv[1], sys.argv[2]
def sub(path, old, new, count=1):
    s = open(path).read()
    assert s.count(old) >= 1, (path, old)
    s = s.replace(old, new, count)
    open(path, 'w').write(s)
go, tmpl = root + '/tree/peg.go', root + '/tree/peg.go.tmpl'
if m == 'a':   # the second goroutine also counts
    sub(go, "\t\t\t\tt.checkRecursion(n, ruleReached)\n", "\t\t\t\tt.checkRecursion(n, ruleReached)\n\t\t\t\tusage[TypeRule]++\n")
elif m == 'b': # countRules warns too: both goroutines write Tree.werr
    sub(go, "\t\tif ruleReached[id] {\n\t\t\treturn\n\t\t}\n\t\truleReached[id] = true\n\t\tt.countRules(n.Front(), ruleReached)",
            "\t\tif ruleReached[id] {\n\t\t\tt.warn(fmt.Errorf(\"rule '%v' reached again\", n))\n\t\t\treturn\n\t\t}\n\t\truleReached[id] = true\n\t\tt.countRules(n.Front(), ruleReached)")
elif m == 'c': # package-level state in the generator
    sub(go, "func (t *Tree) Compile(file string, args []string, out io.Writer) (err error) {\n",
            "var lastTree *Tree\n\nfunc (t *Tree) Compile(file string, args []string, out io.Writer) (err error) {\n\tlastTree = t\n")
elif m == 'd': # package-level state in the runtime template
    sub(tmpl, "type Uint interface {", "var sharedPos int\n\ntype Uint interface {")
    sub(tmpl, "\t\ttokenIndex++\n\t\tif begin != position", "\t\ttokenIndex++\n\t\tsharedPos++\n\t\tif begin != position")
PY
}

for m in $MUTS; do
  echo "=================== mutation ($m) ==================="
  rm -rf "$MUT"; cp -r "$REPO" "$MUT"; rm -rf "$MUT/.git"
  apply "$m" || { echo "mutation $m did not apply"; continue; }
  diff -r "$REPO/tree" "$MUT/tree" | grep '^[<>]' | head -8
  rm -f "$LEAN/PegVerif/Generated/Footprints.lean"
  (cd "$ROOT/harness" && go run ./cmd/facts -repo "$MUT" -out "$LEAN/PegVerif/Generated/Footprints.lean") || echo "facts: FAILED"
  echo "--- facts diff against the unmutated Footprints.lean"
  diff "$ROOT/lean/PegVerif/Generated/Footprints.lean" "$LEAN/PegVerif/Generated/Footprints.lean" | grep '^[<>]'
  echo "--- lake build (Props.C09, Props.C14)"
  (cd "$LEAN" && lake build PegVerif.Props.C09 PegVerif.Props.C14 2>&1 | grep -E "^error|error:|Build completed|build failed" | cut -c1-220 | head -12)
  only=c09; [ "$m" = d ] && only=c14
  echo "--- racex -only $only (quick)"
  (cd "$ROOT/harness" && go run ./cmd/racex -repo "$MUT" -only $only -work "$WORK/rx" 2>&1 | grep -vE "^\s|^$|^Goroutine|^Previous|^Write at|^Read at|^===" | cut -c1-260 | head -24)
done
rm -rf "$MUT" "$LEAN" "$WORK/rx"
