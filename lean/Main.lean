import PegVerif
def main (args : List String) : IO UInt32 := do
  IO.eprintln s!"pegmodel: unknown command {args}"
  return 2
