import PegVerif.Exec.ErrDriver
import PegVerif.Exec.Driver
import PegVerif.Exec.Run
def main (args : List String) : IO UInt32 := do
  match args with
  | ["err"] => PegVerif.errMain
  | ["emit"] => PegVerif.emitMain
  | ["run"] => PegVerif.runMain
  | _ =>
    IO.eprintln s!"pegmodel: unknown command {args}"
    return 2
