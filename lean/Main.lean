import PegVerif.Exec.ErrDriver
import PegVerif.Exec.Driver
import PegVerif.Exec.Run
import PegVerif.Exec.SetDriver
import PegVerif.Exec.CliDriver
def main (args : List String) : IO UInt32 := do
  match args with
  | ["err"] => PegVerif.errMain
  | ["emit"] => PegVerif.emitMain
  | ["run"] => PegVerif.runMain
  | ["set"] => PegVerif.setMain
  | ["cli"] => PegVerif.cliMain
  | _ =>
    IO.eprintln s!"pegmodel: unknown command {args}"
    return 2
