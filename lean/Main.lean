import PegVerif.Exec.ErrDriver
import PegVerif.Exec.Driver
import PegVerif.Exec.Run
import PegVerif.Exec.SetDriver
import PegVerif.Exec.CliDriver
import PegVerif.Exec.DiagDriver
import PegVerif.Exec.FrontDriver
def main (args : List String) : IO UInt32 := do
  match args with
  | ["err"] => PegVerif.errMain
  | ["emit"] => PegVerif.emitMain
  | ["run"] => PegVerif.runMain
  | ["set"] => PegVerif.setMain
  | ["cli"] => PegVerif.cliMain
  | ["diag"] => PegVerif.diagMain
  | ["front"] => PegVerif.frontMain
  | ["casemap"] => PegVerif.casemapMain
  | _ =>
    IO.eprintln s!"pegmodel: unknown command {args}"
    return 2
