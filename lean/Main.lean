import PegVerif.Exec.ErrDriver
def main (args : List String) : IO UInt32 := do
  match args with
  | ["err"] => PegVerif.errMain
  | _ =>
    IO.eprintln s!"pegmodel: unknown command {args}"
    return 2
