import PegVerif.Model.Basic
import PegVerif.Model.Syntax
