/-
  Driver for the C18 correspondence check (`harness/cmd/clix`).

  stdin : one request per line —
            `ALL`                      print the whole table `Scenario.all`
            a scenario in canonical text (`Scenario.enc`)
          blank lines and lines starting with `#` are skipped.
  stdout: one line `<scenario> | <outcome>` per scenario, canonical text.
  exit  : 0, or 1 if some line could not be decoded (a line `ERROR …` is printed for it).
-/
import PegVerif.Model.Cli

namespace PegVerif

open PegVerif.Cli in
def cliLine (s : Scenario) : String := s!"{s.enc} | {(cli s).enc}"

open PegVerif.Cli in
partial def cliLoop (h : IO.FS.Stream) (out : IO.FS.Stream) (bad : Bool) : IO Bool := do
  let line ← h.getLine
  if line.isEmpty then return bad
  let t := line.trimAscii.toString
  if t.isEmpty || t.startsWith "#" then
    cliLoop h out bad
  else if t == "ALL" then
    for s in Scenario.all do
      out.putStrLn (cliLine s)
    cliLoop h out bad
  else
    match Scenario.dec t with
    | some s =>
      out.putStrLn (cliLine s)
      cliLoop h out bad
    | none =>
      out.putStrLn s!"ERROR cannot decode scenario: {t}"
      cliLoop h out true

def cliMain : IO UInt32 := do
  let stdin ← IO.getStdin
  let stdout ← IO.getStdout
  let bad ← cliLoop stdin stdout false
  stdout.flush
  return (if bad then 1 else 0)

end PegVerif
