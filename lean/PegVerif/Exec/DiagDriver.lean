import Lean.Data.Json
import PegVerif.Exec.Front
import PegVerif.Exec.Driver
import PegVerif.Model.Diag
/-
  `pegmodel diag`: one JSON request per line `{"id","tree":[…]}` (the pegx tree dump, i.e. the real
  front end's tree before `Compile`) → one JSON line
    {"id","dup":null|"<error text>","warnings":[…],"strictFails":bool,
     "werr":"<t.werr text>","errStrict":null|"…","errLax":null|"…",
     "uniq":bool   -- side condition `Grammar.Uniq` of the soundness theorems}
  computed by the model `PegVerif.diagnostics`.
-/
namespace PegVerif
open Lean

def optStrJson : Option String → Json
  | none => Json.null
  | some s => Json.str s

def diagOne (line : String) : String :=
  match Json.parse line with
  | .error e => (Json.mkObj [("id", "?"), ("error", s!"bad json: {e}")]).compress
  | .ok j =>
    let id := (j.getObjValAs? String "id").toOption.getD "?"
    let res : Except String Json := do
      let tree ← j.getObjVal? "tree"
      let top ← match tree with
        | .arr a => pure a
        | _ => throw "tree is not an array"
      let fr ← frontOfJson top
      let d := diagnostics fr.rules
      let uniq : Bool := decide (linkGrammar fr.rules).G.Uniq
      pure (Json.mkObj [("id", id), ("dup", optStrJson d.dupError),
        ("warnings", Json.arr (d.warnings.map Json.str).toArray),
        ("strictFails", d.strictFails), ("werr", d.werr), ("uniq", uniq),
        ("errStrict", optStrJson (d.error true)), ("errLax", optStrJson (d.error false))])
    match res with
    | .ok v => v.compress
    | .error e => (Json.mkObj [("id", id), ("error", e)]).compress

def diagMain : IO UInt32 := do
  let stdin ← IO.getStdin
  let stdout ← IO.getStdout
  lineLoop stdin stdout diagOne
  stdout.flush
  return 0

end PegVerif
