import Lean.Data.Json
import PegVerif.Exec.Front
import PegVerif.Model.Compile
import PegVerif.Model.Optimise
import PegVerif.Model.Header
import PegVerif.Proofs.TotalLemmas
import PegVerif.Proofs.LinkLemmas
import PegVerif.Proofs.AlwaysLemmas
import PegVerif.Model.Machine
import PegVerif.Model.Sem
import PegVerif.Model.SwitchSafe
import PegVerif.Proofs.SwitchSafeDef
import PegVerif.Proofs.InlineSwitchSafeDef
import PegVerif.Proofs.NoastSwitchSafeDef
import PegVerif.Proofs.InlineNoastSafeDef
import PegVerif.Proofs.AllOptionsDef
import PegVerif.Proofs.InlineLemmas
import PegVerif.Proofs.LinkNoast
/-
  `pegmodel emit`: one JSON request per line `{"id","tree":[…],"opts":"isn"-subset}` → one JSON
  line `{"id","rules":[{"nil":bool,"code":[…]}],"error"?}` with the IR the *model* generator
  emits, in the same textual form `harness/pegx/irx` extracts from the real generator's output.
-/
namespace PegVerif
open Lean

def optsOfString (s : String) : Opts :=
  { inline := s.contains 'i', switch := s.contains 's', ast := !s.contains 'n' }

def programJson (P : Program) : Json :=
  Json.arr (P.map (fun r =>
    match r.code with
    | none => Json.mkObj [("nil", true)]
    | some c => Json.mkObj [("nil", false), ("code", Json.arr (c.map (fun i => Json.str i.toLine)).toArray)])).toArray

def emitOne (line : String) : String :=
  match Json.parse line with
  | .error e => (Json.mkObj [("id", "?"), ("error", s!"bad json: {e}")]).compress
  | .ok j =>
    let id := (j.getObjValAs? String "id").toOption.getD "?"
    let res : Except String Json := do
      let tree ← j.getObjVal? "tree"
      let top ← match tree with
        | .arr a => pure a
        | _ => throw "tree is not an array"
      let fr ← frontOfJson top
      let o := optsOfString ((j.getObjValAs? String "opts").toOption.getD "")
      let L := linkGrammar fr.rules
      match L.dup with
      | some n => pure (Json.mkObj [("id", id), ("compileError", s!"rule '{n}' defined more than once")])
      | none =>
        match (if o.switch then optimise L.G else .ok L.G) with
        | .error e => pure (Json.mkObj [("id", id), ("optimiseError", e)])
        | .ok G' =>
          let P := compileAll o G'
          -- a case with no key is printed by the generator as `case '<nil>':`, which is not Go
          let nilCase := P.any (fun r => match r.code with
            | some c => c.any (fun i => match i with
              | .switchOn _ keys => keys.any (fun k => k.isEmpty)
              | _ => false)
            | none => false)
          -- a printed label that nothing in the same function jumps to is a Go compile error
          let unusedLabel := P.any (fun r => match r.code with
            | some c => c.any (fun i => match i with
              | .label l => !(jumps c).contains l
              | _ => false)
            | none => false)
          let h := headerModel o fr.imports fr.nTop fr.rules.length L.G
          let hj := Json.mkObj [("pegRuleType", h.pegRuleType),
            ("ruleNames", Json.arr (h.ruleNames.map Json.str).toArray), ("rulesLen", h.rulesLen),
            ("imports", Json.arr (h.imports.map Json.str).toArray), ("hasDot", h.hasDot),
            ("hasString", h.hasString), ("hasActions", h.hasActions), ("hasPush", h.hasPush),
            ("actions", Json.mkObj (L.actions.map (fun a => (a.1, Json.str a.2))))]
          -- the decidable hypotheses of C01_wellformed / C01_generated_parser on this grammar
          let hyps := Json.mkObj [("wfb", WFB L.G), ("grammarOK", GrammarOK L.G), ("linkedOK", LinkedOK L.G),
            ("plain", L.G.rules.all (fun r => r.body.plain))] |>.mergeObj
            -- -switch: the translation-validation check of `C02_switch_validated` (Eval-level equivalence
            -- of the optimiser's output with the original grammar)
            (if o.switch then Json.mkObj ([("swOK", Json.bool (swOK L.G G')), ("wfbSwitched", Json.bool (WFB G')),
                ("rewritten", Json.bool (G'.rules.any (fun r => r.body.hasNode (fun e => match e with | .ualt _ _ => true | _ => false))))] ++
                -- the hypothesis of the end-to-end theorem for THIS option set
                (if o.ast && !o.inline then [("grammarOKS", Json.bool (GrammarOKS G')), ("switchSafe", Json.bool (switchSafe L.G G'))]
                 -- (these two are evaluated in the cheap form of Proofs/FastCheckDef.lean, proved equal in
                 -- Proofs/FastCheck.lean: inlineSwitchSafeFast_eq, noastSwitchSafeKfast_eq)
                 else if o.ast && o.inline then [("inlineSwitchSafe", Json.bool (inlineSwitchSafeFast L.G G'))]
                 else if !o.ast && !o.inline then [("noastSwitchSafe", Json.bool (noastSwitchSafeKfast (Kall G') L.G G')),
                    -- the -noast fragment (no state-change statements, captures named PegText …) on the ORIGINAL grammar:
                    -- where that fails the -noast theorems do not apply with or without -switch
                    ("grammarOKN", Json.bool (GrammarOKN (Kall L.G) L.G))]
                 else if !o.ast && o.inline then [("inlineNoastSwitchSafe", Json.bool (inlineNoastSwitchSafe L.G G')),
                    ("grammarOKN", Json.bool (GrammarOKN (Kall L.G) L.G))]
                 else []))
             -- without -switch: the extra hypothesis of the option set's own theorem (C02_inline_same_as_default,
             -- C07_generated_parser, C07_inline_generated_parser)
             else Json.mkObj (
               if o.ast && o.inline then [("grammarOKI", Json.bool (GrammarOKIfast L.G))]  -- = GrammarOKI L.G (GrammarOKIfast_eq)
               else if !o.ast && !o.inline then [("grammarOKN", Json.bool (GrammarOKN (Kall L.G) L.G))]
               else if !o.ast && o.inline then [("inlineNoastSafe", Json.bool (inlineNoastSafe L.G)),
                    ("grammarOKN", Json.bool (GrammarOKN (Kall L.G) L.G))]
               else []))
          -- the hypothesis of the summary theorem `all_options_same_verdict` for THIS option set (evaluated on every
          -- program: `theoremApplies` runs the cheap checkers of Proofs/FastCheckDef.lean)
          let hyps := hyps.mergeObj (Json.mkObj [("theoremApplies", Json.bool (theoremApplies o L.G G'))])
          pure (Json.mkObj [("id", id), ("rules", programJson P), ("nilCase", nilCase),
            ("unusedLabel", unusedLabel), ("header", hj), ("hyps", hyps),
            ("ruleNames", Json.arr (L.G.rules.map (fun r => Json.str r.name)).toArray)])
    match res with
    | .ok v => v.compress
    | .error e => (Json.mkObj [("id", id), ("error", e)]).compress

partial def lineLoop (h : IO.FS.Stream) (out : IO.FS.Stream) (f : String → String) : IO Unit := do
  let line ← h.getLine
  if line.isEmpty then return ()
  let l := line.trimRight
  if !l.isEmpty then
    out.putStrLn (f l)
  lineLoop h out f

def emitMain : IO UInt32 := do
  let stdin ← IO.getStdin
  let stdout ← IO.getStdout
  lineLoop stdin stdout emitOne
  stdout.flush
  return 0

end PegVerif
