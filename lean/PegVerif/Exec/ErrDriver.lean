/-
  Correspondence driver for C11 (error reporting): runs the Lean model of `Error()` and
  `translatePositions` on the case lines produced by `harness/cmd/errx gen` and prints one
  canonical line per case; the same lines are printed by `run.go` (harness/cmd/errx/run.go.txt)
  from the REAL generated runtime.  Core Lean only.

  Case lines (fields separated by single spaces):
    <pretty 0|1> <b> <e> <rule name> <rune>*          Error() on the token {rule, b, e};
                                                       runes are decimal code points WITHOUT the
                                                       sentinel (the driver appends END)
    T <raw 0|1> <n> <position>{n} <rune>*              translatePositions(buffer, positions);
                                                       raw = 1: the runes are the buffer as is
                                                       (no sentinel appended; may be empty)
  Output lines:
    E <escaped message> | E PANIC
    T keys=<number of distinct keys in the map> <p>:<line>:<symbol>… | T PANIC
  (for `T` the lookups of every requested position, in the order given).
  Escaping of the message: every char outside printable ASCII, and `\`, is written `\u{hex}`.

  `goQuote` reimplements `strconv.Quote(string(runes))` for the alphabet of the generator only:
    * ASCII (0x00–0x7F) completely: `\a \b \f \n \r \t \v`, `\"`, `\\`, other control chars and
      DEL as `\xNN`, the rest literally;
    * the printable non-ASCII runes é (U+E9), 汉 (U+6C49), U+1F600, U+FFFD: literally;
    * the non-printable non-ASCII runes U+85, U+200B, U+E000 (`\uNNNN`), U+10FFFF (`\UNNNNNNNN`);
    * END (0x110000; `string(rune)` turns it into U+FFFD): literally as U+FFFD;
    * anything else: the marker `<UNSUPPORTED:n>` (so that a generator outside the alphabet shows
      up as a diff rather than as a silent agreement).
-/
import PegVerif.Model.Error

namespace PegVerif

/-- lower-case hex, zero-padded to `width` digits. -/
def hexPad (width n : Nat) : String :=
  let ds := (Nat.toDigits 16 n)
  String.ofList (List.replicate (width - ds.length) '0' ++ ds)

def printableNonAscii : List Nat := [0xE9, 0x6C49, 0x1F600, 0xFFFD]
def nonPrintableNonAscii : List Nat := [0x85, 0x200B, 0xE000, 0x10FFFF]

def goQuoteRune (r : Nat) : String :=
  if r == 0x22 then "\\\""
  else if r == 0x5C then "\\\\"
  else if 0x20 ≤ r ∧ r ≤ 0x7E then String.singleton (Char.ofNat r)
  else if r == 7 then "\\a"
  else if r == 8 then "\\b"
  else if r == 12 then "\\f"
  else if r == 10 then "\\n"
  else if r == 13 then "\\r"
  else if r == 9 then "\\t"
  else if r == 11 then "\\v"
  else if r < 0x20 ∨ r == 0x7F then "\\x" ++ hexPad 2 r
  else if r == END then String.singleton (Char.ofNat 0xFFFD)
  else if printableNonAscii.contains r then String.singleton (Char.ofNat r)
  else if nonPrintableNonAscii.contains r then
    (if r < 0x10000 then "\\u" ++ hexPad 4 r else "\\U" ++ hexPad 8 r)
  else "<UNSUPPORTED:" ++ toString r ++ ">"

/-- `strconv.Quote(string(runes))` on the supported alphabet. -/
def goQuote (runes : List Sym) : String :=
  "\"" ++ String.join (runes.map goQuoteRune) ++ "\""

/-- One-line escaping of an output message (shared convention with run.go). -/
def escapeLine (s : String) : String :=
  String.join (s.toList.map fun c =>
    let n := c.toNat
    if 0x20 ≤ n ∧ n ≤ 0x7E ∧ n != 0x5C then String.singleton c
    else "\\u{" ++ String.ofList (Nat.toDigits 16 n) ++ "}")

def parseNats (ws : List String) : Option (List Nat) :=
  ws.mapM String.toNat?

def distinctKeys (m : PosMap) : Nat := (m.map Prod.fst).eraseDups.length

def runErrCase (ws : List String) : Option String :=
  match ws with
  | pretty :: b :: e :: rule :: runes =>
    match pretty.toNat?, b.toNat?, e.toNat?, parseNats runes with
    | some pretty, some b, some e, some runes =>
      match errorString rule (runes ++ [END]) b e (pretty != 0) goQuote with
      | none => some "E PANIC"
      | some msg => some ("E " ++ escapeLine msg)
    | _, _, _, _ => none
  | _ => none

def runTransCase (ws : List String) : Option String :=
  match ws with
  | raw :: n :: rest =>
    match raw.toNat?, n.toNat?, parseNats rest with
    | some raw, some n, some rest =>
      if rest.length < n then none else
      let positions := rest.take n
      let runes := rest.drop n
      let buffer := if raw != 0 then runes else runes ++ [END]
      match translatePositions buffer positions with
      | none => some "T PANIC"
      | some m =>
        let cells := positions.map fun p =>
          let v := lookupD m p
          " " ++ toString p ++ ":" ++ toString v.1 ++ ":" ++ toString v.2
        some ("T keys=" ++ toString (distinctKeys m) ++ String.join cells)
    | _, _, _ => none
  | _ => none

def runCaseLine (line : String) : Option String :=
  let ws := (line.splitOn " ").filter (· != "")
  match ws with
  | "T" :: rest => runTransCase rest
  | _ => runErrCase ws

partial def errLoop (stdin stdout : IO.FS.Stream) (bad : Nat) : IO Nat := do
  let line ← stdin.getLine
  if line.isEmpty then return bad
  let line := (line.trimAscii).toString
  if line.isEmpty then errLoop stdin stdout bad
  else
    match runCaseLine line with
    | some out => stdout.putStrLn out; errLoop stdin stdout bad
    | none => stdout.putStrLn ("BADLINE " ++ escapeLine line); errLoop stdin stdout (bad + 1)

/-- `pegmodel err`: case lines on stdin, canonical lines on stdout; exit 1 on malformed lines. -/
def errMain : IO UInt32 := do
  let stdin ← IO.getStdin
  let stdout ← IO.getStdout
  let bad ← errLoop stdin stdout 0
  stdout.flush
  return (if bad == 0 then 0 else 1)

end PegVerif
