import Lean.Data.Json
import PegVerif.Model.Syntax
import PegVerif.Model.Link
/-
  Reading the tree dump of `harness/pegx` (the real front end's tree, before `Compile`) into the
  model's `Expr`/`Rule`.  Executable side only; no theorem depends on this file.
-/
namespace PegVerif
open Lean

/-- The parts of the top-level list that the generator uses. -/
structure Front where
  package : String := ""
  imports : List String := []       -- raw TypeImport strings in order ("=alias" entries included)
  structName : String := ""
  structVars : String := ""
  comments : String := ""           -- t.Comments as the dry pass builds it
  rules : List Rule := []
  nTop : Nat := 0                   -- t.Len() before Compile
deriving Repr, Inhabited

def firstSym (s : String) : Except String Sym :=
  match s.toList with
  | [c] => .ok c.toNat
  | _ => .error s!"character node with string {s.quote}"

partial def exprOfJson (j : Json) : Except String Expr := do
  let t ← j.getObjValAs? String "t"
  let s ← j.getObjValAs? String "s"
  let kids : Array Json := match j.getObjVal? "k" with
    | .ok (.arr a) => a
    | _ => #[]
  let kid (i : Nat) : Except String Expr :=
    match kids[i]? with
    | some k => exprOfJson k
    | none => .error s!"{t}: missing child {i}"
  let all : Except String (List Expr) := kids.toList.mapM exprOfJson
  match t with
  | "Dot" => pure .dot
  | "Character" => return .chr (← firstSym s)
  | "Range" =>
    match (← kid 0), (← kid 1) with
    | .chr lo, .chr hi => pure (.rng lo hi)
    | _, _ => .error "range bounds are not characters"
  | "String" => pure (.str (s.toList.map Char.toNat))
  | "Name" => pure (.name s)
  | "Predicate" => pure (.pred s)
  | "StateChange" => pure (.stmt s)
  | "Action" => pure (.act s)
  | "Sequence" => return .seq (← all)
  | "Alternate" => return .alt (← all)
  | "PeekFor" => return .peekFor (← kid 0)
  | "PeekNot" => return .peekNot (← kid 0)
  | "Query" => return .query (← kid 0)
  | "Star" => return .star (← kid 0)
  | "Plus" => return .plus (← kid 0)
  | "Push" => return .push (← kid 0) ""
  | "Nil" => pure .nil
  | other => .error s!"unexpected node type {other}"

def frontOfJson (top : Array Json) : Except String Front := do
  let mut fr : Front := { nTop := top.size }
  for j in top do
    let t ← j.getObjValAs? String "t"
    let s ← j.getObjValAs? String "s"
    match t with
    | "Package" => fr := { fr with package := s }
    | "Import" => fr := { fr with imports := fr.imports ++ [s] }
    | "Peg" =>
      let vars := match j.getObjVal? "k" with
        | .ok (.arr a) => match a[0]? with
          | some k => (k.getObjValAs? String "s").toOption.getD ""
          | none => ""
        | _ => ""
      fr := { fr with structName := s, structVars := vars }
    | "Comment" => fr := { fr with comments := fr.comments ++ "//" ++ s ++ "\n" }
    | "Space" => fr := { fr with comments := fr.comments ++ s }
    | "Rule" =>
      let id ← j.getObjValAs? Nat "id"
      let body ← match j.getObjVal? "k" with
        | .ok (.arr a) => match a[0]? with
          | some k => exprOfJson k
          | none => .error s!"rule {s} has no body"
        | _ => .error s!"rule {s} has no body"
      fr := { fr with rules := fr.rules ++ [{ name := s, id := id, body := body }] }
    | other => throw s!"unexpected top-level node {other}"
  return fr

end PegVerif
