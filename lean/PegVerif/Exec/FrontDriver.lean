import Lean.Data.Json
import PegVerif.Model.Builder
import PegVerif.Exec.Driver
/-
  `pegmodel front`: one JSON request per line `{"id","runes":[…],"fuel"?}` → one JSON line
  `{"id","result": {"syntaxError":true} | {"panic":msg} | {"unsupported":msg} | {"tree":[…]} | {"compileError":msg}}`
  where `tree` has the shape of pegx's dump and `compileError` is the text of the error `Compile`
  returns before doing anything else when the builder recorded errors (pegx: `frontError`).  `runes` is Go's `[]rune(text)` (peglib.runes_of).
  Default fuel: 64 · (number of runes) + 4096 (the recursion depth of `evalF`, not its step count).
  `pegmodel casemap`: the model's `strings.ToLower` / `strings.ToUpper` on every code point (below).
-/
namespace PegVerif
open Lean

def frontOne (line : String) : String :=
  match Json.parse line with
  | .error e => (Json.mkObj [("id", "?"), ("error", s!"bad json: {e}")]).compress
  | .ok j =>
    let id := (j.getObjValAs? String "id").toOption.getD "?"
    match j.getObjValAs? (Array Nat) "runes" with
    | .error e => (Json.mkObj [("id", id), ("error", e)]).compress
    | .ok runes =>
      let text := runes.toList
      let fuel := (j.getObjValAs? Nat "fuel").toOption.getD (64 * text.length + 4096)
      let r := frontModel text fuel
      "{\"id\":" ++ (Json.str id).compress ++ ",\"result\":" ++ r.toJson ++ "}"

def frontMain : IO UInt32 := do
  let stdin ← IO.getStdin
  let stdout ← IO.getStdout
  lineLoop stdin stdout frontOne
  stdout.flush
  return 0

/-- `pegmodel casemap`: for every code point `r` (surrogates excepted) whose lower or upper case
    string differs from the one-rune string `r`, the line `r lower upper` — the runes of
    `toLowerS [r]` and `toUpperS [r]` separated by commas.  Same format as `pegx -casemap`
    (harness/pegx/casex.go.txt), which prints the real `strings.ToLower` / `strings.ToUpper`. -/
def casemapMain : IO UInt32 := do
  let stdout ← IO.getStdout
  let show_ (s : List Sym) : String := ",".intercalate (s.map toString)
  let mut buf : String := ""
  for r in [0:0x110000] do
    if 0xD800 ≤ r ∧ r ≤ 0xDFFF then continue
    let lo := toLowerS [r]
    let up := toUpperS [r]
    if lo ≠ [r] ∨ up ≠ [r] then
      buf := buf ++ s!"{r} {show_ lo} {show_ up}\n"
    if buf.length > 60000 then
      stdout.putStr buf
      buf := ""
  stdout.putStr buf
  stdout.flush
  return 0

end PegVerif
