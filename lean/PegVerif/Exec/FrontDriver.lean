import Lean.Data.Json
import PegVerif.Model.Builder
import PegVerif.Exec.Driver
/-
  `pegmodel front`: one JSON request per line `{"id","runes":[…],"fuel"?}` → one JSON line
  `{"id","result": {"syntaxError":true} | {"panic":msg} | {"unsupported":msg} | {"tree":[…]} | {"compileError":msg}}`
  where `tree` has the shape of pegx's dump and `compileError` is the text of the error `Compile`
  returns before doing anything else when the builder recorded errors (pegx: `frontError`).  `runes` is Go's `[]rune(text)` (peglib.runes_of).
  Default fuel: 64 · (number of runes) + 4096 (the recursion depth of `evalF`, not its step count).
-/
namespace PegVerif
open Lean

def frontOne (line : String) : String :=
  match Json.parse line with
  | .error e => (Json.mkObj [("id", "?"), ("error", s!"bad json: {e}")]).compress
  | .ok j =>
    let id := (j.getObjValAs? String "id").toOption.getD "?"
    match j.getObjValAs? (Array Nat) "runes" with
    | .error e => (Json.mkObj [("id", id), ("error", e)]).compress
    | .ok runes =>
      let text := runes.toList
      let fuel := (j.getObjValAs? Nat "fuel").toOption.getD (64 * text.length + 4096)
      let r := frontModel text fuel
      "{\"id\":" ++ (Json.str id).compress ++ ",\"result\":" ++ r.toJson ++ "}"

def frontMain : IO UInt32 := do
  let stdin ← IO.getStdin
  let stdout ← IO.getStdout
  lineLoop stdin stdout frontOne
  stdout.flush
  return 0

end PegVerif
