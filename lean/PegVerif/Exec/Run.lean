import Lean.Data.Json
import PegVerif.Exec.Front
import PegVerif.Exec.Driver
import PegVerif.Exec.ErrDriver
import PegVerif.Model.Ast
import PegVerif.Model.AstSpec
import PegVerif.Model.Error
import PegVerif.Model.Runes
/-
  `pegmodel run`: per request `{"id","tree","opts","cases":[{"k","entry","memo","bytes":[p.Buffer bytes] | "input":[runes]}]}`
  print, for every case, the observation of
    * the MODEL  : `execF` on the program the model generator emits (+ `astOf`, `printTree`,
                   `execute`, `errorString`), i.e. what the real parser should print if the model is
                   faithful  (tie T-run);
    * the SPEC   : `evalF` on the linked grammar (+ `postorderL`, `actionTrace` …), i.e. what the
                   property demands (used to decide whether a tie break is a violation).
-/
namespace PegVerif
open Lean

/-- Semantic predicates of generated grammars: `true`, `false`, `position%K == R`. -/
def rhoOf (code : String) (pos : Nat) : Bool :=
  let c := code.replace " " ""
  if c == "true" then true
  else if c == "false" then false
  else
    match c.splitOn "position%" with
    | ["", rest] =>
      match rest.splitOn "==" with
      | [k, r] =>
        match k.toNat?, r.toNat? with
        | some k, some r => k != 0 && pos % k == r
        | _, _ => false
      | _ => false
    | _ => false

def symsToString (s : List Sym) : String :=
  String.ofList (s.map (fun n => if n < 0xD800 ∨ (0xE000 ≤ n ∧ n < 0x110000) then Char.ofNat n else Char.ofNat 0xFFFD))

/-- Render a probe statement `p.X += "lit" + text + "lit"` executed with the given `text`. -/
def renderProbe (code : String) (text : List Sym) : String × String :=
  match code.splitOn "+=" with
  | [lhs, rhs] =>
    let parts := rhs.splitOn "+"
    let s := parts.foldl (fun acc p =>
      let q := p.trim
      if q.startsWith "\"" && q.endsWith "\"" && q.length ≥ 2 then acc ++ (q.drop 1).dropRight 1
      else if q == "text" then acc ++ symsToString text
      else acc ++ "?" ++ q) ""
    (lhs.trim, s)
  | _ => ("?", code)

def tracesOf (evs : List (String × List Sym)) : String × String :=
  evs.foldl (fun (acc : String × String) ev =>
    let (field, s) := renderProbe ev.1 ev.2
    if field == "p.STrace" then (acc.1, acc.2 ++ s) else (acc.1 ++ s, acc.2)) ("", "")

def tokJson (t : Token) : Json := Json.arr #[Json.str t.rule, t.b, t.e]

partial def walkJson : TokTree → Json
  | .node t ks => Json.arr #[Json.str t.rule, t.b, t.e, Json.arr (ks.map walkJson).toArray]

def updMax (mt : Token) (t : Token) : Token := if t.b ≠ t.e ∧ t.e > mt.e then t else mt

structure RunCtx where
  o : Opts
  L : Linked
  Gsw : Grammar               -- the grammar after the `-switch` rewrite (= `L.G` without `-switch`)
  P : Program
  acts : List String          -- names of action rules
  codeOf : String → String    -- action rule ↦ code

def obsCommon (ctx : RunCtx) (inp : List Sym) (verdict : String) (toks : List Token)
    (mt : Token) (trace strace : String) : Json :=
  let buf := bufOf inp
  let base : List (String × Json) := [("v", Json.str verdict)]
  if verdict == "ok" then
    if ctx.o.ast then
      let ast := astOf toks
      let tree := (sprintSyntaxTree goQuote false inp toks).getD "PANIC"
      Json.mkObj (base ++ [("toks", Json.arr (toks.map tokJson).toArray),
               ("tree", Json.str tree),
               ("ast", match ast with | some t => walkJson t | none => Json.null),
               ("trace", Json.str trace), ("strace", Json.str strace)])
    else Json.mkObj (base ++ [("trace", Json.str trace), ("strace", Json.str strace)])
  else if verdict == "fail" then
    let err := (errorString mt.rule buf mt.b mt.e false goQuote).getD "PANIC"
    Json.mkObj (base ++ [("max", tokJson mt), ("err", Json.str err), ("trace", Json.str trace),
      ("strace", Json.str strace)])
  else Json.mkObj base

def modelObsFrom (ctx : RunCtx) (entry : String) (memo : Bool) (inp : List Sym) (s0 : St) : Json × St :=
  let cfg : Cfg := { ast := ctx.o.ast, memo := memo, rho := rhoOf }
  let fuel := 400000 + 4000 * inp.length
  let (res, st) := parseF ctx.P cfg inp fuel entry s0
  (·, st) <| match res with
  | .panic => Json.mkObj [("v", "panic")]
  | .stuck => Json.mkObj [("v", "stuck")]
  | .ok toks =>
    if ctx.o.ast then
      -- Execute(): actions in token order; state changes already ran during the parse
      let (_, strace) := tracesOf st.trace
      match execute ctx.acts (bufOf inp) toks with
      | none => Json.mkObj [("v", "ok"), ("execute", "panic")]
      | some evs =>
        let trace := evs.foldl (fun acc ev => acc ++ (renderProbe (ctx.codeOf ev.action) ev.text).2) ""
        obsCommon ctx inp "ok" toks st.maxTok trace strace
    else
      let (trace, strace) := tracesOf st.trace
      obsCommon ctx inp "ok" [] st.maxTok trace strace
  | .fail mt =>
    let (trace, strace) := tracesOf st.trace
    obsCommon ctx inp "fail" [] mt (if ctx.o.ast then "" else trace) strace

def modelObs (ctx : RunCtx) (entry : String) (memo : Bool) (inp : List Sym) : Json :=
  (modelObsFrom ctx entry memo inp St.init).1

/-- One long-lived model parser: `Buffer = …; Reset(); Parse()` for every input of the history,
    the state (stale token buffer included) threaded through `St.reset`. -/
def modelHistory (ctx : RunCtx) (entry : String) (memo : Bool) (hist : List (List Sym)) : List Json :=
  (hist.foldl (fun (acc : List Json × St) inp =>
    let (o, st) := modelObsFrom ctx entry memo inp acc.2.reset
    (acc.1 ++ [o], st)) ([], St.init)).1

/-- Inline-action trace of the spec under -noast: every completed action node, in completion
    order, with the text of the last completed capture. -/
def reachTrace (ctx : RunCtx) (inp : List Sym) (evs : List Token) : String :=
  (evs.foldl (fun (acc : String × List Sym) t =>
    if t.rule == "PegText" then (acc.1, inp.extract t.b t.e)
    else if ctx.acts.contains t.rule then (acc.1 ++ (renderProbe (ctx.codeOf t.rule) acc.2).2, acc.2)
    else acc) ("", [])).1

def specObs (ctx : RunCtx) (entry : String) (inp : List Sym) : Json :=
  let fuel := 2000 + 40 * inp.length
  -- Verdict, end and derivation forest: the PEG semantics of the ORIGINAL grammar (that is the
  -- property).  The ATTEMPTED tokens (error token; under -noast the inline actions that are reached)
  -- are those of the grammar the emission works on: with -switch the rewritten grammar, whose
  -- dispatch does not enter alternatives that cannot match the next symbol.
  let evsOf (evs : List Token) : List Token :=
    if ctx.o.switch then
      match evalF ctx.Gsw rhoOf inp fuel (.name entry) 0 with
      | some (_, evs') => evs'
      | none => evs
    else evs
  match evalF ctx.L.G rhoOf inp fuel (.name entry) 0 with
  | none => Json.mkObj [("v", "nofuel")]
  | some (.ok _ f, evs0) =>
    let evs := evsOf evs0
    let toks := postorderL f
    if ctx.o.ast then
      match execute ctx.acts (bufOf inp) toks with
      | none => Json.mkObj [("v", "ok"), ("execute", "panic")]
      | some aevs =>
        let trace := aevs.foldl (fun acc ev => acc ++ (renderProbe (ctx.codeOf ev.action) ev.text).2) ""
        obsCommon ctx inp "ok" toks zeroTok trace ""
    else obsCommon ctx inp "ok" [] zeroTok (reachTrace ctx inp evs) ""
  | some (.fail, evs0) =>
    let evs := evsOf evs0
    -- under -noast a capture is inlined (`cap`), it is not a token
    let tevs := if ctx.o.ast then evs else evs.filter (fun t => t.rule != "PegText")
    let mt := tevs.foldl updMax zeroTok
    obsCommon ctx inp "fail" [] mt (if ctx.o.ast then "" else reachTrace ctx inp evs) ""

def runOne (line : String) : String :=
  match Json.parse line with
  | .error e => (Json.mkObj [("id", "?"), ("error", s!"bad json: {e}")]).compress
  | .ok j =>
    let id := (j.getObjValAs? String "id").toOption.getD "?"
    let res : Except String Json := do
      let top ← match (← j.getObjVal? "tree") with
        | .arr a => pure a
        | _ => throw "tree is not an array"
      let fr ← frontOfJson top
      let o := optsOfString ((j.getObjValAs? String "opts").toOption.getD "")
      let L := linkGrammar fr.rules
      if L.dup.isSome then throw "duplicate rule"
      let G' ← match (if o.switch then optimise L.G else .ok L.G) with
        | .ok g => pure g
        | .error e => throw s!"optimise: {e}"
      let P := compileAll o G'
      let ctx : RunCtx := { o := o, L := L, Gsw := G', P := P, acts := L.actions.map (·.1),
                            codeOf := fun n => ((L.actions.find? (·.1 == n)).map (·.2)).getD "" }
      let cases ← match (← j.getObjVal? "cases") with
        | .arr a => pure a
        | _ => throw "cases is not an array"
      let outs ← cases.toList.mapM (fun c => do
        let k ← c.getObjValAs? String "k"
        let entry ← c.getObjValAs? String "entry"
        let memo := (c.getObjValAs? Bool "memo").toOption.getD true
        -- "hist": a history of Buffer byte strings run on ONE model parser (Reset between them)
        if let .ok (hs : List (List Nat)) := c.getObjValAs? (List (List Nat)) "hist" then
          return Json.mkObj [("k", Json.str k), ("steps", Json.arr (modelHistory ctx entry memo (hs.map runes)).toArray)]
        -- "bytes": the raw bytes of `p.Buffer`, decoded by the Lean model of Go's `[]rune(string)`;
        -- "input": already-decoded runes (kept for callers that have no byte form)
        let inp ← match c.getObjValAs? (List Nat) "bytes" with
          | .ok bs => pure (runes bs)
          | .error _ => c.getObjValAs? (List Nat) "input"
        let wantSpec := (c.getObjValAs? Bool "spec").toOption.getD true
        pure (Json.mkObj ([("k", Json.str k), ("model", modelObs ctx entry memo inp)] ++
          (if wantSpec then [("spec", specObs ctx entry inp)] else []))))
      pure (Json.mkObj [("id", id), ("obs", Json.arr outs.toArray)])
    match res with
    | .ok v => v.compress
    | .error e => (Json.mkObj [("id", id), ("error", e)]).compress

def runMain : IO UInt32 := do
  let stdin ← IO.getStdin
  let stdout ← IO.getStdout
  lineLoop stdin stdout runOne
  stdout.flush
  return 0

end PegVerif
