import PegVerif.Model.Set
/-
  Differential-test driver for the set model (property C16).  Core Lean only.

  Input, one case per line:      <A ops>|<B ops>|<limits>|<probes>|<flags>
     ops     space separated; `b:e` = AddRange(b,e), `a` = Add(a)
     limits  space separated arguments of Complement
     probes  space separated `lo:hi` ranges / single values: arguments of Has
     flags   `s` = print the String() fields (sA sB suAB scA<L>), `-` = omit them
  Output, one line per case, fields separated by `;` (exactly what `setx run` prints for the real code):
     A=nil>[1:3]>[1:3,5:5]   structure after NewSet and after every insertion (`nil` = no list)
     B=…
     hA= hB=                 Has(x) for x in probeLo..probeHi as 0/1 string
     lA= lB=                 Len
     sA= sB=                 String
     cpA= cpB=               Copy (structure)
     uAB= uBA=               Union (structure), suAB= String of the union
     iAB= iBA=               Intersects
     cA<L>= cB<L>= scA<L>=   Complement(L) (structure), String of A's complement
     eAB= eBA= eAA= eBB= eAuAB=   Equal
  If an insertion leaves the representable states the line ends with `>CORRUPT` at that point.
-/
namespace PegVerif
open PegVerif.MSet

namespace SetDriver

def showSet (s : MSet) : String :=
  match s with
  | [] => "nil"
  | _ => "[" ++ ",".intercalate (s.map fun p => toString p.1 ++ ":" ++ toString p.2) ++ "]"

def showRes {α} (f : α → String) : Res α → String
  | .ok a => f a
  | .panic => "PANIC"
  | .corrupt => "CORRUPT"
  | .diverge => "DIVERGE"

def showBool (b : Bool) : String := if b then "1" else "0"

def parseOp (t : String) : Option Iv :=
  match t.splitOn ":" with
  | [a] => do let x ← a.toInt?; pure (x, x)
  | [a, b] => do let x ← a.toInt?; let y ← b.toInt?; pure (x, y)
  | _ => none

def words (s : String) : List String := (s.splitOn " ").filter (· ≠ "")

def parseOps (s : String) : Option (List Iv) := (words s).mapM parseOp

/-- build a set, recording the structure after every step; `none` = left the model. -/
def buildTrace (ops : List Iv) : String × Option MSet := Id.run do
  let mut s : MSet := []
  let mut out := "nil"
  for op in ops do
    match addRange s op.1 op.2 with
    | .ok s' => s := s'; out := out ++ ">" ++ showSet s
    | r => return (out ++ ">" ++ showRes showSet r, none)
  return (out, some s)

def range (lo hi : Int) : List Int := (List.range (hi + 1 - lo).toNat).map fun (i : Nat) => lo + (i : Int)

def caseLine (line : String) : String :=
  match line.splitOn "|" with
  | [fa, fb, fl, fp, ff] =>
    let withStr := ff.toList.contains 's'
    match parseOps fa, parseOps fb, (words fl).mapM String.toInt?, parseOps fp with
    | some opsA, some opsB, some limits, some probeOps =>
      let (ta, ra) := buildTrace opsA
      match ra with
      | none => "A=" ++ ta
      | some a =>
        let (tb, rb) := buildTrace opsB
        match rb with
        | none => "A=" ++ ta ++ ";B=" ++ tb
        | some b =>
          let probes := probeOps.flatMap fun p => range p.1 p.2
          let hasStr (s : MSet) := String.join (probes.map fun x => showBool (has s x))
          let uab := union a b
          let comp := limits.map fun l =>
            let ca := complement a l
            ";cA" ++ toString l ++ "=" ++ showSet ca ++
            ";cB" ++ toString l ++ "=" ++ showSet (complement b l) ++
            (if withStr then ";scA" ++ toString l ++ "=" ++ showRes id (toStr ca) else "")
          "A=" ++ ta ++ ";B=" ++ tb ++
          ";hA=" ++ hasStr a ++ ";hB=" ++ hasStr b ++
          ";lA=" ++ toString (len a) ++ ";lB=" ++ toString (len b) ++
          (if withStr then ";sA=" ++ showRes id (toStr a) ++ ";sB=" ++ showRes id (toStr b) else "") ++
          ";cpA=" ++ showSet (copy a) ++ ";cpB=" ++ showSet (copy b) ++
          ";uAB=" ++ showRes showSet uab ++ ";uBA=" ++ showRes showSet (union b a) ++
          (if withStr then
            ";suAB=" ++ (match uab with | .ok u => showRes id (toStr u) | r => showRes showSet r) else "") ++
          ";iAB=" ++ showBool (intersects a b) ++ ";iBA=" ++ showBool (intersects b a) ++
          String.join comp ++
          ";eAB=" ++ showRes showBool (equal a b) ++ ";eBA=" ++ showRes showBool (equal b a) ++
          ";eAA=" ++ showRes showBool (equal a a) ++ ";eBB=" ++ showRes showBool (equal b b) ++
          ";eAuAB=" ++ (match uab with | .ok u => showRes showBool (equal a u) | r => showRes showSet r)
    | _, _, _, _ => "BADINPUT"
  | _ => "BADINPUT"

partial def loop (hin hout : IO.FS.Stream) : IO Unit := do
  let line ← hin.getLine
  if line.isEmpty then return ()
  let l := String.ofList (line.toList.filter fun c => c != '\n' && c != '\r')
  if !l.isEmpty then hout.putStrLn (caseLine l)
  loop hin hout

end SetDriver

/-- Reads case lines on stdin, writes one canonical result line per case on stdout. -/
def setMain : IO UInt32 := do
  let hin ← IO.getStdin
  let hout ← IO.getStdout
  SetDriver.loop hin hout
  hout.flush
  return 0

end PegVerif
