import PegVerif.Model.Syntax
/-
  Model of the analyses of `tree/peg.go` that decide *what* is emitted:

  * `countRules` (459-483)  → `reachedRules`, `rulesCount`: which rules are reachable from the first
    rule and how many references each has (`-inline` inlines a rule with exactly one, an
    unreached rule is emitted as `nil`).
  * `CheckAlwaysSucceeds` (262-310) → `alwaysSucceeds`: a call to such a rule is emitted without
    a failure branch.

  Recursion through rule references is bounded by a fuel argument (structural recursion on the
  fuel, so the definitions reduce in the kernel).  `countRules` is reformulated as "references
  in the bodies of the reachable rules"; the T-emit tie (nil slots, inlining) validates it.
-/
namespace PegVerif

mutual
  /-- Names referenced below a node, in the order `countRules` meets them (it descends into
      everything except `TypeRange`/terminals). -/
  def refsE : Expr → List String
    | .name n => [n]
    | .inl n _ => [n]
    | .seq es => refsL es
    | .alt es => refsL es
    | .ualt _ es => refsL es
    | .peekFor e => refsE e
    | .peekNot e => refsE e
    | .query e => refsE e
    | .star e => refsE e
    | .plus e => refsE e
    | .push e _ => refsE e
    | .ipush e _ => refsE e
    | _ => []
  def refsL : List Expr → List String
    | [] => []
    | e :: es => refsE e ++ refsL es
end

/-- One round of the reachability closure. -/
def reachStep (G : Grammar) (reached : List String) : List String :=
  reached.foldl (fun acc n =>
    match G.body n with
    | some b => (refsE b).foldl (fun acc m => if acc.contains m then acc else acc ++ [m]) acc
    | none => acc) reached

def iterN {α} (f : α → α) : Nat → α → α
  | 0, a => a
  | n + 1, a => iterN f n (f a)

/-- Rules reached by `countRules` from the first rule (`ruleReached`). -/
def reachedRules (G : Grammar) : List String :=
  match G.rules with
  | [] => []
  | r :: _ => iterN (reachStep G) G.rules.length [r.name]

/-- `t.rulesCount[name]` (0 = absent): one for the first rule, plus one per reference from the
    body of a reached rule. -/
def rulesCount (G : Grammar) (n : String) : Nat :=
  let reached := reachedRules G
  let first := match G.rules with | r :: _ => if r.name == n then 1 else 0 | [] => 0
  first + (reached.foldl (fun acc m =>
    match G.body m with
    | some b => acc + ((refsE b).filter (· == n)).length
    | none => acc) 0)

/-- `checkAlwaysSucceedsRecursion`; `vis` = rules whose `visited` flag is set. -/
def casF (G : Grammar) : Nat → List String → Expr → Bool
  | 0, _, _ => false
  | f + 1, vis, e =>
    match e with
    | .name n =>
      match G.body n with
      | none => false
      | some b => if vis.contains n then true else casF G f (n :: vis) b
    | .inl n _ =>   -- an inlined reference is still a TypeName node for this analysis
      match G.body n with
      | none => false
      | some b => if vis.contains n then true else casF G f (n :: vis) b
    | .alt es => es.any (casF G f vis)
    | .ualt _ _ => false   -- every case is `Sequence[&class, e]` and a lookahead never "always succeeds"
    | .seq es => es.all (casF G f vis)
    | .push e _ => casF G f vis e
    | .ipush e _ => casF G f vis e
    | .act _ => true
    | .query _ => true
    | .star _ => true
    | .nil => true
    | _ => false

mutual
  def Expr.depth : Expr → Nat
    | .inl _ e => e.depth + 1
    | .seq es => depthL es + 1
    | .alt es => depthL es + 1
    | .ualt _ es => depthL es + 1
    | .peekFor e => e.depth + 1
    | .peekNot e => e.depth + 1
    | .query e => e.depth + 1
    | .star e => e.depth + 1
    | .plus e => e.depth + 1
    | .push e _ => e.depth + 1
    | .ipush e _ => e.depth + 1
    | _ => 1
  def depthL : List Expr → Nat
    | [] => 0
    | e :: es => max e.depth (depthL es)
end

/-- Enough fuel for every analysis: each rule body can be entered at most once per path. -/
def Grammar.fuel (G : Grammar) : Nat :=
  G.rules.foldl (fun acc r => acc + r.body.depth + 1) 2

/-- `rule.CheckAlwaysSucceeds(t)` for the rule named `n`. -/
def alwaysSucceeds (G : Grammar) (n : String) : Bool :=
  match G.body n with
  | none => false
  | some b => casF G G.fuel [] b

end PegVerif
