import PegVerif.Model.Basic
/-
  The token consumers of the runtime template `tree/peg.go.tmpl`, transcribed statement by
  statement as executable functions over the recorded token list (core Lean only):

  * `astStack` / `astOf`   — `(*tokens[U]).AST()`                      (peg.go.tmpl:95-118)
  * `printFunc` / `printTree` — `(*node[U]).print`, used by `Print`, `PrettyPrint`,
                              `PrintSyntaxTree`, `WriteSyntaxTree`, `SprintSyntaxTree`
                                                                      (peg.go.tmpl:50-79,120-130,236-252)
  * `executeFrom` / `execute` — `Execute()`                            (peg.go.tmpl:255-270)

  Representation of a Go `*node[U]`: a node together with its `up` chain is
  `TokTree.node t kids`, where `kids` is the node `up` points to followed by its `next` chain
  (`[]` for `up == nil`).  A node that sits on the `AST()` stack always has `next == nil`
  (`next` is only written at the moment the node is popped, and a popped node never returns to
  the stack), so a stack element is just a `TokTree` and the stack is a `List TokTree` with the top
  at the head (`stack.down` = tail).

  Go slicing.  `s[lo:hi]` on a `[]rune` is modelled by `slice?`: `none` ("panic") unless
  `lo ≤ hi ≤ len s`.  (Go checks `hi ≤ cap s`; for `hi` between `len` and `cap` real Go would not
  panic but read the zeroed spare capacity — the model reports that situation as `none` too.  All
  theorems are stated under `hi ≤ len`, where model and Go agree exactly.)
-/
namespace PegVerif

mutual
  /-- Decidable equality of token trees (the `deriving` handler does not cover nested inductives). -/
  def TokTree.decEq : (a b : TokTree) → Decidable (a = b)
    | .node t ks, .node t' ks' =>
      if h : t = t' then
        match TokTree.decEqL ks ks' with
        | isTrue h' => isTrue (by rw [h, h'])
        | isFalse h' => isFalse (by intro e; injection e with _ e2; exact h' e2)
      else isFalse (by intro e; injection e with e1 _; exact h e1)
  def TokTree.decEqL : (a b : List TokTree) → Decidable (a = b)
    | [], [] => isTrue rfl
    | [], _ :: _ => isFalse (by intro e; cases e)
    | _ :: _, [] => isFalse (by intro e; cases e)
    | a :: as, b :: bs =>
      match TokTree.decEq a b with
      | isTrue h =>
        match TokTree.decEqL as bs with
        | isTrue h' => isTrue (by rw [h, h'])
        | isFalse h' => isFalse (by intro e; injection e with _ e2; exact h' e2)
      | isFalse h => isFalse (by intro e; injection e with e1 _; exact h e1)
end
instance : DecidableEq TokTree := TokTree.decEq

/-- Go `s[lo:hi]` for a rune slice; `none` = run-time panic "slice bounds out of range". -/
def slice? (s : List Sym) (lo hi : Nat) : Option (List Sym) :=
  if lo ≤ hi ∧ hi ≤ s.length then some (s.extract lo hi) else none

/-! ## `AST()` -/

/-- The inner loop of `AST()` for the new node carrying token `t`:

    for stack != nil && stack.node.begin >= token.begin && stack.node.end <= token.end {
        stack.node.next = node.up      -- the popped node is put in FRONT of the child chain
        node.up = stack.node
        stack = stack.down
    }

    `kids` is the current `node.up` chain; the result is (final `node.up` chain, final stack). -/
def popInto (t : Token) : List TokTree → List TokTree → List TokTree × List TokTree
  | kids, [] => (kids, [])
  | kids, s :: down =>
    if s.tok.b ≥ t.b ∧ s.tok.e ≤ t.e then popInto t (s :: kids) down
    else (kids, s :: down)

/-- One iteration of `for _, token := range tokenSlice` in `AST()`. -/
def astStep (stack : List TokTree) (t : Token) : List TokTree :=
  if t.b = t.e then stack                         -- if token.begin == token.end { continue }
  else
    let r := popInto t [] stack                   -- node := &node{token: token}; for … { … }
    TokTree.node t r.1 :: r.2                     -- stack = &element{node: node, down: stack}

/-- The whole loop, started with an arbitrary stack (the induction needs that). -/
def astStackFrom (stack : List TokTree) (toks : List Token) : List TokTree :=
  toks.foldl astStep stack

/-- The stack at the end of the loop of `AST()` (top first). -/
def astStack (toks : List Token) : List TokTree := astStackFrom [] toks

/-- `AST()`: `if stack != nil { return stack.node }; return nil`. -/
def astOf (toks : List Token) : Option TokTree := (astStack toks).head?

/-! ## `print` -/

/-- `for range depth { fmt.Fprint(w, " ") }` -/
def spaces (depth : Nat) : String := String.ofList (List.replicate depth ' ')

/-- The text written for one node once the slice has been taken:
    `fmt.Fprintf(w, "%v %v\n", rule, quote)` resp. `"\x1B[36m%v\x1B[m %v\n"`, after the indent. -/
def nodeLine (quote : List Sym → String) (pretty : Bool) (depth : Nat) (rule : String)
    (s : List Sym) : String :=
  spaces depth ++ (if pretty then "\x1B[36m" ++ rule ++ "\x1B[m" else rule) ++ " " ++ quote s ++ "\n"

mutual
  /-- The body of the `for n != nil` loop of `printFunc` for one node `n`: the line of `n`, then
      `printFunc(n.up, depth+1)`.  Result: the lines written, `none` if the slice expression
      `[]rune(buffer)[n.begin:n.end]` panics (somewhere below). -/
  def printNode (quote : List Sym → String) (pretty : Bool) (inp : List Sym) (depth : Nat) :
      TokTree → Option (List String)
    | .node t up =>
      match slice? inp t.b t.e with
      | none => none
      | some s =>
        match printFunc quote pretty inp (depth + 1) up with
        | none => none
        | some below => some (nodeLine quote pretty depth t.rule s :: below)
  /-- `printFunc(n, depth)` where the argument list is `n` followed by its `next` chain
      (`[]` for `n == nil`: the loop body never runs). -/
  def printFunc (quote : List Sym → String) (pretty : Bool) (inp : List Sym) (depth : Nat) :
      List TokTree → Option (List String)
    | [] => some []
    | n :: next =>
      match printNode quote pretty inp depth n with
      | none => none
      | some here =>
        match printFunc quote pretty inp depth next with
        | none => none
        | some rest => some (here ++ rest)
end

/-- `n.print(w, pretty, buffer)` for the (possibly nil) result `n` of `AST()`: the lines written
    to `w`.  The root returned by `AST()` has `next == nil`, so the chain is `[n]`; for a nil
    receiver it is `[]` and nothing is printed.  `inp` is `[]rune(buffer)` for the *string*
    `p.Buffer` — no end sentinel. -/
def printLines (quote : List Sym → String) (pretty : Bool) (inp : List Sym)
    (n : Option TokTree) : Option (List String) :=
  printFunc quote pretty inp 0 n.toList

/-- Everything written to `w`, as one string. -/
def printTree (quote : List Sym → String) (pretty : Bool) (inp : List Sym)
    (n : Option TokTree) : Option String :=
  (printLines quote pretty inp n).map String.join

/-- `p.SprintSyntaxTree()` / `WriteSyntaxTree` / `PrintSyntaxTree` (with `pretty = false`;
    `PrintSyntaxTree` uses `pretty = p.Pretty`) on the recorded tokens. -/
def sprintSyntaxTree (quote : List Sym → String) (pretty : Bool) (inp : List Sym)
    (toks : List Token) : Option String :=
  printTree quote pretty inp (astOf toks)

/-! ## `Execute()` -/

/-- What the probe action records: its name (`"ActionN"`) and the values of the variables
    `begin`, `end`, `text` of `Execute` at the moment it runs (`text` as runes). -/
structure ActEvent where
  action : String
  b : Nat
  e : Nat
  text : List Sym
deriving DecidableEq, Repr, Inhabited

/-- The local variables `begin, end, text` of `Execute`. -/
structure ExecState where
  b : Nat
  e : Nat
  text : List Sym
deriving DecidableEq, Repr, Inhabited

/-- `text, begin, end := "", 0, 0` -/
def ExecState.init : ExecState := ⟨0, 0, []⟩

def ActEvent.mk' (action : String) (s : ExecState) : ActEvent := ⟨action, s.b, s.e, s.text⟩

/-- The loop `for _, t := range p.Tokens() { switch t.pegRule { … } }` of `Execute`, started in
    state `s`.  `buf` is the rune slice `_buffer` that is sliced (`p.buffer`; pass the input runes,
    with or without the end sentinel — a capture of a successful parse never reaches it).
    `acts` are the names of the `case ruleActionN:` arms; the user code of an arm is modelled as
    appending an event.  Result: events in the order they happen and the final state; `none` if
    `_buffer[begin:end]` panics. -/
def executeFrom (acts : List String) (buf : List Sym) :
    ExecState → List Token → Option (List ActEvent × ExecState)
  | s, [] => some ([], s)
  | s, t :: ts =>
    if t.rule = "PegText" then                       -- case rulePegText:
      match slice? buf t.b t.e with                  --   begin, end = int(t.begin), int(t.end)
      | none => none                                 --   text = string(_buffer[begin:end])
      | some x => executeFrom acts buf ⟨t.b, t.e, x⟩ ts
    else if acts.contains t.rule then                -- case ruleActionN: <user code>
      match executeFrom acts buf s ts with
      | none => none
      | some (evs, s') => some (ActEvent.mk' t.rule s :: evs, s')
    else executeFrom acts buf s ts                   -- no arm for this rule

/-- `Execute()`: the trace of action events. -/
def execute (acts : List String) (buf : List Sym) (toks : List Token) : Option (List ActEvent) :=
  (executeFrom acts buf ExecState.init toks).map (·.1)

end PegVerif
