import PegVerif.Model.Ast
/-
  Specification side of C04 / C05, written on the derivation forest (`TokTree`), independently of
  the stack / loop algorithms of `Model/Ast.lean` (it only shares `Token`, `ActEvent`, `ExecState`
  and the one-line text `nodeLine`).
-/
namespace PegVerif

/-! ## Shape of a derivation forest -/

mutual
  /-- A node spans `b ≤ e` and its children lie inside it, in input order, without overlap. -/
  def WellNested : TokTree → Prop
    | .node t kids => t.b ≤ t.e ∧ WellNestedL t.b t.e kids
  /-- The trees of the forest lie in `[lo, hi]`, in input order: `lo ≤` first `b`, each `e ≤` the
      next `b`, last `e ≤ hi` (and `lo ≤ hi` for the empty forest); each tree is `WellNested`. -/
  def WellNestedL (lo hi : Nat) : List TokTree → Prop
    | [] => lo ≤ hi
    | k :: ks => lo ≤ k.tok.b ∧ WellNested k ∧ WellNestedL k.tok.e hi ks
end

mutual
  /-- Bool checker for `WellNested` (`wellNestedB_iff`). -/
  def wellNestedB : TokTree → Bool
    | .node t kids => decide (t.b ≤ t.e) && wellNestedLB t.b t.e kids
  def wellNestedLB (lo hi : Nat) : List TokTree → Bool
    | [] => decide (lo ≤ hi)
    | k :: ks => decide (lo ≤ k.tok.b) && wellNestedB k && wellNestedLB k.tok.e hi ks
end

/-! ## The tree C05 promises -/

mutual
  /-- A tree without its empty (`b = e`) nodes: an empty node disappears with everything below it
      (under `WellNested` everything below it is empty too: `below_empty_all_empty`); a
      non-empty node keeps exactly its pruned children, in order. -/
  def pruneT : TokTree → List TokTree
    | .node t kids => if t.b = t.e then [] else [.node t (prune kids)]
  def prune : List TokTree → List TokTree
    | [] => []
    | k :: ks => pruneT k ++ prune ks
end

mutual
  /-- Pre-order listing of a forest with depths: a node, then its children one level deeper,
      then its later siblings. -/
  def preorderT (depth : Nat) : TokTree → List (Nat × Token)
    | .node t kids => (depth, t) :: preorder (depth + 1) kids
  def preorder (depth : Nat) : List TokTree → List (Nat × Token)
    | [] => []
    | k :: ks => preorderT depth k ++ preorder depth ks
end

/-- The printed line of a node at depth `d`: `d` spaces, rule name, a space, the quoted input
    substring `inp[b:e]`, newline. -/
def lineOf (quote : List Sym → String) (pretty : Bool) (inp : List Sym) (dt : Nat × Token) :
    String :=
  nodeLine quote pretty dt.1 dt.2.rule (inp.extract dt.2.b dt.2.e)

/-- Every token of the list can be sliced out of `inp`. -/
def InRange (inp : List Sym) (t : Token) : Prop := t.b ≤ t.e ∧ t.e ≤ inp.length

instance (inp : List Sym) (t : Token) : Decidable (InRange inp t) := by
  unfold InRange; infer_instance

/-! ## The action trace C04 promises -/

def isCapture (t : Token) : Bool := t.rule == "PegText"

/-- An action token: one of the `ruleActionN` arms (and not the capture arm, which comes first
    in the `switch`; the names are disjoint in every generated parser). -/
def isAction (acts : List String) (t : Token) : Bool := !isCapture t && acts.contains t.rule

/-- `begin, end, text` as set by the capture `t`. -/
def captureState (inp : List Sym) (t : Token) : ExecState := ⟨t.b, t.e, inp.extract t.b t.e⟩

/-- What happens when the derivation node with token `t` is completed. -/
def closeTok (acts : List String) (inp : List Sym) (t : Token) (s : ExecState) :
    List ActEvent × ExecState :=
  if isCapture t then ([], captureState inp t)
  else if isAction acts t then ([ActEvent.mk' t.rule s], s)
  else ([], s)

mutual
  /-- Left-to-right walk of a derivation tree carrying the most recently completed capture:
      first the children, then the node itself (a capture / action is completed when its node
      closes). -/
  def actionTraceT (acts : List String) (inp : List Sym) :
      TokTree → ExecState → List ActEvent × ExecState
    | .node t kids, s =>
      let r := actionTrace acts inp kids s
      let c := closeTok acts inp t r.2
      (r.1 ++ c.1, c.2)
  def actionTrace (acts : List String) (inp : List Sym) :
      List TokTree → ExecState → List ActEvent × ExecState
    | [], s => ([], s)
    | k :: ks, s =>
      let r := actionTraceT acts inp k s
      let r' := actionTrace acts inp ks r.2
      (r.1 ++ r'.1, r'.2)
end

/-- List formulation: the capture state in force after the tokens `pre` — that of the LAST
    `PegText` token of `pre`, or `(0, 0, "")` if there is none. -/
def lastCapture (inp : List Sym) (pre : List Token) : ExecState :=
  match pre.reverse.find? isCapture with
  | some t => captureState inp t
  | none => ExecState.init

end PegVerif
