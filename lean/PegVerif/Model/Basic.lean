/-
  Basic vocabulary shared by every model file (core Lean only — no Mathlib — so that the
  driver executable links).

  * `Sym`      : a rune.  Real input symbols are `< END = 0x110000`; `END` is the sentinel the
                 runtime appends to the rune buffer (`peg.go.tmpl`, `endSymbol`).
  * `Token`    : `token[U]{pegRule, begin, end}` of the runtime; the rule is kept by *name*
                 (`rul3s[t.pegRule]`), offsets are rune indices.
  * `TokTree`  : the derivation tree of a successful parse restricted to token-producing nodes
                 (rule applications, `<…>` captures, actions).  `postorder` is the order in which
                 the runtime records tokens.
-/
namespace PegVerif

notation "Sym" => Nat

/-- `endSymbol` of `tree/peg.go.tmpl` (`t.EndSymbol = 0x110000` in `tree/peg.go`). -/
def END : Sym := 0x110000

structure Token where
  rule : String
  b : Nat
  e : Nat
deriving DecidableEq, Repr, Inhabited

inductive TokTree where
  | node (t : Token) (kids : List TokTree)
deriving Repr, Inhabited

mutual
  /-- Tokens of a derivation tree in the order the runtime records them: children first
      (left to right), then the node itself. -/
  def TokTree.postorder : TokTree → List Token
    | .node t kids => postorderL kids ++ [t]
  def postorderL : List TokTree → List Token
    | [] => []
    | k :: ks => k.postorder ++ postorderL ks
end

@[simp] theorem postorderL_nil : postorderL [] = [] := by simp [postorderL]
@[simp] theorem postorderL_cons (k : TokTree) (ks : List TokTree) :
    postorderL (k :: ks) = k.postorder ++ postorderL ks := by simp [postorderL]
@[simp] theorem TokTree.postorder_node (t : Token) (kids : List TokTree) :
    (TokTree.node t kids).postorder = postorderL kids ++ [t] := by simp [TokTree.postorder]

theorem postorderL_append (a b : List TokTree) :
    postorderL (a ++ b) = postorderL a ++ postorderL b := by
  induction a with
  | nil => simp
  | cons k ks ih => simp [ih]

def TokTree.tok : TokTree → Token
  | .node t _ => t
def TokTree.kids : TokTree → List TokTree
  | .node _ ks => ks

end PegVerif
