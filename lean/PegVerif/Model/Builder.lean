import PegVerif.Model.Sem
import PegVerif.Model.Link
import PegVerif.Model.Ast
import PegVerif.Generated.PegGrammar
import PegVerif.Model.GoUnicode
/-
  MODEL of the front end (the reader of `.peg` texts), core Lean only.

      text ──evalF (PEG semantics of the REGENERATED grammar of peg.peg, after `linkGrammar`)──▶ forest
           ──postorderL──▶ tokens ──execute (runtime `Execute()`)──▶ action events (name, text)
           ──action code of the event's action, parsed as `p.Method(arg)` statements──▶ builder calls
           ──builder (`tree.Add*` of tree/peg.go:351-475 transcribed)──▶ top-level node list + `t.errs`
           ──first statement of `Compile`──▶ the node list, or the recorded errors (`errors.Join(t.errs...)`)

  There is no hand-written parser of the .peg language here: the only parser is `evalF` running
  `pegFrontRules` (Generated/PegGrammar.lean, rebuilt from /repo/peg.peg on every run).

  The deque of `tree/peg.go` (`node.front/back/next/length`, lines 176-210).  A `node` that is
  handed to `PushFront`/`PushBack` is always fresh or was just removed by `PopFront` (which clears
  `next`, or the node was the only element, whose `next` is nil), and no node is ever in two
  lists, so a deque is faithfully a `List`: `PushFront` = cons, `PushBack` = append at the end,
  `PopFront` = head/tail and `panic("tree is empty")` on `[]`.  NOTE the tree's own deque is used
  BOTH as the work stack (front) and as the list of finished top-level nodes (back): `PopFront`
  on an empty *stack* does not panic while finished nodes exist, it removes the oldest finished node.
-/
namespace PegVerif

/-- `tree.Type` (tree/peg.go:44-74), names as printed by harness/pegx/dump.go.txt. -/
inductive NType where
  | unknown | rule | name | dot | character | range | string | predicate | stateChange | commit
  | action | space | comment | package | import_ | state | alternate | unorderedAlternate
  | sequence | peekFor | peekNot | query | star | plus | peg | push | implicitPush | nil
deriving DecidableEq, Repr, Inhabited

def NType.jsonName : NType → String
  | .unknown => "Unknown" | .rule => "Rule" | .name => "Name" | .dot => "Dot"
  | .character => "Character" | .range => "Range" | .string => "String"
  | .predicate => "Predicate" | .stateChange => "StateChange" | .commit => "Commit"
  | .action => "Action" | .space => "Space" | .comment => "Comment" | .package => "Package"
  | .import_ => "Import" | .state => "State" | .alternate => "Alternate"
  | .unorderedAlternate => "UnorderedAlternate" | .sequence => "Sequence"
  | .peekFor => "PeekFor" | .peekNot => "PeekNot" | .query => "Query" | .star => "Star"
  | .plus => "Plus" | .peg => "Peg" | .push => "Push" | .implicitPush => "ImplicitPush"
  | .nil => "Nil"

/-- A `*node`: `Type`, `string` (as runes), `id`, and its children `front … back`. -/
inductive Node where
  | mk (t : NType) (s : List Sym) (id : Nat) (kids : List Node)
deriving Repr, Inhabited

def Node.t : Node → NType | .mk t _ _ _ => t
def Node.s : Node → List Sym | .mk _ s _ _ => s
def Node.id : Node → Nat | .mk _ _ i _ => i
def Node.kids : Node → List Node | .mk _ _ _ k => k

/-- `&node{Type: t, string: s}` -/
def Node.leaf (t : NType) (s : List Sym) : Node := .mk t s 0 []
/-- `n.PushBack(c)` on a node's own child list. -/
def Node.pushBack : Node → Node → Node
  | .mk t s i ks, c => .mk t s i (ks ++ [c])

mutual
  def Node.beq : Node → Node → Bool
    | .mk t s i ks, .mk t' s' i' ks' => t == t' && s == s' && i == i' && Node.beqL ks ks'
  def Node.beqL : List Node → List Node → Bool
    | [], [] => true
    | a :: as, b :: bs => Node.beq a b && Node.beqL as bs
    | _, _ => false
end

/-- Outcome of a builder call. -/
inductive Out (α : Type) where
  | ok (a : α)
  | panic (msg : String)          -- a Go run-time panic
  | unsupported (msg : String)    -- outside the modelled fragment (fail closed)
deriving Repr, Inhabited

@[inline] def Out.bind {α β} (x : Out α) (f : α → Out β) : Out β :=
  match x with
  | .ok a => f a
  | .panic m => .panic m
  | .unsupported m => .unsupported m

instance : Monad Out where
  pure := .ok
  bind := Out.bind

/-- `*Tree` as far as the builder methods use it: the embedded `node` deque, `RulesCount`, and
    `errs` (the messages of the errors recorded while the tree is built, oldest first; `Compile`
    returns them joined before it does anything else). -/
structure BState where
  items : List Node
  rulesCount : Nat
  errs : List (List Sym)
deriving Repr, Inhabited

def BState.init : BState := ⟨[], 0, []⟩

def BState.pushFront (st : BState) (n : Node) : BState := { st with items := n :: st.items }
def BState.pushBack (st : BState) (n : Node) : BState := { st with items := st.items ++ [n] }
def BState.popFront (st : BState) : Out (Node × BState) :=
  match st.items with
  | [] => .panic "tree is empty"
  | n :: rest => .ok (n, { st with items := rest })
/-- `t.errs = append(t.errs, e)`, `e` given by its message. -/
def BState.addErr (st : BState) (msg : List Sym) : BState := { st with errs := st.errs ++ [msg] }

/-! ### Go library functions used by the builder -/

/-- `unicode.ToLower` / `unicode.ToUpper` on one rune, for EVERY rune (Model/GoUnicode.lean: the ASCII
    branch and the search of `unicode.CaseRanges`, regenerated from the Go library). -/
def lowerSym (c : Sym) : Sym := unicodeToLower c
def upperSym (c : Sym) : Sym := unicodeToUpper c

/-- `strings.ToLower(s)` / `strings.ToUpper(s)` on the runes of a (valid UTF-8) string: the ASCII
    fast path and `strings.Map(unicode.ToLower, s)` both replace every rune by its image (the image
    is never negative, so `Map` drops nothing). -/
def toLowerS (s : List Sym) : List Sym := s.map lowerSym
def toUpperS (s : List Sym) : List Sym := s.map upperSym

/-- Value of a digit of `strconv.ParseUint` (`0-9`, `a-z`, `A-Z`); `base` for any other byte. -/
def digitRaw (base : Nat) (c : Sym) : Nat :=
  if 48 ≤ c ∧ c ≤ 57 then c - 48
  else if 97 ≤ c ∧ c ≤ 122 then c - 97 + 10
  else if 65 ≤ c ∧ c ≤ 90 then c - 65 + 10
  else base

/-- … if it is a digit below `base`. -/
def digitVal (base : Nat) (c : Sym) : Option Nat :=
  if digitRaw base c < base then some (digitRaw base c) else none

/-- The unbounded value of a digit string, `none` on an invalid digit. -/
def digitsVal (base : Nat) : List Sym → Nat → Option Nat
  | [], acc => some acc
  | c :: cs, acc => match digitVal base c with
    | some d => digitsVal base cs (acc * base + d)
    | none => none

/-- `ParseInt` after the optional sign: syntax errors (no digit, invalid digit) give 0, range
    errors saturate (`ParseUint(…, 32)` returns `2^32-1`, then `ParseInt` clips at `±2^31`). -/
def parseMag32 (base : Nat) (neg : Bool) (ds : List Sym) : Int :=
  match ds with
  | [] => 0
  | _ =>
    match digitsVal base ds 0 with
    | none => 0
    | some v =>
      let un := if v > 4294967295 then 4294967295 else v
      if neg then (if un > 2147483648 then -2147483648 else - (Int.ofNat un))
      else (if un ≥ 2147483648 then 2147483647 else Int.ofNat un)

/-- `v, _ := strconv.ParseInt(s, base, 32)` for `base ∈ {8, 16}` (the error is ignored). -/
def parseInt32 (base : Nat) (s : List Sym) : Int :=
  match s with
  | 43 :: r => parseMag32 base false r
  | 45 :: r => parseMag32 base true r
  | r => parseMag32 base false r

/-- `_, err := strconv.ParseInt(s, base, 32)` after the optional sign: is `err != nil`?  Syntax
    errors (no digit, invalid digit) and range errors (a magnitude of `2^31` or more; `-2^31` fits). -/
def parseMagErr32 (base : Nat) (neg : Bool) (ds : List Sym) : Bool :=
  match ds with
  | [] => true
  | _ =>
    match digitsVal base ds 0 with
    | none => true
    | some v =>
      let un := if v > 4294967295 then 4294967295 else v
      if neg then decide (un > 2147483648) else decide (un ≥ 2147483648)

/-- `_, err := strconv.ParseInt(s, base, 32)`: `err != nil`. -/
def parseIntErr32 (base : Nat) (s : List Sym) : Bool :=
  match s with
  | 43 :: r => parseMagErr32 base false r
  | 45 :: r => parseMagErr32 base true r
  | r => parseMagErr32 base false r

/-- `utf8.ValidRune(rune(x))` for an int64 `x` that fits in int32: a Unicode code point, i.e. in
    `[0, 0x10FFFF]` and not a surrogate. -/
def validRune (x : Int) : Bool :=
  match x with
  | .ofNat n => decide (n < 0xD800) || (decide (0xDFFF < n) && decide (n ≤ 0x10FFFF))
  | .negSucc _ => false

def symsOf (s : String) : List Sym := s.toList.map Char.toNat

/-- `fmt.Errorf("escape \\0x%s is not a Unicode code point", text).Error()` -/
def hexErrMsg (text : List Sym) : List Sym :=
  symsOf "escape \\0x" ++ text ++ symsOf " is not a Unicode code point"

/-- `string(rune(x))` for an int64 `x` that fits in int32: the one-rune string, U+FFFD for
    surrogates and values outside `[0, 0x10FFFF]`. -/
def runeOfInt (x : Int) : Sym :=
  match x with
  | .ofNat n => if n > 0x10FFFF ∨ (0xD800 ≤ n ∧ n ≤ 0xDFFF) then 0xFFFD else n
  | .negSucc _ => 0xFFFD

/-! ### The builder methods (tree/peg.go:351-475) -/

inductive Op where
  | addRule (s : List Sym) | addExpression | addName (s : List Sym) | addDot
  | addCharacter (s : List Sym) | addDoubleCharacter (s : List Sym) | addCaseFold
  | addHexaCharacter (s : List Sym) | addOctalCharacter (s : List Sym)
  | addPredicate (s : List Sym) | addStateChange (s : List Sym) | addNil
  | addAction (s : List Sym) | addPackage (s : List Sym) | addSpace (s : List Sym)
  | addComment (s : List Sym) | addImport (s : List Sym) | addImportAlias (s : List Sym)
  | addState (s : List Sym) | addAlternate | addSequence | addRange | addDoubleRange
  | addPeekFor | addPeekNot | addQuery | addStar | addPlus | addPush | addPeg (s : List Sym)
deriving Repr, Inhabited

/-- `t.addList(listType)` -/
def addList (ty : NType) (st : BState) : Out BState :=
  match st.popFront with
  | .ok (a, st1) =>
    match st1.popFront with
    | .ok (b, st2) =>
      let l := if b.t = ty then b else (Node.mk ty [] 0 []).pushBack b
      .ok (st2.pushFront (l.pushBack a))
    | .panic m => .panic m
    | .unsupported m => .unsupported m
  | .panic m => .panic m
  | .unsupported m => .unsupported m

/-- `t.addFix(fixType)` -/
def addFix (ty : NType) (st : BState) : Out BState :=
  match st.popFront with
  | .ok (a, st1) => .ok (st1.pushFront ((Node.mk ty [] 0 []).pushBack a))
  | .panic m => .panic m
  | .unsupported m => .unsupported m

def addCharacterS (s : List Sym) (st : BState) : BState := st.pushFront (.leaf .character s)

/-- `t.AddDoubleCharacter(text)`: lower case, upper case, `AddAlternate`. -/
def addDoubleCharacterS (s : List Sym) (st : BState) : Out BState :=
  addList .alternate (addCharacterS (toUpperS s) (addCharacterS (toLowerS s) st))

/-- `t.AddCaseFold()`: the node on top (the character `Char` has just pushed) is taken off; if its
    string has no case (`strings.ToLower` and `strings.ToUpper` of it agree) it is put back as it
    was; otherwise it is replaced by what `AddDoubleCharacter` builds for its string, and when the
    string is neither its lower nor its upper case form (a title case letter) the node itself is
    appended as a further alternative (`t.PushFront(c); t.AddAlternate()`). -/
def addCaseFoldS (st : BState) : Out BState :=
  match st.popFront with
  | .ok (c, st1) =>
    let text := c.s
    let lower := toLowerS text
    let upper := toUpperS text
    if lower = upper then .ok (st1.pushFront c)
    else
      match addDoubleCharacterS text st1 with
      | .ok st2 =>
        if text ≠ lower ∧ text ≠ upper then addList .alternate (st2.pushFront c) else .ok st2
      | .panic m => .panic m
      | .unsupported m => .unsupported m
  | .panic m => .panic m
  | .unsupported m => .unsupported m

def Op.apply : Op → BState → Out BState
  | .addRule s, st =>
    .ok { (st.pushFront (.mk .rule s st.rulesCount [])) with rulesCount := st.rulesCount + 1 }
  | .addExpression, st => do
    let (expression, st1) ← st.popFront
    let (rule, st2) ← st1.popFront
    pure (st2.pushBack (rule.pushBack expression))
  | .addName s, st => .ok (st.pushFront (.leaf .name s))
  | .addDot, st => .ok (st.pushFront (.leaf .dot [46]))
  | .addCharacter s, st => .ok (addCharacterS s st)
  | .addDoubleCharacter s, st => addDoubleCharacterS s st
  | .addCaseFold, st => addCaseFoldS st
  | .addHexaCharacter s, st =>
    let hexa := parseInt32 16 s
    let st1 := if parseIntErr32 16 s || !validRune hexa then st.addErr (hexErrMsg s) else st
    .ok (addCharacterS [runeOfInt hexa] st1)
  | .addOctalCharacter s, st => .ok (addCharacterS [runeOfInt (parseInt32 8 s)] st)
  | .addPredicate s, st => .ok (st.pushFront (.leaf .predicate s))
  | .addStateChange s, st => .ok (st.pushFront (.leaf .stateChange s))
  | .addNil, st => .ok (st.pushFront (.leaf .nil [60, 110, 105, 108, 62]))      -- "<nil>"
  | .addAction s, st => .ok (st.pushFront (.leaf .action s))
  | .addPackage s, st => .ok (st.pushBack (.leaf .package s))
  | .addSpace s, st => .ok (st.pushBack (.leaf .space s))
  | .addComment s, st => .ok (st.pushBack (.leaf .comment s))
  | .addImport s, st => .ok (st.pushBack (.leaf .import_ s))
  | .addImportAlias s, st => .ok (st.pushBack (.leaf .import_ (61 :: s)))        -- "=" + text
  | .addState s, st => do
    let (peg, st1) ← st.popFront
    pure (st1.pushBack (peg.pushBack (.leaf .state s)))
  | .addAlternate, st => addList .alternate st
  | .addSequence, st => addList .sequence st
  | .addRange, st => addList .range st
  | .addDoubleRange, st => do
    let (a, st1) ← st.popFront
    let (b, st2) ← st1.popFront
    let st3 ← addList .range (addCharacterS (toLowerS a.s) (addCharacterS (toLowerS b.s) st2))
    let st4 ← addList .range (addCharacterS (toUpperS a.s) (addCharacterS (toUpperS b.s) st3))
    addList .alternate st4
  | .addPeekFor, st => addFix .peekFor st
  | .addPeekNot, st => addFix .peekNot st
  | .addQuery, st => addFix .query st
  | .addStar, st => addFix .star st
  | .addPlus, st => addFix .plus st
  | .addPush, st => addFix .push st
  | .addPeg s, st => .ok (st.pushFront (.leaf .peg s))

def applyOps : List Op → BState → Out BState
  | [], st => .ok st
  | o :: os, st =>
    match o.apply st with
    | .ok st' => applyOps os st'
    | .panic m => .panic m
    | .unsupported m => .unsupported m

/-! ### The action code: `p.Method(arg)` statements -/

/-- Argument of a call as written in the action. -/
inductive Arg where
  | none
  | text                      -- the identifier `text`
  | lit (s : List Sym)        -- a Go interpreted string literal, decoded
deriving Repr, Inhabited, DecidableEq

structure Call where
  method : List Sym
  arg : Arg
deriving Repr, Inhabited, DecidableEq

def isBlank (c : Nat) : Bool := c == 32 || c == 9 || c == 13
def isIdentChar (c : Nat) : Bool :=
  (97 ≤ c && c ≤ 122) || (65 ≤ c && c ≤ 90) || (48 ≤ c && c ≤ 57) || c == 95

def skipBlank : List Nat → List Nat
  | [] => []
  | c :: cs => if isBlank c then skipBlank cs else c :: cs

def hexDigit (c : Nat) : Option Nat := digitVal 16 c
def octDigit (c : Nat) : Option Nat := digitVal 8 c

/-- The rest of a Go interpreted string literal after the opening `"`: decoded runes and the text
    after the closing quote.  `\x` and octal escapes denote BYTES in Go; only values below 0x80
    (where byte = rune) are accepted.  Anything else Go would reject or that is not modelled: `none`. -/
def goString : List Nat → List Sym → Option (List Sym × List Nat)
  | [], _ => none
  | 34 :: rest, acc => some (acc.reverse, rest)
  | 10 :: _, _ => none
  | 92 :: 97 :: rest, acc => goString rest (7 :: acc)
  | 92 :: 98 :: rest, acc => goString rest (8 :: acc)
  | 92 :: 102 :: rest, acc => goString rest (12 :: acc)
  | 92 :: 110 :: rest, acc => goString rest (10 :: acc)
  | 92 :: 114 :: rest, acc => goString rest (13 :: acc)
  | 92 :: 116 :: rest, acc => goString rest (9 :: acc)
  | 92 :: 118 :: rest, acc => goString rest (11 :: acc)
  | 92 :: 92 :: rest, acc => goString rest (92 :: acc)
  | 92 :: 34 :: rest, acc => goString rest (34 :: acc)
  | 92 :: 120 :: h1 :: h2 :: rest, acc =>
    match hexDigit h1, hexDigit h2 with
    | some a, some b => if a * 16 + b < 128 then goString rest ((a * 16 + b) :: acc) else none
    | _, _ => none
  | 92 :: 117 :: h1 :: h2 :: h3 :: h4 :: rest, acc =>
    match hexDigit h1, hexDigit h2, hexDigit h3, hexDigit h4 with
    | some a, some b, some c, some d =>
      let v := ((a * 16 + b) * 16 + c) * 16 + d
      if 0xD800 ≤ v ∧ v ≤ 0xDFFF then none else goString rest (v :: acc)
    | _, _, _, _ => none
  | 92 :: o1 :: o2 :: o3 :: rest, acc =>
    match octDigit o1, octDigit o2, octDigit o3 with
    | some a, some b, some c =>
      if (a * 8 + b) * 8 + c < 128 then goString rest (((a * 8 + b) * 8 + c) :: acc) else none
    | _, _, _ => none
  | 92 :: _, _ => none
  | c :: rest, acc => goString rest (c :: acc)

def takeIdent : List Nat → List Nat → List Nat × List Nat
  | [], acc => (acc.reverse, [])
  | c :: cs, acc => if isIdentChar c then takeIdent cs (c :: acc) else (acc.reverse, c :: cs)

/-- One statement `p.Method(arg)`; returns the call and the rest of the code. -/
def parseCall (cs : List Nat) : Option (Call × List Nat) :=
  match skipBlank cs with
  | 112 :: 46 :: r =>                                   -- "p."
    let (m, r1) := takeIdent r []
    match m, r1 with
    | _ :: _, 40 :: r2 =>                               -- "("
      match skipBlank r2 with
      | 41 :: r3 => some (⟨m, .none⟩, r3)
      | 34 :: r3 =>
        match goString r3 [] with
        | some (s, r4) =>
          match skipBlank r4 with
          | 41 :: r5 => some (⟨m, .lit s⟩, r5)
          | _ => none
        | none => none
      | 116 :: 101 :: 120 :: 116 :: r3 =>               -- "text"
        match skipBlank r3 with
        | 41 :: r4 => some (⟨m, .text⟩, r4)
        | _ => none
      | _ => none
    | _, _ => none
  | _ => none

/-- Statements separated by `;` or newline; blank statements are skipped. -/
def parseCalls : Nat → List Nat → Option (List Call)
  | 0, _ => none
  | fuel + 1, cs =>
    match skipBlank cs with
    | [] => some []
    | 59 :: r => parseCalls fuel r
    | 10 :: r => parseCalls fuel r
    | cs' =>
      match parseCall cs' with
      | none => none
      | some (c, r) =>
        match skipBlank r with
        | [] => some [c]
        | 59 :: r' => (parseCalls fuel r').map (c :: ·)
        | 10 :: r' => (parseCalls fuel r').map (c :: ·)
        | _ => none

def codeSyms (code : String) : List Nat := code.toList.map Char.toNat

def parseAction (code : String) : Option (List Call) :=
  let cs := codeSyms code
  parseCalls (cs.length + 1) cs

/-- Bind a call to a builder method; `none` for an unknown method or a wrong argument shape. -/
def Call.toOp (c : Call) (text : List Sym) : Option Op :=
  let m := String.ofList (c.method.map Char.ofNat)
  let sarg : Option (List Sym) := match c.arg with
    | .none => none
    | .text => some text
    | .lit s => some s
  match sarg with
  | some s =>
    if m = "AddRule" then some (.addRule s)
    else if m = "AddName" then some (.addName s)
    else if m = "AddCharacter" then some (.addCharacter s)
    else if m = "AddDoubleCharacter" then some (.addDoubleCharacter s)
    else if m = "AddHexaCharacter" then some (.addHexaCharacter s)
    else if m = "AddOctalCharacter" then some (.addOctalCharacter s)
    else if m = "AddPredicate" then some (.addPredicate s)
    else if m = "AddStateChange" then some (.addStateChange s)
    else if m = "AddAction" then some (.addAction s)
    else if m = "AddPackage" then some (.addPackage s)
    else if m = "AddSpace" then some (.addSpace s)
    else if m = "AddComment" then some (.addComment s)
    else if m = "AddImport" then some (.addImport s)
    else if m = "AddImportAlias" then some (.addImportAlias s)
    else if m = "AddState" then some (.addState s)
    else if m = "AddPeg" then some (.addPeg s)
    else none
  | none =>
    if m = "AddExpression" then some .addExpression
    else if m = "AddDot" then some .addDot
    else if m = "AddNil" then some .addNil
    else if m = "AddAlternate" then some .addAlternate
    else if m = "AddSequence" then some .addSequence
    else if m = "AddCaseFold" then some .addCaseFold
    else if m = "AddRange" then some .addRange
    else if m = "AddDoubleRange" then some .addDoubleRange
    else if m = "AddPeekFor" then some .addPeekFor
    else if m = "AddPeekNot" then some .addPeekNot
    else if m = "AddQuery" then some .addQuery
    else if m = "AddStar" then some .addStar
    else if m = "AddPlus" then some .addPlus
    else if m = "AddPush" then some .addPush
    else none

def callsToOps (text : List Sym) : List Call → Option (List Op)
  | [] => some []
  | c :: cs => match c.toOp text, callsToOps text cs with
    | some o, some os => some (o :: os)
    | _, _ => none

/-! ### The front end -/

inductive FrontResult where
  | syntaxError
  | panic (msg : String)
  | unsupported (msg : String)
  | ok (top : List Node)
  /-- The text parses, but the builder recorded errors (`t.errs`, their messages oldest first):
      `Compile` returns `errors.Join(t.errs...)` before doing anything else. -/
  | invalid (errs : List (List Sym))
deriving Repr, Inhabited

/-- The first statement of `Compile` (`if err := errors.Join(t.errs...); err != nil { return err }`,
    `Join` of no errors is nil): the tree goes on to the generator only if the builder recorded no
    error. -/
def BState.finish (st : BState) : FrontResult :=
  match st.errs with
  | [] => .ok st.items
  | e :: es => .invalid (e :: es)

/-- The action table: rule name `ActionN` ↦ parsed calls (`none`: code not understood). -/
def actionTable (L : Linked) : List (String × Option (List Call)) :=
  L.actions.map (fun a => (a.1, parseAction a.2))

def lookupAct (tbl : List (String × Option (List Call))) (n : String) : Option (Option (List Call)) :=
  match tbl.find? (fun a => a.1 == n) with
  | some a => some a.2
  | none => none

/-- `Execute()`'s `switch`: run the user code of every action event against the builder. -/
def runEvents (tbl : List (String × Option (List Call))) : List ActEvent → BState → Out BState
  | [], st => .ok st
  | ev :: evs, st =>
    match lookupAct tbl ev.action with
    | some (some calls) =>
      match callsToOps ev.text calls with
      | some ops =>
        match applyOps ops st with
        | .ok st' => runEvents tbl evs st'
        | .panic m => .panic m
        | .unsupported m => .unsupported m
      | none => .unsupported ("action uses an unknown builder method: " ++ ev.action)
    | some none => .unsupported ("action code not understood: " ++ ev.action)
    | none => .unsupported ("no such action: " ++ ev.action)

mutual
  def Expr.hasPred : Expr → Bool
    | .pred _ => true
    | .inl _ e => e.hasPred
    | .seq es => Expr.hasPredL es
    | .alt es => Expr.hasPredL es
    | .ualt _ es => Expr.hasPredL es
    | .peekFor e => e.hasPred
    | .peekNot e => e.hasPred
    | .query e => e.hasPred
    | .star e => e.hasPred
    | .plus e => e.hasPred
    | .push e _ => e.hasPred
    | .ipush e _ => e.hasPred
    | _ => false
  def Expr.hasPredL : List Expr → Bool
    | [] => false
    | e :: es => e.hasPred || Expr.hasPredL es
end

/-- Parse with `G` from rule `entry`, run `Execute()` and the builder.  `acts` are the names of the
    action rules, `tbl` their parsed code. -/
def frontCore (G : Grammar) (acts : List String) (tbl : List (String × Option (List Call)))
    (entry : String) (text : List Sym) (fuel : Nat) : FrontResult :=
  match evalF G (fun _ _ => false) text fuel (.name entry) 0 with
  | none => .unsupported "out of fuel"
  | some (.fail, _) => .syntaxError
  | some (.ok _ forest, _) =>
    match execute acts text (postorderL forest) with
    | none => .unsupported "capture out of range"
    | some evs =>
      match runEvents tbl evs BState.init with
      | .ok st => st.finish
      | .panic m => .panic m
      | .unsupported m => .unsupported m

/-- The front end on an arbitrary linked grammar `L` with entry rule `entry`
    (`p.Parse()` starts at `p.rules[1]`, the first rule). -/
def frontWith (L : Linked) (entry : String) (text : List Sym) (fuel : Nat) : FrontResult :=
  if L.dup.isSome then .unsupported "peg.peg defines a rule twice"
  else if L.G.rules.any (fun r => r.body.hasPred) then .unsupported "peg.peg uses a semantic predicate"
  else frontCore L.G (L.actions.map (·.1)) (actionTable L) entry text fuel

/-- What an escape spelling means to the front end. -/
inductive EscDen where
  | cp (c : Sym)                      -- it denotes this code point
  | err (msgs : List (List Sym))      -- it is reported: `Compile` returns these errors
deriving Repr, Inhabited, DecidableEq

/-- The meaning of an escape spelling: rule `Escape` of `G` must consume exactly the spelling, and
    its action must leave exactly one Character node with a one-rune string; the escape denotes
    that rune if the builder recorded no error, else it is reported (`BState.finish`). -/
def frontCharCore (G : Grammar) (acts : List String) (tbl : List (String × Option (List Call)))
    (sp : List Sym) : Option EscDen :=
  match evalF G (fun _ _ => false) sp 64 (.name "Escape") 0 with
  | some (.ok p forest, _) =>
    if p = sp.length then
      match execute acts sp (postorderL forest) with
      | some evs =>
        match runEvents tbl evs BState.init with
        | .ok st =>
          match st.items, st.errs with
          | [Node.mk .character [c] _ []], [] => some (.cp c)
          | [Node.mk .character [_] _ []], e :: es => some (.err (e :: es))
          | _, _ => none
        | _ => none
      | none => none
    else none
  | _ => none

def pegEntry : String := match pegFrontRules with
  | r :: _ => r.name
  | [] => ""

/-- MODEL of `p.Init(); p.Parse(); p.Execute()` of main.go on the runes of a text, and of the first
    statement of `p.Compile(…)`: the PEG semantics of the checked-in grammar plus the builder. -/
def frontModel (text : List Sym) (fuel : Nat) : FrontResult :=
  frontWith (linkGrammar pegFrontRules) pegEntry text fuel

/-- The meaning the front end assigns to an escape spelling (`none`: not an escape). -/
def frontChar (sp : List Sym) : Option EscDen :=
  let L := linkGrammar pegFrontRules
  frontCharCore L.G (L.actions.map (·.1)) (actionTable L) sp

/-! ### JSON (same shape as harness/pegx/dump.go.txt: `{"t","s","id","k"?}`) -/

def hexNibble (n : Nat) : Char := Char.ofNat (if n < 10 then 48 + n else 87 + n)
def u4 (n : Nat) : String :=
  String.ofList [ '\\', 'u', hexNibble (n / 4096 % 16), hexNibble (n / 256 % 16),
    hexNibble (n / 16 % 16), hexNibble (n % 16) ]

/-- One rune inside a JSON string (everything outside printable ASCII as `\uXXXX`, surrogate
    pairs above the BMP). -/
def jsonRune (c : Sym) : String :=
  if c == 34 then "\\\"" else if c == 92 then "\\\\"
  else if 32 ≤ c ∧ c < 127 then String.singleton (Char.ofNat c)
  else if c < 0x10000 then u4 c
  else let v := c - 0x10000; u4 (0xD800 + v / 1024) ++ u4 (0xDC00 + v % 1024)

def jsonSyms (s : List Sym) : String := "\"" ++ String.join (s.map jsonRune) ++ "\""
def jsonStr (s : String) : String := jsonSyms (symsOf s)

mutual
  def Node.toJson : Node → String
    | .mk t s i ks =>
      "{\"t\":" ++ jsonStr t.jsonName ++ ",\"s\":" ++ jsonSyms s ++ ",\"id\":" ++ toString i ++
        (match ks with
         | [] => ""
         | _ => ",\"k\":[" ++ Node.toJsonL ks ++ "]") ++ "}"
  def Node.toJsonL : List Node → String
    | [] => ""
    | [n] => n.toJson
    | n :: ns => n.toJson ++ "," ++ Node.toJsonL ns
end

/-- `errors.Join(errs...).Error()`: the messages separated by newlines. -/
def joinLines : List (List Sym) → List Sym
  | [] => []
  | [e] => e
  | e :: es => e ++ 10 :: joinLines es

def FrontResult.toJson : FrontResult → String
  | .syntaxError => "{\"syntaxError\":true}"
  | .panic m => "{\"panic\":" ++ jsonStr m ++ "}"
  | .unsupported m => "{\"unsupported\":" ++ jsonStr m ++ "}"
  | .ok top => "{\"tree\":[" ++ Node.toJsonL top ++ "]}"
  | .invalid errs => "{\"compileError\":" ++ jsonSyms (joinLines errs) ++ "}"

end PegVerif
