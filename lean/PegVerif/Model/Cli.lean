/-
  C18 — model of the command-line program `/repo/main.go` (core Lean only, executable).

  `cli : Scenario → Outcome` follows `main` / `getIO` / `parse` and the tail of
  `(*Tree).Compile` (`tree/peg.go`, from `if t.Strict && t.werr != nil` to the end) statement by
  statement, over a FINITE abstract scenario type.  Everything the program does that is not decided
  by its own control flow (does `os.Open` succeed, does the front end accept the text, does a write
  succeed, does `Close` fail) is an oracle read off the scenario; the oracles are the only place
  where the abstract classes get their meaning, and `harness/cmd/clix` realises every class by
  concrete files / texts / devices and compares the real binary with this function line by line.

  Abstract classes and the concrete representatives that realise them (see clix):

  * `Source.fileOk`          regular readable file (relative / absolute, names with spaces, sub-dirs)
  * `Source.fileMissing`     ENOENT (no such file, no such parent dir), ENOTDIR (`file/x.peg`)
  * `Source.fileUnreadable`  EACCES: mode 0000 / 0200 file or 0000 parent dir with the binary run as
                             uid 65534 (root ignores mode bits); ELOOP (symlink loop) as root
  * `Source.fileIsDir`       a directory: `os.Open` SUCCEEDS, `io.ReadAll` fails with EISDIR — so the
                             destination has already been created/truncated
  * `Source.stdinNoArg`      no positional argument, text on standard input
  * `Source.stdinDash`       positional argument `-`, text on standard input
  * `Dest.default`           no `-output`: `<arg>.go` for a file argument, standard output otherwise
                             (the directory of `<arg>` is assumed writable)
  * `Dest.named`             `-output F`, F creatable (fresh, or stale file that gets truncated)
  * `Dest.namedMissingDir`   ENOENT on the parent
  * `Dest.namedNoPerm`       EACCES (0444 file / 0555 dir as uid 65534), EROFS (read-only mount),
                             EPERM (`chattr +i`) as root
  * `Dest.namedIsDir`        EISDIR
  * `Dest.namedFull`         `-output /dev/full` (or a symlink to it): open succeeds, every write fails
  * `Dest.stdoutDash`        `-output -`
  * `Dest.stdoutFull`        `-output -` with fd 1 = /dev/full (ENOSPC) or a read-only descriptor
                             (EBADF): every write to standard output fails
  * `Mode.plain`             none of the following
  * `Mode.dump`              `-print` and/or `-syntax` given (both dump to `os.Stdout`)
  * `Mode.closeFail`         every `(*os.File).Close` fails (realised with
                             `strace -e inject=close:error=EIO`); `closeAll` then panics
  * `Mode.version`           `-version` given
  The four modes are one dimension of the table (not three independent booleans): the combinations
  that are left out (-version together with a dump option, a dump option together with a failing
  Close, …) add nothing — `-version` returns before anything else is looked at — and every
  process run of the correspondence check costs milliseconds.
-/
namespace PegVerif.Cli

/-! ## Scenario -/

inductive Source where
  | fileOk | fileMissing | fileUnreadable | fileIsDir | stdinNoArg | stdinDash
deriving DecidableEq, Repr, Inhabited

inductive Grammar where
  | validSilent    -- accepted, no warning, generated text is Go
  | validWarn      -- accepted, `t.warn` called (unused rule / undefined name / left recursion)
  | syntaxError    -- `p.Parse()` returns an error
  | emptyText      -- no grammar at all (empty / blank / comment only): `p.Parse()` returns an error
  | duplicateRule  -- `Compile` returns "rule defined more than once" in its first pass
  | invalidGo      -- no warning, but `parser.ParseFile` rejects the generated text
deriving DecidableEq, Repr, Inhabited

inductive Dest where
  | default | named | namedMissingDir | namedNoPerm | namedIsDir | namedFull | stdoutDash | stdoutFull
deriving DecidableEq, Repr, Inhabited

inductive Mode where
  | plain | dump | closeFail | version
deriving DecidableEq, Repr, Inhabited

structure Scenario where
  source     : Source
  grammar    : Grammar
  dest       : Dest
  strict     : Bool
  inline     : Bool
  switch     : Bool
  noast      : Bool
  mode       : Mode
deriving DecidableEq, Repr, Inhabited

/-- `-print` / `-syntax` given -/
def Scenario.dump (s : Scenario) : Bool := s.mode == .dump
/-- `-version` given -/
def Scenario.version (s : Scenario) : Bool := s.mode == .version
/-- every `Close` fails -/
def Scenario.closeFails (s : Scenario) : Bool := s.mode == .closeFail

/-! ## Outcome -/

inductive DestKind where
  | defaultFile   -- `<arg>.go`
  | namedFile     -- the `-output` operand
  | stdout
deriving DecidableEq, Repr, Inhabited

inductive Written where
  | nothing          -- destination untouched (does not exist / stale content unchanged / no bytes on stdout)
  | truncatedEmpty   -- file exists with 0 bytes
  | rawInvalid       -- non-empty, not a Go file
  | complete         -- exactly the formatted generated parser
deriving DecidableEq, Repr, Inhabited

structure Outcome where
  exit           : Nat                -- 0, 1 (`log.Fatal`), 2 (panic)
  stderrNonEmpty : Bool
  written        : Written
  destination    : Option DestKind    -- the location that was touched (`none` iff `written = nothing`)
deriving DecidableEq, Repr, Inhabited

/-! ## Oracles: what the operating system / front end / go/parser answer in each class -/

/-- `flag.NArg() > 0 && flag.Arg(0) != "-"`. -/
def hasFileArg : Source → Bool
  | .fileOk | .fileMissing | .fileUnreadable | .fileIsDir => true
  | .stdinNoArg | .stdinDash => false

/-- `os.Open(flag.Arg(0))` succeeds (a directory can be opened). -/
def openSourceOk : Source → Bool
  | .fileMissing | .fileUnreadable => false
  | _ => true

/-- `io.ReadAll(in)` succeeds. -/
def readAllOk : Source → Bool
  | .fileIsDir => false
  | _ => true

/-- value of the variable `*outputFile` -/
inductive OutName where
  | empty | dash | named | argGo
deriving DecidableEq, Repr

/-- `*outputFile` right after `flag.Parse()`. -/
def flagOutput : Dest → OutName
  | .default => .empty
  | .stdoutDash | .stdoutFull => .dash
  | .named | .namedMissingDir | .namedNoPerm | .namedIsDir | .namedFull => .named

/-- what `os.OpenFile(name, O_RDWR|O_CREATE|O_TRUNC, 0o644)` gives -/
inductive OpenDest where
  | fails | regular | device
deriving DecidableEq, Repr

def openDest (d : Dest) : OutName → OpenDest
  | .argGo => .regular                 -- `<arg>.go`: assumed creatable
  | .named =>
    match d with
    | .named => .regular
    | .namedFull => .device
    | _ => .fails
  | _ => .fails                        -- never asked (guarded by the caller)

/-- `p.Parse()` returns nil. -/
def frontEndOk : Grammar → Bool
  | .syntaxError | .emptyText => false
  | _ => true

/-- outcome class of `Compile` before its tail -/
structure CompileClass where
  dup    : Bool   -- first pass returns "defined more than once"
  warned : Bool   -- `t.werr != nil` when the tail is reached
  goOk   : Bool   -- `parser.ParseFile` accepts the buffer
deriving DecidableEq, Repr

/-- `tree.New(inline, switch, noast)` + `Compile`: the class does not depend on the three options
    (the harness runs all eight combinations on every text). -/
def compileClass (g : Grammar) (_inline _switch _noast : Bool) : CompileClass :=
  match g with
  | .validSilent   => ⟨false, false, true⟩
  | .validWarn     => ⟨false, true,  true⟩
  | .duplicateRule => ⟨true,  false, true⟩
  | .invalidGo     => ⟨false, false, false⟩
  | .syntaxError | .emptyText => ⟨false, false, true⟩   -- never reached

/-! ## The world the program acts on -/

inductive Piece where
  | banner      -- "version: dev"
  | dump        -- -print / -syntax output
  | raw         -- unformatted generated text (`buffer.WriteTo(out)`)
  | formatted   -- `formatter.Fprint(out, …)`
deriving DecidableEq, Repr

/-- where `out` points -/
inductive Out where
  | stdout
  | file (k : DestKind) (regular : Bool)
deriving DecidableEq, Repr

structure World where
  stdout  : List Piece := []
  /-- the regular file created/truncated by `getIO`, with what has been written to it -/
  file    : Option (DestKind × List Piece) := none
  stderr  : Bool := false
deriving Repr

/-- writes to fd 1 fail -/
def stdoutBroken (s : Scenario) : Bool := s.dest == .stdoutFull

/-- `os.Stdout.Write` (used by `fmt.Println`, `p.Print()`, `p.PrintSyntaxTree()` and by `out`
    when `out = os.Stdout`); returns success. -/
def writeStdout (s : Scenario) (p : Piece) (w : World) : Bool × World :=
  if stdoutBroken s then (false, w) else (true, { w with stdout := w.stdout ++ [p] })

/-- `out.Write`. -/
def writeOut (s : Scenario) (o : Out) (p : Piece) (w : World) : Bool × World :=
  match o with
  | .stdout => writeStdout s p w
  | .file _ false => (false, w)                     -- /dev/full
  | .file _ true =>
    match w.file with
    | some (k, ps) => (true, { w with file := some (k, ps ++ [p]) })
    | none => (false, w)                            -- unreachable

inductive Result where
  | ok | err | panic
deriving DecidableEq, Repr

/-! ## `getIO` -/

inductive GetIO where
  | error                         -- `return nil, nil, nil, err`
  | panic                         -- `closeAll()` panicked inside `getIO`
  | ok (files : Nat) (out : Out)  -- `len(files)`, `out`
deriving Repr

/-- `closeAll()` panics: some file is open and `Close` fails. -/
def closeAllPanics (s : Scenario) (files : Nat) : Bool := s.closeFails && decide (files > 0)

/-- second `if` of `getIO`. -/
def getIO_out (s : Scenario) (files : Nat) (outputFile : OutName) : GetIO :=
  -- in, out = os.Stdin, os.Stdout
  if outputFile ≠ .empty ∧ outputFile ≠ .dash then
    match openDest s.dest outputFile with
    | .fails =>
      -- closeAll(); return nil, nil, nil, err
      if closeAllPanics s files then .panic else .error
    | .regular =>
      .ok (files + 1) (.file (if outputFile = .argGo then .defaultFile else .namedFile) true)
    | .device =>
      .ok (files + 1) (.file (if outputFile = .argGo then .defaultFile else .namedFile) false)
  else
    .ok files .stdout

def getIO (s : Scenario) : GetIO :=
  let outputFile := flagOutput s.dest
  if hasFileArg s.source then
    if !openSourceOk s.source then
      .error                                   -- files is empty, closeAll not called
    else
      -- files = append(files, f); in = f
      let outputFile := if outputFile = .empty then .argGo else outputFile
      getIO_out s 1 outputFile
  else
    getIO_out s 0 outputFile

/-! ## tail of `Compile` -/

def compile (s : Scenario) (o : Out) (w : World) : Result × World :=
  let c := compileClass s.grammar s.inline s.switch s.noast
  if c.dup then (.err, w) else
  -- if t.Strict && t.werr != nil { err = t.werr }
  let err := s.strict && c.warned
  -- if !t.Strict && t.werr != nil { fmt.Fprintln(os.Stderr, t.werr) }
  let w := if !s.strict && c.warned then { w with stderr := true } else w
  if err then (.err, w) else
  if !c.goOk then
    -- _, _ = buffer.WriteTo(out); return err
    let (_, w) := writeOut s o .raw w
    (.err, w)
  else
    -- err = formatter.Fprint(out, fileSet, code)
    let (ok, w) := writeOut s o .formatted w
    if !ok then
      let (_, w) := writeOut s o .raw w
      (.err, w)
    else (.ok, w)

/-! ## `parse` -/

/-- body of `parse` after `defer closeAll()`. -/
def parseBody (s : Scenario) (o : Out) (w : World) : Result × World :=
  if !readAllOk s.source then (.err, w) else
  if !frontEndOk s.grammar then (.err, w) else
  -- p.Execute(); then the closure given by main:
  -- `if out == os.Stdout { os.Stdout = os.Stderr … }`: when the parser goes to standard output the
  -- dumps of -print / -syntax go to standard error (write errors are ignored either way)
  let w := if s.dump then
      (match o with
       | .stdout => { w with stderr := true }
       | _ => (writeStdout s .dump w).2)
    else w
  compile s o w

def parse (s : Scenario) : Result × World :=
  match getIO s with
  | .error => (.err, {})
  | .panic => (.panic, {})
  | .ok files o =>
    -- O_CREATE|O_TRUNC took effect when the destination is a regular file
    let w : World :=
      match o with
      | .file k true => { file := some (k, []) }
      | _ => {}
    let (r, w) := parseBody s o w
    -- deferred closeAll()
    if closeAllPanics s files then (.panic, w) else (r, w)

/-! ## `main` and the observable outcome -/

def classifyFile : List Piece → Written
  | [] => .truncatedEmpty
  | [.formatted] => .complete
  | _ => .rawInvalid

def classifyStdout : List Piece → Written
  | [] => .nothing
  | [.banner] => .nothing          -- the version banner is not parser output
  | [.formatted] => .complete
  | _ => .rawInvalid

def observe (exit : Nat) (w : World) : Outcome :=
  match w.file with
  | some (k, ps) => ⟨exit, w.stderr, classifyFile ps, some k⟩
  | none =>
    let c := classifyStdout w.stdout
    ⟨exit, w.stderr, c, if c = .nothing then none else some .stdout⟩

def cli (s : Scenario) : Outcome :=
  if s.version then
    -- fmt.Println("version:", Version); return
    observe 0 (writeStdout s .banner {}).2
  else
    match parse s with
    | (.ok, w) => observe 0 w
    | (.err, w) => observe 1 { w with stderr := true }      -- log.Fatal(err)
    | (.panic, w) => observe 2 { w with stderr := true }    -- panic(err): trace on stderr, exit 2

/-! ## Specification-side vocabulary (used by Props/C18) -/

/-- the destination the user asked for -/
def requested (s : Scenario) : DestKind :=
  match s.dest with
  | .default => if hasFileArg s.source then .defaultFile else .stdout
  | .stdoutDash | .stdoutFull => .stdout
  | .named | .namedMissingDir | .namedNoPerm | .namedIsDir | .namedFull => .namedFile

/-- missing or unreadable grammar -/
def badSource (s : Scenario) : Bool :=
  s.source == .fileMissing || s.source == .fileUnreadable || s.source == .fileIsDir

/-- grammar syntax error -/
def syntaxBad (s : Scenario) : Bool :=
  s.grammar == .syntaxError || s.grammar == .emptyText

/-- unwritable destination -/
def badDest (s : Scenario) : Bool :=
  s.dest == .namedMissingDir || s.dest == .namedNoPerm || s.dest == .namedIsDir ||
  s.dest == .namedFull || s.dest == .stdoutFull

/-- some `*os.File` is open when `parse` returns (so a failing `Close` matters) -/
def opensFile (s : Scenario) : Bool :=
  hasFileArg s.source || flagOutput s.dest == .named

/-! ## The finite table -/

def Source.all : List Source := [.fileOk, .fileMissing, .fileUnreadable, .fileIsDir, .stdinNoArg, .stdinDash]
def Grammar.all : List Grammar := [.validSilent, .validWarn, .syntaxError, .emptyText, .duplicateRule, .invalidGo]
def Dest.all : List Dest :=
  [.default, .named, .namedMissingDir, .namedNoPerm, .namedIsDir, .namedFull, .stdoutDash, .stdoutFull]
def Mode.all : List Mode := [.plain, .dump, .closeFail, .version]
def bools : List Bool := [false, true]

def Scenario.all : List Scenario :=
  Source.all.flatMap fun a => Grammar.all.flatMap fun b => Dest.all.flatMap fun c =>
  bools.flatMap fun d => bools.flatMap fun e => bools.flatMap fun f => bools.flatMap fun g =>
  Mode.all.map fun h =>
    ⟨a, b, c, d, e, f, g, h⟩

theorem Source.mem_all (x : Source) : x ∈ Source.all := by cases x <;> decide
theorem Grammar.mem_all (x : Grammar) : x ∈ Grammar.all := by cases x <;> decide
theorem Dest.mem_all (x : Dest) : x ∈ Dest.all := by cases x <;> decide
theorem Mode.mem_all (x : Mode) : x ∈ Mode.all := by cases x <;> decide
theorem mem_bools (x : Bool) : x ∈ bools := by cases x <;> decide

theorem Scenario.mem_all (s : Scenario) : s ∈ Scenario.all := by
  obtain ⟨a, b, c, d, e, f, g, h⟩ := s
  simp only [Scenario.all, List.mem_flatMap, List.mem_map]
  exact ⟨a, Source.mem_all a, b, Grammar.mem_all b, c, Dest.mem_all c, d, mem_bools d,
    e, mem_bools e, f, mem_bools f, g, mem_bools g, h, Mode.mem_all h, rfl⟩

/-! ## Canonical text (shared with `harness/cmd/clix`) -/

def b01 (b : Bool) : String := if b then "1" else "0"

def Source.enc : Source → String
  | .fileOk => "fileOk" | .fileMissing => "fileMissing" | .fileUnreadable => "fileUnreadable"
  | .fileIsDir => "fileIsDir" | .stdinNoArg => "stdinNoArg" | .stdinDash => "stdinDash"

def Grammar.enc : Grammar → String
  | .validSilent => "validSilent" | .validWarn => "validWarn" | .syntaxError => "syntaxError"
  | .emptyText => "emptyText" | .duplicateRule => "duplicateRule" | .invalidGo => "invalidGo"

def Dest.enc : Dest → String
  | .default => "default" | .named => "named" | .namedMissingDir => "namedMissingDir"
  | .namedNoPerm => "namedNoPerm" | .namedIsDir => "namedIsDir" | .namedFull => "namedFull"
  | .stdoutDash => "stdoutDash" | .stdoutFull => "stdoutFull"

def Mode.enc : Mode → String
  | .plain => "plain" | .dump => "dump" | .closeFail => "closeFail" | .version => "version"

def Scenario.enc (s : Scenario) : String :=
  s!"src={s.source.enc} gram={s.grammar.enc} dest={s.dest.enc} strict={b01 s.strict} inline={b01 s.inline} switch={b01 s.switch} noast={b01 s.noast} mode={s.mode.enc}"

def Written.enc : Written → String
  | .nothing => "nothing" | .truncatedEmpty => "truncatedEmpty"
  | .rawInvalid => "rawInvalid" | .complete => "complete"

def DestKind.enc : DestKind → String
  | .defaultFile => "defaultFile" | .namedFile => "namedFile" | .stdout => "stdout"

def Outcome.enc (o : Outcome) : String :=
  let d := match o.destination with | none => "none" | some k => k.enc
  s!"exit={o.exit} stderr={b01 o.stderrNonEmpty} written={o.written.enc} dest={d}"

def findEnc {α} (xs : List α) (enc : α → String) (t : String) : Option α :=
  xs.find? (fun x => enc x == t)

def parseBool : String → Option Bool
  | "0" => some false | "1" => some true | _ => none

/-- value of `key=` in a list of `key=value` words -/
def field (ws : List String) (key : String) : Option String :=
  ws.findSome? fun w =>
    if w.startsWith (key ++ "=") then some (w.drop (key.length + 1)).toString else none

def Scenario.dec (line : String) : Option Scenario := do
  let ws := (line.splitOn " ").filter (· ≠ "")
  let a ← findEnc Source.all Source.enc (← field ws "src")
  let b ← findEnc Grammar.all Grammar.enc (← field ws "gram")
  let c ← findEnc Dest.all Dest.enc (← field ws "dest")
  let d ← parseBool (← field ws "strict")
  let e ← parseBool (← field ws "inline")
  let f ← parseBool (← field ws "switch")
  let g ← parseBool (← field ws "noast")
  let h ← findEnc Mode.all Mode.enc (← field ws "mode")
  return ⟨a, b, c, d, e, f, g, h⟩

end PegVerif.Cli
