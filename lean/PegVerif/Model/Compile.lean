import PegVerif.Model.Syntax
import PegVerif.Model.IR
import PegVerif.Model.Analysis
/-
  Model of the emission part of `(*Tree).Compile` (`tree/peg.go`): the recursive closure
  `compile` (986-1223) and the per-rule loop of the real pass (1273-1320) / dry pass (1227-1248).

  * The label counter `label` and a switch counter are threaded (`CSt`).
  * `parentDetect` / `parentMultipleKey` are node fields in Go; every parent that propagates them
    assigns the child's fields immediately before compiling it and every other node keeps the
    initial `false`, so they are arguments `pd pmk` here.  They are handed to the node executed
    first by sequence, choice, `<…>`, implicit push, inlined name and `?`; `&e`, `!e`, `e*` and `e+`
    compile their operand with both flags false (the operand may run at a later position, or its
    failure is what the parent wants).  Under `pd` a `.` is `position++`; a character or a range
    elides its test only when the case has a single key (`pd && !pmk`).
  * `labels[n]` (was a jump to `ln` printed?) is read by `printLabel`.  It is filled by the dry
    pass; the real pass prints a subset of the dry pass's jumps, so it is the fixed function
    `env.used` here (see `compileAll`).
  * `-inline`: `compile` of a `TypeName` whose rule has exactly one reference compiles the rule's
    body in place.  That is the separate, fuel-bounded source transformation `expandInline`
    (`name n ↦ inl n body`); `compile (.inl n e)` just compiles `e`.
-/
namespace PegVerif

structure CEnv where
  ast : Bool
  dry : Bool
  used : Nat → Bool
  always : String → Bool

structure CSt where
  label : Nat
  sw : Nat
deriving Repr, Inhabited, DecidableEq

/-- `printLabel`: the label is printed only if some jump to it was printed. -/
def CEnv.lbl (env : CEnv) (n : Nat) : Code := if env.used n then [.label n] else []

/-- Result of compiling a node: code, new counters, and `labelLast` ("the last thing printed is
    a label", which makes the `-switch` emission add a `break`). -/
structure COut where
  code : Code
  st : CSt
  labelLast : Bool
deriving Repr, Inhabited

mutual
  def compile (env : CEnv) : Expr → (ko : Nat) → (pd pmk : Bool) → CSt → COut
    | .dot, ko, pd, _, st =>
      ⟨if pd then [.inc] else [.ifNotDot ko], st, false⟩
    | .name n, ko, _, _, st =>
      ⟨if env.always n then [.call n] else [.callIf n ko], st, false⟩
    | .inl _ e, ko, pd, pmk, st =>
      let r := compile env e ko pd pmk st
      ⟨r.code, r.st, false⟩
    | .rng lo hi, ko, pd, pmk, st =>
      ⟨if pd && !pmk then [.inc] else [.ifNotRng lo hi ko, .inc], st, false⟩
    | .chr c, ko, pd, pmk, st =>
      ⟨if pd && !pmk then [.inc] else [.ifNeChr c ko, .inc], st, false⟩
    | .str s, ko, _, _, st => ⟨[.ifNotStr s ko], st, false⟩
    | .pred c, ko, _, _, st => ⟨[.ifNotPred c ko], st, false⟩
    | .stmt c, _, _, _, st => ⟨[.stmt c], st, false⟩
    | .act _, _, _, _, st => ⟨[], st, false⟩
    | .nil, _, _, _, st => ⟨[], st, false⟩
    | .push e r, ko, pd, pmk, st =>
      let ok := st.label
      let st1 := { st with label := st.label + 1 }
      match e with
      | .act c => ⟨[.bb] ++ (if env.ast then [.addHere r] else [.stmt c]) ++ [.be], st1, false⟩
      | _ =>
        let b := compile env e ko pd pmk st1
        ⟨[.bb, .savePos ok] ++ b.code ++ (if !env.ast then [.cap ok] else [.add r ok]) ++ [.be],
          b.st, false⟩
    | .ipush e r, ko, pd, pmk, st =>
      let ok := st.label
      let st1 := { st with label := st.label + 1 }
      match e with
      | .act c => ⟨[.bb] ++ (if env.ast then [.addHere r] else [.stmt c]) ++ [.be], st1, false⟩
      | _ =>
        let b := compile env e ko pd pmk st1
        ⟨[.bb, .savePos ok] ++ b.code ++ [.add r ok] ++ [.be], b.st, false⟩
    | .alt es, ko, pd, pmk, st =>
      let ok := st.label
      let st1 := { st with label := st.label + 1 }
      let b := compileAlt env es ok ko pd pmk st1
      ⟨[.bb, .save ok] ++ b.code ++ [.be] ++ env.lbl ok, b.st, env.used ok⟩
    | .ualt ks es, ko, _, _, st =>
      let ok := st.label
      let sw := st.sw
      let st1 : CSt := { label := st.label + 1, sw := st.sw + 1 }
      let b := compileCases env ks es sw 0 ko st1
      ⟨[.bb, .switchOn sw (ks.take (es.length - 1))] ++ b.code ++ [.send sw, .be] ++ env.lbl ok,
        b.st, env.used ok⟩
    | .seq es, ko, pd, pmk, st => compileSeq env es ko pd pmk st
    | .peekFor e, ko, _, _, st =>
      let ok := st.label
      let b := compile env e ko false false { st with label := st.label + 1 }
      ⟨[.bb, .save ok] ++ b.code ++ [.restore ok, .be], b.st, false⟩
    | .peekNot e, ko, _, _, st =>
      let ok := st.label
      let b := compile env e ok false false { st with label := st.label + 1 }
      ⟨[.bb, .save ok] ++ b.code ++ [.goto ko] ++ env.lbl ok ++ [.restore ok, .be], b.st, false⟩
    | .query e, _, pd, pmk, st =>
      let qko := st.label
      let qok := st.label + 1
      let b := compile env e qko pd pmk { st with label := st.label + 2 }
      ⟨[.bb, .save qko] ++ b.code ++ [.goto qok] ++ env.lbl qko ++ [.restore qko, .be] ++ env.lbl qok,
        b.st, env.used qok⟩
    | .star e, _, _, _, st =>
      let again := st.label
      let out := st.label + 1
      let b := compile env e out false false { st with label := st.label + 2 }
      ⟨env.lbl again ++ [.bb, .save out] ++ b.code ++ [.goto again] ++ env.lbl out ++ [.restore out, .be],
        b.st, false⟩
    | .plus e, ko, _, _, st =>
      let again := st.label
      let out := st.label + 1
      let a := compile env e ko false false { st with label := st.label + 2 }
      let b := compile env e out false false a.st
      ⟨a.code ++ env.lbl again ++ [.bb, .save out] ++ b.code ++ [.goto again] ++ env.lbl out ++
          [.restore out, .be], b.st, false⟩
  /-- The elements of a `TypeSequence`: only the first inherits `pd`/`pmk`. -/
  def compileSeq (env : CEnv) : List Expr → (ko : Nat) → (pd pmk : Bool) → CSt → COut
    | [], _, _, _, st => ⟨[], st, false⟩
    | [e], ko, pd, pmk, st => compile env e ko pd pmk st
    | e :: es, ko, pd, pmk, st =>
      let a := compile env e ko pd pmk st
      let b := compileSeq env es ko false false a.st
      ⟨a.code ++ b.code, b.st, b.labelLast⟩
  /-- The alternatives of a `TypeAlternate` after `printSave(ok)`: all but the last jump to `ok`
      on success and fall to their own failure label, the last one fails to `ko`. -/
  def compileAlt (env : CEnv) : List Expr → (ok ko : Nat) → (pd pmk : Bool) → CSt → COut
    | [], _, _, _, _, st => ⟨[], st, false⟩
    | [e], _, ko, pd, pmk, st => compile env e ko pd pmk st
    | e :: es, ok, ko, pd, pmk, st =>
      let next := st.label
      let a := compile env e next pd pmk { st with label := st.label + 1 }
      let b := compileAlt env es ok ko false false a.st
      ⟨a.code ++ [.goto ok] ++ env.lbl next ++ [.restore ok] ++ b.code, b.st, b.labelLast⟩
  /-- The cases of a `TypeUnorderedAlternate`; the last element is the `default:` body. -/
  def compileCases (env : CEnv) : List KeySet → List Expr → (sw i : Nat) → (done : Nat) → CSt → COut
    | _, [], _, _, _, st => ⟨[], st, false⟩
    | _, [e], sw, i, done, st =>
      let b := compile env e done false false st
      ⟨[.slabel sw i] ++ b.code ++ (if b.labelLast then [.brk sw] else []) ++ [.sjmp sw], b.st, false⟩
    | ks, e :: es, sw, i, done, st =>
      let keys := ks.headD []
      let b := compile env e done true (decide (keys.card > 1)) st
      let r := compileCases env ks.tail es sw (i + 1) done b.st
      ⟨[.slabel sw i] ++ b.code ++ (if b.labelLast then [.brk sw] else []) ++ [.sjmp sw] ++ r.code,
        r.st, false⟩
end

/-! ### `-inline` as a source transformation -/

/-- Replace every reference to a rule that has exactly one reference by `inl n body`
    (`t.inline && t.rulesCount[name] == 1` in the `TypeName` case of `compile`). -/
def expandInline (G : Grammar) (cnt : String → Nat) : Nat → Expr → Expr
  | 0, e => e
  | f + 1, e =>
    match e with
    | .name n =>
      if cnt n == 1 then
        match G.body n with
        | some b => .inl n (expandInline G cnt f b)
        | none => .name n
      else .name n
    | .seq es => .seq (es.map (expandInline G cnt f))
    | .alt es => .alt (es.map (expandInline G cnt f))
    | .ualt ks es => .ualt ks (es.map (expandInline G cnt f))
    | .peekFor e => .peekFor (expandInline G cnt f e)
    | .peekNot e => .peekNot (expandInline G cnt f e)
    | .query e => .query (expandInline G cnt f e)
    | .star e => .star (expandInline G cnt f e)
    | .plus e => .plus (expandInline G cnt f e)
    | .push e r => .push (expandInline G cnt f e) r
    | .ipush e r => .ipush (expandInline G cnt f e) r
    | e => e

/-! ### The per-rule loops -/

structure Opts where
  inline : Bool := false
  switch : Bool := false
  ast : Bool := true
deriving Repr, Inhabited, DecidableEq

/-- Targets of the jumps a piece of code contains (`printJump` sets `labels[n]`). -/
def Instr.target? : Instr → Option Nat
  | .ifNeChr _ l | .ifNotRng _ _ l | .ifNotDot l | .ifNotStr _ l | .ifNotPred _ l
  | .callIf _ l | .goto l => some l
  | _ => none

def jumps (c : Code) : List Nat := c.filterMap Instr.target?

/-- What the emission loop does with one `TypeRule`. -/
inductive Slot where
  | undefinedNil      -- body is TypeNil: stub for an undefined name, or PegText (no label consumed)
  | unusedNil         -- not reached from the first rule (label consumed)
  | inlinedNil        -- inlined everywhere (label consumed)
  | func              -- a function is emitted
deriving Repr, DecidableEq, Inhabited

def slotOf (o : Opts) (cnt : String → Nat) (r : Rule) (ko : Nat) : Slot :=
  match r.body with
  | .nil => .undefinedNil
  | _ =>
    if cnt r.name == 0 then .unusedNil
    else if o.inline && cnt r.name == 1 && ko != 0 then .inlinedNil
    else .func

/-- The body of one emitted rule function (1298-1319). -/
def ruleFunc (env : CEnv) (r : Rule) (body : Expr) (ko : Nat) (st : CSt) : Code × CSt :=
  let b := compile env body ko false false st
  let c : Code :=
    (if env.ast then [.memoCheck r.id] else []) ++
    (if env.ast || env.used ko then [.save ko] else []) ++
    b.code ++
    (if env.ast then [.memoSave r.id ko true] else []) ++
    [.retT] ++
    (if env.used ko then
      [.label ko] ++ (if env.ast then [.memoSave r.id ko false] else []) ++ [.restore ko, .retF]
     else [])
  (c, b.st)

/-- One pass over all rules. -/
def compileRules (o : Opts) (env : CEnv) (cnt : String → Nat) (bodyOf : Rule → Expr) :
    List Rule → CSt → Program
  | [], _ => []
  | r :: rs, st =>
    match slotOf o cnt r st.label with
    | .undefinedNil => ⟨r.name, none⟩ :: compileRules o env cnt bodyOf rs st
    | .unusedNil | .inlinedNil =>
      ⟨r.name, none⟩ :: compileRules o env cnt bodyOf rs { st with label := st.label + 1 }
    | .func =>
      let (c, st') := ruleFunc env r (bodyOf r) st.label { st with label := st.label + 1 }
      ⟨r.name, some c⟩ :: compileRules o env cnt bodyOf rs st'

def Program.jumps (P : Program) : List Nat :=
  P.foldl (fun acc r => match r.code with | some c => acc ++ PegVerif.jumps c | none => acc) []

/-- Dry pass then real pass.  `G` is the grammar after `link` (and after the `-switch` rewrite). -/
def compileAll (o : Opts) (G : Grammar) : Program :=
  let cnt := rulesCount G
  let always := alwaysSucceeds G
  let bodyOf : Rule → Expr :=
    fun r => if o.inline then expandInline G cnt G.fuel r.body else r.body
  let dryEnv : CEnv := { ast := o.ast, dry := true, used := fun _ => false, always := always }
  let dry := compileRules o dryEnv cnt bodyOf G.rules ⟨0, 0⟩
  let dj := dry.jumps
  let env : CEnv := { ast := o.ast, dry := false, used := fun n => dj.contains n, always := always }
  compileRules o env cnt bodyOf G.rules ⟨0, 0⟩

end PegVerif
