import PegVerif.Model.Link
import PegVerif.Model.Analysis
/-
  Model of the grammar diagnostics of `(*Tree).Compile` (`tree/peg.go`) and their specification
  (property C15).

  ## Part 1 — the code
  * `checkRec`   = `checkRecursion` (485-524), one `match` arm per `case` of the Go `switch`.
      - `ruleReached[id]` (set on entry of a `TypeRule`, cleared on exit) is the list `m` of the rules
        on the current path; it is passed *down* only, which is the same as set/clear around the call.
        The Go code indexes by rule id, the model by rule name: ids and names are in bijection as long
        as no two `TypeRule` nodes share a name (first pass rejects duplicates; `link` can only
        create a clash when a user rule or reference is literally called `Action<N>`).
      - the returned Bool is the Go result ("consumes"), the list the rules passed to `t.warn`, in
        order, with repetitions.
      - `TypeName` → `t.Rules[name]` → `TypeRule` case are fused (after `link` every name resolves).
      - recursion is structural on a fuel argument; `Grammar.diagFuel` is enough (proved:
        `Proofs/DiagLemmas.lean`, every theorem that needs it carries the budget invariant).
  * `countRec`   = `countRules` (459-483): depth-first marking from the first rule, `ruleReached` is
      never cleared.  The key set of `t.rulesCount` is the set of marked rules (the counter is
      incremented at the same place where the mark is tested), so only the marks are modelled.
  * `grammarDiags` = the calls of `t.warn` in `Compile`, in order: the `checkRecursion` closure
      (every `TypeRule` of the tree in order, appended rules included), then the emission loop at the
      end (`used but not defined` for a rule whose body is `TypeNil` if `t.referenced` has its name
      — `link` records there the name of every `TypeName` node, so the only rule with a `TypeNil`
      body that is skipped is the `PegText` of a grammar that captures and never refers to it —,
      `defined but not used` for any other rule without `rulesCount` entry).
      The two `wg.Go` closures share no data (`countRules` writes `t.rulesCount`, `checkRecursion`
      writes `t.werr`), so their interleaving is irrelevant.
  * `diagnostics` = first pass (duplicate → error, nothing else happens) + the above on the linked
      grammar + `if t.Strict && t.werr != nil { err = t.werr }`.

  ## Part 2 — the specification (independent of the code's traversal order and fuel)
  `Mentions`, `Refers`, `Reachable`, `UndefinedIn`, `MustConsume`, `SynConsume`, `FirstRefP`,
  `LStep`, `LeftRec`, `LeftRecW`.

  `LeftRec G r` := `r` is on a cycle of `LStep G` ("the body of `a` has a reference to `b` at a
  position that can be entered where `a` is entered"), where a sequence is cut after its first
  element that MUST consume.  "Must consume" is syntactic and conservative w.r.t. PEG semantics:
    * sound     : `MustConsume G e` ⇒ every successful match of `e` consumes ≥ 1 symbol (characters,
                  `.`, ranges consume; the rest is structural), so no real left recursion is hidden
                  behind a cut;
    * incomplete: `!'a' 'a' R`, `&{false} R`, `(!.)' R`, `('a' / !'a') R` … are treated as "may go
                  on without consuming" although they cannot (or the prefix always consumes), so a
                  reported rule need not loop on any input: the diagnostic says "possible".
    * a predicate `&{…}`, a state change `!{…}` and an action never consume; an undefined name (a
                  `nil` stub) never consumes.
  Semantically a left-recursive rule `r` makes every parse that enters `r` at some position
  re-enter `r` at the same position along SOME evaluation path; whether that path is taken depends
  on the input.
-/
namespace PegVerif

/-! ## Part 1: the code -/

/-- `TypeSequence`: `slices.ContainsFunc(elements, checkRecursion)` — stops at the first element
    that consumes. -/
def seqRun (g : Expr → Bool × List String) : List Expr → Bool × List String
  | [] => (false, [])
  | e :: es =>
    let r := g e
    if r.1 then (true, r.2)
    else
      let r' := seqRun g es
      (r'.1, r.2 ++ r'.2)

/-- `TypeAlternate`: every alternative is visited; consumes iff all do. -/
def altRun (g : Expr → Bool × List String) : List Expr → Bool × List String
  | [] => (true, [])
  | e :: es =>
    let r := g e
    let r' := altRun g es
    (r.1 && r'.1, r.2 ++ r'.2)

/-- `checkRecursion(n, ruleReached)`; `m` = names of the rules whose `ruleReached` flag is set. -/
def checkRec (G : Grammar) : Nat → List String → Expr → Bool × List String
  | 0, _, _ => (false, [])
  | f + 1, m, e =>
    match e with
    | .name n =>          -- TypeName: checkRecursion(t.Rules[name]); then case TypeRule
      match G.find n with
      | none => (false, [])       -- cannot happen after `link` (Go would dereference nil)
      | some r =>
        if m.contains n then (false, [n])      -- t.warn(...); return false
        else checkRec G f (n :: m) r.body     -- set flag, recurse into Front(), clear flag
    | .inl n _ =>         -- a TypeName node (only exists under -inline, after this analysis)
      match G.find n with
      | none => (false, [])
      | some r =>
        if m.contains n then (false, [n])
        else checkRec G f (n :: m) r.body
    | .alt es => altRun (checkRec G f m) es
    | .seq es => seqRun (checkRec G f m) es
    | .peekFor e => (false, (checkRec G f m e).2)
    | .peekNot e => (false, (checkRec G f m e).2)
    | .query e => (false, (checkRec G f m e).2)
    | .star e => (false, (checkRec G f m e).2)
    | .plus e => checkRec G f m e
    | .push e _ => checkRec G f m e
    | .ipush e _ => checkRec G f m e
    | .chr _ => (true, [])             -- len(n.String()) > 0: a TypeCharacter holds exactly one rune
    | .str s => (!s.isEmpty, [])       -- len(n.String()) > 0
    | .dot => (true, [])
    | .rng _ _ => (true, [])
    -- TypeUnorderedAlternate, TypePredicate, TypeStateChange, TypeAction, TypeNil: `return false`
    | .ualt _ _ => (false, [])
    | .pred _ => (false, [])
    | .stmt _ => (false, [])
    | .act _ => (false, [])
    | .nil => (false, [])

/-- `countRules(n, ruleReached)`; `rs` = names of the rules whose flag is set (never cleared). -/
def countRec (G : Grammar) : Nat → Expr → List String → List String
  | 0, _, rs => rs
  | f + 1, e, rs =>
    match e with
    | .name n =>
      match G.find n with
      | none => rs
      | some r => if rs.contains n then rs else countRec G f r.body (n :: rs)
    | .inl n _ =>
      match G.find n with
      | none => rs
      | some r => if rs.contains n then rs else countRec G f r.body (n :: rs)
    | .seq es => es.foldl (fun acc x => countRec G f x acc) rs
    | .alt es => es.foldl (fun acc x => countRec G f x acc) rs
    | .ualt _ es => es.foldl (fun acc x => countRec G f x acc) rs
    | .peekFor e => countRec G f e rs
    | .peekNot e => countRec G f e rs
    | .query e => countRec G f e rs
    | .star e => countRec G f e rs
    | .plus e => countRec G f e rs
    | .push e _ => countRec G f e rs
    | .ipush e _ => countRec G f e rs
    | _ => rs

/-- Fuel still needed below a path/mark set `m`: every rule not in `m` can be entered once more. -/
def budget : List Rule → List String → Nat
  | [], _ => 0
  | r :: rs, m => (if m.contains r.name then 0 else r.body.depth + 1) + budget rs m

/-- Enough fuel for both analyses (nesting depth ≤ Σ over rules of (depth of body + 1)). -/
def Grammar.diagFuel (G : Grammar) : Nat := budget G.rules []

/-- Warnings of the `checkRecursion` closure: run from every rule of the tree, in order, with all
    flags clear. -/
def recWarningsOf (G : Grammar) (r : Rule) : List String :=
  (checkRec G G.diagFuel [r.name] r.body).2

def recWarnings (G : Grammar) : List String := G.rules.flatMap (recWarningsOf G)

/-- Rules marked by the `countRules` closure (= keys of `t.rulesCount`): run from the first rule. -/
def reachedNames (G : Grammar) : List String :=
  match G.rules with
  | [] => []
  | r :: _ => countRec G G.diagFuel r.body [r.name]

/-- One diagnostic (argument of `t.warn`). -/
inductive Diag where
  | leftRec (rule : String)
  | undefinedRule (rule : String)
  | unusedRule (rule : String)
deriving DecidableEq, Repr, Inhabited

/-- The text passed to `t.warn`. -/
def Diag.render : Diag → String
  | .leftRec n => "possible infinite left recursion in rule '" ++ n ++ "'"
  | .undefinedRule n => "rule '" ++ n ++ "' used but not defined"
  | .unusedRule n => "rule '" ++ n ++ "' defined but not used"

/-- Emission loop, one `TypeRule` element; `referenced` = keys of `t.referenced`. -/
def emitDiag (referenced reached : List String) (r : Rule) : Option Diag :=
  match r.body with
  | .nil => if referenced.contains r.name then some (.undefinedRule r.name) else none
  | _ => if reached.contains r.name then none else some (.unusedRule r.name)

/-- All calls of `t.warn` for a linked grammar, in order; `referenced` = keys of `t.referenced`. -/
def grammarDiags (G : Grammar) (referenced : List String) : List Diag :=
  (recWarnings G).map .leftRec ++ G.rules.filterMap (emitDiag referenced (reachedNames G))

structure DiagResult where
  dupError : Option String      -- error returned by the first pass; nothing else happens then
  diags : List Diag             -- the `t.warn` calls in order
  strictFails : Bool            -- Compile returns a non-nil error when `t.Strict`
deriving Repr, Inhabited

/-- What `Compile` reports for the rules the front end built. -/
def diagnostics (rules : List Rule) : DiagResult :=
  let L := linkGrammar rules
  match L.dup with
  | some n => { dupError := some ("rule '" ++ n ++ "' defined more than once"), diags := [], strictFails := true }
  | none =>
    let ds := grammarDiags L.G L.referenced
    { dupError := none, diags := ds, strictFails := !ds.isEmpty }

/-- The warning lines (without the `warning: ` prefix `t.warn` adds), in order. -/
def DiagResult.warnings (d : DiagResult) : List String := d.diags.map Diag.render

/-- `t.werr.Error()`: what is printed on stderr (not strict) or returned (strict). -/
def DiagResult.werr (d : DiagResult) : String :=
  "\n".intercalate (d.warnings.map (fun w => "warning: " ++ w))

/-- The error `Compile` returns because of diagnostics (`none`: generation goes on). -/
def DiagResult.error (d : DiagResult) (strict : Bool) : Option String :=
  match d.dupError with
  | some e => some e
  | none => if strict && !d.diags.isEmpty then some d.werr else none

/-! ## Part 2: the specification -/

section Closure
variable {α : Type}
/-- reflexive-transitive closure -/
inductive Star (R : α → α → Prop) : α → α → Prop where
  | refl (a : α) : Star R a a
  | step {a b c : α} : R a b → Star R b c → Star R a c
/-- transitive closure -/
inductive Plus (R : α → α → Prop) : α → α → Prop where
  | single {a b : α} : R a b → Plus R a b
  | step {a b c : α} : R a b → Plus R b c → Plus R a c
end Closure

/-- "the expression mentions rule `n`" (anywhere: under any operator, at any position). -/
inductive Mentions : Expr → String → Prop where
  | name (n : String) : Mentions (.name n) n
  | inl (n : String) (b : Expr) : Mentions (.inl n b) n
  | seq {es : List Expr} {e : Expr} {n : String} : e ∈ es → Mentions e n → Mentions (.seq es) n
  | alt {es : List Expr} {e : Expr} {n : String} : e ∈ es → Mentions e n → Mentions (.alt es) n
  | ualt {ks : List KeySet} {es : List Expr} {e : Expr} {n : String} :
      e ∈ es → Mentions e n → Mentions (.ualt ks es) n
  | peekFor {e : Expr} {n : String} : Mentions e n → Mentions (.peekFor e) n
  | peekNot {e : Expr} {n : String} : Mentions e n → Mentions (.peekNot e) n
  | query {e : Expr} {n : String} : Mentions e n → Mentions (.query e) n
  | star {e : Expr} {n : String} : Mentions e n → Mentions (.star e) n
  | plus {e : Expr} {n : String} : Mentions e n → Mentions (.plus e) n
  | push {e : Expr} {r n : String} : Mentions e n → Mentions (.push e r) n
  | ipush {e : Expr} {r n : String} : Mentions e n → Mentions (.ipush e r) n

/-- rule `a` is defined and its body mentions `b`. -/
def Refers (G : Grammar) (a b : String) : Prop := ∃ r, G.find a = some r ∧ Mentions r.body b

/-- `r` is reachable from `first` (reflexive-transitive closure of "body mentions"). -/
def Reachable (G : Grammar) (first r : String) : Prop := Star (Refers G) first r

/-- `n` is referenced by some rule of the (front-end) grammar and no rule is called `n`. -/
def UndefinedIn (rules : List Rule) (n : String) : Prop :=
  (∃ r ∈ rules, Mentions r.body n) ∧ ∀ r ∈ rules, r.name ≠ n

/-- **must consume** — the code's notion, as a least fixed point (no traversal, no cycle cut):
    an expression that, whenever it succeeds, has consumed at least one symbol *for syntactic
    reasons*.  A character, `.`, a range, a non-empty string; a sequence if some element does; a
    choice if every alternative does; a reference if the body of its rule does; `e+`, `<e>` and the
    rule wrapper if `e` does.  Never: `e?`, `e*`, `&e`, `!e`, predicates, actions, the empty
    expression, an undefined name, a `-switch` node.
    (Least fixed point = the cycle cut: a derivation of minimal height never needs a rule to
    justify itself.) -/
inductive MustConsume (G : Grammar) : Expr → Prop where
  | dot : MustConsume G .dot
  | chr (c : Sym) : MustConsume G (.chr c)
  | rng (lo hi : Sym) : MustConsume G (.rng lo hi)
  | str {s : List Sym} : s ≠ [] → MustConsume G (.str s)
  | seq {es : List Expr} {e : Expr} : e ∈ es → MustConsume G e → MustConsume G (.seq es)
  | alt {es : List Expr} : (∀ e, e ∈ es → MustConsume G e) → MustConsume G (.alt es)
  | name {n : String} {r : Rule} : G.find n = some r → MustConsume G r.body → MustConsume G (.name n)
  | inl {n : String} {b : Expr} {r : Rule} : G.find n = some r → MustConsume G r.body → MustConsume G (.inl n b)
  | plus {e : Expr} : MustConsume G e → MustConsume G (.plus e)
  | push {e : Expr} {r : String} : MustConsume G e → MustConsume G (.push e r)
  | ipush {e : Expr} {r : String} : MustConsume G e → MustConsume G (.ipush e r)

/-- must consume for reasons visible without following any reference (a reference never counts). -/
inductive SynConsume : Expr → Prop where
  | dot : SynConsume .dot
  | chr (c : Sym) : SynConsume (.chr c)
  | rng (lo hi : Sym) : SynConsume (.rng lo hi)
  | str {s : List Sym} : s ≠ [] → SynConsume (.str s)
  | seq {es : List Expr} {e : Expr} : e ∈ es → SynConsume e → SynConsume (.seq es)
  | alt {es : List Expr} : (∀ e, e ∈ es → SynConsume e) → SynConsume (.alt es)
  | plus {e : Expr} : SynConsume e → SynConsume (.plus e)
  | push {e : Expr} {r : String} : SynConsume e → SynConsume (.push e r)
  | ipush {e : Expr} {r : String} : SynConsume e → SynConsume (.ipush e r)

/-- `FirstRefP C e n`: the reference `n` occurs in `e` at a place that can be entered at the
    position where `e` is entered, `C` being the notion of "must consume" that ends a sequence:
    the reference itself; anything inside `&e !e e? e* e+ <e>`; every alternative of a choice; the
    elements of a sequence up to and including the first one that must consume. -/
inductive FirstRefP (C : Expr → Prop) : Expr → String → Prop where
  | name (n : String) : FirstRefP C (.name n) n
  | inl (n : String) (b : Expr) : FirstRefP C (.inl n b) n
  | seq {pre post : List Expr} {e : Expr} {n : String} :
      (∀ p, p ∈ pre → ¬ C p) → FirstRefP C e n → FirstRefP C (.seq (pre ++ e :: post)) n
  | alt {es : List Expr} {e : Expr} {n : String} : e ∈ es → FirstRefP C e n → FirstRefP C (.alt es) n
  | peekFor {e : Expr} {n : String} : FirstRefP C e n → FirstRefP C (.peekFor e) n
  | peekNot {e : Expr} {n : String} : FirstRefP C e n → FirstRefP C (.peekNot e) n
  | query {e : Expr} {n : String} : FirstRefP C e n → FirstRefP C (.query e) n
  | star {e : Expr} {n : String} : FirstRefP C e n → FirstRefP C (.star e) n
  | plus {e : Expr} {n : String} : FirstRefP C e n → FirstRefP C (.plus e) n
  | push {e : Expr} {r n : String} : FirstRefP C e n → FirstRefP C (.push e r) n
  | ipush {e : Expr} {r n : String} : FirstRefP C e n → FirstRefP C (.ipush e r) n

/-- `firstRefs` of the property text. -/
abbrev FirstRef (G : Grammar) : Expr → String → Prop := FirstRefP (MustConsume G)
/-- the coarser variant: only syntactically consuming elements end a sequence. -/
abbrev FirstRefW : Expr → String → Prop := FirstRefP SynConsume

/-- rule `a` can call rule `b` without having consumed input. -/
def LStep (G : Grammar) (a b : String) : Prop := ∃ r, G.find a = some r ∧ FirstRef G r.body b
def LStepW (G : Grammar) (a b : String) : Prop := ∃ r, G.find a = some r ∧ FirstRefW r.body b

/-- **left recursion**: `r` can re-enter itself without having consumed input. -/
def LeftRec (G : Grammar) (r : String) : Prop := Plus (LStep G) r r
/-- upper bound: the same with the coarser `FirstRefW`. -/
def LeftRecW (G : Grammar) (r : String) : Prop := Plus (LStepW G) r r

/-! ## Side conditions used by the theorems (all decidable or per-name) -/

/-- no two `TypeRule` nodes share a name (so every rule is the one `t.Rules` maps its name to, and
    rule ids and rule names are in bijection).  For a linked grammar this holds whenever the first
    pass found no duplicate and no user rule / reference is literally called `Action<k>`. -/
def Grammar.Uniq (G : Grammar) : Prop := (G.rules.map (·.name)).Nodup

instance (G : Grammar) : Decidable G.Uniq := by unfold Grammar.Uniq; infer_instance

/-- names `link` gives to the rules it creates for actions -/
def isAct (n : String) : Prop := ∃ k : Nat, n = s!"Action{k}"

mutual
  /-- the expression has no `inl` node (those exist only after the `-inline` expansion, which
      runs after `link`; the front end never builds one) -/
  def noInlE : Expr → Bool
    | .inl _ _ => false
    | .push e _ => noInlE e
    | .ipush e _ => noInlE e
    | .seq es => noInlL es
    | .alt es => noInlL es
    | .ualt _ es => noInlL es
    | .peekFor e => noInlE e
    | .peekNot e => noInlE e
    | .query e => noInlE e
    | .star e => noInlE e
    | .plus e => noInlE e
    | _ => true
  def noInlL : List Expr → Bool
    | [] => true
    | e :: es => noInlE e && noInlL es
end

/-- the rules as the front end builds them -/
def FrontRules (rules : List Rule) : Prop := ∀ r, r ∈ rules → noInlE r.body = true

end PegVerif
