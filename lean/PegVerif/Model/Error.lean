/-
  Error reporting of the generated parsers: a statement-by-statement transcription of
  `translatePositions` and `(*parseError[U]).Error()` of `/repo/tree/peg.go.tmpl`
  (as of commit 88ac174, i.e. with both translatePositions fixes), plus the independent
  specification `lineCol`.

  Core Lean only.  Everything that makes the Go code panic (index out of range, slice bounds
  out of range) is an explicit `none`.

  Go code transcribed (line numbers of tree/peg.go.tmpl):

  176 func translatePositions(buffer []rune, positions []int) textPositionMap {
  177   length := len(positions)
  178   translations := make(textPositionMap, length)
  179   posIdx := 0
  180   line := 1
  181   symbol := 0
  183   slices.Sort(positions)
  185   for i, c := range buffer {
  186     symbol++
  187     if i == positions[posIdx] {
  188       translations[positions[posIdx]] = textPosition{line, symbol}
  189       for posIdx++; posIdx < length; posIdx++ {
  190         if i != positions[posIdx] {
  191           break
  192         }
  193       }
  194     }
  195     if posIdx >= length {
  196       break
  197     }
  198     if c == '\n' {
  199       line, symbol = line+1, 0
  200     }
  201   }
  203   return translations
  204 }

  Modelling choices (all deliberate, none of them a simplification of control flow):
  * `int` offsets are `Nat` (the runtime only ever passes `int(t.begin)`, `int(t.end)` with
    unsigned `t.begin/t.end`; negative offsets are outside the model and outside the generator).
  * `textPositionMap` (a Go map) is an association list; `m[k] = v` conses `(k, v)` in front,
    `m[k]` is `lookupD m k`, which returns the first binding and the Go zero value
    `textPosition{0, 0}` for a missing key.
  * `slices.Sort` is `List.mergeSort (· ≤ ·)` (any correct sort gives the same list of `Nat`s).
  * `buffer[b:e]` panics in the model iff `b > e ∨ e > len(buffer)`.  (Go checks `e` against
    `cap(buffer)`; `len ≤ cap`, so whenever the model does not panic neither does Go.  The
    generator never produces `len < e ≤ cap`.)
-/
import PegVerif.Model.Basic

namespace PegVerif

/-- `'\n'`. -/
def NL : Sym := 10

/-- `textPositionMap` as an association list (newest binding first). -/
abbrev PosMap := List (Nat × (Nat × Nat))

/-- Go map read `m[k]` with the zero value `textPosition{0,0}` for a missing key. -/
def lookupD : PosMap → Nat → Nat × Nat
  | [], _ => (0, 0)
  | (k', v) :: rest, k => if k' = k then v else lookupD rest k

/-- Go map write `m[k] = v`. -/
def PosMap.set (m : PosMap) (k : Nat) (v : Nat × Nat) : PosMap := (k, v) :: m

/-- Lines 189–193 *after* the init statement `posIdx++`:
    `for ; posIdx < length; posIdx++ { if i != positions[posIdx] { break } }`.
    Returns the final `posIdx`; `none` = index out of range. -/
def skipDups (positions : List Nat) (length i : Nat) (posIdx : Nat) : Option Nat :=
  if posIdx < length then
    match positions[posIdx]? with
    | none => none                                   -- positions[posIdx] panics
    | some p =>
      if i != p then some posIdx                     -- break
      else skipDups positions length i (posIdx + 1)  -- post statement posIdx++
  else some posIdx
termination_by length - posIdx

/-- Lines 185–201: `for i, c := range buffer { … }` on the remaining part of the buffer.
    State: `i`, `posIdx`, `line`, `symbol`, `translations`. -/
def tpLoop (positions : List Nat) (length : Nat) :
    List Sym → Nat → Nat → Nat → Nat → PosMap → Option PosMap
  | [], _, _, _, _, translations => some translations          -- range exhausted
  | c :: rest, i, posIdx, line, symbol, translations =>
    let symbol := symbol + 1                                   -- 186
    match positions[posIdx]? with                              -- 187 positions[posIdx]
    | none => none                                             --     index out of range
    | some p =>
      let afterIf : Option (Nat × PosMap) :=
        if i == p then                                         -- 187
          let translations := translations.set p (line, symbol) -- 188
          match skipDups positions length i (posIdx + 1) with  -- 189–193
          | none => none
          | some posIdx => some (posIdx, translations)
        else some (posIdx, translations)
      match afterIf with
      | none => none
      | some (posIdx, translations) =>
        if posIdx ≥ length then some translations              -- 195–197 break
        else if c == NL then                                   -- 198
          tpLoop positions length rest (i + 1) posIdx (line + 1) 0 translations  -- 199
        else
          tpLoop positions length rest (i + 1) posIdx line symbol translations

/-- `translatePositions(buffer, positions)`; `none` = panic. -/
def translatePositions (buffer : List Sym) (positions : List Nat) : Option PosMap :=
  let length := positions.length                                -- 177
  let translations : PosMap := []                               -- 178
  let posIdx := 0                                               -- 179
  let line := 1                                                 -- 180
  let symbol := 0                                               -- 181
  let positions := positions.mergeSort (fun a b => decide (a ≤ b))  -- 183
  tpLoop positions length buffer 0 posIdx line symbol translations  -- 185–203

/-- Go slice expression `s[b:e]`; `none` = "slice bounds out of range". -/
def goSlice (s : List Sym) (b e : Nat) : Option (List Sym) :=
  if b ≤ e ∧ e ≤ s.length then some ((s.take e).drop b) else none

/-- The two format strings of `Error()` applied to their six `%v` arguments. -/
def errFormat (pretty : Bool) (rule : String) (l1 c1 l2 c2 : Nat) (quoted : String) : String :=
  if pretty then
    "parse error near \x1B[34m" ++ rule ++ "\x1B[m (line " ++ toString l1 ++ " symbol " ++ toString c1 ++
      " - line " ++ toString l2 ++ " symbol " ++ toString c2 ++ "):\n" ++ quoted ++ "\n"
  else
    "parse error near " ++ rule ++ " (line " ++ toString l1 ++ " symbol " ++ toString c1 ++
      " - line " ++ toString l2 ++ " symbol " ++ toString c2 ++ "):\n" ++ quoted ++ "\n"

/-
  211 func (e *parseError[U]) Error() string {
  212   tokenSlice, err := []token[U]{e.maxToken}, "\n"
  213   positions, p := make([]int, 2*len(tokenSlice)), 0
  214   for _, t := range tokenSlice {
  215     positions[p], p = int(t.begin), p+1
  216     positions[p], p = int(t.end), p+1
  217   }
  218   translations := translatePositions(e.p.buffer, positions)
  219   format := "parse error near %v (line %v symbol %v - line %v symbol %v):\n%v\n"
  220   if e.p.Pretty {
  221     format = "parse error near \x1B[34m%v\x1B[m (line %v symbol %v - line %v symbol %v):\n%v\n"
  222   }
  223   for _, t := range tokenSlice {
  224     begin, end := int(t.begin), int(t.end)
  225     err += fmt.Sprintf(format,
  226       rul3s[t.pegRule],
  227       translations[begin].line, translations[begin].symbol,
  228       translations[end].line, translations[end].symbol,
  229       strconv.Quote(string(e.p.buffer[begin:end])))
  230   }
  232   return err
  233 }
-/
/-- `Error()` for the single token `{ruleName, b, e}`; `quote` is
    `fun s => strconv.Quote(string(s))`.  `none` = panic. -/
def errorString (ruleName : String) (buffer : List Sym) (b e : Nat) (pretty : Bool)
    (quote : List Sym → String) : Option String :=
  let err := "\n"                                               -- 212
  let positions := [b, e]                                       -- 213–217
  match translatePositions buffer positions with                -- 218
  | none => none
  | some translations =>
    let tb := lookupD translations b                            -- 227
    let te := lookupD translations e                            -- 228
    match goSlice buffer b e with                               -- 229 buffer[begin:end]
    | none => none
    | some sl =>
      some (err ++ errFormat pretty ruleName tb.1 tb.2 te.1 te.2 (quote sl))  -- 225, 232

/-! ### Specification (independent of the loop) -/

/-- Number of runes after the last `'\n'` of `pre` (all of `pre` if it has none). -/
def colAfterLastNL (pre : List Sym) : Nat :=
  (pre.reverse.takeWhile (fun c => c != NL)).length

/-- 1-based line and column of the character at offset `off` of `buffer`:
    line = 1 + number of `'\n'` strictly before `off`;
    column = 1 + number of runes after the last such `'\n'` and before `off`. -/
def lineCol (buffer : List Sym) (off : Nat) : Nat × Nat :=
  let pre := buffer.take off
  (1 + pre.count NL, 1 + colAfterLastNL pre)

end PegVerif
