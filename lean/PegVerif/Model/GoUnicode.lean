import PegVerif.Model.Basic
import PegVerif.Generated.CaseRanges
/-
  Go library: `unicode.ToLower` / `unicode.ToUpper` (unicode/letter.go) and, through them,
  `strings.ToLower` / `strings.ToUpper` on the strings the tree builder holds (tree.AddCaseFold,
  AddDoubleCharacter, AddDoubleRange).

      func ToUpper(r rune) rune {
          if r <= MaxASCII { if 'a' <= r && r <= 'z' { r -= 'a' - 'A' }; return r }
          return To(UpperCase, r)
      }
      func to(_case int, r rune, caseRange []CaseRange) (mappedRune rune, foundMapping bool) {
          if cr := lookupCaseRange(r, caseRange); cr != nil { return convertCase(_case, r, cr), true }
          return r, false
      }
      func convertCase(_case int, r rune, cr *CaseRange) rune {
          delta := cr.Delta[_case]
          if delta > MaxRune { return rune(cr.Lo) + ((r-rune(cr.Lo))&^1 | rune(_case&1)) }
          return r + delta
      }

  The table `unicode.CaseRanges` is `goCaseRanges` (Generated/CaseRanges.lean, REGENERATED from the
  library the front end is linked with, bin/gencasetable.py).  `lookupCaseRange` is a binary search
  for the range that holds `r`; the table is sorted and its ranges are disjoint
  (`goCaseRanges_sorted`, Proofs/FrontLemmas.lean, checked by the kernel against the regenerated
  table), so there is at most one such range and the model looks for it from the front.
  T-front compares `lowerSym` / `upperSym` with the real `strings.ToLower` / `strings.ToUpper` on
  EVERY code point (`pegx -casemap` vs `pegmodel casemap`).
-/
namespace PegVerif

def maxRune : Nat := 0x10FFFF
def maxASCII : Nat := 0x7F

/-- `unicode.UpperCase`, `LowerCase`, `TitleCase`: indices into `CaseRange.Delta`. -/
def upperCase : Nat := 0
def lowerCase : Nat := 1
def titleCase : Nat := 2

/-- `cr.Delta[_case]` -/
def CaseRange.delta (cr : CaseRange) (case : Nat) : Int :=
  match case with
  | 0 => cr.dUpper
  | 1 => cr.dLower
  | _ => cr.dTitle

def CaseRange.holds (cr : CaseRange) (r : Nat) : Bool := decide (cr.lo ≤ r) && decide (r ≤ cr.hi)

/-- `unicode.lookupCaseRange(r, caseRange)`: the range with `Lo <= r <= Hi`, if any. -/
def lookupCaseRange (r : Nat) (tbl : List CaseRange) : Option CaseRange :=
  tbl.find? (fun cr => cr.holds r)

/-- `unicode.convertCase(_case, r, cr)`.  For `x ≥ 0`, `x &^ 1 | b` with `b ∈ {0, 1}` is
    `x / 2 * 2 + b`; `r + delta` is never negative for a rune of the range (a negative sum would be
    clipped to 0 here; the exhaustive comparison of T-front would show it). -/
def convertCase (case : Nat) (r : Nat) (cr : CaseRange) : Nat :=
  let delta := cr.delta case
  if delta > (maxRune : Int) then cr.lo + ((r - cr.lo) / 2 * 2 + case % 2)
  else (Int.ofNat r + delta).toNat

/-- `unicode.To(_case, r)` for the three valid values of `_case`. -/
def unicodeTo (case : Nat) (r : Nat) : Nat :=
  match lookupCaseRange r goCaseRanges with
  | some cr => convertCase case r cr
  | none => r

/-- `unicode.ToUpper(r)` -/
def unicodeToUpper (r : Nat) : Nat :=
  if r ≤ maxASCII then (if 97 ≤ r ∧ r ≤ 122 then r - 32 else r) else unicodeTo upperCase r

/-- `unicode.ToLower(r)` -/
def unicodeToLower (r : Nat) : Nat :=
  if r ≤ maxASCII then (if 65 ≤ r ∧ r ≤ 90 then r + 32 else r) else unicodeTo lowerCase r

end PegVerif
