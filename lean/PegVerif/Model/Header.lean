import PegVerif.Model.Link
import PegVerif.Model.Analysis
import PegVerif.Model.Compile
/-
  Model of the data `Compile` hands to the header template (`tree/peg.go.tmpl`): the rule-constant
  type, the rule name table, the size of the `rules` array, the import list, and the `Has*` flags
  that decide which runtime helpers are emitted.
-/
namespace PegVerif

mutual
  /-- Does `link` meet a node satisfying `p` below this node?  (`link` does not descend into the
      bounds of a range.) -/
  def Expr.hasNode (p : Expr → Bool) : Expr → Bool
    | .seq es => p (.seq es) || hasNodeL p es
    | .alt es => p (.alt es) || hasNodeL p es
    | .ualt ks es => p (.ualt ks es) || hasNodeL p es
    | .peekFor e => p (.peekFor e) || e.hasNode p
    | .peekNot e => p (.peekNot e) || e.hasNode p
    | .query e => p (.query e) || e.hasNode p
    | .star e => p (.star e) || e.hasNode p
    | .plus e => p (.plus e) || e.hasNode p
    | .push e r => p (.push e r) || e.hasNode p
    | .ipush e r => p (.ipush e r) || e.hasNode p
    | .inl n e => p (.inl n e) || e.hasNode p
    | e => p e
  def hasNodeL (p : Expr → Bool) : List Expr → Bool
    | [] => false
    | e :: es => e.hasNode p || hasNodeL p es
end

structure HeaderModel where
  pegRuleType : String
  ruleNames : List String
  rulesLen : Nat
  imports : List String
  hasDot : Bool
  hasString : Bool
  hasActions : Bool
  hasPush : Bool
deriving Repr, Inhabited

/-- `t.Imports` after the first pass: an alias node (`=alias`) precedes its path and is merged
    as `path=alias`. -/
def mergeImports : List String → List String → List String
  | acc, [] => acc
  | acc, s :: rest =>
    match acc.getLast? with
    | some l => if l.startsWith "=" then mergeImports (acc.dropLast ++ [s ++ l]) rest
                else mergeImports (acc ++ [s]) rest
    | none => mergeImports (acc ++ [s]) rest

def formatImport (s : String) : String :=
  match s.splitOn "=" with
  | [path, alias] => alias ++ " \"" ++ path ++ "\""
  | _ => "\"" ++ s ++ "\""

def dedupSorted : List String → List String
  | [] => []
  | [a] => [a]
  | a :: b :: rest => if a == b then dedupSorted (b :: rest) else a :: dedupSorted (b :: rest)

def insertSorted (a : String) : List String → List String
  | [] => [a]
  | b :: rest => if a ≤ b then a :: b :: rest else b :: insertSorted a rest

def sortStrings (l : List String) : List String := l.foldr insertSorted []

/-- Header data for the front end's tree: `userImports` are the raw TypeImport strings,
    `nTop` = `t.Len()` before Compile, `rules` the front end's rules (their number is
    `t.RulesCount` before Compile), `G` the linked grammar (before the `-switch` rewrite). -/
def headerModel (o : Opts) (userImports : List String) (nTop : Nat) (nRules : Nat) (G : Grammar) :
    HeaderModel :=
  let runtime := (if o.ast then ["fmt", "io", "os", "bytes"] else ["fmt"]) ++ ["slices", "strconv"]
  let imports := dedupSorted (sortStrings (mergeImports [] (userImports ++ runtime)))
  let len := nTop + runtime.length + (G.rules.length - nRules)
  let ty := if len > 4294967295 then "uint64" else if len > 65535 then "uint32"
            else if len > 255 then "uint16" else "uint8"
  let reached := reachedRules G
  let has (p : Expr → Bool) : Bool :=
    reached.any (fun n => match G.body n with | some b => b.hasNode p | none => false)
  { pegRuleType := ty
    ruleNames := "Unknown" :: G.rules.map (·.name)
    rulesLen := nRules + 1 + (G.rules.length - nRules)
    imports := imports.map formatImport
    hasDot := has (fun e => match e with | .dot => true | _ => false)
    hasString := has (fun e => match e with | .str _ => true | _ => false)
    hasActions :=
      -- an action node was counted in the rule that contained it: after `link` it is a reference to
      -- the action rule, which is reached exactly when the containing rule is
      reached.any (fun n => match G.body n with
        | some (.ipush (.act _) _) => true
        | _ => false)
    hasPush := has (fun e => match e with | .push _ _ => true | _ => false) }

end PegVerif
