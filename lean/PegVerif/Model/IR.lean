import PegVerif.Model.Basic
/-
  The instruction set of emitted rule bodies: one constructor per statement shape that
  `compile` in `tree/peg.go` can print (986-1223, 1298-1319).  A rule body is a flat list of
  instructions; Go blocks are kept as no-op markers `bb`/`be` (they matter only for Go scoping,
  property C08), a `switch` is flattened with synthetic labels `(sw, i)`:

      switchOn sw keys ; slabel sw 0 ; body₀ ; sjmp sw ; … ; slabel sw n ; default ; sjmp sw ; send sw

  The textual form (`Instr.toLine`) is exactly what `harness/pegx/irx.go.txt` prints for the Go file
  written by the real generator; the T-emit tie is a line-by-line comparison of the two.
-/
namespace PegVerif

inductive Instr where
  | save (n : Nat)                       -- positionN, tokenIndexN := position, tokenIndex
  | savePos (n : Nat)                    -- positionN := position
  | restore (n : Nat)                    -- position, tokenIndex = positionN, tokenIndexN
  | inc                                  -- position++
  | ifNeChr (c : Sym) (l : Nat)          -- if buffer[position] != 'c' { goto l }
  | ifNotRng (lo hi : Sym) (l : Nat)     -- if c := buffer[position]; c < 'lo' || c > 'hi' { goto l }
  | ifNotDot (l : Nat)                   -- if !matchDot() { goto l }
  | ifNotStr (s : List Sym) (l : Nat)    -- if !matchString("s") { goto l }
  | ifNotPred (code : String) (l : Nat)  -- if !(code) { goto l }
  | stmt (code : String)                 -- user statement: `!{…}`, or an inlined action under -noast
  | callIf (r : String) (l : Nat)        -- if !_rules[ruleR]() { goto l }
  | call (r : String)                    -- _rules[ruleR]()
  | goto (l : Nat)
  | label (l : Nat)
  | bb | be
  | switchOn (sw : Nat) (keys : List (List (Nat × Nat)))
  | slabel (sw i : Nat)
  | sjmp (sw : Nat)                      -- end of a case body (implicit in Go)
  | brk (sw : Nat)                       -- explicit `break`
  | send (sw : Nat)
  | add (rule : String) (n : Nat)        -- add(ruleR, positionN)
  | addHere (rule : String)              -- add(ruleR, position)
  | cap (n : Nat)                        -- -noast: begin := positionN; end := position; text = string(buffer[begin:end])
  | memoCheck (id : Nat)
  | memoSave (id : Nat) (n : Nat) (b : Bool)
  | retT | retF
deriving DecidableEq, Repr, Inhabited

abbrev Code := List Instr

/-- One slot of the `_rules` array literal: `none` = `nil,`. -/
structure RuleCode where
  name : String
  code : Option Code
deriving Repr, Inhabited

abbrev Program := List RuleCode

def Program.find (P : Program) (n : String) : Option Code :=
  match P.find? (fun r => r.name == n) with
  | some r => r.code
  | none => none

/-! ### Canonical text (shared with `irx`) -/

def jsonEscape (s : String) : String :=
  s.foldl (fun acc c =>
    if c == '"' then acc ++ "\\\"" else
    if c == '\\' then acc ++ "\\\\" else
    if c == '\n' then acc ++ "\\n" else
    if c == '\r' then acc ++ "\\r" else
    if c == '\t' then acc ++ "\\t" else
    if c.toNat == 8 then acc ++ "\\b" else
    if c.toNat == 12 then acc ++ "\\f" else
    if c.toNat < 0x20 then
      let h := (Nat.toDigits 16 c.toNat)
      acc ++ "\\u" ++ String.mk (List.replicate (4 - h.length) '0' ++ h)
    else acc.push c) ""

def jstr (s : String) : String := "\"" ++ jsonEscape s ++ "\""

def symsText (s : List Sym) : String :=
  "[" ++ ",".intercalate (s.map toString) ++ "]"

/-- Merge overlapping / adjacent ranges of an ascending range list (canonical form of case keys). -/
def mergeRanges : List (Nat × Nat) → List (Nat × Nat)
  | [] => []
  | r :: rs =>
    match mergeRanges rs with
    | [] => [r]
    | q :: qs => if q.1 ≤ r.2 + 1 then (r.1, max r.2 q.2) :: qs else r :: q :: qs

def rangesText (ks : List (Nat × Nat)) : String :=
  "[" ++ ",".intercalate ((mergeRanges ks).map (fun r => s!"{r.1}-{r.2}")) ++ "]"

def Instr.toLine : Instr → String
  | .save n => s!"save {n}"
  | .savePos n => s!"savePos {n}"
  | .restore n => s!"restore {n}"
  | .inc => "inc"
  | .ifNeChr c l => s!"ifNeChr {c} {l}"
  | .ifNotRng lo hi l => s!"ifNotRng {lo} {hi} {l}"
  | .ifNotDot l => s!"ifNotDot {l}"
  | .ifNotStr s l => s!"ifNotStr {symsText s} {l}"
  | .ifNotPred c l => s!"ifNotPred {jstr c} {l}"
  | .stmt c => s!"stmt {jstr c}"
  | .callIf r l => s!"callIf {r} {l}"
  | .call r => s!"call {r}"
  | .goto l => s!"goto {l}"
  | .label l => s!"label {l}"
  | .bb => "bb"
  | .be => "be"
  | .switchOn sw keys => s!"switchOn {sw} [{",".intercalate (keys.map rangesText)}]"
  | .slabel sw i => s!"slabel {sw} {i}"
  | .sjmp sw => s!"sjmp {sw}"
  | .brk sw => s!"brk {sw}"
  | .send sw => s!"send {sw}"
  | .add r n => s!"add {r} {n}"
  | .addHere r => s!"addHere {r}"
  | .cap n => s!"cap {n}"
  | .memoCheck id => s!"memoCheck {id}"
  | .memoSave id n b => s!"memoSave {id} {n} {b}"
  | .retT => "retT"
  | .retF => "retF"

end PegVerif
