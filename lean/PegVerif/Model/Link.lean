import PegVerif.Model.Syntax
/-
  Model of the first two passes of `(*Tree).Compile` (`tree/peg.go`, "first pass" and
  "second pass"/`link`).

  Input: the rules as the front end built them (`Front.rules`: name, id = order of `AddRule`,
  raw body).  Output: the linked grammar —
    * every defined rule body wrapped in `ipush body name`                       (first pass)
    * every `act code` replaced by `name "ActionN"`, N counted over the whole grammar in
      traversal order, with a new rule `ActionN <- ipush (act code) ActionN` appended      (link)
    * every reference to an undefined name gets a stub rule with body `nil` appended        (link)
    * every name an expression refers to is recorded (`t.referenced[name] = true`)          (link)
    * every `push e _` becomes `push e "PegText"`, and a rule `PegText` with body `nil` is
      appended the first time                                                              (link)
  New rules get ids from `RulesCount`, which `Compile` has incremented once before (so one id is
  skipped), and are appended in the order in which `link` meets them.
-/
namespace PegVerif

/-- State threaded through `link`. -/
structure LinkSt where
  rulesCount : Nat                -- t.RulesCount
  nAct : Nat                      -- counts[TypeAction]
  defined : List String           -- keys of t.Rules
  added : List Rule               -- rules appended by link, in order
  actions : List (String × String) -- t.Actions: (rule name, code), in order
  referenced : List String        -- keys of t.referenced: the names of the `TypeName` nodes `link` met
deriving Repr, Inhabited

mutual
  /-- `t.link` on one node. Returns the rewritten node. -/
  def linkE : Expr → LinkSt → Expr × LinkSt
    | .act code, st =>
      let name := s!"Action{st.nAct}"
      let r : Rule := { name := name, id := st.rulesCount, body := .ipush (.act code) name }
      (.name name,
        { st with nAct := st.nAct + 1, rulesCount := st.rulesCount + 1,
                  defined := name :: st.defined, added := st.added ++ [r],
                  actions := st.actions ++ [(name, code)] })
    | .name n, st =>
      let st := { st with referenced := n :: st.referenced }     -- t.referenced[name] = true
      if st.defined.contains n then (.name n, st)
      else
        let r : Rule := { name := n, id := st.rulesCount, body := .nil }
        (.name n, { st with rulesCount := st.rulesCount + 1, defined := n :: st.defined,
                            added := st.added ++ [r] })
    | .push e _, st =>
      let st1 :=
        if st.defined.contains "PegText" then st
        else
          let r : Rule := { name := "PegText", id := st.rulesCount, body := .nil }
          { st with rulesCount := st.rulesCount + 1, defined := "PegText" :: st.defined,
                    added := st.added ++ [r] }
      let (e', st2) := linkE e st1
      (.push e' "PegText", st2)
    | .ipush e r, st => let (e', st') := linkE e st; (.ipush e' r, st')
    | .seq es, st => let (es', st') := linkL es st; (.seq es', st')
    | .alt es, st => let (es', st') := linkL es st; (.alt es', st')
    | .ualt ks es, st => let (es', st') := linkL es st; (.ualt ks es', st')
    | .peekFor e, st => let (e', st') := linkE e st; (.peekFor e', st')
    | .peekNot e, st => let (e', st') := linkE e st; (.peekNot e', st')
    | .query e, st => let (e', st') := linkE e st; (.query e', st')
    | .star e, st => let (e', st') := linkE e st; (.star e', st')
    | .plus e, st => let (e', st') := linkE e st; (.plus e', st')
    | e, st => (e, st)
  def linkL : List Expr → LinkSt → List Expr × LinkSt
    | [], st => ([], st)
    | e :: es, st =>
      let (e', st1) := linkE e st
      let (es', st2) := linkL es st1
      (e' :: es', st2)
end

/-- Result of the first two passes. -/
structure Linked where
  G : Grammar
  actions : List (String × String)
  dup : Option String            -- a rule defined twice: Compile returns an error
  referenced : List String       -- keys of t.referenced after `link` (read by the emission loop)
deriving Repr, Inhabited

/-- First pass over the rules: wrap bodies, detect duplicates. -/
def firstPass (rules : List Rule) : List Rule × Option String :=
  rules.foldl (fun (acc : List Rule × Option String) r =>
    if acc.1.any (fun q => q.name == r.name) then (acc.1, acc.2.orElse (fun _ => some r.name))
    else (acc.1 ++ [{ r with body := .ipush r.body r.name }], acc.2)) ([], none)

/-- Second pass: `link` every rule of the snapshot (rules appended meanwhile are not visited). -/
def linkRules : List Rule → LinkSt → List Rule × LinkSt
  | [], st => ([], st)
  | r :: rs, st =>
    let (b, st1) := linkE r.body st
    let (rs', st2) := linkRules rs st1
    ({ r with body := b } :: rs', st2)

def linkGrammar (rules : List Rule) : Linked :=
  let (wrapped, dup) := firstPass rules
  let st0 : LinkSt :=
    { rulesCount := rules.length + 1, nAct := 0, defined := wrapped.map (·.name), added := [],
      actions := [], referenced := [] }
  let (rs, st) := linkRules wrapped st0
  { G := { rules := rs ++ st.added }, actions := st.actions, dup := dup, referenced := st.referenced }

end PegVerif
