import PegVerif.Model.IR
/-
  Model of the runtime of a generated parser (`tree/peg.go.tmpl`, the closure state of `Init`):
  `position`, `tokenIndex`, `tree.tree`, `maxToken`, `memoization`, (`text` under -noast), and the
  helpers `add`, `memoize`, `memoizedResult`, `matchDot`, `matchString`, transcribed statement by
  statement.  Integers are unbounded `Nat` (the width of `U` is the subject of C12/C13's caveat).

  `stepLocal` gives the effect of every instruction except rule calls; `Exec` is the big-step
  relation "running the body of a rule from `pc` until it returns"; `execF` is the fuelled
  executable version used by the driver (`execF_sound` in Proofs/MachineLemmas).

  Anything Go would answer with a run-time panic (index out of range, slice bounds, nil function)
  is the explicit result `panic`, never a default value.
-/
namespace PegVerif

structure MemoEntry where
  id : Nat
  pos : Nat
  matched : Bool
  part : List Token
deriving Repr, Inhabited, DecidableEq

/-- Closure state of `Init` (shared by all rule functions). -/
structure St where
  pos : Nat
  ti : Nat
  tree : List Token
  maxTok : Token
  memo : List MemoEntry
  text : List Sym
  trace : List (String × List Sym)
deriving Repr, Inhabited

/-- Locals of one activation of a rule function: `positionN`, `tokenIndexN`. -/
abbrev Frame := Nat → Nat × Nat

def Frame.empty : Frame := fun _ => (0, 0)
def Frame.set (f : Frame) (n : Nat) (v : Nat × Nat) : Frame := fun m => if m = n then v else f m

structure Cfg where
  ast : Bool
  memo : Bool                       -- false = DisableMemoize
  rho : String → Nat → Bool         -- semantic predicates: pure functions of `position`

/-- `buffer` = the runes of the input followed by the end symbol. -/
def bufOf (inp : List Sym) : List Sym := inp ++ [END]

def zeroTok : Token := ⟨"Unknown", 0, 0⟩

/-- `tree.Add(rule, begin, end, index)`. -/
def treeAdd (tree : List Token) (t : Token) (i : Nat) : List Token :=
  if i ≥ tree.length then tree ++ [t] else tree.set i t

/-- The closure `add` of `Init`. -/
def doAdd (cfg : Cfg) (rule : String) (b : Nat) (s : St) : St :=
  let tree := if cfg.ast then treeAdd s.tree ⟨rule, b, s.pos⟩ s.ti else s.tree
  let mt := if b ≠ s.pos ∧ s.pos > s.maxTok.e then ⟨rule, b, s.pos⟩ else s.maxTok
  { s with tree := tree, ti := s.ti + 1, maxTok := mt }

def memoFind (m : List MemoEntry) (id pos : Nat) : Option MemoEntry :=
  m.find? (fun e => e.id == id && e.pos == pos)

/-- `matchString`. `none` = index out of range. -/
def matchStr (buf : List Sym) : List Sym → Nat → Option (Option Nat)
  | [], i => some (some i)
  | c :: cs, i =>
    match buf[i]? with
    | none => none
    | some x => if x ≠ c then some none else matchStr buf cs (i + 1)

/-- First case whose key list contains `c`; the default has index `keys.length`. -/
def caseIndex (keys : List (List (Nat × Nat))) (c : Sym) : Nat :=
  match keys.findIdx? (fun ks => ks.any (fun r => decide (r.1 ≤ c) && decide (c ≤ r.2))) with
  | some i => i
  | none => keys.length

/-- What a non-call instruction does. -/
inductive Local where
  | next (s : St) (f : Frame)            -- fall through to pc + 1
  | jump (l : Nat) (s : St) (f : Frame)  -- goto l
  | sjump (sw i : Nat) (s : St) (f : Frame) -- to `slabel sw i`
  | sexit (sw : Nat) (s : St) (f : Frame)   -- to `send sw`
  | ret (b : Bool) (s : St)
  | panic
  | isCall (r : String) (l : Option Nat)
deriving Inhabited

def stepLocal (cfg : Cfg) (inp : List Sym) (i : Instr) (s : St) (f : Frame) : Local :=
  let buf := bufOf inp
  match i with
  | .save n => .next s (f.set n (s.pos, s.ti))
  | .savePos n => .next s (f.set n (s.pos, (f n).2))
  | .restore n => .next { s with pos := (f n).1, ti := (f n).2 } f
  | .inc => .next { s with pos := s.pos + 1 } f
  | .ifNeChr c l =>
    match buf[s.pos]? with
    | none => .panic
    | some x => if x ≠ c then .jump l s f else .next s f
  | .ifNotRng lo hi l =>
    match buf[s.pos]? with
    | none => .panic
    | some x => if x < lo ∨ x > hi then .jump l s f else .next s f
  | .ifNotDot l =>
    match buf[s.pos]? with
    | none => .panic
    | some x => if x ≠ END then .next { s with pos := s.pos + 1 } f else .jump l s f
  | .ifNotStr str l =>
    match matchStr buf str s.pos with
    | none => .panic
    | some none => .jump l s f
    | some (some p) => .next { s with pos := p } f
  | .ifNotPred code l => if cfg.rho code s.pos then .next s f else .jump l s f
  | .stmt code => .next { s with trace := s.trace ++ [(code, s.text)] } f
  | .callIf r l => .isCall r (some l)
  | .call r => .isCall r none
  | .goto l => .jump l s f
  | .label _ => .next s f
  | .bb => .next s f
  | .be => .next s f
  | .switchOn sw keys =>
    match buf[s.pos]? with
    | none => .panic
    | some c => .sjump sw (caseIndex keys c) s f
  | .slabel _ _ => .next s f
  | .sjmp sw => .sexit sw s f
  | .brk sw => .sexit sw s f
  | .send _ => .next s f
  | .add rule n => .next (doAdd cfg rule (f n).1 s) f
  | .addHere rule => .next (doAdd cfg rule s.pos s) f
  | .cap n =>
    let b := (f n).1
    if b ≤ s.pos ∧ s.pos ≤ buf.length then .next { s with text := buf.extract b s.pos } f else .panic
  | .memoCheck id =>
    match memoFind s.memo id s.pos with
    | none => .next s f
    | some m =>
      if !m.matched then .ret false s
      else if s.ti > s.tree.length then .panic
      else
        match m.part.getLast? with
        | none => .panic
        | some last =>
          let tree := s.tree.take s.ti ++ m.part
          let ti := s.ti + m.part.length
          let pos := last.e
          let mt := if last.b ≠ pos ∧ pos > s.maxTok.e then last else s.maxTok
          .ret true { s with tree := tree, ti := ti, pos := pos, maxTok := mt }
  | .memoSave id n matched =>
    if !cfg.memo then .next s f
    else
      let key := (f n).1
      if !matched then .next { s with memo := ⟨id, key, false, []⟩ :: s.memo } f
      else
        let start := (f n).2
        if start ≤ s.ti ∧ s.ti ≤ s.tree.length then
          .next { s with memo := ⟨id, key, true, s.tree.extract start s.ti⟩ :: s.memo } f
        else .panic
  | .retT => .ret true s
  | .retF => .ret false s

def labelPos (c : Code) (l : Nat) : Option Nat := c.findIdx? (· == .label l)
def slabelPos (c : Code) (sw i : Nat) : Option Nat := c.findIdx? (· == .slabel sw i)
def sendPos (c : Code) (sw : Nat) : Option Nat := c.findIdx? (· == .send sw)

inductive Outcome where
  | ret (b : Bool)
  | panic
deriving DecidableEq, Repr, Inhabited

/-- Big-step execution of the body `c` of a rule function from `pc` until it returns. -/
inductive Exec (P : Program) (cfg : Cfg) (inp : List Sym) :
    Code → Nat → St → Frame → Outcome × St → Prop where
  | next {c pc s f i s' f' r} :
      c[pc]? = some i → stepLocal cfg inp i s f = .next s' f' →
      Exec P cfg inp c (pc + 1) s' f' r → Exec P cfg inp c pc s f r
  | jump {c pc s f i l s' f' pc' r} :
      c[pc]? = some i → stepLocal cfg inp i s f = .jump l s' f' → labelPos c l = some pc' →
      Exec P cfg inp c pc' s' f' r → Exec P cfg inp c pc s f r
  | sjump {c pc s f i sw k s' f' pc' r} :
      c[pc]? = some i → stepLocal cfg inp i s f = .sjump sw k s' f' → slabelPos c sw k = some pc' →
      Exec P cfg inp c pc' s' f' r → Exec P cfg inp c pc s f r
  | sexit {c pc s f i sw s' f' pc' r} :
      c[pc]? = some i → stepLocal cfg inp i s f = .sexit sw s' f' → sendPos c sw = some pc' →
      Exec P cfg inp c pc' s' f' r → Exec P cfg inp c pc s f r
  | ret {c pc s f i b s'} :
      c[pc]? = some i → stepLocal cfg inp i s f = .ret b s' →
      Exec P cfg inp c pc s f (.ret b, s')
  | panic {c pc s f i} :
      c[pc]? = some i → stepLocal cfg inp i s f = .panic →
      Exec P cfg inp c pc s f (.panic, s)
  | callNil {c pc s f i r l} :
      c[pc]? = some i → stepLocal cfg inp i s f = .isCall r l → P.find r = none →
      Exec P cfg inp c pc s f (.panic, s)
  | callPanic {c pc s f i r l cr s1} :
      c[pc]? = some i → stepLocal cfg inp i s f = .isCall r l → P.find r = some cr →
      Exec P cfg inp cr 0 s Frame.empty (.panic, s1) →
      Exec P cfg inp c pc s f (.panic, s1)
  | callOk {c pc s f i r l cr b s1 res} :
      c[pc]? = some i → stepLocal cfg inp i s f = .isCall r l → P.find r = some cr →
      Exec P cfg inp cr 0 s Frame.empty (.ret b, s1) → (b = true ∨ l = none) →
      Exec P cfg inp c (pc + 1) s1 f res → Exec P cfg inp c pc s f res
  | callFail {c pc s f i r l cr s1 pc' res} :
      c[pc]? = some i → stepLocal cfg inp i s f = .isCall r (some l) → P.find r = some cr →
      Exec P cfg inp cr 0 s Frame.empty (.ret false, s1) → labelPos c l = some pc' →
      Exec P cfg inp c pc' s1 f res → Exec P cfg inp c pc s f res

/-- Fuelled executable version of `Exec`. `none` = out of fuel or stuck (pc outside the code,
    jump to a missing label): neither is a Go behaviour, the tie reports it. -/
def execF (P : Program) (cfg : Cfg) (inp : List Sym) :
    Nat → Code → Nat → St → Frame → Option (Outcome × St)
  | 0, _, _, _, _ => none
  | fuel + 1, c, pc, s, f =>
    match c[pc]? with
    | none => none
    | some i =>
      match stepLocal cfg inp i s f with
      | .next s' f' => execF P cfg inp fuel c (pc + 1) s' f'
      | .jump l s' f' =>
        match labelPos c l with
        | some pc' => execF P cfg inp fuel c pc' s' f'
        | none => none
      | .sjump sw k s' f' =>
        match slabelPos c sw k with
        | some pc' => execF P cfg inp fuel c pc' s' f'
        | none => none
      | .sexit sw s' f' =>
        match sendPos c sw with
        | some pc' => execF P cfg inp fuel c pc' s' f'
        | none => none
      | .ret b s' => some (.ret b, s')
      | .panic => some (.panic, s)
      | .isCall r l =>
        match P.find r with
        | none => some (.panic, s)
        | some cr =>
          match execF P cfg inp fuel cr 0 s Frame.empty with
          | none => none
          | some (.panic, s1) => some (.panic, s1)
          | some (.ret b, s1) =>
            if b = true ∨ l = none then execF P cfg inp fuel c (pc + 1) s1 f
            else
              match l with
              | none => none
              | some l =>
                match labelPos c l with
                | some pc' => execF P cfg inp fuel c pc' s1 f
                | none => none

/-! ### Parser life cycle: `Init` / `Reset` / `Parse` -/

/-- State after `reset()` on a fresh parser (`tree` has length 0, capacity is invisible). -/
def St.init : St :=
  { pos := 0, ti := 0, tree := [], maxTok := zeroTok, memo := [], text := [], trace := [] }

/-- `p.reset()`: everything except the token buffer `tree` is cleared (its dead tail beyond
    `tokenIndex = 0` is invisible, see C12).  The user-visible trace is not parser state; it is
    cleared here only because the driver observes one parse at a time. -/
def St.reset (s : St) : St :=
  { s with pos := 0, ti := 0, maxTok := zeroTok, memo := [], text := [], trace := [] }

inductive ParseResult where
  | ok (toks : List Token)           -- nil error; `p.Tokens()` after Trim
  | fail (maxTok : Token)            -- *parseError
  | panic
  | stuck
deriving Repr, Inhabited

/-- `p.parse(rule)` for the rule named `r` (the index into `p.rules` resolved by the caller). -/
def parseF (P : Program) (cfg : Cfg) (inp : List Sym) (fuel : Nat) (r : String) (s : St) :
    ParseResult × St :=
  match P.find r with
  | none => (.panic, s)
  | some c =>
    match execF P cfg inp fuel c 0 s Frame.empty with
    | none => (.stuck, s)
    | some (.panic, s') => (.panic, s')
    | some (.ret true, s') => (.ok (s'.tree.take s'.ti), s')
    | some (.ret false, s') => (.fail s'.maxTok, s')

end PegVerif
