import PegVerif.Model.Syntax
import PegVerif.Model.Set
/-
  Model of the `-switch` rewrite `optimizeAlternates` (`tree/peg.go`, the closure inside
  `if t._switch { … }`): two depth-first passes from the first rule computing, per node, "consumes"
  and a first set (with the interval-list sets of `set/set.go`, modelled in `Model/Set.lean`); the
  second pass rewrites an ordered choice whose alternatives have pairwise disjoint first sets (in the
  sense of the `intersections` count) into ordered alternatives followed by a `TypeUnorderedAlternate`
  that `compile` emits as `switch buffer[position]`.

  Transcribed as it is (after the repair of the three recorded defects of the rewrite): `consumes`
  of a choice is the conjunction over ALL its alternatives, a choice with an alternative that may
  succeed without consuming is left ordered (its first set would be incomplete), and a recursive
  reference to a rule whose analysis is in progress (`reached` but not `done`) answers "does not
  consume, any first character".  State that Go keeps by mutating nodes in place is threaded
  explicitly: `bodies` = the current body of every rule.
-/
namespace PegVerif
open MSet

structure OInfo where
  consumes : Bool := false
  s : MSet := []
deriving Repr, Inhabited

structure OSt where
  reached : List String := []
  done : List String := []                      -- cache[i].done: the rule's analysis has finished
  info : List (String × OInfo) := []           -- cache[i].consumes / cache[i].s (survive the passes)
  bodies : List (String × Expr) := []           -- rule bodies as rewritten so far
deriving Inhabited

def OSt.getInfo (st : OSt) (n : String) : OInfo :=
  match st.info.find? (·.1 == n) with
  | some p => p.2
  | none => {}

def OSt.setInfo (st : OSt) (n : String) (i : OInfo) : OSt :=
  { st with info := (n, i) :: st.info.filter (·.1 != n) }

def OSt.getBody (st : OSt) (n : String) : Option Expr :=
  (st.bodies.find? (·.1 == n)).map (·.2)

def OSt.setBody (st : OSt) (n : String) (b : Expr) : OSt :=
  { st with bodies := st.bodies.map (fun p => if p.1 == n then (n, b) else p) }

abbrev OM := Except String

def liftRes {α} (what : String) : MSet.Res α → OM α
  | .ok a => .ok a
  | .panic => .error s!"{what}: panic"
  | .corrupt => .error s!"{what}: corrupt set (reversed range)"
  | .diverge => .error s!"{what}: does not terminate"

/-- `for d := range unicode.MaxRune + 1 { if s.Has(d) … }` as ranges, clipped to valid runes. -/
def classOf (s : MSet) : KeySet :=
  s.filterMap (fun (p : Int × Int) =>
    let lo := max p.1 0
    let hi := min p.2 0x10FFFF
    if lo ≤ hi then some (lo.toNat, hi.toNat) else none)

/-- `TypeDot`: `s.Add(EndSymbol); s = s.Complement(EndSymbol - 1)`. -/
def dotSet : OM MSet := do
  let s ← liftRes "dot" (MSet.add [] (0x110000 : Int))
  pure (MSet.complement s (0x110000 - 1))

/-- The answer for a rule that is `reached` but not `done` (recursion):
    `s.AddRange(0, unicode.MaxRune)` on a fresh set. -/
def anySet : OM MSet := liftRes "any" (MSet.addRange [] (0 : Int) (0x10FFFF : Int))

/-- The `intersections` loop: for each alternative but the last, does its set intersect the set
    of a LATER alternative. -/
def markIntersects : List MSet → List Bool
  | [] => []
  | [_] => [false]
  | a :: rest => (rest.any (fun b => MSet.intersects a b)) :: markIntersects rest

/-- Placement of the non-intersecting alternatives inside the new unordered node. -/
def placeUnordered (acc : List (KeySet × Expr) × Nat) (item : KeySet × Expr × Nat) :
    List (KeySet × Expr) × Nat :=
  let (keys, e, length) := item
  match e with
  | .nil => (acc.1 ++ [(keys, e)], acc.2)
  | _ => if length > acc.2 then (acc.1 ++ [(keys, e)], length) else ((keys, e) :: acc.1, acc.2)

mutual
  def optE (firstPass : Bool) : Nat → Expr → OSt → OM (Bool × MSet × Expr × OSt)
    | 0, _, _ => .error "optimise: out of fuel"
    | f + 1, e, st =>
      match e with
      | .name n =>
        -- TypeName → TypeRule: the cache
        if st.reached.contains n then
          if !st.done.contains n then do
            -- recursion: the rule is still being analysed, assume any first character
            pure (false, ← anySet, e, st)
          else
            let i := st.getInfo n
            pure (i.consumes, i.s, e, st)
        else
          match st.getBody n with
          | none => .error s!"optimise: no rule {n}"
          | some b => do
            let st1 := { st with reached := n :: st.reached }
            let (c, s, b', st2) ← optE firstPass f b st1
            let st3 := (st2.setInfo n ⟨c, s⟩).setBody n b'
            pure (c, s, e, { st3 with done := n :: st3.done })
      | .dot => do pure (true, ← dotSet, e, st)
      | .chr c => do pure (true, ← liftRes "chr" (MSet.add [] (c : Int)), e, st)
      | .str s =>
        match s with
        | c :: _ => do pure (true, ← liftRes "str" (MSet.add [] (c : Int)), e, st)
        | [] => .error "optimise: empty string (index out of range)"
      | .rng lo hi =>
        -- `if lower <= upper { s.AddRange(lower, upper) }`: a reversed range matches nothing
        if lo ≤ hi then do pure (true, ← liftRes "rng" (MSet.addRange [] (lo : Int) (hi : Int)), e, st)
        else pure (true, [], e, st)
      | .alt es => do
        let (cs, es', st1) ← optL firstPass f es st
        -- consumes = the conjunction over ALL alternatives (starts `true`); s = union of all
        let consumes := cs.all (·.1)
        let s ← cs.foldlM (fun acc p => liftRes "union" (MSet.union acc p.2)) ([] : MSet)
        -- `if firstPass || !consumes { break }`: a choice with an alternative that may match
        -- without consuming stays ordered
        -- `dispatch`: every alternative consumes AND has at least one first character
        let dispatch := cs.all (fun p => p.1 && decide (MSet.len p.2 > 0))
        if firstPass || !dispatch then pure (consumes, s, .alt es', st1)
        else
          let sets := cs.map (·.2)
          let marks := markIntersects sets
          let intersections := 2 + (marks.filter id).length
          if intersections ≥ es'.length then pure (consumes, s, .alt es', st1)
          else
            let items := (es'.zip (sets.zip marks))
            let ordered := items.filterMap (fun (e, _, m) => if m then some e else none)
            let uitems : List (KeySet × Expr × Nat) := items.filterMap (fun (e, s, m) =>
              if m then none else some (classOf s, e, (MSet.len s).toNat))
            let (unordered, _) := uitems.foldl placeUnordered ([], 0)
            let u := Expr.ualt (unordered.map (·.1)) (unordered.map (·.2))
            if ordered.isEmpty then pure (consumes, s, u, st1)
            else pure (consumes, s, .alt (ordered ++ [u]), st1)
      | .seq es => do
        let (cs, es1, rest, st1) ← optSeq firstPass f es st
        let consumes := match cs.getLast? with | some p => p.1 | none => false
        let s ← cs.reverse.foldlM (fun acc p => liftRes "union" (MSet.union acc p.2)) ([] : MSet)
        -- `for _, element := range elements { optimizeAlternates(element) }`: the elements after the
        -- first consuming one — or ALL elements again when none consumes
        let again := if consumes then rest else es1
        let (_, again', st2) ← optL firstPass f again st1
        let es' := if consumes then es1 ++ again' else again'
        pure (consumes, s, .seq es', st2)
      | .peekFor a => do
        let (_, _, a', st1) ← optE firstPass f a st
        pure (false, [], .peekFor a', st1)
      | .peekNot a => do
        let (_, _, a', st1) ← optE firstPass f a st
        pure (false, [], .peekNot a', st1)
      | .query a => do
        let (_, s, a', st1) ← optE firstPass f a st
        pure (false, s, .query a', st1)
      | .star a => do
        let (_, s, a', st1) ← optE firstPass f a st
        pure (false, s, .star a', st1)
      | .plus a => do
        let (c, s, a', st1) ← optE firstPass f a st
        pure (c, s, .plus a', st1)
      | .push a r => do
        let (c, s, a', st1) ← optE firstPass f a st
        pure (c, s, .push a' r, st1)
      | .ipush a r => do
        let (c, s, a', st1) ← optE firstPass f a st
        pure (c, s, .ipush a' r, st1)
      | e => pure (false, [], e, st)      -- Action, Nil, Predicate, StateChange, UnorderedAlternate, …
  /-- All elements, left to right. -/
  def optL (firstPass : Bool) : Nat → List Expr → OSt → OM (List (Bool × MSet) × List Expr × OSt)
    | 0, _, _ => .error "optimise: out of fuel"
    | _ + 1, [], st => pure ([], [], st)
    | f + 1, e :: es, st => do
      let (c, s, e', st1) ← optE firstPass f e st
      let (cs, es', st2) ← optL firstPass f es st1
      pure ((c, s) :: cs, e' :: es', st2)
  /-- The first loop of `TypeSequence`: up to and including the first consuming element.
      Returns the (consumes, set) pairs seen, the processed prefix, the untouched rest. -/
  def optSeq (firstPass : Bool) : Nat → List Expr → OSt →
      OM (List (Bool × MSet) × List Expr × List Expr × OSt)
    | 0, _, _ => .error "optimise: out of fuel"
    | _ + 1, [], st => pure ([], [], [], st)
    | f + 1, e :: es, st => do
      let (c, s, e', st1) ← optE firstPass f e st
      if c then pure ([(c, s)], [e'], es, st1)
      else
        let (cs, es1, rest, st2) ← optSeq firstPass f es st1
        pure ((c, s) :: cs, e' :: es1, rest, st2)
end

/-- `if t._switch { … }`: two passes from the first rule. -/
def optimise (G : Grammar) : OM Grammar :=
  match G.rules with
  | [] => pure G
  | r :: _ => do
    let fuel := 100000
    let st0 : OSt := { bodies := G.rules.map (fun r => (r.name, r.body)) }
    let (_, _, _, st1) ← optE true fuel (.name r.name) st0
    let (_, _, _, st2) ← optE false fuel (.name r.name) { st1 with reached := [], done := [] }
    pure { rules := G.rules.map (fun r =>
      match (st2.bodies.find? (·.1 == r.name)) with
      | some p => { r with body := p.2 }
      | none => r) }

end PegVerif
