import PegVerif.Model.Basic
/-
  Go's `[]rune(string)` (= `utf8.DecodeRuneInString` in a loop), which is how `reset()` builds the
  rune buffer from `p.Buffer`: an ill-formed byte is replaced by U+FFFD and consumes ONE byte.
  The table is that of `unicode/utf8` (`first`, `acceptRanges`): overlong forms, surrogates and values
  above U+10FFFF are ill-formed.
-/
namespace PegVerif

/-- Width and accepted range of the second byte for a leading byte; `none` = invalid leading byte. -/
def utf8Lead (c : Nat) : Option (Nat × Nat × Nat) :=
  if 0xC2 ≤ c ∧ c ≤ 0xDF then some (2, 0x80, 0xBF)
  else if c = 0xE0 then some (3, 0xA0, 0xBF)
  else if c = 0xED then some (3, 0x80, 0x9F)
  else if 0xE1 ≤ c ∧ c ≤ 0xEF then some (3, 0x80, 0xBF)
  else if c = 0xF0 then some (4, 0x90, 0xBF)
  else if 0xF1 ≤ c ∧ c ≤ 0xF3 then some (4, 0x80, 0xBF)
  else if c = 0xF4 then some (4, 0x80, 0x8F)
  else none

def isCont (b : Nat) : Bool := decide (0x80 ≤ b ∧ b ≤ 0xBF)

/-- Decode the first rune of a non-empty byte list: (rune, number of bytes consumed). -/
def decodeRune : List Nat → Sym × Nat
  | [] => (0xFFFD, 1)
  | c :: rest =>
    if c < 0x80 then (c, 1)
    else
      match utf8Lead c with
      | none => (0xFFFD, 1)
      | some (2, lo, hi) =>
        match rest with
        | b1 :: _ => if lo ≤ b1 ∧ b1 ≤ hi then ((c % 32) * 64 + b1 % 64, 2) else (0xFFFD, 1)
        | _ => (0xFFFD, 1)
      | some (3, lo, hi) =>
        match rest with
        | b1 :: b2 :: _ =>
          if lo ≤ b1 ∧ b1 ≤ hi ∧ isCont b2 then ((c % 16) * 4096 + (b1 % 64) * 64 + b2 % 64, 3)
          else (0xFFFD, 1)
        | _ => (0xFFFD, 1)
      | some (_, lo, hi) =>
        match rest with
        | b1 :: b2 :: b3 :: _ =>
          if lo ≤ b1 ∧ b1 ≤ hi ∧ isCont b2 ∧ isCont b3 then
            ((c % 8) * 262144 + (b1 % 64) * 4096 + (b2 % 64) * 64 + b3 % 64, 4)
          else (0xFFFD, 1)
        | _ => (0xFFFD, 1)

/-- `[]rune(string(bytes))`. -/
def runesF : Nat → List Nat → List Sym
  | 0, _ => []
  | _ + 1, [] => []
  | f + 1, bs => let (r, w) := decodeRune bs; r :: runesF f (bs.drop w)

def runes (bs : List Nat) : List Sym := runesF bs.length bs

end PegVerif
