/-
  A small generic model of interleaved execution (core Lean only, no Mathlib).

  It carries the *logic core* of the two concurrency properties:

  * C09 — the two analyses that `(*Tree).Compile` (`tree/peg.go`) starts with `wg.Go` have
    disjoint footprints (Bernstein's conditions), hence every interleaving of their atomic steps
    ends in the same state (`interleave_indep`), and no two steps of different threads touch a
    common location with a write involved (`no_conflict`).
  * C14 — a product of confined components (parser instances) is non-interfering: what one
    component computes does not depend on the others or on the schedule
    (`product_noninterference`).

  What is *not* modelled: the Go scheduler and the Go memory model.  The link is the usual one:
  Go guarantees sequentially consistent behaviour for data-race-free programs (DRF-SC), and a
  sequentially consistent execution is an interleaving of atomic steps — which is what `run` is.

  Vocabulary
  * `Loc`      abstract location (a `String` such as `"Tree.werr"`, `"local:usage"`, `"node.front"`).
  * `State V`  `Loc → V`.
  * `Thread V` a deterministic thread: `step σ = none` means "terminated in σ", `some σ'` is one
               atomic step.  Thread-private data (program counter, locals) are simply locations that
               occur in no other thread's footprint, so data-dependent control flow and loops of
               unbounded length are covered.
  * `Respects t R W`  `t` writes only `W` and its behaviour depends only on `R ∪ W`.
  * a schedule is a `List ι` of thread ids (`ι` arbitrary: any number of threads); scheduling a
    terminated thread is a stutter step.
-/
namespace PegVerif.Sched

abbrev Loc := String

abbrev State (V : Type) := Loc → V

/-- A deterministic thread over the shared state. -/
structure Thread (V : Type) where
  step : State V → Option (State V)

variable {V : Type}

/-- One scheduled step: a terminated thread stutters. -/
def Thread.stepT (t : Thread V) (σ : State V) : State V := (t.step σ).getD σ

/-- The thread has terminated in `σ`. -/
def Thread.Done (t : Thread V) (σ : State V) : Prop := t.step σ = none

/-- Two states agree on every location of a list. -/
def AgreeOn (L : List Loc) (σ τ : State V) : Prop := ∀ l, l ∈ L → σ l = τ l

/-- `t` writes only locations of `W`. -/
def WritesOnly (t : Thread V) (W : List Loc) : Prop :=
  ∀ σ σ', t.step σ = some σ' → ∀ l, l ∉ W → σ' l = σ l

/-- `t` reads only `R` (and what it may keep, `W`): two states that agree on `R ∪ W` make `t`
    terminate in both or step in both, and the two updates agree on `W`. -/
def ReadsOnly (t : Thread V) (R W : List Loc) : Prop :=
  ∀ σ τ, AgreeOn (R ++ W) σ τ →
    match t.step σ, t.step τ with
    | none, none => True
    | some σ', some τ' => AgreeOn W σ' τ'
    | _, _ => False

structure Respects (t : Thread V) (R W : List Loc) : Prop where
  writes : WritesOnly t W
  reads : ReadsOnly t R W

/-- `a` and `b` have no common element (decidable on concrete lists). -/
def Disj (a b : List Loc) : Prop := ∀ l, l ∈ a → l ∉ b

instance (a b : List Loc) : Decidable (Disj a b) := by unfold Disj; exact inferInstance

/-- Bernstein's conditions for two footprints. -/
def Bernstein2 (R₁ W₁ R₂ W₂ : List Loc) : Prop :=
  Disj W₁ (R₂ ++ W₂) ∧ Disj W₂ (R₁ ++ W₁)

instance (R₁ W₁ R₂ W₂ : List Loc) : Decidable (Bernstein2 R₁ W₁ R₂ W₂) := by
  unfold Bernstein2; exact inferInstance

/-- Bernstein's conditions for a family of threads. -/
def Bernstein {ι : Type} (R W : ι → List Loc) : Prop :=
  ∀ i j, i ≠ j → Disj (W i) (R j ++ W j)

/-- Run a schedule. -/
def run {ι : Type} (T : ι → Thread V) : List ι → State V → State V
  | [], σ => σ
  | i :: s, σ => run T s ((T i).stepT σ)

/-- `n` consecutive steps of one thread. -/
def solo (t : Thread V) : Nat → State V → State V
  | 0, σ => σ
  | n + 1, σ => solo t n (t.stepT σ)

/-- A schedule is complete from `σ` when every thread has terminated at its end. -/
def Complete {ι : Type} (T : ι → Thread V) (s : List ι) (σ : State V) : Prop :=
  ∀ i, (T i).Done (run T s σ)

/-! ### Accesses and conflicts at the level of abstract locations -/

/-- Thread `i` may access `l`. -/
def Accesses {ι : Type} (R W : ι → List Loc) (i : ι) (l : Loc) : Prop := l ∈ R i ∨ l ∈ W i

/-- Two different threads may access `l` and at least one of the accesses is a write: the
    definition of a data race on an abstract location. -/
def Conflict {ι : Type} (R W : ι → List Loc) (i j : ι) (l : Loc) : Prop :=
  i ≠ j ∧ ((l ∈ W i ∧ Accesses R W j l) ∨ (l ∈ W j ∧ Accesses R W i l))

/-- Semantic write: the step of `t` in `σ` changes `l`. -/
def WritesAt (t : Thread V) (σ : State V) (l : Loc) : Prop :=
  ∃ σ', t.step σ = some σ' ∧ σ' l ≠ σ l

/-- Semantic independence: changing `l` never changes what `t` does (termination and the values
    it leaves in its write set). -/
def Ignores (t : Thread V) (W : List Loc) (l : Loc) : Prop :=
  ∀ σ τ, (∀ l', l' ≠ l → σ l' = τ l') →
    match t.step σ, t.step τ with
    | none, none => True
    | some σ', some τ' => AgreeOn W σ' τ'
    | _, _ => False

/-! ### Products of confined components (C14) -/

/-- A system of components over a product state: `g i` is one step of component `i`. -/
abbrev PSys (ι S : Type) := ι → (ι → S) → (ι → S)

/-- Component `i` writes only its own part and depends only on its own part. -/
structure Confined {ι S : Type} (g : PSys ι S) : Prop where
  writesOwn : ∀ i σ j, j ≠ i → g i σ j = σ j
  readsOwn : ∀ i σ τ, σ i = τ i → g i σ i = g i τ i

def prun {ι S : Type} (g : PSys ι S) : List ι → (ι → S) → (ι → S)
  | [], σ => σ
  | i :: s, σ => prun g s (g i σ)

/-- Iteration of a local step function. -/
def iter {S : Type} (f : S → S) : Nat → S → S
  | 0, x => x
  | n + 1, x => iter f n (f x)

/-- Components with a shared read-only part `c : C` (package-level constants and tables such as
    `rul3s`): a step sees the shared part and its own part and returns a new shared part and a new
    own part. -/
abbrev RSys (ι C S : Type) := ι → C → S → C × S

def rrun {ι C S : Type} [DecidableEq ι] (g : RSys ι C S) : List ι → C × (ι → S) → C × (ι → S)
  | [], σ => σ
  | i :: s, σ =>
    let r := g i σ.1 (σ.2 i)
    rrun g s (r.1, fun j => if j = i then r.2 else σ.2 j)

end PegVerif.Sched
