import PegVerif.Model.Syntax
/-
  SPEC: the PEG semantics of a rule tree (Ford's natural semantics), with the derivation made
  explicit.  This is the yardstick for C01–C07: it mentions neither labels, saves, token buffers
  nor memo tables.

  `Eval G ρ inp e p res evs`:
    * `res = .ok p' f`  — `e` matches `inp[p, p')`; `f` is the forest of token-producing nodes
                           (rule applications, `<…>` captures, actions) of the successful derivation
    * `res = .fail`     — `e` does not match at `p`
    * `evs`             — every token-producing node that was *completed* during the attempt, in
                           completion order, including those inside alternatives that later failed
                           and inside lookahead (the runtime's `add` calls; needed for `maxToken`
                           (C11) and for inline actions under -noast (C07)).
  `ρ code pos` interprets semantic predicates `&{code}` as pure functions of the position.
-/
namespace PegVerif

inductive Res where
  | ok (p : Nat) (f : List TokTree)
  | fail
deriving Repr, Inhabited

def Expr.isAct : Expr → Bool
  | .act _ => true
  | _ => false

/-- The symbol a `switch buffer[position]` sees: the end symbol at and beyond the end of input. -/
def peek (inp : List Sym) (p : Nat) : Sym := (inp[p]?).getD END

/-- Index of the first key list containing `c`, else `keys.length` (the default case). -/
def caseIdx (keys : List KeySet) (c : Sym) : Nat :=
  match keys.findIdx? (fun ks => ks.has c) with
  | some i => i
  | none => keys.length

/-- `s` is a prefix of `inp` at `p`. -/
def matchesAt (inp : List Sym) (s : List Sym) (p : Nat) : Bool :=
  (inp.drop p).take s.length == s && p + s.length ≤ inp.length

inductive Eval (G : Grammar) (ρ : String → Nat → Bool) (inp : List Sym) :
    Expr → Nat → Res → List Token → Prop where
  | dot_ok {p c} : inp[p]? = some c → Eval G ρ inp .dot p (.ok (p + 1) []) []
  | dot_fail {p} : inp[p]? = none → Eval G ρ inp .dot p .fail []
  | chr_ok {p c} : inp[p]? = some c → Eval G ρ inp (.chr c) p (.ok (p + 1) []) []
  | chr_fail {p c} : inp[p]? ≠ some c → Eval G ρ inp (.chr c) p .fail []
  | rng_ok {p lo hi c} : inp[p]? = some c → lo ≤ c → c ≤ hi →
      Eval G ρ inp (.rng lo hi) p (.ok (p + 1) []) []
  | rng_fail {p lo hi} : (∀ c, inp[p]? = some c → c < lo ∨ hi < c) →
      Eval G ρ inp (.rng lo hi) p .fail []
  | str_ok {p s} : matchesAt inp s p = true → Eval G ρ inp (.str s) p (.ok (p + s.length) []) []
  | str_fail {p s} : matchesAt inp s p = false → Eval G ρ inp (.str s) p .fail []
  | name {n b p res evs} : G.body n = some b → Eval G ρ inp b p res evs →
      Eval G ρ inp (.name n) p res evs
  | inl {n e p res evs} : Eval G ρ inp e p res evs → Eval G ρ inp (.inl n e) p res evs
  | pred_ok {c p} : ρ c p = true → Eval G ρ inp (.pred c) p (.ok p []) []
  | pred_fail {c p} : ρ c p = false → Eval G ρ inp (.pred c) p .fail []
  | stmt {c p} : Eval G ρ inp (.stmt c) p (.ok p []) []
  | act {c p} : Eval G ρ inp (.act c) p (.ok p []) []
  | nil {p} : Eval G ρ inp .nil p (.ok p []) []
  | seq_nil {p} : Eval G ρ inp (.seq []) p (.ok p []) []
  | seq_fail {e es p evs} : Eval G ρ inp e p .fail evs → Eval G ρ inp (.seq (e :: es)) p .fail evs
  | seq_ok_fail {e es p p1 f1 evs1 evs2} :
      Eval G ρ inp e p (.ok p1 f1) evs1 → Eval G ρ inp (.seq es) p1 .fail evs2 →
      Eval G ρ inp (.seq (e :: es)) p .fail (evs1 ++ evs2)
  | seq_ok {e es p p1 f1 evs1 p2 f2 evs2} :
      Eval G ρ inp e p (.ok p1 f1) evs1 → Eval G ρ inp (.seq es) p1 (.ok p2 f2) evs2 →
      Eval G ρ inp (.seq (e :: es)) p (.ok p2 (f1 ++ f2)) (evs1 ++ evs2)
  | alt_last {e p res evs} : Eval G ρ inp e p res evs → Eval G ρ inp (.alt [e]) p res evs
  | alt_ok {e e' es p p1 f1 evs} : Eval G ρ inp e p (.ok p1 f1) evs →
      Eval G ρ inp (.alt (e :: e' :: es)) p (.ok p1 f1) evs
  | alt_next {e e' es p evs1 res evs2} : Eval G ρ inp e p .fail evs1 →
      Eval G ρ inp (.alt (e' :: es)) p res evs2 →
      Eval G ρ inp (.alt (e :: e' :: es)) p res (evs1 ++ evs2)
  | ualt {ks es p e res evs} :
      es[caseIdx (ks.take (es.length - 1)) (peek inp p)]? = some e →
      Eval G ρ inp e p res evs → Eval G ρ inp (.ualt ks es) p res evs
  | peekFor_ok {e p p1 f1 evs} : Eval G ρ inp e p (.ok p1 f1) evs →
      Eval G ρ inp (.peekFor e) p (.ok p []) evs
  | peekFor_fail {e p evs} : Eval G ρ inp e p .fail evs → Eval G ρ inp (.peekFor e) p .fail evs
  | peekNot_ok {e p evs} : Eval G ρ inp e p .fail evs → Eval G ρ inp (.peekNot e) p (.ok p []) evs
  | peekNot_fail {e p p1 f1 evs} : Eval G ρ inp e p (.ok p1 f1) evs →
      Eval G ρ inp (.peekNot e) p .fail evs
  | query_ok {e p p1 f1 evs} : Eval G ρ inp e p (.ok p1 f1) evs →
      Eval G ρ inp (.query e) p (.ok p1 f1) evs
  | query_none {e p evs} : Eval G ρ inp e p .fail evs → Eval G ρ inp (.query e) p (.ok p []) evs
  | star_stop {e p evs} : Eval G ρ inp e p .fail evs → Eval G ρ inp (.star e) p (.ok p []) evs
  | star_step {e p p1 f1 evs1 p2 f2 evs2} : Eval G ρ inp e p (.ok p1 f1) evs1 →
      Eval G ρ inp (.star e) p1 (.ok p2 f2) evs2 →
      Eval G ρ inp (.star e) p (.ok p2 (f1 ++ f2)) (evs1 ++ evs2)
  | plus_fail {e p evs} : Eval G ρ inp e p .fail evs → Eval G ρ inp (.plus e) p .fail evs
  | plus_ok {e p p1 f1 evs1 p2 f2 evs2} : Eval G ρ inp e p (.ok p1 f1) evs1 →
      Eval G ρ inp (.star e) p1 (.ok p2 f2) evs2 →
      Eval G ρ inp (.plus e) p (.ok p2 (f1 ++ f2)) (evs1 ++ evs2)
  | push_ok {e r p p1 f1 evs} : e.isAct = false → Eval G ρ inp e p (.ok p1 f1) evs →
      Eval G ρ inp (.push e r) p (.ok p1 [.node ⟨r, p, p1⟩ f1]) (evs ++ [⟨r, p, p1⟩])
  | push_fail {e r p evs} : e.isAct = false → Eval G ρ inp e p .fail evs →
      Eval G ρ inp (.push e r) p .fail evs
  | push_act {c r p} :
      Eval G ρ inp (.push (.act c) r) p (.ok p [.node ⟨r, p, p⟩ []]) [⟨r, p, p⟩]
  | ipush_ok {e r p p1 f1 evs} : e.isAct = false → Eval G ρ inp e p (.ok p1 f1) evs →
      Eval G ρ inp (.ipush e r) p (.ok p1 [.node ⟨r, p, p1⟩ f1]) (evs ++ [⟨r, p, p1⟩])
  | ipush_fail {e r p evs} : e.isAct = false → Eval G ρ inp e p .fail evs →
      Eval G ρ inp (.ipush e r) p .fail evs
  | ipush_act {c r p} :
      Eval G ρ inp (.ipush (.act c) r) p (.ok p [.node ⟨r, p, p⟩ []]) [⟨r, p, p⟩]

/-! ### Executable reference interpreter (the oracle used when a check searches for a failing
    input).  Structural recursion on the fuel; `none` = out of fuel. -/

def evalF (G : Grammar) (ρ : String → Nat → Bool) (inp : List Sym) :
    Nat → Expr → Nat → Option (Res × List Token)
  | 0, _, _ => none
  | fuel + 1, e, p =>
    let ev := evalF G ρ inp fuel
    match e with
    | .dot => match inp[p]? with
      | some _ => some (.ok (p + 1) [], [])
      | none => some (.fail, [])
    | .chr c => if inp[p]? = some c then some (.ok (p + 1) [], []) else some (.fail, [])
    | .rng lo hi => match inp[p]? with
      | some c => if lo ≤ c ∧ c ≤ hi then some (.ok (p + 1) [], []) else some (.fail, [])
      | none => some (.fail, [])
    | .str s => if matchesAt inp s p then some (.ok (p + s.length) [], []) else some (.fail, [])
    | .name n => match G.body n with
      | some b => ev b p
      | none => none
    | .inl _ e => ev e p
    | .pred c => if ρ c p then some (.ok p [], []) else some (.fail, [])
    | .stmt _ => some (.ok p [], [])
    | .act _ => some (.ok p [], [])
    | .nil => some (.ok p [], [])
    | .seq [] => some (.ok p [], [])
    | .seq (e :: es) =>
      match ev e p with
      | none => none
      | some (.fail, evs) => some (.fail, evs)
      | some (.ok p1 f1, evs1) =>
        match ev (.seq es) p1 with
        | none => none
        | some (.fail, evs2) => some (.fail, evs1 ++ evs2)
        | some (.ok p2 f2, evs2) => some (.ok p2 (f1 ++ f2), evs1 ++ evs2)
    | .alt [] => none
    | .alt [e] => ev e p
    | .alt (e :: e' :: es) =>
      match ev e p with
      | none => none
      | some (.ok p1 f1, evs) => some (.ok p1 f1, evs)
      | some (.fail, evs1) =>
        match ev (.alt (e' :: es)) p with
        | none => none
        | some (res, evs2) => some (res, evs1 ++ evs2)
    | .ualt ks es =>
      match es[caseIdx (ks.take (es.length - 1)) (peek inp p)]? with
      | some e => ev e p
      | none => none
    | .peekFor e =>
      match ev e p with
      | none => none
      | some (.ok _ _, evs) => some (.ok p [], evs)
      | some (.fail, evs) => some (.fail, evs)
    | .peekNot e =>
      match ev e p with
      | none => none
      | some (.ok _ _, evs) => some (.fail, evs)
      | some (.fail, evs) => some (.ok p [], evs)
    | .query e =>
      match ev e p with
      | none => none
      | some (.ok p1 f1, evs) => some (.ok p1 f1, evs)
      | some (.fail, evs) => some (.ok p [], evs)
    | .star e =>
      match ev e p with
      | none => none
      | some (.fail, evs) => some (.ok p [], evs)
      | some (.ok p1 f1, evs1) =>
        match ev (.star e) p1 with
        | none => none
        | some (.fail, _) => none
        | some (.ok p2 f2, evs2) => some (.ok p2 (f1 ++ f2), evs1 ++ evs2)
    | .plus e =>
      match ev e p with
      | none => none
      | some (.fail, evs) => some (.fail, evs)
      | some (.ok p1 f1, evs1) =>
        match ev (.star e) p1 with
        | none => none
        | some (.fail, _) => none
        | some (.ok p2 f2, evs2) => some (.ok p2 (f1 ++ f2), evs1 ++ evs2)
    | .push e r =>
      match e with
      | .act _ => some (.ok p [.node ⟨r, p, p⟩ []], [⟨r, p, p⟩])
      | _ =>
        match ev e p with
        | none => none
        | some (.fail, evs) => some (.fail, evs)
        | some (.ok p1 f1, evs) => some (.ok p1 [.node ⟨r, p, p1⟩ f1], evs ++ [⟨r, p, p1⟩])
    | .ipush e r =>
      match e with
      | .act _ => some (.ok p [.node ⟨r, p, p⟩ []], [⟨r, p, p⟩])
      | _ =>
        match ev e p with
        | none => none
        | some (.fail, evs) => some (.fail, evs)
        | some (.ok p1 f1, evs) => some (.ok p1 [.node ⟨r, p, p1⟩ f1], evs ++ [⟨r, p, p1⟩])

end PegVerif
