/-
  Executable model of `/repo/set/set.go` (package `set`), transcribed case by case.  Core Lean only.

  Representation.  A Go `*Set` is `Head <-> n1 <-> ... <-> nk <-> Tail` with sentinel values
  `Head = {Begin: MaxInt32, End: 0}`, `Tail = {Begin: 0, End: 0}`.  The model keeps the intervals
  `(Begin, End)` of `n1 … nk` in list order:

      []            <->  Head.Forward == nil  and  Tail.Backward == nil   (NewSet, no list at all)
      [i1,…,ik]     <->  Head.Forward = n1, …, nk.Forward = &Tail, Tail.Backward = nk, … (k ≥ 1)

  The third state the Go code could distinguish, `Head.Forward == &Tail` (linked, no node), is not
  produced by any exported operation from a `NewSet()` (Copy/Complement/AddRange create it only from a
  set that already has it); the Go harness `setx run` prints `LINKED-EMPTY` if it ever sees it.

  Node positions: `0` = `&Head`, `i` (1 ≤ i ≤ k) = `n_i`, `k+1` = `&Tail`.  `pos.Forward == nil` iff
  `pos = k+1`; `pos.Backward == nil` iff `pos = 0` (only in the linked state).

  Outcomes.  Values are mathematical integers.  `rune` arithmetic that can wrap (`a.End + 1`,
  `a.Begin - 1` in Complement) goes through `wrap32`.  Operations whose Go control flow can leave the
  representable states return `Res`:
    * `.corrupt`  – the Go code splices the list into a cycle / overwrites a sentinel (only for
                    reversed or negative ranges, e.g. `AddRange(5,1)` on a non-empty set);
    * `.diverge`  – the Go loop does not terminate (`String` on an interval ending at MaxInt32,
                    `code <= node.End` is then always true);
    * `.panic`    – a nil dereference.  After commits b47ab7c/3339f42/4ebdb6e every dereference in
                    set.go is guarded for every representable state, so the model never produces it;
                    the constructor exists for the driver protocol (`PANIC`) and so that `no_panic`
                    is a statement about `Res` values.
-/
namespace PegVerif.MSet

abbrev Iv := Int × Int
abbrev MSet := List Iv

/-- `math.MaxInt32`, the value of `Head.Begin`. -/
def MAXI : Int := 2147483647

inductive Res (α : Type) where
  | ok (a : α)
  | panic
  | corrupt
  | diverge
deriving Repr, DecidableEq

def Res.isOk {α} : Res α → Bool
  | .ok _ => true
  | _ => false

/-- int32 wrap-around for a single `+ 1` / `- 1` on a rune. -/
def wrap32 (x : Int) : Int :=
  if x > 2147483647 then x - 4294967296 else if x < -2147483648 then x + 4294967296 else x

/-! ### Abstract meaning -/

/-- `x` is a member: some interval contains it. -/
def mem (s : MSet) (x : Int) : Prop := ∃ p ∈ s, p.1 ≤ x ∧ x ≤ p.2

/-- Boolean version of `mem` (used to count members). -/
def memb (s : MSet) (x : Int) : Bool := s.any (fun p => decide (p.1 ≤ x) && decide (x ≤ p.2))

/-! ### AddRange -/

/-- Forward scan `for beginNode.Forward != nil && x > beginNode.Forward.End` on a *linked* list:
    number of steps taken from `&Head`.  The last clause is the step onto `Tail` (`Tail.End = 0`);
    `Tail.Forward == nil` then stops the loop. -/
def fwdScan (x : Int) : MSet → Nat
  | [] => if x > 0 then 1 else 0
  | (_, hi) :: r => if x > hi then fwdScan x r + 1 else 0

/-- Backward scan `for endNode.Backward != nil && e < endNode.Backward.Begin` on a *linked* list;
    the argument is the node list in Backward order (i.e. reversed).  The last clause is the step
    onto `Head` (`Head.Begin = MaxInt32`). -/
def bwdScan (e : Int) : MSet → Nat
  | [] => if e < MAXI then 1 else 0
  | (lo, _) :: r => if e < lo then bwdScan e r + 1 else 0

/-- The `if … else if …` chain of `AddRange` once the two scans have stopped with `beginNode` at
    position `p` and `endNode` at position `q` of a linked list with `k = s.length ≥ 1` nodes.
    `beginNode.Forward == nil` iff `p = k+1` (Tail), `endNode.Backward == nil` iff `q = 0` (Head). -/
def addRangeAt (s : MSet) (b e : Int) (p q : Nat) : Res MSet :=
  let k := s.length
  if p = k + 1 ∧ q = 0 then
    -- branch 1 on a linked list: the new node is spliced between Tail and Head.
    .corrupt
  else if p ≠ k + 1 ∧ q ≠ 0 ∧ p + 2 = q then
    -- branch 2: beginNode.Forward == endNode.Backward (position p+1 = q-1, a real node)
    match s[p]? with
    | some (lo, hi) =>
      .ok (s.take p ++ [(if b < lo then b else lo, if e > hi then e else hi)] ++ s.drop (p + 1))
    | none => .corrupt
  else if p ≠ k + 1 ∧ q = 0 then
    -- branch 3: insert after beginNode
    .ok (s.take p ++ [(b, e)] ++ s.drop p)
  else if p = k + 1 ∧ q ≠ 0 then
    -- branch 4: insert before endNode
    .ok (s.take (q - 1) ++ [(b, e)] ++ s.drop (q - 1))
  else if p + 1 = q then
    -- branch 5: beginNode.Forward == endNode; insert after beginNode
    .ok (s.take p ++ [(b, e)] ++ s.drop p)
  else if p + 1 = q then
    -- branch 6: beginNode == endNode.Backward; the same condition on a consistent list: dead code
    .ok (s.take (q - 1) ++ [(b, e)] ++ s.drop (q - 1))
  else if p + 2 < q then
    -- branch 7: nodes p+1 … q-1 are replaced by node p+1 with
    --   Begin = min(begin, Begin(p+1)),  End = max(end, End(q-1))
    match s[p]?, s[q - 2]? with
    | some (lo, _), some (_, hi') =>
      .ok (s.take p ++ [(if b < lo then b else lo, max e hi')] ++ s.drop (q - 1))
    | _, _ => .corrupt
  else
    -- branch 7 with q ≤ p (reversed range): node(p+1).Forward = an earlier node, or Tail/Head
    -- are overwritten: the list becomes cyclic.
    .corrupt

/-- `func (s *Set) AddRange(begin, end rune)`. -/
def addRange (s : MSet) (b e : Int) : Res MSet :=
  match s with
  | [] =>
    -- Head.Forward == nil && Tail.Backward == nil: no scan step, first branch.
    .ok [(b, e)]
  | _ :: _ =>
    addRangeAt s b e (fwdScan b s) (s.length + 1 - bwdScan e s.reverse)

/-- Which of the seven branches of `AddRange` is taken (same conditions as `addRangeAt`). -/
def addBranch (s : MSet) (b e : Int) : Nat :=
  match s with
  | [] => 1
  | _ :: _ =>
    let k := s.length
    let p := fwdScan b s
    let q := k + 1 - bwdScan e s.reverse
    if p = k + 1 ∧ q = 0 then 1
    else if p ≠ k + 1 ∧ q ≠ 0 ∧ p + 2 = q then 2
    else if p ≠ k + 1 ∧ q = 0 then 3
    else if p = k + 1 ∧ q ≠ 0 then 4
    else if p + 1 = q then 5
    else if p + 1 = q then 6
    else 7

/-- `func (s *Set) Add(a rune)`. -/
def add (s : MSet) (a : Int) : Res MSet := addRange s a a

/-! ### Has -/

/-- `func (s *Set) Has(begin rune) bool`. -/
def has (s : MSet) (x : Int) : Bool :=
  match s with
  | [] => false                                   -- Head.Forward == nil
  | _ :: _ =>
    let p := fwdScan x s
    if p = s.length + 1 then false                -- stopped on Tail: Forward == nil
    else match s[p]? with
      | some (lo, _) => decide (x ≥ lo)
      | none => decide (x ≥ 0)                    -- beginNode.Forward == &Tail, Tail.Begin = 0

/-! ### Len, Copy, String -/

/-- `func (s *Set) Len() int` (Go `int` is 64 bit: no wrap-around for rune intervals). -/
def len : MSet → Int
  | [] => 0
  | (lo, hi) :: r => (hi - lo + 1) + len r

/-- `func (s *Set) Copy() *Set`: node by node. -/
def copy : MSet → MSet
  | [] => []
  | (lo, hi) :: r => (lo, hi) :: copy r

/-- `for code := lo; code <= hi; code++`. -/
def ivElems (lo hi : Int) : List Int :=
  (List.range (hi + 1 - lo).toNat).map (fun (i : Nat) => lo + (i : Int))

/-- The numbers `String` prints, in order. -/
def elems : MSet → Res (List Int)
  | [] => .ok []
  | (lo, hi) :: r =>
    if lo ≤ hi ∧ hi ≥ MAXI then .diverge
    else match elems r with
      | .ok l => .ok (ivElems lo hi ++ l)
      | .panic => .panic
      | .corrupt => .corrupt
      | .diverge => .diverge

def render (l : List Int) : String := "[" ++ " ".intercalate (l.map toString) ++ "]"

/-- `func (s *Set) String() string`. -/
def toStr (s : MSet) : Res String :=
  match elems s with
  | .ok l => .ok (render l)
  | .panic => .panic
  | .corrupt => .corrupt
  | .diverge => .diverge

/-! ### Union -/

/-- The loop of `Union`: `set.AddRange(node.Begin, node.End)` for every node of `a`. -/
def addAll (acc : MSet) : MSet → Res MSet
  | [] => .ok acc
  | (lo, hi) :: r =>
    match addRange acc lo hi with
    | .ok acc' => addAll acc' r
    | .panic => .panic
    | .corrupt => .corrupt
    | .diverge => .diverge

/-- `func (s *Set) Union(a *Set) *Set`. -/
def union (s a : MSet) : Res MSet := addAll (copy s) a

/-! ### Intersects -/

def hit (x y : Iv) : Bool :=
  (decide (y.1 ≥ x.1) && decide (y.1 ≤ x.2)) || (decide (y.2 ≥ x.1) && decide (y.2 ≤ x.2))

/-- inner `for y.Forward != nil` loop: `true` = `return true`. -/
def interInner (x : Iv) : MSet → Bool
  | [] => false
  | y :: ys => if hit x y then true else interInner x ys

/-- outer loop over the nodes of the first argument against the whole of `b`;
    `some r` = the function returned `r`, `none` = the loop ran to completion. -/
def interOuter (b : MSet) : MSet → Option Bool
  | [] => none
  | x :: xs =>
    if b.isEmpty then some false                 -- `y == nil`
    else if interInner x b then some true
    else interOuter b xs

/-- `func (s *Set) Intersects(b *Set) bool`. -/
def intersects (s b : MSet) : Bool :=
  if s.isEmpty then false
  else match interOuter b s with
    | some r => r
    | none =>
      if b.isEmpty then false
      else match interOuter s b with
        | some r => r
        | none => false

/-! ### Complement -/

/-- The `for a.Forward != nil` loop of `Complement` plus the final `if !covered && pre <= endSymbol`;
    returns the nodes appended to the result, in order. -/
def compLoop (limit : Int) (pre : Int) (covered : Bool) : MSet → MSet
  | [] => if !covered && decide (pre ≤ limit) then [(pre, limit)] else []
  | (lo, hi) :: r =>
    (if pre < lo then [(pre, wrap32 (lo - 1))] else []) ++
      (if hi ≥ limit then compLoop limit pre true r
       else compLoop limit (wrap32 (hi + 1)) covered r)

/-- `func (s *Set) Complement(endSymbol rune) *Set`. -/
def complement (s : MSet) (limit : Int) : MSet :=
  match s with
  | [] => [(0, limit)]                                   -- Len() == 0
  | (lo, hi) :: r =>
    if len s = 0 then [(0, limit)]
    else if lo = 0 ∧ hi = limit then []
    else if 0 = lo then compLoop limit (wrap32 (hi + 1)) false r
    else compLoop limit 0 false s

/-! ### Equal -/

/-- the `for` inside `run`: extends `end` over overlapping or adjacent successors. -/
def runEnd (end_ : Int) : MSet → Int × MSet
  | [] => (end_, [])
  | (lo, hi) :: r => if lo ≤ end_ + 1 then runEnd (max end_ hi) r else (end_, (lo, hi) :: r)

/-- `run(n)`: `none` = `ok == false` (n is nil or Tail). -/
def run : MSet → Option (Int × Int × MSet)
  | [] => none
  | (lo, hi) :: r => some (lo, (runEnd hi r).1, (runEnd hi r).2)

/-- the `for { … }` of `Equal`, with fuel (`0` = the loop did not finish: `.diverge`). -/
def equalLoop : Nat → MSet → MSet → Res Bool
  | 0, _, _ => .diverge
  | f + 1, x, y =>
    match run x, run y with
    | none, none => .ok true
    | none, some _ => .ok false
    | some _, none => .ok false
    | some (xb, xe, xn), some (yb, ye, yn) =>
      if xb ≠ yb ∨ xe ≠ ye then .ok false else equalLoop f xn yn

/-- `func (s *Set) Equal(a *Set) bool`. -/
def equal (s a : MSet) : Res Bool := equalLoop (s.length + 1) s a

/-! ### Building a set from a sequence of AddRange calls -/

def build (ops : List Iv) : Res MSet := addAll [] ops

end PegVerif.MSet
