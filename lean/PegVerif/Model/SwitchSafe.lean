import PegVerif.Model.Sem
import PegVerif.Proofs.TotalLemmas
/-
  Translation validation of the `-switch` rewrite (`Model/Optimise.lean`).

  The rewrite `optimizeAlternates` is not proved correct (it was unsound for some grammars before
  its repair, and its first sets are computed with the interval sets of `set/set.go`).  Instead `swOK G G'` is a decidable, executable check of ONE pair (grammar,
  rewritten grammar); `Proofs/SwitchLemmas.lean` proves that an accepted pair is semantically
  equivalent (`Eval_switch`).

  * `firstE G' f e`   a SOUND first set: `some K` promises that `e` can only succeed at a position
                      whose next symbol (`peek`, the end symbol beyond the input) is in `K`;
                      `none` = unknown.  These are never incomplete: an expression that can
                      succeed without consuming gets `none`, and a sequence that starts with `a?`
                      or `a*` gets the union of the first sets of `a` and of the rest.
  * `swMatchE F e e'` `e'` is `e` up to rewriting ordered choices into `ualt ks us` or
                      `alt (os ++ [ualt ks us])`, each rewritten choice passing `rearrOK`.
  * `swOK G G'`       same rules (names, ids, order), bodies related, `G'` well-formed (`WFB`, which
                      is what supplies derivations for alternatives that are now tried EARLIER than
                      in `G`).

  Everything here is structurally recursive (fuel), so it runs in the driver and under `decide`.
-/
namespace PegVerif

/-! ## 1. Key sets -/

/-- No code point in both (every pair of ranges is separated). -/
def KeySet.disj (a b : KeySet) : Bool :=
  a.all (fun r => b.all (fun s => decide (r.2 < s.1) || decide (s.2 < r.1)))

/-- `[lo, hi] ⊆ b`, where `b` may cover the range by several pieces; `fuel` bounds the number of
    pieces. -/
def KeySet.covers (b : KeySet) : Nat → Nat → Nat → Bool
  | 0, _, _ => false
  | f + 1, lo, hi =>
    match b.find? (fun s => decide (s.1 ≤ lo) && decide (lo ≤ s.2)) with
    | none => false
    | some s => decide (hi ≤ s.2) || KeySet.covers b f (s.2 + 1) hi

/-- `a ⊆ b`. -/
def KeySet.sub (a b : KeySet) : Bool :=
  a.all (fun r => decide (r.2 < r.1) || KeySet.covers b (b.length + 1) r.1 r.2)

/-! ## 2. Sound first sets -/

/-- First set WITH nullability.  `some (K, n)` promises: if the expression succeeds at `p` then
    `K.has (peek inp p)`, or `n = true` and it succeeded without consuming (it ended at `p`).
    `none` = unknown.  `.` gets `none`: the model's input alphabet is all of `Nat`, so "every symbol
    but the end symbol" is not a finite list of ranges (and such a set could never be disjoint from
    another alternative's anyway). -/
def firstZ (G : Grammar) : Nat → Expr → Option (KeySet × Bool)
  | 0, _ => none
  | _ + 1, .chr c => some ([(c, c)], false)
  | _ + 1, .rng lo hi => some ([(lo, hi)], false)
  | _ + 1, .str (c :: _) => some ([(c, c)], false)
  | f + 1, .name n =>
    match G.body n with
    | some b => firstZ G f b
    | none => none
  | f + 1, .inl _ e => firstZ G f e
  | _ + 1, .seq [] => some ([], true)
  | f + 1, .seq (e :: es) =>
    match firstZ G f e with
    | none => none
    | some (K, false) => some (K, false)
    | some (K, true) =>
      match firstZ G f (.seq es) with
      | none => none
      | some (K2, n2) => some (K ++ K2, n2)
  | _ + 1, .alt [] => some ([], false)
  | f + 1, .alt (e :: es) =>
    match firstZ G f e, firstZ G f (.alt es) with
    | some (K1, n1), some (K2, n2) => some (K1 ++ K2, n1 || n2)
    | _, _ => none
  | f + 1, .ualt _ es => firstZ G f (.alt es)
  | f + 1, .plus e =>
    match firstZ G f e with
    | some (K, false) => some (K, false)
    | _ => none
  | f + 1, .query e =>
    match firstZ G f e with
    | some (K, _) => some (K, true)
    | none => none
  | f + 1, .star e =>
    match firstZ G f e with
    | some (K, false) => some (K, true)
    | _ => none
  | _ + 1, .peekFor _ => some ([], true)
  | _ + 1, .peekNot _ => some ([], true)
  | _ + 1, .pred _ => some ([], true)
  | _ + 1, .stmt _ => some ([], true)
  | _ + 1, .act _ => some ([], true)
  | _ + 1, .nil => some ([], true)
  | f + 1, .push e _ => firstZ G f e
  | f + 1, .ipush e _ => firstZ G f e
  | _ + 1, _ => none

/-- `some K`: if the expression succeeds at `p` then `K.has (peek inp p)` (the first set of an
    expression that must consume). -/
def firstE (G : Grammar) (f : Nat) (e : Expr) : Option KeySet :=
  match firstZ G f e with
  | some (K, false) => some K
  | _ => none

/-- The fuel `swOK` uses (that of the well-formedness check). -/
def swFuel (G : Grammar) : Nat := wfFuel G

/-! ## 3. The rearrangement check -/

/-- `firstE` of both known and disjoint. -/
def disjF (F : Expr → Option KeySet) (a b : Expr) : Bool :=
  match F a, F b with
  | some A, some B => A.disj B
  | _, _ => false

/-- The targets in ORIGINAL order, from the assignment `tags` (`none` = the next ordered
    alternative, `some k` = case `k` of the switch).  Checks on the way that the ordered alternatives
    are used up exactly, and the order-reversal guard: an ordered alternative that originally came
    AFTER an unordered one (so it is now tried before it) has a first set disjoint from it. -/
def walk (F : Expr → Option KeySet) (us : List Expr) : List (Option Nat) → List Expr → Option (List Expr)
  | [], [] => some []
  | [], _ :: _ => none
  | none :: _, [] => none
  | none :: tags, o :: os => (walk F us tags os).map (o :: ·)
  | some k :: tags, os =>
    match us[k]? with
    | none => none
    | some u => if os.all (fun o => disjF F o u) then (walk F us tags os).map (u :: ·) else none

/-- Case `k` with body `u` is selected whenever `u` can succeed: its first set is inside its own
    keys (unless it is the default) and disjoint from the keys of every earlier case. -/
def keyOK (F : Expr → Option KeySet) (ks : List KeySet) (n : Nat) (k : Nat) (u : Expr) : Bool :=
  match F u with
  | none => false
  | some K =>
    (decide (k = n - 1) || (match ks[k]? with | some Kk => K.sub Kk | none => false)) &&
      ((ks.take (n - 1)).take k).all (fun Kj => K.disj Kj)

def keysOKFrom (F : Expr → Option KeySet) (ks : List KeySet) (n : Nat) : Nat → List Expr → Bool
  | _, [] => true
  | k, u :: us => keyOK F ks n k u && keysOKFrom F ks n (k + 1) us

/-- The search for an assignment, on the matrix `M[i][j]` = "original alternative `i` matches target
    `j` of `os ++ us`".  Greedy: the next unused ordered alternative if it matches, else the first
    unused case that matches.  (Soundness does not depend on this function.) -/
def findTags (nOrd nUn : Nat) : List (List Bool) → Nat → List Nat → Option (List (Option Nat))
  | [], _, _ => some []
  | row :: rows, io, used =>
    if io < nOrd && row.getD io false then
      (findTags nOrd nUn rows (io + 1) used).map (none :: ·)
    else
      match (List.range nUn).find? (fun k => !used.contains k && row.getD (nOrd + k) false) with
      | none => none
      | some k => (findTags nOrd nUn rows io (k :: used)).map (some k :: ·)

def splitLast : List Expr → Option (List Expr × Expr)
  | [] => none
  | [e] => some ([], e)
  | e :: es => (splitLast es).map (fun p => (e :: p.1, p.2))

/-- `alt es` (`nEs` alternatives) against the ordered alternatives `os` followed by the switch
    `ualt ks us`: find an assignment and verify it.  `matchTs ts` = the original alternatives match
    `ts` pointwise. -/
def rearrCheck (F : Expr → Option KeySet) (nEs : Nat) (os : List Expr) (ks : List KeySet)
    (us : List Expr) (M : List (List Bool)) (matchTs : List Expr → Bool) : Bool :=
  match findTags os.length us.length M 0 [] with
  | none => false
  | some tags =>
    match walk F us tags os with
    | none => false
    | some ts =>
      matchTs ts &&
        !us.isEmpty && decide (us.length - 1 ≤ ks.length) &&
        decide (nEs = os.length + us.length) &&
        (List.range us.length).all (fun k => tags.contains (some k)) &&
        keysOKFrom F ks us.length 0 us

mutual
  /-- `e'` is `e` with some ordered choices rewritten into switches, each rewrite passing the
      guard conditions (first sets `F`, computed on the rewritten grammar). -/
  def swMatchE (F : Expr → Option KeySet) : Expr → Expr → Bool
    | .dot, .dot => true
    | .chr c, .chr c' => c == c'
    | .rng lo hi, .rng lo' hi' => lo == lo' && hi == hi'
    | .str s, .str s' => s == s'
    | .name n, .name n' => n == n'
    | .inl n e, .inl n' e' => n == n' && swMatchE F e e'
    | .pred c, .pred c' => c == c'
    | .stmt c, .stmt c' => c == c'
    | .act c, .act c' => c == c'
    | .nil, .nil => true
    | .seq es, .seq es' => swMatchL F es es'
    | .ualt ks es, .ualt ks' es' => ks == ks' && swMatchL F es es'
    | .peekFor e, .peekFor e' => swMatchE F e e'
    | .peekNot e, .peekNot e' => swMatchE F e e'
    | .query e, .query e' => swMatchE F e e'
    | .star e, .star e' => swMatchE F e e'
    | .plus e, .plus e' => swMatchE F e e'
    | .push e r, .push e' r' => r == r' && swMatchE F e e'
    | .ipush e r, .ipush e' r' => r == r' && swMatchE F e e'
    | .alt es, .alt es' =>
      swMatchL F es es' ||
        (match splitLast es' with
         | some (os, .ualt ks us) =>
           rearrCheck F es.length os ks us (swMatrix F es (os ++ us)) (fun ts => swMatchL F es ts)
         | _ => false)
    | .alt es, .ualt ks us =>
      rearrCheck F es.length [] ks us (swMatrix F es us) (fun ts => swMatchL F es ts)
    | _, _ => false
  def swMatchL (F : Expr → Option KeySet) : List Expr → List Expr → Bool
    | [], [] => true
    | e :: es, e' :: es' => swMatchE F e e' && swMatchL F es es'
    | _, _ => false
  /-- `swMatchE` of every original alternative with every candidate target. -/
  def swMatrix (F : Expr → Option KeySet) : List Expr → List Expr → List (List Bool)
    | [], _ => []
    | e :: es, cands => cands.map (fun t => swMatchE F e t) :: swMatrix F es cands
end

/-! ## 4. The grammar-level check -/

def swRules (F : Expr → Option KeySet) : List Rule → List Rule → Bool
  | [], [] => true
  | r :: rs, r' :: rs' =>
    r.name == r'.name && r.id == r'.id && swMatchE F r.body r'.body && swRules F rs rs'
  | _, _ => false

/-- `G'` is an acceptable `-switch` rewrite of `G`. -/
def swOK (G G' : Grammar) : Bool :=
  WFB G' && swRules (firstE G' (swFuel G')) G.rules G'.rules

end PegVerif
