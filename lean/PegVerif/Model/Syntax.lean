import PegVerif.Model.Basic
/-
  The rule tree of `tree/peg.go` (`node` with `Type`, `string`, children) as an inductive type.
  One constructor per node `Type` that can occur below a `TypeRule`; the same type is used for the
  tree the front end builds (names unresolved, `act` nodes, `push`/`ipush` without rule) and for
  the tree after `link` / `-switch` rewriting / `-inline` expansion.

  | constructor | Go node type              | remarks                                              |
  |-------------|---------------------------|------------------------------------------------------|
  | dot         | TypeDot                   |                                                      |
  | chr c       | TypeCharacter             | `n.string` is exactly one rune                       |
  | rng lo hi   | TypeRange                 | two TypeCharacter children                           |
  | str s       | TypeString                | never built by the front end (API only)              |
  | name n      | TypeName                  | reference by rule name (`t.Rules[n.String()]`)       |
  | inl n e     | TypeName under `-inline`  | reference compiled in place; `e` = body of rule `n`  |
  | pred c      | TypePredicate  `&{c}`     | Go boolean expression                                |
  | stmt c      | TypeStateChange `!{c}`    | plain Go statement, always succeeds                  |
  | act c       | TypeAction `{c}`          | replaced by `name ActionN` in `link`                 |
  | seq / alt   | TypeSequence / Alternate  |                                                      |
  | ualt ks es  | TypeUnorderedAlternate    | `-switch`; `ks[i]` = case keys of `es[i]`, the last  |
  |             |                           | element is the `default:` body (its keys unused)     |
  | peekFor …   | TypePeekFor … TypePlus    |                                                      |
  | push e r    | TypePush `<e>`            | after `link`, `r = "PegText"`                        |
  | ipush e r   | TypeImplicitPush          | rule wrapper, `r` = the rule's name                  |
  | nil         | TypeNil                   | empty alternative / empty expression                 |
-/
namespace PegVerif

/-- The case keys of one `-switch` case: code points as a list of inclusive ranges (the generator
    enumerates every code point of a first set; `.` alone has 1 114 112 of them). -/
abbrev KeySet := List (Nat × Nat)

def KeySet.has (ks : KeySet) (c : Nat) : Bool := ks.any (fun r => decide (r.1 ≤ c) && decide (c ≤ r.2))

/-- Number of code points (`class.Len()` in the generator). -/
def KeySet.card (ks : KeySet) : Nat := ks.foldl (fun acc r => acc + (r.2 + 1 - r.1)) 0

inductive Expr where
  | dot
  | chr (c : Sym)
  | rng (lo hi : Sym)
  | str (s : List Sym)
  | name (n : String)
  | inl (n : String) (body : Expr)
  | pred (code : String)
  | stmt (code : String)
  | act (code : String)
  | seq (es : List Expr)
  | alt (es : List Expr)
  | ualt (keys : List KeySet) (es : List Expr)
  | peekFor (e : Expr)
  | peekNot (e : Expr)
  | query (e : Expr)
  | star (e : Expr)
  | plus (e : Expr)
  | push (e : Expr) (rule : String)
  | ipush (e : Expr) (rule : String)
  | nil
deriving Repr, Inhabited

/-- A `TypeRule` node: name, `id` (the `node.id`, used as memoisation key) and its only child. -/
structure Rule where
  name : String
  id : Nat
  body : Expr
deriving Repr, Inhabited

/-- The `TypeRule` children of the tree, in `t.Iterator()` order. -/
structure Grammar where
  rules : List Rule
deriving Repr, Inhabited

/-- `t.Rules[name]` after the first pass of `Compile`: the *first* rule with that name. -/
def Grammar.find (G : Grammar) (n : String) : Option Rule :=
  G.rules.find? (fun r => r.name == n)

def Grammar.body (G : Grammar) (n : String) : Option Expr :=
  (G.find n).map (·.body)

end PegVerif
