import PegVerif.Proofs.TotalLemmas
import PegVerif.Proofs.LinkLemmas
import PegVerif.Proofs.AlwaysLemmas
import PegVerif.Proofs.InlineLemmas
import PegVerif.Proofs.LinkNoast
import PegVerif.Proofs.SwitchSafeDef
import PegVerif.Proofs.InlineSwitchSafeDef
import PegVerif.Proofs.NoastSwitchSafeDef
import PegVerif.Proofs.InlineNoastSafeDef
/-
  The one decidable hypothesis of the summary theorems of `Props/AllOptions.lean`, in a file of its
  own (definitions only; it imports exactly what `Exec/Driver.lean` imports already) so that a
  driver can evaluate the very definition the theorems use.

  Nothing new is computed here: `theoremApplies` is a conjunction of the existing Bool checkers
  (`WFB`, `GrammarOK`, `LinkedOK`, `Expr.plain`, and the side condition of the option set:
  `GrammarOKI`, `switchSafe`, `inlineSwitchSafe`, `GrammarOKN`, `inlineNoastSafe`, `noastSwitchSafe`,
  `inlineNoastSwitchSafe`), selected by the three option bits.  `&&` is lazy: the option set's
  checker is only run when the default parser's hypotheses hold.
-/
namespace PegVerif
open Noast

/-- The default option set of peg: no `-inline`, no `-switch`, AST mode. -/
def dfltOpts : Opts := { inline := false, switch := false, ast := true }

/-- The hypotheses of the default parser's end-to-end theorem (`C01_wellformed`) on the linked
    grammar `G`: Ford's well-formedness, `GrammarOK`, `LinkedOK`, and no `-inline`/`-switch` node
    in any rule body (from which `G.plain` follows by `Grammar.plain_of_all`). -/
def defaultParserOK (G : Grammar) : Bool :=
  WFB G && GrammarOK G && LinkedOK G && G.rules.all (fun r => r.body.plain)

/-- The side condition of the option set `o` itself (table in `Props/AllOptions.lean`).  `G` is the
    linked grammar, `G'` the grammar the emission works on; `G'` is READ ONLY WHEN `o.switch`
    (without `-switch` the emission works on `G`). -/
def optionSetOK (o : Opts) (G G' : Grammar) : Bool :=
  match o.inline, o.switch, o.ast with
  | false, false, true  => true                          -- ''   Props/C01.lean
  | true,  false, true  => GrammarOKI G                   -- i    Props/C02.lean
  | false, true,  true  => switchSafe G G'                -- s    Props/C02Switch.lean
  | true,  true,  true  => inlineSwitchSafe G G'          -- is   Props/C02InlineSwitch.lean
  | false, false, false => GrammarOKN (Kall G) G          -- n    Props/C07.lean
  | true,  false, false => inlineNoastSafe G              -- in   Props/C07Inline.lean
  | false, true,  false => noastSwitchSafe G G'           -- sn   Props/C07Switch.lean
  | true,  true,  false => inlineNoastSwitchSafe G G'     -- isn  Props/C07Inline.lean

/-- **The decidable hypothesis of `all_options_same_verdict` / `all_options_run_exists`**: the
    default parser's hypotheses on the linked grammar `G` and the side condition of the option set
    `o` on `G` and the grammar `G'` the emission works on (`optimise G` with `-switch`; not read
    otherwise).  When it is `true`, the parser emitted as `compileAll o G'` (`G' = G` without
    `-switch`) is proved to behave like the default parser `compileAll dfltOpts G`. -/
def theoremApplies (o : Opts) (G G' : Grammar) : Bool :=
  defaultParserOK G && optionSetOK o G G'

/-- The eight option sets. -/
def allOpts : List Opts :=
  [ { inline := false, switch := false, ast := true },
    { inline := true,  switch := false, ast := true },
    { inline := false, switch := true,  ast := true },
    { inline := true,  switch := true,  ast := true },
    { inline := false, switch := false, ast := false },
    { inline := true,  switch := false, ast := false },
    { inline := false, switch := true,  ast := false },
    { inline := true,  switch := true,  ast := false } ]

end PegVerif
