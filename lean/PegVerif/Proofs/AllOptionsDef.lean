import PegVerif.Proofs.TotalLemmas
import PegVerif.Proofs.LinkLemmas
import PegVerif.Proofs.AlwaysLemmas
import PegVerif.Proofs.InlineLemmas
import PegVerif.Proofs.LinkNoast
import PegVerif.Proofs.SwitchSafeDef
import PegVerif.Proofs.InlineSwitchSafeDef
import PegVerif.Proofs.NoastSwitchSafeDef
import PegVerif.Proofs.InlineNoastSafeDef
import PegVerif.Proofs.FastCheckDef
import PegVerif.Proofs.KactsDef
/-
  The one decidable hypothesis of the summary theorems of `Props/AllOptions.lean`, in a file of its
  own (definitions only; it imports exactly what `Exec/Driver.lean` imports already) so that a
  driver can evaluate the very definition the theorems use.

  Nothing new is decided here: `theoremApplies` is a conjunction of the existing Bool checkers
  (`WFB`, `GrammarOK`, `LinkedOK`, `Expr.plain`, and the side condition of the option set:
  `GrammarOKI`, `switchSafe`, `inlineSwitchSafe`, `GrammarOKN`, `inlineNoastSafe`, `noastSwitchSafe`,
  `inlineNoastSwitchSafe`), selected by the three option bits.  `&&` is lazy: the option set's
  checker is only run when the default parser's hypotheses hold.

  Cost.  `GrammarOK`, `GrammarOKS`, `GrammarOKI`, `GrammarOKIS` recompute the reachability closure /
  the emitted program per rule and per reference (cubic in the number of rules); `theoremApplies`
  evaluates the versions of `Proofs/FastCheckDef.lean` instead (`GrammarOKfast`, `GrammarOKIfast`,
  `switchSafeFast`, `inlineSwitchSafeFast`, `noastSwitchSafeKfast`), which share those quantities
  between the rules and are PROVED EQUAL to the originals in `Proofs/FastCheck.lean`
  (`GrammarOKfast_eq`, …): the table in `Props/AllOptions.lean` lists the originals.

  `-noast`.  The four `-noast` side conditions are the `K`-parametrised checkers (`GrammarOKN K`,
  `inlineNoastSafeK K`, `noastSwitchSafeK K`, `inlineNoastSwitchSafeK K`) at the kit `Kacts`
  (`Proofs/KactsDef.lean`: the trace entries of actions are compared, those of state-change
  statements are not), so grammars with state-change statements are covered; the `Kall` instances
  (`inlineNoastSafe`, …: no statements) imply them (`Proofs/Kacts.lean`).
-/
namespace PegVerif
open Noast

/-- The default option set of peg: no `-inline`, no `-switch`, AST mode. -/
def dfltOpts : Opts := { inline := false, switch := false, ast := true }

/-- The hypotheses of the default parser's end-to-end theorem (`C01_wellformed`) on the linked
    grammar `G`: Ford's well-formedness, `GrammarOK`, `LinkedOK`, and no `-inline`/`-switch` node
    in any rule body (from which `G.plain` follows by `Grammar.plain_of_all`).
    `GrammarOKfast G = GrammarOK G` (`GrammarOKfast_eq`). -/
def defaultParserOK (G : Grammar) : Bool :=
  WFB G && GrammarOKfast G && LinkedOK G && G.rules.all (fun r => r.body.plain)

/-- The side condition of the option set `o` itself (table in `Props/AllOptions.lean`).  `G` is the
    linked grammar, `G'` the grammar the emission works on; `G'` is READ ONLY WHEN `o.switch`
    (without `-switch` the emission works on `G`). -/
def optionSetOK (o : Opts) (G G' : Grammar) : Bool :=
  match o.inline, o.switch, o.ast with
  | false, false, true  => true                          -- ''   Props/C01.lean
  | true,  false, true  => GrammarOKIfast G               -- i    Props/C02.lean            (= GrammarOKI G)
  | false, true,  true  => switchSafeFast G G'            -- s    Props/C02Switch.lean      (= switchSafe G G')
  | true,  true,  true  => inlineSwitchSafeFast G G'      -- is   Props/C02InlineSwitch.lean (= inlineSwitchSafe G G')
  | false, false, false => noastSafeA G                   -- n    Props/C07.lean            (GrammarOKN (Kacts G) G)
  | true,  false, false => inlineNoastSafeA G             -- in   Props/C07Inline.lean      (inlineNoastSafeK (Kacts G) G)
  | false, true,  false => noastSwitchSafeA G G'          -- sn   Props/C07Switch.lean      (= noastSwitchSafeK (Kacts G') G G')
  | true,  true,  false => inlineNoastSwitchSafeA G G'    -- isn  Props/C07Inline.lean      (inlineNoastSwitchSafeK (Kacts G') G G')

/-- **The decidable hypothesis of `all_options_same_verdict` / `all_options_run_exists`**: the
    default parser's hypotheses on the linked grammar `G` and the side condition of the option set
    `o` on `G` and the grammar `G'` the emission works on (`optimise G` with `-switch`; not read
    otherwise).  When it is `true`, the parser emitted as `compileAll o G'` (`G' = G` without
    `-switch`) is proved to behave like the default parser `compileAll dfltOpts G`. -/
def theoremApplies (o : Opts) (G G' : Grammar) : Bool :=
  defaultParserOK G && optionSetOK o G G'

/-- The eight option sets. -/
def allOpts : List Opts :=
  [ { inline := false, switch := false, ast := true },
    { inline := true,  switch := false, ast := true },
    { inline := false, switch := true,  ast := true },
    { inline := true,  switch := true,  ast := true },
    { inline := false, switch := false, ast := false },
    { inline := true,  switch := false, ast := false },
    { inline := false, switch := true,  ast := false },
    { inline := true,  switch := true,  ast := false } ]

end PegVerif
