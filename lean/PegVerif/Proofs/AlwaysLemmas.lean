import PegVerif.Model.Sem
import PegVerif.Model.Analysis
/-
  Soundness of `CheckAlwaysSucceeds` (`casF` / `alwaysSucceeds`): if the analysis answers `true`
  for a rule, the PEG semantics has no failing derivation for a reference to that rule.

  The analysis answers `true` for a reference to a rule that is currently being visited.  This is
  sound because a failing derivation is a finite object: `FailN k e p` abstracts "there is a failing
  derivation of `e` at `p` whose *failure spine* has height ≤ k" (only the failing premises of the
  constructors `casF` looks through are tracked), every failing `Eval` derivation has such a bound,
  and the soundness argument is an induction on the bound `k`.

  `casF` treats `.inl n _` like `.name n` (it looks at the body of rule `n`, `Eval` evaluates the
  stored copy), so the theorem is stated for grammars whose rule bodies contain no `inl` node
  (`plainS`); `inl` nodes are created by the later `-inline` pass only.  A `-switch` node `.ualt` is
  answered `false` outright (and `casF` never looks below it), so it may occur anywhere.  `plain`
  (no `inl` and no `ualt`) is the stronger condition used by the properties about the default
  generator; it implies `plainS`.
-/
namespace PegVerif

/-! ### The side condition: no `inl`, no `ualt` -/

mutual
  /-- No `inl` and no `ualt` node anywhere below. -/
  def Expr.plain : Expr → Bool
    | .inl _ _ => false
    | .ualt _ _ => false
    | .seq es => plainL es
    | .alt es => plainL es
    | .peekFor e => e.plain
    | .peekNot e => e.plain
    | .query e => e.plain
    | .star e => e.plain
    | .plus e => e.plain
    | .push e _ => e.plain
    | .ipush e _ => e.plain
    | _ => true
  def plainL : List Expr → Bool
    | [] => true
    | e :: es => e.plain && plainL es
end

/-- Every rule body that `t.Rules[n]` can return is plain. -/
def Grammar.plain (G : Grammar) : Prop := ∀ n b, G.body n = some b → b.plain = true

/-- Decidable sufficient condition for `Grammar.plain`. -/
theorem Grammar.plain_of_all {G : Grammar}
    (h : G.rules.all (fun r => r.body.plain) = true) : G.plain := by
  intro n b hb
  unfold Grammar.body Grammar.find at hb
  cases hf : G.rules.find? (fun r => r.name == n) with
  | none => rw [hf] at hb; simp at hb
  | some r =>
    rw [hf] at hb
    simp only [Option.map_some, Option.some.injEq] at hb
    subst hb
    exact (List.all_eq_true.mp h) r (List.mem_of_find?_eq_some hf)

/-! ### The weaker side condition: no `inl` (a `ualt` may occur, with anything below it) -/

mutual
  /-- No `inl` node, except possibly below a `ualt` (where `casF` never looks). -/
  def Expr.plainS : Expr → Bool
    | .inl _ _ => false
    | .ualt _ _ => true
    | .seq es => plainSL es
    | .alt es => plainSL es
    | .peekFor e => e.plainS
    | .peekNot e => e.plainS
    | .query e => e.plainS
    | .star e => e.plainS
    | .plus e => e.plainS
    | .push e _ => e.plainS
    | .ipush e _ => e.plainS
    | _ => true
  def plainSL : List Expr → Bool
    | [] => true
    | e :: es => e.plainS && plainSL es
end

mutual
  theorem Expr.plain_plainS : ∀ (e : Expr), e.plain = true → e.plainS = true
    | .dot, _ => rfl
    | .chr _, _ => rfl
    | .rng _ _, _ => rfl
    | .str _, _ => rfl
    | .name _, _ => rfl
    | .pred _, _ => rfl
    | .stmt _, _ => rfl
    | .act _, _ => rfl
    | .nil, _ => rfl
    | .ualt _ _, _ => rfl
    | .inl _ _, h => by simp [Expr.plain] at h
    | .seq es, h => by simp only [Expr.plain] at h; simp only [Expr.plainS]; exact plainL_plainSL es h
    | .alt es, h => by simp only [Expr.plain] at h; simp only [Expr.plainS]; exact plainL_plainSL es h
    | .peekFor e, h => by simp only [Expr.plain] at h; simp only [Expr.plainS]; exact Expr.plain_plainS e h
    | .peekNot e, h => by simp only [Expr.plain] at h; simp only [Expr.plainS]; exact Expr.plain_plainS e h
    | .query e, h => by simp only [Expr.plain] at h; simp only [Expr.plainS]; exact Expr.plain_plainS e h
    | .star e, h => by simp only [Expr.plain] at h; simp only [Expr.plainS]; exact Expr.plain_plainS e h
    | .plus e, h => by simp only [Expr.plain] at h; simp only [Expr.plainS]; exact Expr.plain_plainS e h
    | .push e _, h => by simp only [Expr.plain] at h; simp only [Expr.plainS]; exact Expr.plain_plainS e h
    | .ipush e _, h => by simp only [Expr.plain] at h; simp only [Expr.plainS]; exact Expr.plain_plainS e h
  theorem plainL_plainSL : ∀ (es : List Expr), plainL es = true → plainSL es = true
    | [], _ => rfl
    | e :: es, h => by
      simp only [plainL, Bool.and_eq_true] at h
      simp only [plainSL, Bool.and_eq_true]
      exact ⟨Expr.plain_plainS e h.1, plainL_plainSL es h.2⟩
end

/-- Every rule body that `t.Rules[n]` can return is `plainS`. -/
def Grammar.plainS (G : Grammar) : Prop := ∀ n b, G.body n = some b → b.plainS = true

theorem Grammar.plain.plainS {G : Grammar} (h : G.plain) : G.plainS :=
  fun n b hb => Expr.plain_plainS b (h n b hb)

/-- Decidable sufficient condition for `Grammar.plainS`. -/
theorem Grammar.plainS_of_all {G : Grammar}
    (h : G.rules.all (fun r => r.body.plainS) = true) : G.plainS := by
  intro n b hb
  unfold Grammar.body Grammar.find at hb
  cases hf : G.rules.find? (fun r => r.name == n) with
  | none => rw [hf] at hb; simp at hb
  | some r =>
    rw [hf] at hb
    simp only [Option.map_some, Option.some.injEq] at hb
    subst hb
    exact (List.all_eq_true.mp h) r (List.mem_of_find?_eq_some hf)

/-! ### Height-bounded failure -/

/-- Expressions for which `casF` answers `false` outright (given `plainS`). -/
def Expr.leafFail : Expr → Bool
  | .dot => true
  | .chr _ => true
  | .rng _ _ => true
  | .str _ => true
  | .pred _ => true
  | .inl _ _ => true
  | .ualt _ _ => true
  | .peekFor _ => true
  | .peekNot _ => true
  | .plus _ => true
  | _ => false

/-- `FailN k e p`: an over-approximation of "`e` fails at `p` by a derivation whose failure spine
    (through `name`, `seq`, `alt`, `push`, `ipush`) has height at most `k`". -/
inductive FailN (G : Grammar) : Nat → Expr → Nat → Prop where
  | leaf {k e p} : e.leafFail = true → FailN G k e p
  | name {k n b p} : G.body n = some b → FailN G k b p → FailN G (k + 1) (.name n) p
  | seq_hd {k e es p} : FailN G k e p → FailN G (k + 1) (.seq (e :: es)) p
  | seq_tl {k e es p p1} : FailN G k (.seq es) p1 → FailN G (k + 1) (.seq (e :: es)) p
  | alt_last {k e p} : FailN G k e p → FailN G (k + 1) (.alt [e]) p
  | alt_next {k e e' es p} : FailN G k e p → FailN G k (.alt (e' :: es)) p →
      FailN G (k + 1) (.alt (e :: e' :: es)) p
  | push {k e r p} : FailN G k e p → FailN G (k + 1) (.push e r) p
  | ipush {k e r p} : FailN G k e p → FailN G (k + 1) (.ipush e r) p

theorem FailN.succ {G : Grammar} {k e p} (h : FailN G k e p) : FailN G (k + 1) e p := by
  induction h with
  | leaf hl => exact .leaf hl
  | name hb _ ih => exact .name hb ih
  | seq_hd _ ih => exact .seq_hd ih
  | seq_tl _ ih => exact .seq_tl ih
  | alt_last _ ih => exact .alt_last ih
  | alt_next _ _ ih1 ih2 => exact .alt_next ih1 ih2
  | push _ ih => exact .push ih
  | ipush _ ih => exact .ipush ih

theorem FailN.mono {G : Grammar} {k k' e p} (h : FailN G k e p) (hk : k ≤ k') :
    FailN G k' e p := by
  induction hk with
  | refl => exact h
  | step _ ih => exact ih.succ

/-- Every failing derivation has a height bound. -/
theorem Eval.failN {G : Grammar} {ρ : String → Nat → Bool} {inp : List Sym} {e p res evs}
    (h : Eval G ρ inp e p res evs) : res = .fail → ∃ k, FailN G k e p := by
  induction h with
  | dot_ok _ => intro h; cases h
  | dot_fail _ => intro _; exact ⟨0, .leaf rfl⟩
  | chr_ok _ => intro h; cases h
  | chr_fail _ => intro _; exact ⟨0, .leaf rfl⟩
  | rng_ok _ _ _ => intro h; cases h
  | rng_fail _ => intro _; exact ⟨0, .leaf rfl⟩
  | str_ok _ => intro h; cases h
  | str_fail _ => intro _; exact ⟨0, .leaf rfl⟩
  | name hb _ ih => intro h; obtain ⟨k, hk⟩ := ih h; exact ⟨k + 1, .name hb hk⟩
  | inl _ _ => intro _; exact ⟨0, .leaf rfl⟩
  | pred_ok _ => intro h; cases h
  | pred_fail _ => intro _; exact ⟨0, .leaf rfl⟩
  | stmt => intro h; cases h
  | act => intro h; cases h
  | nil => intro h; cases h
  | seq_nil => intro h; cases h
  | seq_fail _ ih => intro h; obtain ⟨k, hk⟩ := ih h; exact ⟨k + 1, .seq_hd hk⟩
  | seq_ok_fail _ _ _ ih2 => intro h; obtain ⟨k, hk⟩ := ih2 h; exact ⟨k + 1, .seq_tl hk⟩
  | seq_ok _ _ _ _ => intro h; cases h
  | alt_last _ ih => intro h; obtain ⟨k, hk⟩ := ih h; exact ⟨k + 1, .alt_last hk⟩
  | alt_ok _ _ => intro h; cases h
  | alt_next _ _ ih1 ih2 =>
    intro h
    obtain ⟨k1, hk1⟩ := ih1 rfl
    obtain ⟨k2, hk2⟩ := ih2 h
    exact ⟨max k1 k2 + 1, .alt_next (hk1.mono (Nat.le_max_left ..)) (hk2.mono (Nat.le_max_right ..))⟩
  | ualt _ _ _ => intro _; exact ⟨0, .leaf rfl⟩
  | peekFor_ok _ _ => intro h; cases h
  | peekFor_fail _ _ => intro _; exact ⟨0, .leaf rfl⟩
  | peekNot_ok _ _ => intro h; cases h
  | peekNot_fail _ _ => intro _; exact ⟨0, .leaf rfl⟩
  | query_ok _ _ => intro h; cases h
  | query_none _ _ => intro h; cases h
  | star_stop _ _ => intro h; cases h
  | star_step _ _ _ _ => intro h; cases h
  | plus_fail _ _ => intro _; exact ⟨0, .leaf rfl⟩
  | plus_ok _ _ _ _ => intro h; cases h
  | push_ok _ _ _ => intro h; cases h
  | push_fail _ _ ih => intro h; obtain ⟨k, hk⟩ := ih h; exact ⟨k + 1, .push hk⟩
  | push_act => intro h; cases h
  | ipush_ok _ _ _ => intro h; cases h
  | ipush_fail _ _ ih => intro h; obtain ⟨k, hk⟩ := ih h; exact ⟨k + 1, .ipush hk⟩
  | ipush_act => intro h; cases h

/-! ### `casF` unfolded -/

theorem plainL_mem {es : List Expr} (h : plainL es = true) : ∀ e ∈ es, e.plain = true := by
  induction es with
  | nil => intro e he; cases he
  | cons a as ih =>
    simp only [plainL, Bool.and_eq_true] at h
    intro e he
    cases he with
    | head => exact h.1
    | tail _ he' => exact ih h.2 e he'

theorem casF_leaf {G : Grammar} {fuel vis e} (hl : e.leafFail = true) (hp : e.plainS = true) :
    casF G fuel vis e = false := by
  cases fuel with
  | zero => rfl
  | succ f => cases e <;> first | rfl | (simp [Expr.leafFail] at hl; done) | (simp [Expr.plainS] at hp; done)

/-! ### Soundness for every height bound -/

theorem casF_sound_aux {G : Grammar} (hG : G.plainS) : ∀ k fuel vis e, e.plainS = true →
    casF G fuel vis e = true → (∀ m ∈ vis, ∀ p, ¬ FailN G k (.name m) p) →
    ∀ p, ¬ FailN G k e p := by
  intro k
  induction k with
  | zero =>
    intro fuel vis e hp hc _ p hF
    cases hF with
    | leaf hl => rw [casF_leaf hl hp] at hc; cases hc
  | succ k ih =>
    intro fuel vis e hp hc hvis p hF
    have hvis' : ∀ m ∈ vis, ∀ p, ¬ FailN G k (.name m) p := fun m hm p h => hvis m hm p h.succ
    cases fuel with
    | zero => simp [casF] at hc
    | succ f =>
      cases hF with
      | leaf hl => rw [casF_leaf hl hp] at hc; cases hc
      | @name _ n b _ hb hF' =>
        simp only [casF, hb] at hc
        by_cases hv : vis.contains n = true
        · exact hvis n (by simpa using hv) p (.name hb hF')
        · simp only [hv] at hc
          refine ih f (n :: vis) b (hG n b hb) (by simpa using hc) ?_ p hF'
          intro m hm p' hF''
          cases hm with
          | head =>
            have hc' : casF G (f + 1) vis (.name n) = true := by
              simp only [casF, hb, hv]; simpa using hc
            exact ih (f + 1) vis (.name n) rfl hc' hvis' p' hF''
          | tail _ hm' => exact hvis' m hm' p' hF''
      | @seq_hd _ e es _ hF' =>
        simp only [casF, List.all_cons, Bool.and_eq_true] at hc
        simp only [Expr.plainS, plainSL, Bool.and_eq_true] at hp
        exact ih f vis e hp.1 hc.1 hvis' p hF'
      | @seq_tl _ e es _ p1 hF' =>
        simp only [casF, List.all_cons, Bool.and_eq_true] at hc
        simp only [Expr.plainS, plainSL, Bool.and_eq_true] at hp
        have hc' : casF G (f + 1) vis (.seq es) = true := by simp only [casF]; exact hc.2
        exact ih (f + 1) vis (.seq es) (by simp only [Expr.plainS]; exact hp.2) hc' hvis' p1 hF'
      | @alt_last _ e _ hF' =>
        simp only [casF, List.any_cons, List.any_nil, Bool.or_false] at hc
        simp only [Expr.plainS, plainSL, Bool.and_eq_true] at hp
        exact ih f vis e hp.1 hc hvis' p hF'
      | @alt_next _ e e' es _ hF1 hF2 =>
        simp only [casF] at hc
        rw [List.any_cons, Bool.or_eq_true] at hc
        simp only [Expr.plainS] at hp
        rw [plainSL, Bool.and_eq_true] at hp
        cases hc with
        | inl h1 => exact ih f vis e hp.1 h1 hvis' p hF1
        | inr h2 =>
          have hc' : casF G (f + 1) vis (.alt (e' :: es)) = true := by simp only [casF]; exact h2
          exact ih (f + 1) vis (.alt (e' :: es)) (by simp only [Expr.plainS]; exact hp.2) hc' hvis'
            p hF2
      | @push _ e r _ hF' =>
        simp only [casF] at hc
        simp only [Expr.plainS] at hp
        exact ih f vis e hp hc hvis' p hF'
      | @ipush _ e r _ hF' =>
        simp only [casF] at hc
        simp only [Expr.plainS] at hp
        exact ih f vis e hp hc hvis' p hF'

/-- Soundness of `casF` for every fuel and every expression, from an empty visited set. -/
theorem casF_sound {G : Grammar} {ρ : String → Nat → Bool} {inp : List Sym} (hG : G.plainS)
    {fuel e} (hp : e.plainS = true) (hc : casF G fuel [] e = true) :
    ∀ p evs, ¬ Eval G ρ inp e p .fail evs := by
  intro p evs h
  obtain ⟨k, hk⟩ := h.failN rfl
  exact casF_sound_aux hG k fuel [] e hp hc (fun m hm => by cases hm) p hk

/-- If `CheckAlwaysSucceeds` answers `true` for rule `n`, a reference to `n` never fails — also in
    a grammar with `-switch` nodes. -/
theorem alwaysSucceeds_soundS {G : Grammar} {ρ : String → Nat → Bool} {inp : List Sym} {n : String}
    (hG : G.plainS) (h : alwaysSucceeds G n = true) :
    ∀ p evs, ¬ Eval G ρ inp (.name n) p .fail evs := by
  intro p evs hE
  unfold alwaysSucceeds at h
  cases hE with
  | name hb hE' =>
    rw [hb] at h
    exact casF_sound hG (hG n _ hb) h p evs hE'

/-- If `CheckAlwaysSucceeds` answers `true` for rule `n`, a reference to `n` never fails. -/
theorem alwaysSucceeds_sound {G : Grammar} {ρ : String → Nat → Bool} {inp : List Sym} {n : String}
    (hG : G.plain) (h : alwaysSucceeds G n = true) :
    ∀ p evs, ¬ Eval G ρ inp (.name n) p .fail evs :=
  alwaysSucceeds_soundS hG.plainS h

/-! ### Non-vacuity: `A <- 'x' / A?`, `B <- A 'y'` -/

def casExG : Grammar :=
  ⟨[⟨"A", 0, .alt [.chr 120, .query (.name "A")]⟩, ⟨"B", 1, .seq [.name "A", .chr 121]⟩,
    ⟨"C", 2, .seq [.name "C", .star .dot]⟩]⟩

example : alwaysSucceeds casExG "A" = true := by decide
example : alwaysSucceeds casExG "B" = false := by decide
/-- The coinductive shortcut in action: `C <- C .*` is answered `true`; it has no derivation at
    all, in particular no failing one. -/
example : alwaysSucceeds casExG "C" = true := by decide

theorem casExG_plain : casExG.plain := Grammar.plain_of_all (by decide)

example (ρ : String → Nat → Bool) (inp : List Sym) (p : Nat) (evs : List Token) :
    ¬ Eval casExG ρ inp (.name "A") p .fail evs :=
  alwaysSucceeds_sound casExG_plain (by decide) p evs

end PegVerif

#print axioms PegVerif.alwaysSucceeds_sound
#print axioms PegVerif.alwaysSucceeds_soundS
