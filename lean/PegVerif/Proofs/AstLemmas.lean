import PegVerif.Model.AstSpec
/-
  Helper lemmas for `Props/C05Ast.lean` and `Props/C04Exec.lean` (core Lean only).
-/
namespace PegVerif

/-! ## Unfolding lemmas for the mutual definitions -/

@[simp] theorem WellNested_node (t : Token) (kids : List TokTree) :
    WellNested (.node t kids) ↔ t.b ≤ t.e ∧ WellNestedL t.b t.e kids := by simp [WellNested]
@[simp] theorem WellNestedL_nil (lo hi : Nat) : WellNestedL lo hi [] ↔ lo ≤ hi := by
  simp [WellNestedL]
@[simp] theorem WellNestedL_cons (lo hi : Nat) (k : TokTree) (ks : List TokTree) :
    WellNestedL lo hi (k :: ks) ↔ lo ≤ k.tok.b ∧ WellNested k ∧ WellNestedL k.tok.e hi ks := by
  simp [WellNestedL]

@[simp] theorem tok_node (t : Token) (kids : List TokTree) : (TokTree.node t kids).tok = t := rfl
@[simp] theorem kids_node (t : Token) (kids : List TokTree) : (TokTree.node t kids).kids = kids := rfl

@[simp] theorem pruneT_node (t : Token) (kids : List TokTree) :
    pruneT (.node t kids) = if t.b = t.e then [] else [.node t (prune kids)] := by simp [pruneT]
@[simp] theorem prune_nil : prune [] = [] := by simp [prune]
@[simp] theorem prune_cons (k : TokTree) (ks : List TokTree) :
    prune (k :: ks) = pruneT k ++ prune ks := by simp [prune]

@[simp] theorem preorderT_node (d : Nat) (t : Token) (kids : List TokTree) :
    preorderT d (.node t kids) = (d, t) :: preorder (d + 1) kids := by simp [preorderT]
@[simp] theorem preorder_nil (d : Nat) : preorder d [] = [] := by simp [preorder]
@[simp] theorem preorder_cons (d : Nat) (k : TokTree) (ks : List TokTree) :
    preorder d (k :: ks) = preorderT d k ++ preorder d ks := by simp [preorder]

theorem prune_append (a b : List TokTree) : prune (a ++ b) = prune a ++ prune b := by
  induction a with
  | nil => simp
  | cons k ks ih => simp [ih]

theorem mem_postorderL {x : Token} {k : TokTree} : ∀ {l : List TokTree},
    k ∈ l → x ∈ k.postorder → x ∈ postorderL l
  | [], hk, _ => by simp at hk
  | a :: l, hk, hx => by
    simp only [List.mem_cons] at hk
    simp only [postorderL_cons, List.mem_append]
    rcases hk with rfl | hk
    · exact Or.inl hx
    · exact Or.inr (mem_postorderL hk hx)

/-! ## `WellNested` -/

mutual
  theorem wellNestedB_iff : ∀ k : TokTree, wellNestedB k = true ↔ WellNested k
    | .node t kids => by
      simp [wellNestedB, wellNestedLB_iff kids t.b t.e]
  theorem wellNestedLB_iff : ∀ (f : List TokTree) (lo hi : Nat),
      wellNestedLB lo hi f = true ↔ WellNestedL lo hi f
    | [], lo, hi => by simp [wellNestedLB]
    | k :: ks, lo, hi => by
      simp [wellNestedLB, wellNestedB_iff k, wellNestedLB_iff ks k.tok.e hi, and_assoc]
end

instance (k : TokTree) : Decidable (WellNested k) :=
  decidable_of_iff _ (wellNestedB_iff k)
instance (lo hi : Nat) (f : List TokTree) : Decidable (WellNestedL lo hi f) :=
  decidable_of_iff _ (wellNestedLB_iff f lo hi)

theorem WellNested.le : ∀ {k : TokTree}, WellNested k → k.tok.b ≤ k.tok.e
  | .node _ _, h => by simp at h; exact h.1

theorem WellNestedL.le : ∀ {f : List TokTree} {lo hi : Nat}, WellNestedL lo hi f → lo ≤ hi
  | [], _, _, h => by simpa using h
  | k :: ks, lo, hi, h => by
    simp at h
    have h1 := h.2.1.le
    have h2 := WellNestedL.le h.2.2
    omega

/-- Weakening of the enclosing interval. -/
theorem WellNestedL.mono : ∀ {f : List TokTree} {lo hi lo' hi' : Nat},
    WellNestedL lo hi f → lo' ≤ lo → hi ≤ hi' → WellNestedL lo' hi' f
  | [], _, _, _, _, h, h1, h2 => by simp at h ⊢; omega
  | k :: ks, _, _, _, _, h, h1, h2 => by
    simp at h ⊢
    exact ⟨by omega, h.2.1, WellNestedL.mono h.2.2 (Nat.le_refl _) h2⟩

theorem WellNestedL_append {a b : List TokTree} {lo mid hi : Nat}
    (ha : WellNestedL lo mid a) (hb : WellNestedL mid hi b) : WellNestedL lo hi (a ++ b) := by
  induction a generalizing lo with
  | nil => simp at ha; exact hb.mono ha (Nat.le_refl _)
  | cons k ks ih =>
    simp at ha ⊢
    exact ⟨ha.1, ha.2.1, ih ha.2.2⟩

mutual
  /-- Every token below a well-nested node lies inside the node's span. -/
  theorem WellNested.within : ∀ (k : TokTree), WellNested k →
      ∀ x ∈ k.postorder, k.tok.b ≤ x.b ∧ x.b ≤ x.e ∧ x.e ≤ k.tok.e
    | .node t kids, h, x, hx => by
      simp at h hx
      rcases hx with hx | hx
      · exact WellNestedL.within kids t.b t.e h.2 x hx
      · subst hx; simp; exact h.1
  theorem WellNestedL.within : ∀ (f : List TokTree) (lo hi : Nat), WellNestedL lo hi f →
      ∀ x ∈ postorderL f, lo ≤ x.b ∧ x.b ≤ x.e ∧ x.e ≤ hi
    | [], _, _, _, x, hx => by simp at hx
    | k :: ks, lo, hi, h, x, hx => by
      simp only [WellNestedL_cons] at h
      simp only [postorderL_cons, List.mem_append] at hx
      have hk := h.2.1.le
      have hr := WellNestedL.le h.2.2
      rcases hx with hx | hx
      · have := WellNested.within k h.2.1 x hx; omega
      · have := WellNestedL.within ks k.tok.e hi h.2.2 x hx; omega
end

/-- Under `WellNested`, everything below an empty node is empty (and sits at the same offset). -/
theorem below_empty_all_empty {t : Token} {kids : List TokTree}
    (h : WellNested (.node t kids)) (he : t.b = t.e) :
    ∀ x ∈ postorderL kids, x.b = t.b ∧ x.e = t.b := by
  intro x hx
  simp at h
  have := WellNestedL.within kids t.b t.e h.2 x hx
  omega

/-- In a well-nested tree whose root ends inside the input, every token can be sliced. -/
theorem WellNested.inRange {k : TokTree} {inp : List Sym} (h : WellNested k)
    (hlen : k.tok.e ≤ inp.length) : ∀ x ∈ k.postorder, InRange inp x := by
  intro x hx
  have := WellNested.within k h x hx
  exact ⟨this.2.1, by omega⟩

/-! ## `prune` -/

theorem pruneT_root {k s : TokTree} (hs : s ∈ pruneT k) :
    s.tok = k.tok ∧ k.tok.b ≠ k.tok.e := by
  cases k with
  | node t kids =>
    simp at hs
    obtain ⟨hne, rfl⟩ := hs
    simp [hne]

/-- The roots of a pruned well-nested forest are non-empty and lie inside the interval. -/
theorem prune_roots : ∀ {f : List TokTree} {lo hi : Nat}, WellNestedL lo hi f →
    ∀ s ∈ prune f, lo ≤ s.tok.b ∧ s.tok.b < s.tok.e ∧ s.tok.e ≤ hi
  | [], _, _, _, s, hs => by simp at hs
  | k :: ks, lo, hi, h, s, hs => by
    simp only [WellNestedL_cons] at h
    simp only [prune_cons, List.mem_append] at hs
    have hk := h.2.1.le
    have hr := WellNestedL.le h.2.2
    rcases hs with hs | hs
    · obtain ⟨e1, e2⟩ := pruneT_root hs
      rw [e1]; omega
    · have := prune_roots h.2.2 s hs; omega

theorem prune_eq_nil_of_empty {f : List TokTree} {b : Nat} (h : WellNestedL b b f) :
    prune f = [] := by
  apply List.eq_nil_iff_forall_not_mem.mpr
  intro s hs
  have := prune_roots h s hs
  omega

/-- The last root of `prune f` ends at or before `hi`… used to maintain the stack invariant. -/
def StackBelow (lo : Nat) (st : List TokTree) : Prop :=
  ∀ s ∈ st.head?, s.tok.b < s.tok.e ∧ s.tok.e ≤ lo

theorem StackBelow.nil (lo : Nat) : StackBelow lo [] := by simp [StackBelow]

theorem StackBelow.mono {lo lo' : Nat} {st : List TokTree} (h : StackBelow lo st)
    (hl : lo ≤ lo') : StackBelow lo' st := by
  intro s hs; have := h s hs; omega

theorem StackBelow.prune_append {f st : List TokTree} {lo hi : Nat}
    (hf : WellNestedL lo hi f) (hst : StackBelow lo st) :
    StackBelow hi ((prune f).reverse ++ st) := by
  intro s hs
  cases hp : (prune f).reverse with
  | nil =>
    rw [hp] at hs
    have := hst s (by simpa using hs)
    have := hf.le
    omega
  | cons x xs =>
    rw [hp] at hs
    simp at hs
    subst hs
    have hx : x ∈ prune f := by
      have : x ∈ (prune f).reverse := by rw [hp]; simp
      simpa using this
    have := prune_roots hf x hx
    omega

/-! ## `popInto` / `astStep` -/

/-- Popping a block `ys` of stack elements that all lie inside `t`, down to a stack whose top does
    not: the block ends up, REVERSED (i.e. back in input order), in front of the child chain. -/
theorem popInto_block (t : Token) : ∀ (ys acc st : List TokTree),
    (∀ y ∈ ys, t.b ≤ y.tok.b ∧ y.tok.e ≤ t.e) →
    (∀ s ∈ st.head?, ¬ (s.tok.b ≥ t.b ∧ s.tok.e ≤ t.e)) →
    popInto t acc (ys ++ st) = (ys.reverse ++ acc, st)
  | [], acc, st, _, hst => by
    cases st with
    | nil => simp [popInto]
    | cons s down =>
      have := hst s (by simp)
      simp [popInto, this]
  | y :: ys, acc, st, hys, hst => by
    have hy := hys y (by simp)
    have ih := popInto_block t ys (y :: acc) st (fun z hz => hys z (by simp [hz])) hst
    simp [popInto, hy, ih]

theorem astStackFrom_nil (st : List TokTree) : astStackFrom st [] = st := rfl
theorem astStackFrom_cons (st : List TokTree) (t : Token) (ts : List Token) :
    astStackFrom st (t :: ts) = astStackFrom (astStep st t) ts := rfl
theorem astStackFrom_append (st : List TokTree) (a b : List Token) :
    astStackFrom st (a ++ b) = astStackFrom (astStackFrom st a) b := by
  simp [astStackFrom, List.foldl_append]

/-- Post-order contents are preserved by the pop loop. -/
theorem popInto_postorder (t : Token) : ∀ (acc st : List TokTree),
    postorderL (popInto t acc st).2.reverse ++ postorderL (popInto t acc st).1
      = postorderL st.reverse ++ postorderL acc
  | acc, [] => by simp [popInto]
  | acc, s :: down => by
    by_cases h : s.tok.b ≥ t.b ∧ s.tok.e ≤ t.e
    · have ih := popInto_postorder t (s :: acc) down
      simp only [popInto, h, and_self, if_true]
      rw [ih]
      simp [postorderL_append]
    · simp [popInto, h]

theorem astStep_postorder (st : List TokTree) (t : Token) :
    postorderL (astStep st t).reverse
      = postorderL st.reverse ++ (if t.b = t.e then [] else [t]) := by
  by_cases h : t.b = t.e
  · simp [astStep, h]
  · have := popInto_postorder t [] st
    simp only [astStep, h, if_false, List.reverse_cons, postorderL_append]
    simp only [postorderL_cons, TokTree.postorder_node, postorderL_nil, List.append_nil] at this ⊢
    rw [← List.append_assoc, this]

/-- Generalisation of `astStep_postorder` to the whole loop: for ANY token list, the post-order
    flattening of the final stack (bottom to top) is the list of non-empty tokens. -/
theorem astStackFrom_postorder : ∀ (toks : List Token) (st : List TokTree),
    postorderL (astStackFrom st toks).reverse
      = postorderL st.reverse ++ toks.filter (fun t => t.b != t.e)
  | [], st => by simp [astStackFrom_nil]
  | t :: ts, st => by
    rw [astStackFrom_cons, astStackFrom_postorder ts, astStep_postorder]
    by_cases h : t.b = t.e <;> simp [h]

mutual
  /-- The stack algorithm on the post-order of one well-nested tree `k`, started on a stack whose
      top (if any) is a non-empty node ending at or before `k` begins: `k`'s pruned version is
      pushed, nothing else changes.

      Why an earlier sibling `s` is never popped by a later token `t`: popping needs
      `s.b ≥ t.b`, but `s.e ≤ lo ≤ t.b`, so `s.b ≥ s.e`; with `s.b ≤ s.e` this means `s` is empty —
      and empty tokens are never pushed. -/
  theorem astStackFrom_tree : ∀ (k : TokTree) (st : List TokTree) (lo : Nat),
      WellNested k → lo ≤ k.tok.b → StackBelow lo st →
      astStackFrom st k.postorder = (pruneT k).reverse ++ st
    | .node t kids, st, lo, h, hlo, hst => by
      simp only [WellNested_node] at h
      simp only [tok_node] at hlo
      have hkids := astStackFrom_forest kids st t.b t.e h.2 (hst.mono hlo)
      rw [TokTree.postorder_node, astStackFrom_append, hkids]
      by_cases he : t.b = t.e
      · -- an empty node: skipped; everything below it was empty as well
        have hp : prune kids = [] := prune_eq_nil_of_empty (he ▸ h.2)
        simp [astStackFrom, astStep, he, hp]
      · -- a non-empty node: pops exactly its pruned children
        have hroots := prune_roots h.2
        have hpop := popInto_block t (prune kids).reverse [] st
          (fun y hy => by have := hroots y (by simpa using hy); omega)
          (fun s hs => by have := hst s hs; omega)
        simp [astStackFrom, astStep, he, hpop]
  theorem astStackFrom_forest : ∀ (f : List TokTree) (st : List TokTree) (lo hi : Nat),
      WellNestedL lo hi f → StackBelow lo st →
      astStackFrom st (postorderL f) = (prune f).reverse ++ st
    | [], st, _, _, _, _ => by simp [astStackFrom_nil]
    | k :: ks, st, lo, hi, h, hst => by
      simp only [WellNestedL_cons] at h
      have hk := astStackFrom_tree k st lo h.2.1 h.1 hst
      have hst' : StackBelow k.tok.e ((pruneT k).reverse ++ st) := by
        have : WellNestedL lo k.tok.e [k] := by simp [h.1, h.2.1]
        simpa using StackBelow.prune_append this hst
      have hks := astStackFrom_forest ks _ k.tok.e hi h.2.2 hst'
      rw [postorderL_cons, astStackFrom_append, hk, hks]
      simp
end

/-! ## `print` -/

@[simp] theorem printFunc_nil (q : List Sym → String) (p : Bool) (inp : List Sym) (d : Nat) :
    printFunc q p inp d [] = some [] := by simp [printFunc]

theorem slice?_eq_some {inp : List Sym} {b e : Nat} (h1 : b ≤ e) (h2 : e ≤ inp.length) :
    slice? inp b e = some (inp.extract b e) := by
  simp [slice?, h1, h2]

mutual
  /-- `print` is the pre-order listing, provided every slice is in range. -/
  theorem printNode_eq (q : List Sym → String) (p : Bool) (inp : List Sym) :
      ∀ (k : TokTree) (d : Nat), (∀ x ∈ k.postorder, InRange inp x) →
        printNode q p inp d k = some ((preorderT d k).map (lineOf q p inp))
    | .node t kids, d, h => by
      have ht : InRange inp t := h t (by simp)
      have hk := printFunc_eq q p inp kids (d + 1) (fun x hx => h x (by simp [hx]))
      simp [printNode, slice?_eq_some ht.1 ht.2, hk, lineOf]
  theorem printFunc_eq (q : List Sym → String) (p : Bool) (inp : List Sym) :
      ∀ (f : List TokTree) (d : Nat), (∀ x ∈ postorderL f, InRange inp x) →
        printFunc q p inp d f = some ((preorder d f).map (lineOf q p inp))
    | [], d, _ => by simp
    | k :: ks, d, h => by
      have h1 := printNode_eq q p inp k d (fun x hx => h x (by simp [hx]))
      have h2 := printFunc_eq q p inp ks d (fun x hx => h x (by simp [hx]))
      simp [printFunc, h1, h2]
end

/-! ## `Execute` -/

@[simp] theorem actionTrace_nil (acts : List String) (inp : List Sym) (s : ExecState) :
    actionTrace acts inp [] s = ([], s) := by simp [actionTrace]
@[simp] theorem actionTrace_cons (acts : List String) (inp : List Sym) (k : TokTree)
    (ks : List TokTree) (s : ExecState) :
    actionTrace acts inp (k :: ks) s =
      ((actionTraceT acts inp k s).1 ++ (actionTrace acts inp ks (actionTraceT acts inp k s).2).1,
       (actionTrace acts inp ks (actionTraceT acts inp k s).2).2) := by
  simp [actionTrace]
@[simp] theorem actionTraceT_node (acts : List String) (inp : List Sym) (t : Token)
    (kids : List TokTree) (s : ExecState) :
    actionTraceT acts inp (.node t kids) s =
      ((actionTrace acts inp kids s).1 ++ (closeTok acts inp t (actionTrace acts inp kids s).2).1,
       (closeTok acts inp t (actionTrace acts inp kids s).2).2) := by
  simp [actionTraceT]

/-- Captures can be sliced out of `inp`. -/
def CapturesInRange (inp : List Sym) (toks : List Token) : Prop :=
  ∀ t ∈ toks, isCapture t = true → InRange inp t

instance (inp : List Sym) (toks : List Token) : Decidable (CapturesInRange inp toks) := by
  unfold CapturesInRange; infer_instance

theorem executeFrom_nil (acts : List String) (inp : List Sym) (s : ExecState) :
    executeFrom acts inp s [] = some ([], s) := by simp [executeFrom]

/-- One step of the `Execute` loop is `closeTok`. -/
theorem executeFrom_cons (acts : List String) (inp : List Sym) (s : ExecState) (t : Token)
    (ts : List Token) (ht : isCapture t = true → InRange inp t) :
    executeFrom acts inp s (t :: ts) =
      (executeFrom acts inp (closeTok acts inp t s).2 ts).map
        (fun r => ((closeTok acts inp t s).1 ++ r.1, r.2)) := by
  by_cases hc : t.rule = "PegText"
  · have hc' : isCapture t = true := by simp [isCapture, hc]
    have hr := ht hc'
    have hcl : closeTok acts inp t s = ([], ⟨t.b, t.e, inp.extract t.b t.e⟩) := by
      simp [closeTok, hc', captureState]
    rw [hcl]
    simp only [executeFrom, hc, if_true, slice?_eq_some hr.1 hr.2]
    cases executeFrom acts inp ⟨t.b, t.e, inp.extract t.b t.e⟩ ts <;> simp
  · have hc' : isCapture t = false := by simp [isCapture, hc]
    by_cases ha : acts.contains t.rule = true
    · have ha' : isAction acts t = true := by
        simp only [isAction, hc', ha]; rfl
      have hcl : closeTok acts inp t s = ([ActEvent.mk' t.rule s], s) := by
        simp [closeTok, hc', ha']
      rw [hcl]
      simp only [executeFrom, hc, if_false, ha, if_true]
      cases executeFrom acts inp s ts with
      | none => simp
      | some r => cases r; simp
    · have ha' : isAction acts t = false := by
        have : acts.contains t.rule = false := by simpa using ha
        simp only [isAction, hc', this]; rfl
      have hcl : closeTok acts inp t s = ([], s) := by
        simp [closeTok, hc', ha']
      rw [hcl]
      simp only [executeFrom, hc, if_false, ha]
      cases executeFrom acts inp s ts <;> simp

theorem executeFrom_append (acts : List String) (inp : List Sym) :
    ∀ (a b : List Token) (s : ExecState) (ra : List ActEvent × ExecState),
      executeFrom acts inp s a = some ra →
      executeFrom acts inp s (a ++ b) =
        (executeFrom acts inp ra.2 b).map (fun r => (ra.1 ++ r.1, r.2))
  | [], b, s, ra, h => by
    simp [executeFrom] at h
    subst h
    simp only [List.nil_append]
    cases hb : executeFrom acts inp s b <;> simp
  | t :: ts, b, s, ra, h => by
    by_cases hc : t.rule = "PegText"
    · simp only [executeFrom, hc, if_true, List.cons_append] at h ⊢
      cases hs : slice? inp t.b t.e with
      | none => simp [hs] at h
      | some x =>
        simp only [hs] at h ⊢
        exact executeFrom_append acts inp ts b _ ra h
    · by_cases ha : acts.contains t.rule = true
      · simp only [executeFrom, hc, if_false, ha, if_true, List.cons_append] at h ⊢
        cases hr : executeFrom acts inp s ts with
        | none => simp [hr] at h
        | some r =>
          obtain ⟨evs, s'⟩ := r
          simp only [hr, Option.some.injEq] at h
          subst h
          rw [executeFrom_append acts inp ts b s _ hr]
          cases executeFrom acts inp s' b <;> simp
      · simp only [executeFrom, hc, if_false, ha, List.cons_append] at h ⊢
        exact executeFrom_append acts inp ts b s ra h

/-! ## The list-level trace -/

/-- Events of the tokens `ts` that follow the prefix `pre`: each action token yields one event
    carrying the last capture of everything before it. -/
def traceAfter (acts : List String) (inp : List Sym) : List Token → List Token → List ActEvent
  | _, [] => []
  | pre, t :: ts =>
    (if isAction acts t then [ActEvent.mk' t.rule (lastCapture inp pre)] else [])
      ++ traceAfter acts inp (pre ++ [t]) ts

theorem lastCapture_nil (inp : List Sym) : lastCapture inp [] = ExecState.init := by
  simp [lastCapture]

theorem lastCapture_snoc (inp : List Sym) (pre : List Token) (t : Token) :
    lastCapture inp (pre ++ [t]) =
      if isCapture t then captureState inp t else lastCapture inp pre := by
  by_cases h : isCapture t = true
  · simp [lastCapture, h]
  · simp at h
    simp [lastCapture, h]

theorem closeTok_lastCapture (acts : List String) (inp : List Sym) (pre : List Token)
    (t : Token) :
    closeTok acts inp t (lastCapture inp pre) =
      (if isAction acts t then [ActEvent.mk' t.rule (lastCapture inp pre)] else [],
       lastCapture inp (pre ++ [t])) := by
  rw [lastCapture_snoc]
  by_cases hc : isCapture t = true
  · simp [closeTok, hc, isAction]
  · simp at hc
    by_cases ha : isAction acts t = true
    · simp [closeTok, hc, ha]
    · simp at ha
      simp [closeTok, hc, ha]

theorem executeFrom_traceAfter (acts : List String) (inp : List Sym) :
    ∀ (ts pre : List Token), CapturesInRange inp ts →
      executeFrom acts inp (lastCapture inp pre) ts =
        some (traceAfter acts inp pre ts, lastCapture inp (pre ++ ts))
  | [], pre, _ => by simp [executeFrom, traceAfter]
  | t :: ts, pre, h => by
    have ih := executeFrom_traceAfter acts inp ts (pre ++ [t])
      (fun x hx => h x (by simp [hx]))
    rw [executeFrom_cons acts inp _ t ts (h t (by simp)), closeTok_lastCapture]
    simp [ih, traceAfter]

theorem traceAfter_append (acts : List String) (inp : List Sym) :
    ∀ (a pre b : List Token),
      traceAfter acts inp pre (a ++ b) =
        traceAfter acts inp pre a ++ traceAfter acts inp (pre ++ a) b
  | [], pre, b => by simp [traceAfter]
  | t :: ts, pre, b => by
    simp [traceAfter, traceAfter_append acts inp ts (pre ++ [t]) b]

theorem traceAfter_length (acts : List String) (inp : List Sym) :
    ∀ (ts pre : List Token),
      (traceAfter acts inp pre ts).length = (ts.filter (isAction acts)).length
  | [], pre => by simp [traceAfter]
  | t :: ts, pre => by
    by_cases ha : isAction acts t = true
    · simp [traceAfter, ha, traceAfter_length acts inp ts (pre ++ [t])]
    · simp at ha
      simp [traceAfter, ha, traceAfter_length acts inp ts (pre ++ [t])]

theorem traceAfter_actions (acts : List String) (inp : List Sym) :
    ∀ (ts pre : List Token),
      (traceAfter acts inp pre ts).map (·.action) = (ts.filter (isAction acts)).map (·.rule)
  | [], pre => by simp [traceAfter]
  | t :: ts, pre => by
    by_cases ha : isAction acts t = true
    · simp [traceAfter, ha, traceAfter_actions acts inp ts (pre ++ [t]), ActEvent.mk']
    · simp at ha
      simp [traceAfter, ha, traceAfter_actions acts inp ts (pre ++ [t])]

end PegVerif

namespace PegVerif

/-! ## `Execute` on the post-order of a forest -/

theorem CapturesInRange.append_left {inp : List Sym} {a b : List Token}
    (h : CapturesInRange inp (a ++ b)) : CapturesInRange inp a :=
  fun t ht => h t (by simp [ht])
theorem CapturesInRange.append_right {inp : List Sym} {a b : List Token}
    (h : CapturesInRange inp (a ++ b)) : CapturesInRange inp b :=
  fun t ht => h t (by simp [ht])

mutual
  theorem executeFrom_tree (acts : List String) (inp : List Sym) :
      ∀ (k : TokTree) (s : ExecState), CapturesInRange inp k.postorder →
        executeFrom acts inp s k.postorder = some (actionTraceT acts inp k s)
    | .node t kids, s, h => by
      rw [TokTree.postorder_node] at h
      have hk := executeFrom_forest acts inp kids s h.append_left
      rw [TokTree.postorder_node, executeFrom_append acts inp _ _ s _ hk,
        executeFrom_cons acts inp _ t [] (h.append_right t (by simp)), executeFrom_nil]
      simp
  theorem executeFrom_forest (acts : List String) (inp : List Sym) :
      ∀ (f : List TokTree) (s : ExecState), CapturesInRange inp (postorderL f) →
        executeFrom acts inp s (postorderL f) = some (actionTrace acts inp f s)
    | [], s, _ => by simp [executeFrom_nil]
    | k :: ks, s, h => by
      rw [postorderL_cons] at h
      have hk := executeFrom_tree acts inp k s h.append_left
      have hks := executeFrom_forest acts inp ks (actionTraceT acts inp k s).2 h.append_right
      rw [postorderL_cons, executeFrom_append acts inp _ _ s _ hk, hks]
      simp
end

end PegVerif
