/-
  Table machinery for C18: how a statement about every `Scenario` is reduced to kernel evaluation
  of `cli` on the rows of the finite table.

  The three parser options (-inline, -switch, -noast) reach `cli` only through `compileClass`,
  which ignores them, so `cli s = cli s.norm` holds by unfolding (`cli_norm`).  Every property is
  therefore decided on the 2304 rows with the three options cleared (`forallCore`) and transported
  to all 18432 rows (`forall_of_core`).  The options' irrelevance for the REAL program is what the
  harness checks (it runs all eight combinations on every text).
-/
import PegVerif.Model.Cli

namespace PegVerif.Cli

/-- clear -inline / -switch / -noast -/
def Scenario.norm (s : Scenario) : Scenario :=
  { s with inline := false, switch := false, noast := false }

theorem cli_norm (s : Scenario) : cli s = cli s.norm := by
  cases s; rfl

/-- `p` holds on every row with the three parser options cleared (no list is materialised). -/
def forallCore (p : Scenario → Bool) : Bool :=
  Source.all.all fun a => Grammar.all.all fun b => Dest.all.all fun c =>
  bools.all fun d => Mode.all.all fun h =>
    p ⟨a, b, c, d, false, false, false, h⟩

theorem forallCore_spec {p : Scenario → Bool} (h : forallCore p = true) :
    ∀ s : Scenario, p s.norm = true := by
  intro ⟨a, b, c, d, e, f, g, h'⟩
  simp only [forallCore, List.all_eq_true] at h
  exact h a (Source.mem_all a) b (Grammar.mem_all b) c (Dest.mem_all c) d (mem_bools d)
    h' (Mode.mem_all h')

/-- A property that is insensitive to the three parser options and holds on every core row holds
    for every scenario. -/
theorem forall_of_core {P : Scenario → Prop} [DecidablePred P]
    (hinv : ∀ s : Scenario, P s.norm → P s)
    (h : forallCore (fun s => decide (P s)) = true) : ∀ s, P s :=
  fun s => hinv s (of_decide_eq_true (forallCore_spec h s))

/-! size of the table -/

theorem length_flatMap_const {α β} (l : List α) (f : α → List β) (n : Nat)
    (h : ∀ x, (f x).length = n) : (l.flatMap f).length = l.length * n := by
  induction l with
  | nil => simp
  | cons x xs ih => simp [List.flatMap_cons, ih, h, Nat.succ_mul, Nat.add_comm]

theorem Scenario.all_length : Scenario.all.length = 18432 := by
  unfold Scenario.all
  rw [length_flatMap_const _ _ 3072]
  · rfl
  intro a
  rw [length_flatMap_const _ _ 512]
  · rfl
  intro b
  rw [length_flatMap_const _ _ 64]
  · rfl
  intro c
  rw [length_flatMap_const _ _ 32]
  · rfl
  intro d
  rw [length_flatMap_const _ _ 16]
  · rfl
  intro e
  rw [length_flatMap_const _ _ 8]
  · rfl
  intro f
  rw [length_flatMap_const _ _ 4]
  · rfl
  intro g
  rfl

end PegVerif.Cli
