import PegVerif.Model.Machine
import PegVerif.Model.Compile
/-
  Infrastructure for the refinement theorem: code fragments inside a rule body (`CodeAt`),
  uniqueness of labels (`Uniq`), and `Steps` ("every result of running from the second point is a
  result of running from the first" — the backwards, continuation-style formulation that needs no
  fuel arithmetic).
-/
namespace PegVerif

/-- The fragment `c` sits in `code` at offset `pc`. -/
def CodeAt (code : Code) (pc : Nat) (c : Code) : Prop :=
  ∃ pre post, code = pre ++ c ++ post ∧ pre.length = pc

theorem CodeAt.head {code pc i c} (h : CodeAt code pc (i :: c)) :
    code[pc]? = some i ∧ CodeAt code (pc + 1) c := by
  obtain ⟨pre, post, rfl, rfl⟩ := h
  refine ⟨by simp, pre ++ [i], post, by simp, by simp⟩

theorem CodeAt.left {code pc a b} (h : CodeAt code pc (a ++ b)) : CodeAt code pc a := by
  obtain ⟨pre, post, rfl, rfl⟩ := h
  exact ⟨pre, b ++ post, by simp, rfl⟩

theorem CodeAt.right {code pc a b} (h : CodeAt code pc (a ++ b)) :
    CodeAt code (pc + a.length) b := by
  obtain ⟨pre, post, rfl, rfl⟩ := h
  exact ⟨pre ++ a, post, by simp, by simp⟩

theorem CodeAt.nil_of {code pc} (h : pc ≤ code.length) : CodeAt code pc [] :=
  ⟨code.take pc, code.drop pc, by simp, by simp [Nat.min_eq_left h]⟩

theorem CodeAt.whole (code : Code) : CodeAt code 0 code := ⟨[], [], by simp, rfl⟩

/-- Labels defined in a piece of code. -/
def labelsOf (c : Code) : List Nat := c.filterMap (fun i => match i with | .label l => some l | _ => none)

/-- Every label is defined at most once. -/
def Uniq (code : Code) : Prop := (labelsOf code).Nodup

theorem labelsOf_append (a b : Code) : labelsOf (a ++ b) = labelsOf a ++ labelsOf b := by
  simp [labelsOf, List.filterMap_append]

theorem mem_labelsOf {c : Code} {l : Nat} : l ∈ labelsOf c ↔ Instr.label l ∈ c := by
  simp only [labelsOf, List.mem_filterMap]
  constructor
  · rintro ⟨i, hi, h⟩
    cases i <;> simp at h
    subst h; exact hi
  · intro h; exact ⟨_, h, rfl⟩

theorem labelPos_of_uniq {code pc l c} (hu : Uniq code) (h : CodeAt code pc (Instr.label l :: c)) :
    labelPos code l = some pc := by
  obtain ⟨pre, post, rfl, rfl⟩ := h
  have hnot : Instr.label l ∉ pre := by
    intro hin
    have : (labelsOf (pre ++ Instr.label l :: c ++ post)).Nodup := hu
    simp only [List.append_assoc, labelsOf_append, List.cons_append] at this
    have h1 : l ∈ labelsOf pre := mem_labelsOf.mpr hin
    have h2 : l ∈ labelsOf (Instr.label l :: (c ++ post)) := mem_labelsOf.mpr (by simp)
    exact (List.nodup_append.mp this).2.2 _ h1 _ h2 rfl
  unfold labelPos
  rw [List.findIdx?_eq_some_iff_getElem]
  refine ⟨by simp, by simp, ?_⟩
  intro j hj
  have hj' : j < pre.length := hj
  simp only [List.append_assoc, List.getElem_append_left hj']
  intro hc
  apply hnot
  have : pre[j] = Instr.label l := by simpa using hc
  rw [← this]; exact List.getElem_mem hj'

section Steps
variable (P : Program) (cfg : Cfg) (inp : List Sym)

/-- Running `code` from `(pc, s, f)` necessarily passes through `(pc', s', f')`. -/
def Steps (code : Code) (pc : Nat) (s : St) (f : Frame) (pc' : Nat) (s' : St) (f' : Frame) : Prop :=
  ∀ r, Exec P cfg inp code pc' s' f' r → Exec P cfg inp code pc s f r

variable {P cfg inp}

theorem Steps.refl {code pc s f} : Steps P cfg inp code pc s f pc s f := fun _ h => h

theorem Steps.trans {code pc s f pc1 s1 f1 pc2 s2 f2}
    (h1 : Steps P cfg inp code pc s f pc1 s1 f1) (h2 : Steps P cfg inp code pc1 s1 f1 pc2 s2 f2) :
    Steps P cfg inp code pc s f pc2 s2 f2 := fun r h => h1 r (h2 r h)

theorem Steps.next {code pc s f i s' f'} (hi : code[pc]? = some i)
    (hs : stepLocal cfg inp i s f = .next s' f') : Steps P cfg inp code pc s f (pc + 1) s' f' :=
  fun _ h => Exec.next hi hs h

theorem Steps.jump {code pc s f i l s' f' pc'} (hi : code[pc]? = some i)
    (hs : stepLocal cfg inp i s f = .jump l s' f') (hl : labelPos code l = some pc') :
    Steps P cfg inp code pc s f pc' s' f' :=
  fun _ h => Exec.jump hi hs hl h

end Steps

end PegVerif
