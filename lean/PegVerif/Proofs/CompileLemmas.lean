import PegVerif.Model.Compile
/-
  Structural facts about `compile`: the label counter never decreases.
-/
namespace PegVerif

/-! ### `push` / `ipush`: uniform views (the `act` special case prints no label and no jump) -/

theorem compile_push_st (env : CEnv) (e : Expr) (r : String) (ko : Nat) (pd pmk : Bool) (st : CSt) :
    (compile env (.push e r) ko pd pmk st).st = (compile env e ko pd pmk ⟨st.label + 1, st.sw⟩).st := by
  cases e <;> simp only [compile]

theorem compile_ipush_st (env : CEnv) (e : Expr) (r : String) (ko : Nat) (pd pmk : Bool) (st : CSt) :
    (compile env (.ipush e r) ko pd pmk st).st = (compile env e ko pd pmk ⟨st.label + 1, st.sw⟩).st := by
  cases e <;> simp only [compile]

mutual
  theorem compile_mono (env : CEnv) : ∀ (e : Expr) (ko : Nat) (pd pmk : Bool) (st : CSt),
      st.label ≤ (compile env e ko pd pmk st).st.label
    | .dot, ko, pd, pmk, st => by simp [compile]
    | .name n, ko, pd, pmk, st => by simp [compile]
    | .inl n e, ko, pd, pmk, st => by simpa [compile] using compile_mono env e ko pd pmk st
    | .rng lo hi, ko, pd, pmk, st => by simp [compile]
    | .chr c, ko, pd, pmk, st => by simp [compile]
    | .str s, ko, pd, pmk, st => by simp [compile]
    | .pred c, ko, pd, pmk, st => by simp [compile]
    | .stmt c, ko, pd, pmk, st => by simp [compile]
    | .act c, ko, pd, pmk, st => by simp [compile]
    | .nil, ko, pd, pmk, st => by simp [compile]
    | .push e r, ko, pd, pmk, st => by
      have h := compile_mono env e ko pd pmk { st with label := st.label + 1 }
      cases e <;> simp only [compile] at h ⊢ <;> simp at h ⊢ <;> omega
    | .ipush e r, ko, pd, pmk, st => by
      have h := compile_mono env e ko pd pmk { st with label := st.label + 1 }
      cases e <;> simp only [compile] at h ⊢ <;> simp at h ⊢ <;> omega
    | .alt es, ko, pd, pmk, st => by
      have h := compileAlt_mono env es st.label ko pd pmk { st with label := st.label + 1 }
      simp only [compile]; simp at h ⊢; omega
    | .ualt ks es, ko, pd, pmk, st => by
      have h := compileCases_mono env ks es st.sw 0 ko { label := st.label + 1, sw := st.sw + 1 }
      simp only [compile]; simp at h ⊢; omega
    | .seq es, ko, pd, pmk, st => by simpa [compile] using compileSeq_mono env es ko pd pmk st
    | .peekFor e, ko, pd, pmk, st => by
      have h := compile_mono env e ko false false { st with label := st.label + 1 }
      simp only [compile]; simp at h ⊢; omega
    | .peekNot e, ko, pd, pmk, st => by
      have h := compile_mono env e st.label false false { st with label := st.label + 1 }
      simp only [compile]; simp at h ⊢; omega
    | .query e, ko, pd, pmk, st => by
      have h := compile_mono env e st.label pd pmk { st with label := st.label + 2 }
      simp only [compile]; simp at h ⊢; omega
    | .star e, ko, pd, pmk, st => by
      have h := compile_mono env e (st.label + 1) false false { st with label := st.label + 2 }
      simp only [compile]; simp at h ⊢; omega
    | .plus e, ko, pd, pmk, st => by
      have h1 := compile_mono env e ko false false { st with label := st.label + 2 }
      have h2 := compile_mono env e (st.label + 1) false false (compile env e ko false false { st with label := st.label + 2 }).st
      simp only [compile]; simp at h1 h2 ⊢; omega
  theorem compileSeq_mono (env : CEnv) : ∀ (es : List Expr) (ko : Nat) (pd pmk : Bool) (st : CSt),
      st.label ≤ (compileSeq env es ko pd pmk st).st.label
    | [], ko, pd, pmk, st => by simp [compileSeq]
    | [e], ko, pd, pmk, st => by simpa [compileSeq] using compile_mono env e ko pd pmk st
    | e :: e' :: es, ko, pd, pmk, st => by
      have h1 := compile_mono env e ko pd pmk st
      have h2 := compileSeq_mono env (e' :: es) ko false false (compile env e ko pd pmk st).st
      simp only [compileSeq]; omega
  theorem compileAlt_mono (env : CEnv) : ∀ (es : List Expr) (ok ko : Nat) (pd pmk : Bool) (st : CSt),
      st.label ≤ (compileAlt env es ok ko pd pmk st).st.label
    | [], ok, ko, pd, pmk, st => by simp [compileAlt]
    | [e], ok, ko, pd, pmk, st => by simpa [compileAlt] using compile_mono env e ko pd pmk st
    | e :: e' :: es, ok, ko, pd, pmk, st => by
      have h1 := compile_mono env e st.label pd pmk { st with label := st.label + 1 }
      have h2 := compileAlt_mono env (e' :: es) ok ko false false
        (compile env e st.label pd pmk { st with label := st.label + 1 }).st
      simp only [compileAlt]; simp at h1 h2 ⊢; omega
  theorem compileCases_mono (env : CEnv) : ∀ (ks : List KeySet) (es : List Expr) (sw i done : Nat) (st : CSt),
      st.label ≤ (compileCases env ks es sw i done st).st.label
    | ks, [], sw, i, done, st => by simp [compileCases]
    | ks, [e], sw, i, done, st => by simpa [compileCases] using compile_mono env e done false false st
    | ks, e :: e' :: es, sw, i, done, st => by
      have h1 := compile_mono env e done true (decide ((ks.headD []).card > 1)) st
      have h2 := compileCases_mono env ks.tail (e' :: es) sw (i + 1) done
        (compile env e done true (decide ((ks.headD []).card > 1)) st).st
      simp only [compileCases]; omega
end

end PegVerif
