import PegVerif.Model.Diag
/-
  Lemmas for property C15 (grammar diagnostics).  Core Lean only.

  A. `checkRec` (checkRecursion):
       `cr_true`        result `true` ⇒ `MustConsume`                       (any fuel)
       `cr_exact`       no warning inside ⇒ result = `MustConsume`          (enough fuel)
       `cr_first`       the FIRST warning of a call is a genuine one        (enough fuel)
       `cr_visit`, `cr_complete`  every `FirstRef` chain into a marked rule yields a warning
       `cr_weak`        every warning is a `FirstRefW` cycle
  B. `countRec` (countRules): marks exactly the rules reachable from the start.
  C. `linkGrammar`: stubs = referenced-but-undefined names; duplicates.
  D. `Diag.render` is injective.
-/
namespace PegVerif

/-! ### generalities -/

theorem find_spec {G : Grammar} {n : String} {r : Rule} (h : G.find n = some r) :
    r ∈ G.rules ∧ r.name = n := by
  unfold Grammar.find at h
  exact ⟨List.mem_of_find?_eq_some h, by simpa using List.find?_some h⟩

theorem find_of_mem {G : Grammar} {r : Rule} (h : r ∈ G.rules) : ∃ r', G.find r.name = some r' := by
  have : (G.rules.find? (fun q => q.name == r.name)).isSome = true :=
    List.find?_isSome.mpr ⟨r, h, by simp⟩
  unfold Grammar.find
  exact Option.isSome_iff_exists.mp this

theorem depth_pos (e : Expr) : 1 ≤ e.depth := by cases e <;> simp [Expr.depth]

theorem depthL_mem {e : Expr} {es : List Expr} (h : e ∈ es) : e.depth ≤ depthL es := by
  induction es with
  | nil => cases h
  | cons a as ih =>
    simp only [depthL]
    cases h with
    | head => omega
    | tail _ h' => have := ih h'; omega

theorem budget_mono (rs : List Rule) {m m' : List String} (h : ∀ x, x ∈ m → x ∈ m') :
    budget rs m' ≤ budget rs m := by
  induction rs with
  | nil => simp [budget]
  | cons r rs ih =>
    simp only [budget]
    by_cases h1 : r.name ∈ m
    · have h2 := h _ h1
      simp [h1, h2]; exact ih
    · by_cases h2 : r.name ∈ m'
      · simp [h1, h2]; omega
      · simp [h1, h2]; exact ih

theorem budget_enter {rs : List Rule} {r : Rule} {m : List String} (hr : r ∈ rs) (hm : r.name ∉ m) :
    budget rs (r.name :: m) + r.body.depth + 1 ≤ budget rs m := by
  induction rs with
  | nil => cases hr
  | cons q qs ih =>
    simp only [budget]
    have hmono : budget qs (r.name :: m) ≤ budget qs m := budget_mono qs (fun x hx => List.mem_cons_of_mem _ hx)
    cases hr with
    | head => simp [hm]; omega
    | tail _ h' =>
      have := ih h'
      by_cases h1 : q.name ∈ m
      · simp [h1]; omega
      · by_cases h2 : q.name = r.name
        · simp [h2, hm]; omega
        · simp [h1, h2]; omega

/-- the fuel a call needs -/
def need (G : Grammar) (m : List String) (e : Expr) : Nat := e.depth + budget G.rules m

theorem need_enter {G : Grammar} {n : String} {r : Rule} {m : List String} {f : Nat}
    (hfind : G.find n = some r) (hm : n ∉ m) (hf : need G m (.name n) ≤ f + 1) :
    need G (n :: m) r.body ≤ f := by
  obtain ⟨hr, hn⟩ := find_spec hfind
  subst hn
  have := budget_enter hr hm
  simp [need, Expr.depth] at hf ⊢; omega

theorem need_enter_inl {G : Grammar} {n : String} {b : Expr} {r : Rule} {m : List String} {f : Nat}
    (hfind : G.find n = some r) (hm : n ∉ m) (hf : need G m (.inl n b) ≤ f + 1) :
    need G (n :: m) r.body ≤ f := by
  obtain ⟨hr, hn⟩ := find_spec hfind
  subst hn
  have := budget_enter hr hm
  have := depth_pos b
  simp [need, Expr.depth] at hf ⊢; omega

/-! ### closures -/
section Closure
variable {α : Type} {R : α → α → Prop}

theorem Star.trans {a b c : α} (h1 : Star R a b) (h2 : Star R b c) : Star R a c := by
  induction h1 with
  | refl => exact h2
  | step h _ ih => exact .step h (ih h2)

theorem Plus.of_step_star {a b c : α} (h : R a b) (h2 : Star R b c) : Plus R a c := by
  induction h2 generalizing a with
  | refl => exact .single h
  | step h' _ ih => exact .step h (ih h')

theorem Plus.to_star {a b : α} (h : Plus R a b) : Star R a b := by
  induction h with
  | single h => exact .step h (.refl _)
  | step h _ ih => exact .step h ih

theorem Plus.split {a c : α} (h : Plus R a c) : ∃ b, R a b ∧ Star R b c := by
  cases h with
  | single h => exact ⟨_, h, .refl _⟩
  | step h h' => exact ⟨_, h, h'.to_star⟩

theorem Star.mono {S : α → α → Prop} (hRS : ∀ a b, R a b → S a b) {a b : α} (h : Star R a b) : Star S a b := by
  induction h with
  | refl => exact .refl _
  | step h _ ih => exact .step (hRS _ _ h) ih

theorem Plus.mono {S : α → α → Prop} (hRS : ∀ a b, R a b → S a b) {a b : α} (h : Plus R a b) : Plus S a b := by
  induction h with
  | single h => exact .single (hRS _ _ h)
  | step h _ ih => exact .step (hRS _ _ h) ih

/-- chains of exactly `n` steps -/
inductive StepsN (R : α → α → Prop) : Nat → α → α → Prop where
  | zero (a : α) : StepsN R 0 a a
  | succ {n : Nat} {a b c : α} : R a b → StepsN R n b c → StepsN R (n + 1) a c

theorem Star.toStepsN {a b : α} (h : Star R a b) : ∃ n, StepsN R n a b := by
  induction h with
  | refl => exact ⟨0, .zero _⟩
  | step h _ ih => obtain ⟨n, hn⟩ := ih; exact ⟨n + 1, .succ h hn⟩

theorem StepsN.toStar {n : Nat} {a b : α} (h : StepsN R n a b) : Star R a b := by
  induction h with
  | zero => exact .refl _
  | succ h _ ih => exact .step h ih
end Closure

/-! ### `seqRun` / `altRun` -/
section Runs
variable (g : Expr → Bool × List String)

theorem seqRun_true {es : List Expr} (h : (seqRun g es).1 = true) : ∃ e, e ∈ es ∧ (g e).1 = true := by
  induction es with
  | nil => simp [seqRun] at h
  | cons a as ih =>
    simp only [seqRun] at h
    by_cases ha : (g a).1 = true
    · exact ⟨a, List.mem_cons_self, ha⟩
    · simp [ha] at h
      obtain ⟨e, he, h'⟩ := ih h
      exact ⟨e, List.mem_cons_of_mem _ he, h'⟩

theorem seqRun_false {es : List Expr} (h : (seqRun g es).1 = false) :
    ∀ e, e ∈ es → (g e).1 = false ∧ ∀ x, x ∈ (g e).2 → x ∈ (seqRun g es).2 := by
  induction es with
  | nil => intro e he; cases he
  | cons a as ih =>
    simp only [seqRun] at h ⊢
    by_cases ha : (g a).1 = true
    · simp [ha] at h
    · simp [ha] at h ⊢
      refine ⟨fun x hx => Or.inl hx, fun e he => ?_⟩
      have := ih h e he
      exact ⟨this.1, fun x hx => Or.inr (this.2 x hx)⟩

/-- elements up to and including `e` are visited if the ones before do not consume -/
theorem seqRun_visit {pre post : List Expr} {e : Expr} (hpre : ∀ p, p ∈ pre → (g p).1 = false) :
    ∀ x, x ∈ (g e).2 → x ∈ (seqRun g (pre ++ e :: post)).2 := by
  induction pre with
  | nil =>
    intro x hx
    simp only [List.nil_append, seqRun]
    by_cases he : (g e).1 = true
    · simp [he, hx]
    · simp [he, hx]
  | cons a as ih =>
    intro x hx
    have ha : (g a).1 = false := hpre a List.mem_cons_self
    simp only [List.cons_append, seqRun, ha]
    simp
    exact Or.inr (ih (fun p hp => hpre p (List.mem_cons_of_mem _ hp)) x hx)

/-- where a warning of a sequence comes from -/
theorem seqRun_mem {es : List Expr} {x : String} (h : x ∈ (seqRun g es).2) :
    ∃ pre e post, es = pre ++ e :: post ∧ (∀ p, p ∈ pre → (g p).1 = false) ∧ x ∈ (g e).2 := by
  induction es with
  | nil => simp [seqRun] at h
  | cons a as ih =>
    simp only [seqRun] at h
    by_cases ha : (g a).1 = true
    · simp [ha] at h
      exact ⟨[], a, as, rfl, by simp, h⟩
    · simp [ha] at h
      cases h with
      | inl h => exact ⟨[], a, as, rfl, by simp, h⟩
      | inr h =>
        obtain ⟨pre, e, post, h1, h2, h3⟩ := ih h
        refine ⟨a :: pre, e, post, by simp [h1], ?_, h3⟩
        intro p hp
        cases hp with
        | head => simpa using ha
        | tail _ hp => exact h2 p hp

/-- where the first warning of a sequence comes from -/
theorem seqRun_head {es : List Expr} {x : String} (h : (seqRun g es).2.head? = some x) :
    ∃ pre e post, es = pre ++ e :: post ∧ (∀ p, p ∈ pre → (g p).1 = false ∧ (g p).2 = []) ∧
      (g e).2.head? = some x := by
  induction es with
  | nil => simp [seqRun] at h
  | cons a as ih =>
    simp only [seqRun] at h
    by_cases ha : (g a).1 = true
    · simp [ha] at h
      exact ⟨[], a, as, rfl, by simp, h⟩
    · simp [ha] at h
      by_cases hw : (g a).2 = []
      · simp [hw] at h
        obtain ⟨pre, e, post, h1, h2, h3⟩ := ih h
        refine ⟨a :: pre, e, post, by simp [h1], ?_, h3⟩
        intro p hp
        cases hp with
        | head => exact ⟨by simpa using ha, hw⟩
        | tail _ hp => exact h2 p hp
      · refine ⟨[], a, as, rfl, by simp, ?_⟩
        cases hga : (g a).2 with
        | nil => exact absurd hga hw
        | cons y ys => simp [hga] at h ⊢; exact h

theorem seqRun_nil {es : List Expr} (h : (seqRun g es).2 = []) (h1 : (seqRun g es).1 = false) :
    ∀ e, e ∈ es → (g e).2 = [] := by
  intro e he
  have := (seqRun_false g h1 e he).2
  cases hge : (g e).2 with
  | nil => rfl
  | cons y ys =>
    have := this y (by simp [hge])
    simp [h] at this

theorem altRun_true {es : List Expr} : (altRun g es).1 = true ↔ ∀ e, e ∈ es → (g e).1 = true := by
  induction es with
  | nil => simp [altRun]
  | cons a as ih => simp [altRun, ih]

theorem altRun_mem {es : List Expr} {x : String} : x ∈ (altRun g es).2 ↔ ∃ e, e ∈ es ∧ x ∈ (g e).2 := by
  induction es with
  | nil => simp [altRun]
  | cons a as ih => simp [altRun, ih]

theorem altRun_nil {es : List Expr} (h : (altRun g es).2 = []) : ∀ e, e ∈ es → (g e).2 = [] := by
  intro e he
  cases hge : (g e).2 with
  | nil => rfl
  | cons y ys =>
    have : y ∈ (altRun g es).2 := (altRun_mem g).mpr ⟨e, he, by simp [hge]⟩
    simp [h] at this

theorem altRun_head {es : List Expr} {x : String} (h : (altRun g es).2.head? = some x) :
    ∃ e, e ∈ es ∧ (g e).2.head? = some x := by
  induction es with
  | nil => simp [altRun] at h
  | cons a as ih =>
    simp only [altRun, List.head?_append] at h
    cases hga : (g a).2.head? with
    | some y => simp [hga] at h; exact ⟨a, List.mem_cons_self, by simp [hga, h]⟩
    | none =>
      simp [hga] at h
      obtain ⟨e, he, h'⟩ := ih h
      exact ⟨e, List.mem_cons_of_mem _ he, h'⟩
end Runs

/-! ### A. `checkRec` -/

/-- The Go result `true` always means "must consume" (least fixed point), whatever the fuel. -/
theorem cr_true (G : Grammar) : ∀ (f : Nat) (m : List String) (e : Expr),
    (checkRec G f m e).1 = true → MustConsume G e := by
  intro f
  induction f with
  | zero => intro m e h; simp [checkRec] at h
  | succ f ih =>
    intro m e h
    cases e with
    | name n =>
      cases hfind : G.find n with
      | none => simp [checkRec, hfind] at h
      | some r =>
        by_cases hm : n ∈ m
        · simp [checkRec, hfind, hm] at h
        · simp [checkRec, hfind, hm] at h; exact .name hfind (ih _ _ h)
    | inl n b =>
      cases hfind : G.find n with
      | none => simp [checkRec, hfind] at h
      | some r =>
        by_cases hm : n ∈ m
        · simp [checkRec, hfind, hm] at h
        · simp [checkRec, hfind, hm] at h; exact .inl hfind (ih _ _ h)
    | alt es =>
      simp only [checkRec] at h
      exact .alt (fun e he => ih _ _ ((altRun_true _).mp h e he))
    | seq es =>
      simp only [checkRec] at h
      obtain ⟨e, he, h'⟩ := seqRun_true _ h
      exact .seq he (ih _ _ h')
    | peekFor e => simp [checkRec] at h
    | peekNot e => simp [checkRec] at h
    | query e => simp [checkRec] at h
    | star e => simp [checkRec] at h
    | plus e => simp only [checkRec] at h; exact .plus (ih _ _ h)
    | push e r => simp only [checkRec] at h; exact .push (ih _ _ h)
    | ipush e r => simp only [checkRec] at h; exact .ipush (ih _ _ h)
    | chr c => exact .chr c
    | str s =>
      simp [checkRec] at h
      exact .str h
    | dot => exact .dot
    | rng lo hi => exact .rng lo hi
    | ualt ks es => simp [checkRec] at h
    | pred c => simp [checkRec] at h
    | stmt c => simp [checkRec] at h
    | act c => simp [checkRec] at h
    | nil => simp [checkRec] at h

theorem need_sub_alt {G : Grammar} {m : List String} {es : List Expr} {e : Expr} {f : Nat}
    (he : e ∈ es) (hf : need G m (.alt es) ≤ f + 1) : need G m e ≤ f := by
  have := depthL_mem he
  simp [need, Expr.depth] at hf ⊢; omega
theorem need_sub_seq {G : Grammar} {m : List String} {es : List Expr} {e : Expr} {f : Nat}
    (he : e ∈ es) (hf : need G m (.seq es) ≤ f + 1) : need G m e ≤ f := by
  have := depthL_mem he
  simp [need, Expr.depth] at hf ⊢; omega

theorem need_zero {G : Grammar} {m : List String} {e : Expr} : ¬ need G m e ≤ 0 := by
  have := depth_pos e
  simp [need]; omega

/-- A call during which no warning is issued (no cycle cut) computes `MustConsume` exactly. -/
theorem cr_exact (G : Grammar) : ∀ (f : Nat) (m : List String) (e : Expr),
    need G m e ≤ f → (checkRec G f m e).2 = [] → MustConsume G e → (checkRec G f m e).1 = true := by
  intro f
  induction f with
  | zero => intro m e hf; exact absurd hf need_zero
  | succ f ih =>
    intro m e hf hw hmc
    cases e with
    | name n =>
      cases hmc with
      | name hfind hb =>
        by_cases hm : n ∈ m
        · simp [checkRec, hfind, hm] at hw
        · simp [checkRec, hfind, hm] at hw ⊢
          exact ih _ _ (need_enter hfind hm hf) hw hb
    | inl n b =>
      cases hmc with
      | inl hfind hb =>
        by_cases hm : n ∈ m
        · simp [checkRec, hfind, hm] at hw
        · simp [checkRec, hfind, hm] at hw ⊢
          exact ih _ _ (need_enter_inl hfind hm hf) hw hb
    | alt es =>
      cases hmc with
      | alt hall =>
        simp only [checkRec] at hw ⊢
        exact (altRun_true _).mpr (fun e he => ih _ _ (need_sub_alt he hf) (altRun_nil _ hw e he) (hall e he))
    | seq es =>
      cases hmc with
      | seq he hmce =>
        simp only [checkRec] at hw ⊢
        cases hres : (seqRun (checkRec G f m) es).1 with
        | true => rfl
        | false =>
          have h1 := (seqRun_false _ hres _ he).1
          have h2 := seqRun_nil _ hw hres _ he
          have := ih _ _ (need_sub_seq he hf) h2 hmce
          simp [h1] at this
    | peekFor e => cases hmc
    | peekNot e => cases hmc
    | query e => cases hmc
    | star e => cases hmc
    | plus e =>
      cases hmc with
      | plus h =>
        simp only [checkRec] at hw ⊢
        exact ih _ _ (by simp [need, Expr.depth] at hf ⊢; omega) hw h
    | push e r =>
      cases hmc with
      | push h =>
        simp only [checkRec] at hw ⊢
        exact ih _ _ (by simp [need, Expr.depth] at hf ⊢; omega) hw h
    | ipush e r =>
      cases hmc with
      | ipush h =>
        simp only [checkRec] at hw ⊢
        exact ih _ _ (by simp [need, Expr.depth] at hf ⊢; omega) hw h
    | chr c => simp [checkRec]
    | str s => cases hmc with | str h => simp [checkRec, h]
    | dot => simp [checkRec]
    | rng lo hi => simp [checkRec]
    | ualt ks es => cases hmc
    | pred c => cases hmc
    | stmt c => cases hmc
    | act c => cases hmc
    | nil => cases hmc

/-- `e` reaches rule `x` through references at first positions. -/
def ReachS (G : Grammar) (e : Expr) (x : String) : Prop := ∃ a, FirstRef G e a ∧ Star (LStep G) a x

theorem ReachS.map {G : Grammar} {e e' : Expr} {x : String}
    (h : ∀ a, FirstRef G e a → FirstRef G e' a) : ReachS G e x → ReachS G e' x
  | ⟨a, h1, h2⟩ => ⟨a, h a h1, h2⟩

/-- The FIRST warning issued during a call names a rule that `e` reaches at first position, and
    that is either marked (on the current path) or left recursive. -/
theorem cr_first (G : Grammar) : ∀ (f : Nat) (m : List String) (e : Expr) (x : String),
    need G m e ≤ f → (checkRec G f m e).2.head? = some x →
    ReachS G e x ∧ (x ∈ m ∨ LeftRec G x) := by
  intro f
  induction f with
  | zero => intro m e x hf; exact absurd hf need_zero
  | succ f ih =>
    intro m e x hf hx
    cases e with
    | name n =>
      cases hfind : G.find n with
      | none => simp [checkRec, hfind] at hx
      | some r =>
        by_cases hm : n ∈ m
        · simp [checkRec, hfind, hm] at hx
          subst hx
          exact ⟨⟨_, .name _, .refl _⟩, Or.inl hm⟩
        · simp [checkRec, hfind, hm] at hx
          obtain ⟨⟨a, ha, hs⟩, hor⟩ := ih _ _ _ (need_enter hfind hm hf) hx
          have hstep : LStep G n a := ⟨r, hfind, ha⟩
          refine ⟨⟨n, .name _, .step hstep hs⟩, ?_⟩
          rcases hor with h | h
          · cases h with
            | head => exact Or.inr (Plus.of_step_star hstep hs)
            | tail _ h => exact Or.inl h
          · exact Or.inr h
    | inl n b =>
      cases hfind : G.find n with
      | none => simp [checkRec, hfind] at hx
      | some r =>
        by_cases hm : n ∈ m
        · simp [checkRec, hfind, hm] at hx
          subst hx
          exact ⟨⟨_, .inl _ _, .refl _⟩, Or.inl hm⟩
        · simp [checkRec, hfind, hm] at hx
          obtain ⟨⟨a, ha, hs⟩, hor⟩ := ih _ _ _ (need_enter_inl hfind hm hf) hx
          have hstep : LStep G n a := ⟨r, hfind, ha⟩
          refine ⟨⟨n, .inl _ _, .step hstep hs⟩, ?_⟩
          rcases hor with h | h
          · cases h with
            | head => exact Or.inr (Plus.of_step_star hstep hs)
            | tail _ h => exact Or.inl h
          · exact Or.inr h
    | alt es =>
      simp only [checkRec] at hx
      obtain ⟨e, he, h'⟩ := altRun_head _ hx
      obtain ⟨hr, hor⟩ := ih _ _ _ (need_sub_alt he hf) h'
      exact ⟨hr.map (fun a ha => .alt he ha), hor⟩
    | seq es =>
      simp only [checkRec] at hx
      obtain ⟨pre, e, post, hes, hpre, h'⟩ := seqRun_head _ hx
      subst hes
      have he : e ∈ pre ++ e :: post := by simp
      obtain ⟨hr, hor⟩ := ih _ _ _ (need_sub_seq he hf) h'
      refine ⟨hr.map (fun a ha => .seq ?_ ha), hor⟩
      intro p hp hmc
      have hp' : p ∈ pre ++ e :: post := by simp [hp]
      have := cr_exact G f m p (need_sub_seq hp' hf) (hpre p hp).2 hmc
      simp [(hpre p hp).1] at this
    | peekFor e =>
      simp only [checkRec] at hx
      obtain ⟨hr, hor⟩ := ih _ _ _ (by simp [need, Expr.depth] at hf ⊢; omega) hx
      exact ⟨hr.map (fun a ha => .peekFor ha), hor⟩
    | peekNot e =>
      simp only [checkRec] at hx
      obtain ⟨hr, hor⟩ := ih _ _ _ (by simp [need, Expr.depth] at hf ⊢; omega) hx
      exact ⟨hr.map (fun a ha => .peekNot ha), hor⟩
    | query e =>
      simp only [checkRec] at hx
      obtain ⟨hr, hor⟩ := ih _ _ _ (by simp [need, Expr.depth] at hf ⊢; omega) hx
      exact ⟨hr.map (fun a ha => .query ha), hor⟩
    | star e =>
      simp only [checkRec] at hx
      obtain ⟨hr, hor⟩ := ih _ _ _ (by simp [need, Expr.depth] at hf ⊢; omega) hx
      exact ⟨hr.map (fun a ha => .star ha), hor⟩
    | plus e =>
      simp only [checkRec] at hx
      obtain ⟨hr, hor⟩ := ih _ _ _ (by simp [need, Expr.depth] at hf ⊢; omega) hx
      exact ⟨hr.map (fun a ha => .plus ha), hor⟩
    | push e r =>
      simp only [checkRec] at hx
      obtain ⟨hr, hor⟩ := ih _ _ _ (by simp [need, Expr.depth] at hf ⊢; omega) hx
      exact ⟨hr.map (fun a ha => .push ha), hor⟩
    | ipush e r =>
      simp only [checkRec] at hx
      obtain ⟨hr, hor⟩ := ih _ _ _ (by simp [need, Expr.depth] at hf ⊢; omega) hx
      exact ⟨hr.map (fun a ha => .ipush ha), hor⟩
    | chr c => simp [checkRec] at hx
    | str s => simp [checkRec] at hx
    | dot => simp [checkRec] at hx
    | rng lo hi => simp [checkRec] at hx
    | ualt ks es => simp [checkRec] at hx
    | pred c => simp [checkRec] at hx
    | stmt c => simp [checkRec] at hx
    | act c => simp [checkRec] at hx
    | nil => simp [checkRec] at hx

/-- "the reference `a` was visited with marks `m`": if `a` is marked it is warned, otherwise its
    body is checked (with enough fuel) and all warnings from there are passed on. -/
def Vis (G : Grammar) (m : List String) (a : String) (ra : Rule) (ws : List String) : Prop :=
  (a ∈ m → a ∈ ws) ∧
  (a ∉ m → ∃ f', need G (a :: m) ra.body ≤ f' ∧ ∀ x, x ∈ (checkRec G f' (a :: m) ra.body).2 → x ∈ ws)

theorem Vis.mono {G : Grammar} {m : List String} {a : String} {ra : Rule} {ws ws' : List String}
    (h : ∀ x, x ∈ ws → x ∈ ws') : Vis G m a ra ws → Vis G m a ra ws'
  | ⟨h1, h2⟩ => ⟨fun hm => h _ (h1 hm), fun hm =>
      let ⟨f', hf', hx⟩ := h2 hm; ⟨f', hf', fun x hx' => h _ (hx x hx')⟩⟩

/-- Every reference in `FirstRef` position is visited by the code. -/
theorem cr_visit (G : Grammar) : ∀ (f : Nat) (m : List String) (e : Expr) (a : String) (ra : Rule),
    need G m e ≤ f → FirstRef G e a → G.find a = some ra → Vis G m a ra (checkRec G f m e).2 := by
  intro f
  induction f with
  | zero => intro m e a ra hf; exact absurd hf need_zero
  | succ f ih =>
    intro m e a ra hf hfr hfind
    cases hfr with
    | name =>
      refine ⟨fun hm => by simp [checkRec, hfind, hm], fun hm => ⟨f, need_enter hfind hm hf, ?_⟩⟩
      intro x hx
      simpa [checkRec, hfind, hm] using hx
    | inl n b =>
      refine ⟨fun hm => by simp [checkRec, hfind, hm], fun hm => ⟨f, need_enter_inl hfind hm hf, ?_⟩⟩
      intro x hx
      simpa [checkRec, hfind, hm] using hx
    | @seq pre post e' _ hpre hfr' =>
      have he : e' ∈ pre ++ e' :: post := by simp
      refine (ih m e' a ra (need_sub_seq he hf) hfr' hfind).mono ?_
      simp only [checkRec]
      apply seqRun_visit
      intro p hp
      cases hc : (checkRec G f m p).1 with
      | false => rfl
      | true => exact absurd (cr_true G f m p hc) (hpre p hp)
    | @alt es e' _ he hfr' =>
      refine (ih m e' a ra (need_sub_alt he hf) hfr' hfind).mono ?_
      intro x hx
      simp only [checkRec]
      exact (altRun_mem _).mpr ⟨e', he, hx⟩
    | peekFor hfr' =>
      refine (ih m _ a ra (by simp [need, Expr.depth] at hf ⊢; omega) hfr' hfind).mono ?_
      intro x hx; simpa [checkRec] using hx
    | peekNot hfr' =>
      refine (ih m _ a ra (by simp [need, Expr.depth] at hf ⊢; omega) hfr' hfind).mono ?_
      intro x hx; simpa [checkRec] using hx
    | query hfr' =>
      refine (ih m _ a ra (by simp [need, Expr.depth] at hf ⊢; omega) hfr' hfind).mono ?_
      intro x hx; simpa [checkRec] using hx
    | star hfr' =>
      refine (ih m _ a ra (by simp [need, Expr.depth] at hf ⊢; omega) hfr' hfind).mono ?_
      intro x hx; simpa [checkRec] using hx
    | plus hfr' =>
      refine (ih m _ a ra (by simp [need, Expr.depth] at hf ⊢; omega) hfr' hfind).mono ?_
      intro x hx; simpa [checkRec] using hx
    | push hfr' =>
      refine (ih m _ a ra (by simp [need, Expr.depth] at hf ⊢; omega) hfr' hfind).mono ?_
      intro x hx; simpa [checkRec] using hx
    | ipush hfr' =>
      refine (ih m _ a ra (by simp [need, Expr.depth] at hf ⊢; omega) hfr' hfind).mono ?_
      intro x hx; simpa [checkRec] using hx

/-- Completeness of one call: if `e` reaches, through `n` first-position steps, a rule `t` that is
    marked, then some marked rule on that chain is warned. -/
theorem cr_complete (G : Grammar) : ∀ (n : Nat) (m : List String) (e : Expr) (f : Nat) (a t : String),
    (∀ x, x ∈ m → ∃ r, G.find x = some r) → need G m e ≤ f → FirstRef G e a →
    StepsN (LStep G) n a t → t ∈ m →
    ∃ x, x ∈ m ∧ x ∈ (checkRec G f m e).2 ∧ ∃ k, k ≤ n ∧ StepsN (LStep G) k x t := by
  intro n
  induction n using Nat.strongRecOn with
  | _ n ih =>
    intro m e f a t hdef hf hfr hsteps ht
    by_cases ham : a ∈ m
    · obtain ⟨ra, hfind⟩ := hdef a ham
      exact ⟨a, ham, (cr_visit G f m e a ra hf hfr hfind).1 ham, n, Nat.le_refl _, hsteps⟩
    · cases hsteps with
      | zero => exact absurd ht ham
      | @succ n' _ b _ hstep hrest =>
        obtain ⟨ra, hfind, hfrb⟩ := hstep
        obtain ⟨f', hf', hsub⟩ := (cr_visit G f m e a ra hf hfr hfind).2 ham
        have hdef' : ∀ x, x ∈ a :: m → ∃ r, G.find x = some r := by
          intro x hx
          cases hx with
          | head => exact ⟨ra, hfind⟩
          | tail _ hx => exact hdef x hx
        obtain ⟨x, hxm, hxw, k, hk, hks⟩ :=
          ih n' (Nat.lt_succ_self _) (a :: m) ra.body f' b t hdef' hf' hfrb hrest (List.mem_cons_of_mem _ ht)
        cases hxm with
        | head =>
          -- the chain came back to `a`: restart from `a` with the shorter rest of the chain
          obtain ⟨x', hx'm, hx'w, k', hk', hk's⟩ :=
            ih k (by omega) m e f a t hdef hf hfr hks ht
          exact ⟨x', hx'm, hx'w, k', by omega, hk's⟩
        | tail _ hxm => exact ⟨x, hxm, hsub x hxw, k, by omega, hks⟩

/-! ### A'. the `checkRecursion` closure of `Compile` -/

theorem find?_of_nodup : ∀ (rs : List Rule), (rs.map (·.name)).Nodup → ∀ r, r ∈ rs →
    rs.find? (fun q => q.name == r.name) = some r
  | [], _, r, hr => by cases hr
  | q :: qs, hnd, r, hr => by
    simp only [List.map_cons, List.nodup_cons] at hnd
    cases hr with
    | head => simp
    | tail _ hr' =>
      have hne : q.name ≠ r.name := by
        intro heq
        exact hnd.1 (heq ▸ List.mem_map.mpr ⟨r, hr', rfl⟩)
      simp [hne]
      exact find?_of_nodup qs hnd.2 r hr'

theorem Grammar.Uniq.find {G : Grammar} (hu : G.Uniq) {r : Rule} (hr : r ∈ G.rules) :
    G.find r.name = some r := find?_of_nodup G.rules hu r hr

theorem need_top {G : Grammar} {r : Rule} (hr : r ∈ G.rules) : need G [r.name] r.body ≤ G.diagFuel := by
  have := budget_enter (m := []) hr (by simp)
  simp [need, Grammar.diagFuel]; omega

/-- a left-recursive rule is warned, in the run that starts at this rule -/
theorem recWarningsOf_complete {G : Grammar} {n : String} {r : Rule} (hfind : G.find n = some r)
    (h : LeftRec G n) : n ∈ recWarningsOf G r := by
  obtain ⟨hr, hn⟩ := find_spec hfind
  obtain ⟨b, ⟨r', hfind', hfr⟩, hstar⟩ := Plus.split h
  have : r' = r := by rw [hfind] at hfind'; exact (Option.some.inj hfind').symm
  subst this
  obtain ⟨k, hk⟩ := hstar.toStepsN
  have hdef : ∀ x, x ∈ [r'.name] → ∃ q, G.find x = some q := by
    intro x hx; simp at hx; subst hx; rw [hn]; exact ⟨r', hfind⟩
  obtain ⟨x, hxm, hxw, _⟩ := cr_complete G k [r'.name] r'.body G.diagFuel b n hdef (need_top hr) hfr hk (by simp [hn])
  simp at hxm
  subst hxm
  rw [← hn]
  exact hxw

theorem recWarnings_complete {G : Grammar} {n : String} (h : LeftRec G n) : n ∈ recWarnings G := by
  obtain ⟨b, ⟨r, hfind, hfr⟩, hstar⟩ := Plus.split h
  exact List.mem_flatMap.mpr ⟨r, (find_spec hfind).1, recWarningsOf_complete hfind h⟩

/-- the first warning of every run is a left-recursive rule -/
theorem recWarningsOf_first {G : Grammar} (hu : G.Uniq) {r : Rule} (hr : r ∈ G.rules) {x : String}
    (h : (recWarningsOf G r).head? = some x) : LeftRec G x := by
  obtain ⟨⟨a, ha, hs⟩, hor⟩ := cr_first G G.diagFuel [r.name] r.body x (need_top hr) h
  rcases hor with hx | hx
  · simp at hx
    subst hx
    exact Plus.of_step_star ⟨r, hu.find hr, ha⟩ hs
  · exact hx

theorem recWarnings_exists {G : Grammar} (hu : G.Uniq) (h : recWarnings G ≠ []) : ∃ x, LeftRec G x := by
  cases hw : recWarnings G with
  | nil => exact absurd hw h
  | cons y ys =>
    have : y ∈ recWarnings G := by simp [hw]
    obtain ⟨r, hr, hy⟩ := List.mem_flatMap.mp this
    cases hro : recWarningsOf G r with
    | nil => simp [hro] at hy
    | cons z zs => exact ⟨z, recWarningsOf_first hu hr (by simp [hro])⟩

/-! ### B. `countRec` -/

theorem mem_refsL {e : Expr} {n : String} : ∀ {es : List Expr}, e ∈ es → n ∈ refsE e → n ∈ refsL es
  | [], he, _ => by cases he
  | a :: as, he, h => by
    simp only [refsL, List.mem_append]
    cases he with
    | head => exact Or.inl h
    | tail _ h' => exact Or.inr (mem_refsL h' h)

theorem mentions_iff_refs : ∀ (e : Expr) (n : String), Mentions e n ↔ n ∈ refsE e := by
  intro e n
  constructor
  · intro h
    induction h with
    | name n => simp [refsE]
    | inl n b => simp [refsE]
    | seq he _ ih | alt he _ ih | ualt he _ ih =>
      simp only [refsE]
      exact mem_refsL he ih
    | peekFor _ ih | peekNot _ ih | query _ ih | star _ ih | plus _ ih | push _ ih | ipush _ ih =>
      simpa [refsE] using ih
  · exact refs_mentions e n
where
  refs_mentions : ∀ (e : Expr) (n : String), n ∈ refsE e → Mentions e n
    | .name a, n, h => by simp [refsE] at h; subst h; exact .name _
    | .inl a b, n, h => by simp [refsE] at h; subst h; exact .inl _ _
    | .seq es, n, h => by
      simp only [refsE] at h
      obtain ⟨e, he, hm⟩ := refsL_mentions es n h
      exact .seq he hm
    | .alt es, n, h => by
      simp only [refsE] at h
      obtain ⟨e, he, hm⟩ := refsL_mentions es n h
      exact .alt he hm
    | .ualt ks es, n, h => by
      simp only [refsE] at h
      obtain ⟨e, he, hm⟩ := refsL_mentions es n h
      exact .ualt he hm
    | .peekFor e, n, h => by simp only [refsE] at h; exact .peekFor (refs_mentions e n h)
    | .peekNot e, n, h => by simp only [refsE] at h; exact .peekNot (refs_mentions e n h)
    | .query e, n, h => by simp only [refsE] at h; exact .query (refs_mentions e n h)
    | .star e, n, h => by simp only [refsE] at h; exact .star (refs_mentions e n h)
    | .plus e, n, h => by simp only [refsE] at h; exact .plus (refs_mentions e n h)
    | .push e r, n, h => by simp only [refsE] at h; exact .push (refs_mentions e n h)
    | .ipush e r, n, h => by simp only [refsE] at h; exact .ipush (refs_mentions e n h)
    | .dot, n, h => by simp [refsE] at h
    | .chr _, n, h => by simp [refsE] at h
    | .rng _ _, n, h => by simp [refsE] at h
    | .str _, n, h => by simp [refsE] at h
    | .pred _, n, h => by simp [refsE] at h
    | .stmt _, n, h => by simp [refsE] at h
    | .act _, n, h => by simp [refsE] at h
    | .nil, n, h => by simp [refsE] at h
  refsL_mentions : ∀ (es : List Expr) (n : String), n ∈ refsL es → ∃ e, e ∈ es ∧ Mentions e n
    | [], n, h => by simp [refsL] at h
    | e :: es, n, h => by
      simp only [refsL, List.mem_append] at h
      rcases h with h | h
      · exact ⟨e, List.mem_cons_self, refs_mentions e n h⟩
      · obtain ⟨e', he', hm⟩ := refsL_mentions es n h
        exact ⟨e', List.mem_cons_of_mem _ he', hm⟩

/-- the name resolves (`t.Rules[name] != nil`) -/
def Defd (G : Grammar) (n : String) : Prop := ∃ r, G.find n = some r

/-- post-condition of a `countRules` call on something that mentions `refs`, from marks `rs` to
    marks `out`: marks only grow, every (resolving) mentioned name is marked, and every newly
    marked rule has all the names its body mentions marked. -/
structure CGood (G : Grammar) (refs rs out : List String) : Prop where
  mono : ∀ x, x ∈ rs → x ∈ out
  direct : ∀ a, a ∈ refs → Defd G a → a ∈ out
  closed : ∀ n, n ∈ out → n ∉ rs → ∀ r b, G.find n = some r → b ∈ refsE r.body → Defd G b → b ∈ out
  sound : ∀ n, n ∈ out → n ∈ rs ∨ (Defd G n ∧ ∃ a, a ∈ refs ∧ Star (Refers G) a n)

theorem CGood.id (G : Grammar) (rs : List String) : CGood G [] rs rs :=
  ⟨fun _ h => h, fun _ h _ => (by cases h), fun _ h h' => absurd h h', fun _ h => Or.inl h⟩

theorem CGood.congr {G : Grammar} {refs refs' rs out : List String} (h : ∀ a, a ∈ refs ↔ a ∈ refs')
    (g : CGood G refs rs out) : CGood G refs' rs out :=
  ⟨g.mono, fun a ha => g.direct a ((h a).mpr ha), g.closed, fun n hn =>
    (g.sound n hn).imp (fun h0 => h0) (fun ⟨hd, a, ha, hs⟩ => ⟨hd, a, (h a).mp ha, hs⟩)⟩

theorem foldl_good {G : Grammar} (h : Expr → List String → List String) :
    ∀ (es : List Expr) (rs : List String),
    (∀ e, e ∈ es → ∀ acc, (∀ x, x ∈ rs → x ∈ acc) → CGood G (refsE e) acc (h e acc)) →
    CGood G (refsL es) rs (es.foldl (fun acc x => h x acc) rs)
  | [], rs, _ => by simpa [refsL] using CGood.id G rs
  | a :: as, rs, hall => by
    have g1 := hall a List.mem_cons_self rs (fun _ hx => hx)
    have g2 := foldl_good h as (h a rs) (fun e he acc hacc =>
      hall e (List.mem_cons_of_mem _ he) acc (fun x hx => hacc x (g1.mono x hx)))
    simp only [List.foldl_cons, refsL]
    refine ⟨fun x hx => g2.mono x (g1.mono x hx), ?_, ?_, ?_⟩
    · intro b hb hd
      rcases List.mem_append.mp hb with hb | hb
      · exact g2.mono b (g1.direct b hb hd)
      · exact g2.direct b hb hd
    · intro n hn hnrs r b hfind hb hd
      by_cases hn1 : n ∈ h a rs
      · exact g2.mono b (g1.closed n hn1 hnrs r b hfind hb hd)
      · exact g2.closed n hn hn1 r b hfind hb hd
    · intro n hn
      rcases g2.sound n hn with h1 | ⟨hd, a', ha', hs⟩
      · rcases g1.sound n h1 with h0 | ⟨hd, a', ha', hs⟩
        · exact Or.inl h0
        · exact Or.inr ⟨hd, a', List.mem_append.mpr (Or.inl ha'), hs⟩
      · exact Or.inr ⟨hd, a', List.mem_append.mpr (Or.inr ha'), hs⟩

theorem need_mono {G : Grammar} {m m' : List String} (e : Expr) (h : ∀ x, x ∈ m → x ∈ m') :
    need G m' e ≤ need G m e := by
  have := budget_mono G.rules h
  simp [need]; omega

theorem count_name_good {G : Grammar} {f : Nat} {n : String} {rs : List String}
    (ih : ∀ (e : Expr) (rs : List String), need G rs e ≤ f → CGood G (refsE e) rs (countRec G f e rs))
    (hf : budget G.rules rs + 1 ≤ f + 1) :
    CGood G [n] rs (match G.find n with
      | none => rs
      | some r => if rs.contains n then rs else countRec G f r.body (n :: rs)) := by
  cases hfind : G.find n with
  | none =>
    refine ⟨fun _ h => h, ?_, fun _ h h' => absurd h h', fun _ h => Or.inl h⟩
    intro a ha ⟨r, hr⟩
    simp at ha; subst ha
    rw [hfind] at hr; cases hr
  | some r =>
    by_cases hm : n ∈ rs
    · simp only [List.contains_iff_mem.mpr hm, if_true]
      refine ⟨fun _ h => h, ?_, fun _ h h' => absurd h h', fun _ h => Or.inl h⟩
      intro a ha _
      simp at ha; subst ha; exact hm
    · have hc : rs.contains n = false := by
        cases h : rs.contains n with
        | false => rfl
        | true => exact absurd (List.contains_iff_mem.mp h) hm
      simp only [hc]
      obtain ⟨hr, hn⟩ := find_spec hfind
      have hfuel : need G (n :: rs) r.body ≤ f := by
        have := budget_enter hr (hn ▸ hm)
        rw [hn] at this
        simp [need]; omega
      have g := ih r.body (n :: rs) hfuel
      refine ⟨fun x hx => g.mono x (List.mem_cons_of_mem _ hx), ?_, ?_, ?_⟩
      · intro a ha _
        simp at ha; subst ha
        exact g.mono _ List.mem_cons_self
      · intro x hx hxrs r' b hfind' hb hd
        by_cases hxn : x = n
        · subst hxn
          rw [hfind] at hfind'; cases hfind'
          exact g.direct b hb hd
        · exact g.closed x hx (by simp [hxn, hxrs]) r' b hfind' hb hd
      · intro x hx
        rcases g.sound x hx with h1 | ⟨hd, a, ha, hs⟩
        · cases h1 with
          | head => exact Or.inr ⟨⟨r, hfind⟩, n, by simp, .refl _⟩
          | tail _ h1 => exact Or.inl h1
        · refine Or.inr ⟨hd, n, by simp, .step ⟨r, hfind, (mentions_iff_refs _ _).mpr ha⟩ hs⟩

theorem countRec_good (G : Grammar) : ∀ (f : Nat) (e : Expr) (rs : List String),
    need G rs e ≤ f → CGood G (refsE e) rs (countRec G f e rs) := by
  intro f
  induction f with
  | zero => intro e rs hf; exact absurd hf need_zero
  | succ f ih =>
    intro e rs hf
    have hlist : ∀ es : List Expr, depthL es + 1 + budget G.rules rs ≤ f + 1 →
        CGood G (refsL es) rs (es.foldl (fun acc x => countRec G f x acc) rs) := by
      intro es hes
      apply foldl_good (fun x acc => countRec G f x acc)
      intro e he acc hacc
      apply ih
      have h1 := depthL_mem he
      have h2 := budget_mono G.rules hacc
      simp [need]; omega
    cases e with
    | name n =>
      simp only [countRec, refsE]
      exact count_name_good ih (by simp [need, Expr.depth] at hf; omega)
    | inl n b =>
      simp only [countRec, refsE]
      have := depth_pos b
      exact count_name_good ih (by simp [need, Expr.depth] at hf; omega)
    | seq es => simp only [countRec, refsE]; exact hlist es (by simpa [need, Expr.depth] using hf)
    | alt es => simp only [countRec, refsE]; exact hlist es (by simpa [need, Expr.depth] using hf)
    | ualt ks es => simp only [countRec, refsE]; exact hlist es (by simpa [need, Expr.depth] using hf)
    | peekFor e => simp only [countRec, refsE]; exact ih e rs (by simp [need, Expr.depth] at hf ⊢; omega)
    | peekNot e => simp only [countRec, refsE]; exact ih e rs (by simp [need, Expr.depth] at hf ⊢; omega)
    | query e => simp only [countRec, refsE]; exact ih e rs (by simp [need, Expr.depth] at hf ⊢; omega)
    | star e => simp only [countRec, refsE]; exact ih e rs (by simp [need, Expr.depth] at hf ⊢; omega)
    | plus e => simp only [countRec, refsE]; exact ih e rs (by simp [need, Expr.depth] at hf ⊢; omega)
    | push e r => simp only [countRec, refsE]; exact ih e rs (by simp [need, Expr.depth] at hf ⊢; omega)
    | ipush e r => simp only [countRec, refsE]; exact ih e rs (by simp [need, Expr.depth] at hf ⊢; omega)
    | dot => simpa [countRec, refsE] using CGood.id G rs
    | chr c => simpa [countRec, refsE] using CGood.id G rs
    | rng lo hi => simpa [countRec, refsE] using CGood.id G rs
    | str s => simpa [countRec, refsE] using CGood.id G rs
    | pred c => simpa [countRec, refsE] using CGood.id G rs
    | stmt c => simpa [countRec, refsE] using CGood.id G rs
    | act c => simpa [countRec, refsE] using CGood.id G rs
    | nil => simpa [countRec, refsE] using CGood.id G rs

theorem find_head {G : Grammar} {first : Rule} {rest : List Rule} (h : G.rules = first :: rest) :
    G.find first.name = some first := by
  simp [Grammar.find, h]

/-- `countRules` marks exactly the (resolving) names reachable from the first rule. -/
theorem reached_iff {G : Grammar} {first : Rule} {rest : List Rule} (hG : G.rules = first :: rest)
    (n : String) : n ∈ reachedNames G ↔ Reachable G first.name n ∧ Defd G n := by
  have hfirst := find_head hG
  have hmem : first ∈ G.rules := by simp [hG]
  have g := countRec_good G G.diagFuel first.body [first.name] (need_top hmem)
  have hout : reachedNames G = countRec G G.diagFuel first.body [first.name] := by
    simp [reachedNames, hG]
  rw [hout]
  constructor
  · intro hn
    rcases g.sound n hn with h | ⟨hd, a, ha, hs⟩
    · simp at h; subst h
      exact ⟨.refl _, first, hfirst⟩
    · exact ⟨.step ⟨first, hfirst, (mentions_iff_refs _ _).mpr ha⟩ hs, hd⟩
  · intro ⟨hreach, hd⟩
    -- the marked set contains the first rule and is closed under "body mentions"
    have hclosed : ∀ a, a ∈ countRec G G.diagFuel first.body [first.name] → ∀ r b, G.find a = some r →
        Mentions r.body b → Defd G b → b ∈ countRec G G.diagFuel first.body [first.name] := by
      intro a ha r b hfind hb hdb
      have hb' := (mentions_iff_refs _ _).mp hb
      by_cases hfa : a = first.name
      · subst hfa
        rw [hfirst] at hfind; cases hfind
        exact g.direct b hb' hdb
      · exact g.closed a ha (by simp [hfa]) r b hfind hb' hdb
    have : ∀ a, Star (Refers G) a n → a ∈ countRec G G.diagFuel first.body [first.name] →
        n ∈ countRec G G.diagFuel first.body [first.name] := by
      intro a hs
      induction hs with
      | refl => exact fun h => h
      | @step a b c hab hbc ih =>
        intro ha
        obtain ⟨r, hfind, hb⟩ := hab
        have hdb : Defd G b := by
          cases hbc with
          | refl => exact hd
          | step h _ => obtain ⟨r', hr', _⟩ := h; exact ⟨r', hr'⟩
        exact ih hreach hd (hclosed a ha r b hfind hb hdb)
    exact this _ hreach (g.mono _ (by simp))

end PegVerif
