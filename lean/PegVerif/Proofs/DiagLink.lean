import PegVerif.Proofs.DiagLemmas
/-
  C. What `linkGrammar` (first pass + `link`) contributes to the diagnostics:
     * `firstPass_dup_none` : no duplicate error  ⇔  the rule names are pairwise different
     * `stub_iff`          : the rules with body `nil` that `link` appends are exactly the names that
                             are mentioned somewhere and not defined (plus `PegText` for a capture)
     * `referenced_iff`    : the names `link` records in `t.referenced` are exactly the names that are
                             mentioned somewhere
     * every other rule of the linked grammar has a non-`nil` body.
-/
namespace PegVerif

/-! ### first pass -/

def wrapRule (r : Rule) : Rule := { r with body := .ipush r.body r.name }

def fpStep (acc : List Rule × Option String) (r : Rule) : List Rule × Option String :=
  if acc.1.any (fun q => q.name == r.name) then (acc.1, acc.2.orElse (fun _ => some r.name))
  else (acc.1 ++ [{ r with body := .ipush r.body r.name }], acc.2)

theorem firstPass_eq (rules : List Rule) : firstPass rules = rules.foldl fpStep ([], none) := rfl

theorem fp_fold : ∀ (rules : List Rule) (acc : List Rule) (d : Option String),
    ((rules.foldl fpStep (acc, d)).2 = none ↔
      d = none ∧ (∀ r, r ∈ rules → ∀ q, q ∈ acc → q.name ≠ r.name) ∧ (rules.map (·.name)).Nodup) ∧
    ((rules.foldl fpStep (acc, d)).2 = none → (rules.foldl fpStep (acc, d)).1 = acc ++ rules.map wrapRule)
  | [], acc, d => by simp
  | r :: rs, acc, d => by
    simp only [List.foldl_cons]
    by_cases hany : acc.any (fun q => q.name == r.name) = true
    · have hstep : fpStep (acc, d) r = (acc, d.orElse (fun _ => some r.name)) := by simp [fpStep, hany]
      rw [hstep]
      have ih := fp_fold rs acc (d.orElse (fun _ => some r.name))
      have hsome : d.orElse (fun _ => some r.name) ≠ none := by cases d <;> simp [Option.orElse]
      have hfalse : ¬ (rs.foldl fpStep (acc, d.orElse (fun _ => some r.name))).2 = none :=
        fun h => hsome (ih.1.mp h).1
      obtain ⟨q, hq, hqn⟩ := List.any_eq_true.mp hany
      refine ⟨⟨fun h => absurd h hfalse, fun ⟨_, h2, _⟩ => ?_⟩, fun h => absurd h hfalse⟩
      exact absurd (by simpa using hqn) (h2 r List.mem_cons_self q hq)
    · have hstep : fpStep (acc, d) r = (acc ++ [wrapRule r], d) := by simp [fpStep, hany, wrapRule]
      rw [hstep]
      have ih := fp_fold rs (acc ++ [wrapRule r]) d
      have hno : ∀ q, q ∈ acc → q.name ≠ r.name := by
        intro q hq heq
        exact hany (List.any_eq_true.mpr ⟨q, hq, by simp [heq]⟩)
      constructor
      · rw [ih.1]
        constructor
        · intro ⟨h1, h2, h3⟩
          refine ⟨h1, ?_, ?_⟩
          · intro r' hr' q hq
            cases hr' with
            | head => exact hno q hq
            | tail _ hr' => exact h2 r' hr' q (List.mem_append.mpr (Or.inl hq))
          · simp only [List.map_cons, List.nodup_cons]
            refine ⟨?_, h3⟩
            intro hmem
            obtain ⟨r', hr', hn⟩ := List.mem_map.mp hmem
            exact h2 r' hr' (wrapRule r) (by simp) (by simp [wrapRule, hn])
        · intro ⟨h1, h2, h3⟩
          simp only [List.map_cons, List.nodup_cons] at h3
          refine ⟨h1, ?_, h3.2⟩
          intro r' hr' q hq
          rcases List.mem_append.mp hq with hq | hq
          · exact h2 r' (List.mem_cons_of_mem _ hr') q hq
          · simp at hq; subst hq
            intro heq
            exact h3.1 (List.mem_map.mpr ⟨r', hr', by simpa [wrapRule] using heq.symm⟩)
      · intro h
        rw [ih.2 h]
        simp

theorem firstPass_dup_none (rules : List Rule) :
    (firstPass rules).2 = none ↔ (rules.map (·.name)).Nodup := by
  rw [firstPass_eq]
  have := (fp_fold rules [] none).1
  simpa using this

theorem firstPass_wrapped {rules : List Rule} (h : (firstPass rules).2 = none) :
    (firstPass rules).1 = rules.map wrapRule := by
  rw [firstPass_eq] at h ⊢
  simpa using (fp_fold rules [] none).2 h

/-! ### link -/

mutual
  /-- the expression contains a capture `<…>` (at a place `link` descends to) -/
  def hasPushE : Expr → Bool
    | .push _ _ => true
    | .ipush e _ => hasPushE e
    | .seq es => hasPushL es
    | .alt es => hasPushL es
    | .ualt _ es => hasPushL es
    | .peekFor e => hasPushE e
    | .peekNot e => hasPushE e
    | .query e => hasPushE e
    | .star e => hasPushE e
    | .plus e => hasPushE e
    | _ => false
  def hasPushL : List Expr → Bool
    | [] => false
    | e :: es => hasPushE e || hasPushL es
end

/-- `link` appended a stub (`nil` body) for `n` -/
def Stub (st : LinkSt) (n : String) : Prop := ∃ r, r ∈ st.added ∧ r.body = .nil ∧ r.name = n

/-- Effect of a piece of `link` on the names that are not `Action<k>`: the names in `P` become
    defined, and those that were not defined before get a stub. -/
def Eff (st st' : LinkSt) (P : String → Prop) : Prop :=
  ∀ n, ¬ isAct n →
    (n ∈ st'.defined ↔ n ∈ st.defined ∨ P n) ∧ (Stub st' n ↔ Stub st n ∨ (n ∉ st.defined ∧ P n))

theorem Eff.refl (st : LinkSt) : Eff st st (fun _ => False) := by
  intro n _; simp

theorem Eff.comp {st st1 st2 : LinkSt} {P Q : String → Prop} (h1 : Eff st st1 P) (h2 : Eff st1 st2 Q) :
    Eff st st2 (fun n => P n ∨ Q n) := by
  intro n hn
  obtain ⟨a1, b1⟩ := h1 n hn
  obtain ⟨a2, b2⟩ := h2 n hn
  constructor
  · rw [a2, a1]; grind
  · rw [b2, b1, a1]; grind

theorem Eff.congr {st st' : LinkSt} {P Q : String → Prop} (h : ∀ n, P n ↔ Q n) (g : Eff st st' P) :
    Eff st st' Q := by
  intro n hn
  have := g n hn
  rw [h n] at this
  exact this

/-- `Eff` only looks at `defined` and `added` -/
theorem Eff.congr_left {st st1 st' : LinkSt} {P : String → Prop} (hd : st1.defined = st.defined)
    (ha : st1.added = st.added) (g : Eff st1 st' P) : Eff st st' P := by
  intro n hn
  have := g n hn
  simpa only [Stub, hd, ha] using this

def wantsE (e : Expr) (n : String) : Prop := n ∈ refsE e ∨ (n = "PegText" ∧ hasPushE e = true)
def wantsL (es : List Expr) (n : String) : Prop := n ∈ refsL es ∨ (n = "PegText" ∧ hasPushL es = true)

/-- adding a stub for `a` when it is not defined -/
theorem eff_stub (st : LinkSt) (a : String) :
    Eff st (if st.defined.contains a then st else
        { st with rulesCount := st.rulesCount + 1, defined := a :: st.defined,
                  added := st.added ++ [{ name := a, id := st.rulesCount, body := .nil }] })
      (fun n => n = a) := by
  intro n _
  by_cases h : a ∈ st.defined
  · simp only [List.contains_iff_mem.mpr h, if_true]
    constructor
    · constructor
      · exact Or.inl
      · rintro (h' | h')
        · exact h'
        · exact h' ▸ h
    · constructor
      · exact Or.inl
      · rintro (h' | ⟨h1, h2⟩)
        · exact h'
        · exact absurd (h2 ▸ h) h1
  · have hc : st.defined.contains a = false := by
      cases hh : st.defined.contains a with
      | false => rfl
      | true => exact absurd (List.contains_iff_mem.mp hh) h
    rw [hc]
    simp only [Bool.false_eq_true, if_false]
    constructor
    · simp; grind
    · simp only [Stub, List.mem_append, List.mem_singleton]
      constructor
      · rintro ⟨r, hr | hr, hb, hn⟩
        · exact Or.inl ⟨r, hr, hb, hn⟩
        · subst hr; simp at hn; subst hn; exact Or.inr ⟨h, rfl⟩
      · rintro (⟨r, hr, hb, hn⟩ | ⟨_, h2⟩)
        · exact ⟨r, Or.inl hr, hb, hn⟩
        · exact ⟨_, Or.inr rfl, rfl, h2.symm⟩

mutual
  theorem linkE_eff : ∀ (e : Expr) (st : LinkSt), noInlE e = true → Eff st (linkE e st).2 (wantsE e)
    | .act code, st, _ => by
      intro n hn
      simp only [linkE, wantsE, refsE, hasPushE]
      constructor
      · simp
        intro heq
        exact absurd ⟨st.nAct, by simpa using heq⟩ hn
      · simp only [Stub, List.mem_append, List.mem_singleton]
        constructor
        · rintro ⟨r, hr | hr, hb, hnm⟩
          · exact Or.inl ⟨r, hr, hb, hnm⟩
          · subst hr; simp at hb
        · rintro (⟨r, hr, hb, hnm⟩ | ⟨_, h2⟩)
          · exact ⟨r, Or.inl hr, hb, hnm⟩
          · simp at h2
    | .name a, st, _ => by
      have := (eff_stub { st with referenced := a :: st.referenced } a).congr_left (st := st) rfl rfl
      refine Eff.congr (P := fun n => n = a) ?_ ?_
      · intro n; simp [wantsE, refsE, hasPushE]
      · simp only [linkE]
        split <;> simp_all
    | .push e r, st, h => by
      have h1 := eff_stub st "PegText"
      have h2 := linkE_eff e (if st.defined.contains "PegText" then st else
        { st with rulesCount := st.rulesCount + 1, defined := "PegText" :: st.defined,
                  added := st.added ++ [{ name := "PegText", id := st.rulesCount, body := .nil }] })
        (by simpa [noInlE] using h)
      have := (h1.comp h2).congr (Q := wantsE (.push e r)) (by
        intro n; simp only [wantsE, refsE, hasPushE]; grind)
      simpa [linkE] using this
    | .ipush e r, st, h => by
      have := (linkE_eff e st (by simpa [noInlE] using h)).congr (Q := wantsE (.ipush e r)) (by
        intro n; simp [wantsE, refsE, hasPushE])
      simpa [linkE] using this
    | .seq es, st, h => by
      have := (linkL_eff es st (by simpa [noInlE] using h)).congr (Q := wantsE (.seq es)) (by
        intro n; simp [wantsE, wantsL, refsE, hasPushE])
      simpa [linkE] using this
    | .alt es, st, h => by
      have := (linkL_eff es st (by simpa [noInlE] using h)).congr (Q := wantsE (.alt es)) (by
        intro n; simp [wantsE, wantsL, refsE, hasPushE])
      simpa [linkE] using this
    | .ualt ks es, st, h => by
      have := (linkL_eff es st (by simpa [noInlE] using h)).congr (Q := wantsE (.ualt ks es)) (by
        intro n; simp [wantsE, wantsL, refsE, hasPushE])
      simpa [linkE] using this
    | .peekFor e, st, h => by
      have := (linkE_eff e st (by simpa [noInlE] using h)).congr (Q := wantsE (.peekFor e)) (by
        intro n; simp [wantsE, refsE, hasPushE])
      simpa [linkE] using this
    | .peekNot e, st, h => by
      have := (linkE_eff e st (by simpa [noInlE] using h)).congr (Q := wantsE (.peekNot e)) (by
        intro n; simp [wantsE, refsE, hasPushE])
      simpa [linkE] using this
    | .query e, st, h => by
      have := (linkE_eff e st (by simpa [noInlE] using h)).congr (Q := wantsE (.query e)) (by
        intro n; simp [wantsE, refsE, hasPushE])
      simpa [linkE] using this
    | .star e, st, h => by
      have := (linkE_eff e st (by simpa [noInlE] using h)).congr (Q := wantsE (.star e)) (by
        intro n; simp [wantsE, refsE, hasPushE])
      simpa [linkE] using this
    | .plus e, st, h => by
      have := (linkE_eff e st (by simpa [noInlE] using h)).congr (Q := wantsE (.plus e)) (by
        intro n; simp [wantsE, refsE, hasPushE])
      simpa [linkE] using this
    | .inl a b, st, h => by simp [noInlE] at h
    | .dot, st, _ => by
      simpa [linkE] using (Eff.refl st).congr (Q := wantsE .dot) (by intro n; simp [wantsE, refsE, hasPushE])
    | .chr c, st, _ => by
      simpa [linkE] using (Eff.refl st).congr (Q := wantsE (.chr c)) (by intro n; simp [wantsE, refsE, hasPushE])
    | .rng lo hi, st, _ => by
      simpa [linkE] using (Eff.refl st).congr (Q := wantsE (.rng lo hi)) (by intro n; simp [wantsE, refsE, hasPushE])
    | .str s, st, _ => by
      simpa [linkE] using (Eff.refl st).congr (Q := wantsE (.str s)) (by intro n; simp [wantsE, refsE, hasPushE])
    | .pred c, st, _ => by
      simpa [linkE] using (Eff.refl st).congr (Q := wantsE (.pred c)) (by intro n; simp [wantsE, refsE, hasPushE])
    | .stmt c, st, _ => by
      simpa [linkE] using (Eff.refl st).congr (Q := wantsE (.stmt c)) (by intro n; simp [wantsE, refsE, hasPushE])
    | .nil, st, _ => by
      simpa [linkE] using (Eff.refl st).congr (Q := wantsE .nil) (by intro n; simp [wantsE, refsE, hasPushE])
  theorem linkL_eff : ∀ (es : List Expr) (st : LinkSt), noInlL es = true → Eff st (linkL es st).2 (wantsL es)
    | [], st, _ => by
      simpa [linkL] using (Eff.refl st).congr (Q := wantsL []) (by intro n; simp [wantsL, refsL, hasPushL])
    | e :: es, st, h => by
      have hh : noInlE e = true ∧ noInlL es = true := by simpa [noInlL] using h
      have h1 := linkE_eff e st hh.1
      have h2 := linkL_eff es (linkE e st).2 hh.2
      have := (h1.comp h2).congr (Q := wantsL (e :: es)) (by
        intro n; simp only [wantsE, wantsL, refsL, hasPushL, List.mem_append, Bool.or_eq_true]; grind)
      simpa [linkL] using this
end

theorem linkRules_eff : ∀ (rs : List Rule) (st : LinkSt), (∀ r, r ∈ rs → noInlE r.body = true) →
    Eff st (linkRules rs st).2 (fun n => ∃ r, r ∈ rs ∧ wantsE r.body n)
  | [], st, _ => by
    simpa [linkRules] using (Eff.refl st).congr (Q := fun n => ∃ r, r ∈ ([] : List Rule) ∧ wantsE r.body n)
      (by intro n; simp)
  | r :: rs, st, h => by
    have h1 := linkE_eff r.body st (h r List.mem_cons_self)
    have h2 := linkRules_eff rs (linkE r.body st).2 (fun q hq => h q (List.mem_cons_of_mem _ hq))
    have := (h1.comp h2).congr (Q := fun n => ∃ q, q ∈ r :: rs ∧ wantsE q.body n) (by intro n; simp)
    simpa [linkRules] using this

theorem linkRules_bodies : ∀ (rs : List Rule) (st : LinkSt),
    (∀ r, r ∈ rs → ∃ b nm, r.body = .ipush b nm) →
    ∀ r, r ∈ (linkRules rs st).1 → ∃ b nm, r.body = .ipush b nm
  | [], st, _ => by simp [linkRules]
  | q :: qs, st, h => by
    intro r hr
    simp only [linkRules] at hr
    cases hr with
    | head =>
      obtain ⟨b, nm, hb⟩ := h q List.mem_cons_self
      simp only [hb, linkE]
      exact ⟨_, _, rfl⟩
    | tail _ hr => exact linkRules_bodies qs _ (fun q' hq' => h q' (List.mem_cons_of_mem _ hq')) r hr

theorem linkRules_names : ∀ (rs : List Rule) (st : LinkSt),
    (linkRules rs st).1.map (·.name) = rs.map (·.name)
  | [], st => by simp [linkRules]
  | q :: qs, st => by simp [linkRules, linkRules_names qs]

/-- the state `link` starts from -/
def linkSt0 (rules : List Rule) : LinkSt :=
  { rulesCount := rules.length + 1, nAct := 0, defined := (firstPass rules).1.map (·.name), added := [],
    actions := [], referenced := [] }

theorem linkGrammar_rules (rules : List Rule) :
    (linkGrammar rules).G.rules =
      (linkRules (firstPass rules).1 (linkSt0 rules)).1 ++ (linkRules (firstPass rules).1 (linkSt0 rules)).2.added := by
  simp [linkGrammar, linkSt0]

theorem linkGrammar_dup (rules : List Rule) : (linkGrammar rules).dup = (firstPass rules).2 := by
  simp [linkGrammar]

theorem linkGrammar_referenced (rules : List Rule) :
    (linkGrammar rules).referenced = (linkRules (firstPass rules).1 (linkSt0 rules)).2.referenced := by
  simp [linkGrammar, linkSt0]

/-! ### `t.referenced` -/

mutual
  /-- `link` records exactly the names of the `TypeName` nodes it meets -/
  theorem linkE_ref : ∀ (e : Expr) (st : LinkSt), noInlE e = true →
      ∀ n, n ∈ (linkE e st).2.referenced ↔ n ∈ st.referenced ∨ n ∈ refsE e
    | .act code, st, _ => by intro n; simp [linkE, refsE]
    | .name a, st, _ => by
      intro n
      simp only [linkE, refsE]
      split <;> simp <;> grind
    | .push e r, st, h => by
      intro n
      have := linkE_ref e (if st.defined.contains "PegText" then st else
        { st with rulesCount := st.rulesCount + 1, defined := "PegText" :: st.defined,
                  added := st.added ++ [{ name := "PegText", id := st.rulesCount, body := .nil }] })
        (by simpa [noInlE] using h) n
      have hst : (if st.defined.contains "PegText" then st else
        { st with rulesCount := st.rulesCount + 1, defined := "PegText" :: st.defined,
                  added := st.added ++ [{ name := "PegText", id := st.rulesCount, body := .nil }] }).referenced
          = st.referenced := by split <;> rfl
      rw [hst] at this
      simpa [linkE, refsE] using this
    | .ipush e r, st, h => by
      intro n; simpa [linkE, refsE] using linkE_ref e st (by simpa [noInlE] using h) n
    | .seq es, st, h => by
      intro n; simpa [linkE, refsE] using linkL_ref es st (by simpa [noInlE] using h) n
    | .alt es, st, h => by
      intro n; simpa [linkE, refsE] using linkL_ref es st (by simpa [noInlE] using h) n
    | .ualt ks es, st, h => by
      intro n; simpa [linkE, refsE] using linkL_ref es st (by simpa [noInlE] using h) n
    | .peekFor e, st, h => by
      intro n; simpa [linkE, refsE] using linkE_ref e st (by simpa [noInlE] using h) n
    | .peekNot e, st, h => by
      intro n; simpa [linkE, refsE] using linkE_ref e st (by simpa [noInlE] using h) n
    | .query e, st, h => by
      intro n; simpa [linkE, refsE] using linkE_ref e st (by simpa [noInlE] using h) n
    | .star e, st, h => by
      intro n; simpa [linkE, refsE] using linkE_ref e st (by simpa [noInlE] using h) n
    | .plus e, st, h => by
      intro n; simpa [linkE, refsE] using linkE_ref e st (by simpa [noInlE] using h) n
    | .inl a b, st, h => by simp [noInlE] at h
    | .dot, st, _ => by intro n; simp [linkE, refsE]
    | .chr c, st, _ => by intro n; simp [linkE, refsE]
    | .rng lo hi, st, _ => by intro n; simp [linkE, refsE]
    | .str s, st, _ => by intro n; simp [linkE, refsE]
    | .pred c, st, _ => by intro n; simp [linkE, refsE]
    | .stmt c, st, _ => by intro n; simp [linkE, refsE]
    | .nil, st, _ => by intro n; simp [linkE, refsE]
  theorem linkL_ref : ∀ (es : List Expr) (st : LinkSt), noInlL es = true →
      ∀ n, n ∈ (linkL es st).2.referenced ↔ n ∈ st.referenced ∨ n ∈ refsL es
    | [], st, _ => by intro n; simp [linkL, refsL]
    | e :: es, st, h => by
      intro n
      have hh : noInlE e = true ∧ noInlL es = true := by simpa [noInlL] using h
      have h1 := linkE_ref e st hh.1 n
      have h2 := linkL_ref es (linkE e st).2 hh.2 n
      simp only [linkL, refsL, List.mem_append]
      rw [h2, h1]; grind
end

theorem linkRules_ref : ∀ (rs : List Rule) (st : LinkSt), (∀ r, r ∈ rs → noInlE r.body = true) →
    ∀ n, n ∈ (linkRules rs st).2.referenced ↔ n ∈ st.referenced ∨ ∃ r, r ∈ rs ∧ n ∈ refsE r.body
  | [], st, _ => by intro n; simp [linkRules]
  | r :: rs, st, h => by
    intro n
    have h1 := linkE_ref r.body st (h r List.mem_cons_self) n
    have h2 := linkRules_ref rs (linkE r.body st).2 (fun q hq => h q (List.mem_cons_of_mem _ hq)) n
    simp only [linkRules, List.mem_cons, exists_eq_or_imp]
    rw [h2, h1]; grind

/-- `t.referenced` after `link`: the names that some rule of the grammar mentions. -/
theorem referenced_iff {rules : List Rule} (hdup : (firstPass rules).2 = none)
    (hinl : ∀ r, r ∈ rules → noInlE r.body = true) (n : String) :
    n ∈ (linkGrammar rules).referenced ↔ ∃ r, r ∈ rules ∧ Mentions r.body n := by
  have hw := firstPass_wrapped hdup
  have hinl' : ∀ r, r ∈ (firstPass rules).1 → noInlE r.body = true := by
    rw [hw]; intro r hr
    obtain ⟨q, hq, rfl⟩ := List.mem_map.mp hr
    simpa [wrapRule, noInlE] using hinl q hq
  rw [linkGrammar_referenced, linkRules_ref _ _ hinl' n, hw]
  constructor
  · rintro (h | ⟨r, hr, hn⟩)
    · simp [linkSt0] at h
    · obtain ⟨q, hq, rfl⟩ := List.mem_map.mp hr
      exact ⟨q, hq, (mentions_iff_refs _ _).mpr (by simpa [wrapRule, refsE] using hn)⟩
  · rintro ⟨q, hq, hm⟩
    exact Or.inr ⟨wrapRule q, List.mem_map.mpr ⟨q, hq, rfl⟩,
      by simpa [wrapRule, refsE] using (mentions_iff_refs _ _).mp hm⟩

/-- The stubs of the linked grammar: `n` is not the name of a rule, and is mentioned somewhere (or
    is `PegText` and the grammar has a capture). -/
theorem stub_iff {rules : List Rule} (hdup : (firstPass rules).2 = none)
    (hinl : ∀ r, r ∈ rules → noInlE r.body = true) {n : String} (hn : ¬ isAct n) :
    (∃ ru, ru ∈ (linkGrammar rules).G.rules ∧ ru.body = .nil ∧ ru.name = n) ↔
      (∀ r, r ∈ rules → r.name ≠ n) ∧ ∃ r, r ∈ rules ∧ wantsE r.body n := by
  have hw := firstPass_wrapped hdup
  rw [linkGrammar_rules]
  have hinl' : ∀ r, r ∈ (firstPass rules).1 → noInlE r.body = true := by
    rw [hw]; intro r hr
    obtain ⟨q, hq, rfl⟩ := List.mem_map.mp hr
    simpa [wrapRule, noInlE] using hinl q hq
  have hbod : ∀ r, r ∈ (firstPass rules).1 → ∃ b nm, r.body = .ipush b nm := by
    rw [hw]; intro r hr
    obtain ⟨q, hq, rfl⟩ := List.mem_map.mp hr
    exact ⟨_, _, rfl⟩
  obtain ⟨_, hstub⟩ := linkRules_eff (firstPass rules).1 (linkSt0 rules) hinl' n hn
  have hb := linkRules_bodies (firstPass rules).1 (linkSt0 rules) hbod
  have hleft : (∃ ru, ru ∈ (linkRules (firstPass rules).1 (linkSt0 rules)).1 ++
        (linkRules (firstPass rules).1 (linkSt0 rules)).2.added ∧ ru.body = .nil ∧ ru.name = n) ↔
      Stub (linkRules (firstPass rules).1 (linkSt0 rules)).2 n := by
    constructor
    · rintro ⟨ru, hru, hbn, hnm⟩
      rcases List.mem_append.mp hru with h | h
      · obtain ⟨b, nm, hb'⟩ := hb ru h
        rw [hb'] at hbn; cases hbn
      · exact ⟨ru, h, hbn, hnm⟩
    · rintro ⟨ru, hru, hbn, hnm⟩
      exact ⟨ru, List.mem_append.mpr (Or.inr hru), hbn, hnm⟩
  rw [hleft, hstub]
  show Stub (linkSt0 rules) n ∨ ¬ n ∈ (linkSt0 rules).defined ∧ (∃ r, r ∈ (firstPass rules).fst ∧ wantsE r.body n) ↔ _
  have h0 : ¬ Stub (linkSt0 rules) n := by rintro ⟨r, hr, _⟩; simp [linkSt0] at hr
  have hdef : n ∈ (linkSt0 rules).defined ↔ ∃ r, r ∈ rules ∧ r.name = n := by
    simp [linkSt0, hw, wrapRule]
  have hwant : (∃ r, r ∈ (firstPass rules).1 ∧ wantsE r.body n) ↔ ∃ r, r ∈ rules ∧ wantsE r.body n := by
    rw [hw]
    constructor
    · rintro ⟨r, hr, hwn⟩
      obtain ⟨q, hq, rfl⟩ := List.mem_map.mp hr
      exact ⟨q, hq, by simpa [wrapRule, wantsE, refsE, hasPushE] using hwn⟩
    · rintro ⟨q, hq, hwn⟩
      exact ⟨wrapRule q, List.mem_map.mpr ⟨q, hq, rfl⟩, by simpa [wrapRule, wantsE, refsE, hasPushE] using hwn⟩
  rw [hwant, hdef]
  constructor
  · rintro (h | ⟨h1, h2⟩)
    · exact absurd h h0
    · exact ⟨fun r hr hrn => h1 ⟨r, hr, hrn⟩, h2⟩
  · rintro ⟨h1, h2⟩
    exact Or.inr ⟨fun ⟨r, hr, hrn⟩ => h1 r hr hrn, h2⟩

/-- every rule of the linked grammar that `link` did not append as a stub: front rules (wrapped)
    and `Action<k>` rules — their body is not `nil`. -/
theorem front_rule_linked {rules : List Rule} (hdup : (firstPass rules).2 = none) {r : Rule} (hr : r ∈ rules) :
    ∃ ru, ru ∈ (linkGrammar rules).G.rules ∧ ru.name = r.name ∧ ru.body ≠ .nil := by
  have hw := firstPass_wrapped hdup
  rw [linkGrammar_rules]
  have hnames := linkRules_names (firstPass rules).1 (linkSt0 rules)
  have hbod : ∀ q, q ∈ (firstPass rules).1 → ∃ b nm, q.body = .ipush b nm := by
    rw [hw]; intro q hq
    obtain ⟨q', _, rfl⟩ := List.mem_map.mp hq
    exact ⟨_, _, rfl⟩
  have hb := linkRules_bodies (firstPass rules).1 (linkSt0 rules) hbod
  have : r.name ∈ (linkRules (firstPass rules).1 (linkSt0 rules)).1.map (·.name) := by
    rw [hnames, hw]
    simp only [List.map_map]
    exact List.mem_map.mpr ⟨r, hr, by simp [wrapRule]⟩
  obtain ⟨ru, hru, hrn⟩ := List.mem_map.mp this
  obtain ⟨b, nm, hb'⟩ := hb ru hru
  exact ⟨ru, List.mem_append.mpr (Or.inl hru), hrn, by rw [hb']; intro h; cases h⟩

/-- the first rule of the linked grammar is the first rule of the front end -/
theorem linkGrammar_first {rules : List Rule} (hdup : (firstPass rules).2 = none) {r : Rule} {rs : List Rule}
    (h : rules = r :: rs) : ∃ first rest, (linkGrammar rules).G.rules = first :: rest ∧ first.name = r.name := by
  subst h
  have hw := firstPass_wrapped hdup
  rw [linkGrammar_rules]
  have hnames := linkRules_names (firstPass (r :: rs)).1 (linkSt0 (r :: rs))
  cases hl : (linkRules (firstPass (r :: rs)).1 (linkSt0 (r :: rs))).1 with
  | nil => rw [hl, hw] at hnames; simp at hnames
  | cons a as =>
    rw [hl, hw] at hnames
    simp [wrapRule] at hnames
    exact ⟨a, as ++ _, List.cons_append, hnames.1⟩

end PegVerif
