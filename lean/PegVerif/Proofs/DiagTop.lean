import PegVerif.Proofs.DiagLink
/-
  D. `Diag.render` is injective; which diagnostics `grammarDiags` contains.
  E. Upper bound `cr_weak` (every warning lies on a `FirstRefW` cycle) and the witness grammar showing
     that per-rule soundness against `LeftRec` fails.
-/
namespace PegVerif

/-! ### D. rendering -/

theorem str_cancel_left {a b c : String} (h : a ++ b = a ++ c) : b = c := by
  have := congrArg String.toList h
  simp only [String.toList_append] at this
  exact String.toList_inj.mp (List.append_cancel_left this)

theorem str_cancel_right {a b c : String} (h : a ++ c = b ++ c) : a = b := by
  have := congrArg String.toList h
  simp only [String.toList_append] at this
  exact String.toList_inj.mp (List.append_cancel_right this)

theorem render_ud_un (n n' : String) :
    "rule '" ++ n ++ "' used but not defined" ≠ "rule '" ++ n' ++ "' defined but not used" := by
  intro h
  have h := congrArg String.toList h
  simp only [String.toList_append] at h
  have hl := congrArg List.length h
  simp only [List.length_append] at hl
  have e1 : "' used but not defined".toList.length = 22 := by decide
  have e2 : "' defined but not used".toList.length = 22 := by decide
  have : ("rule '".toList ++ n.toList).length = ("rule '".toList ++ n'.toList).length := by
    simp only [List.length_append]; omega
  have := (List.append_inj h this).2
  revert this; decide

theorem render_lr_rule (n n' s : String) :
    "possible infinite left recursion in rule '" ++ n ++ "'" ≠ "rule '" ++ n' ++ s := by
  intro h
  have h := congrArg String.toList h
  simp only [String.toList_append, String.append_assoc] at h
  have e1 : "possible infinite left recursion in rule '".toList =
      'p' :: "ossible infinite left recursion in rule '".toList := by decide
  have e2 : "rule '".toList = 'r' :: "ule '".toList := by decide
  rw [e1, e2] at h
  simp at h

theorem wrap_inj (p s : String) {n n' : String} (h : p ++ n ++ s = p ++ n' ++ s) : n = n' := by
  have := congrArg String.toList h
  simp only [String.toList_append] at this
  exact String.toList_inj.mp (List.append_cancel_left (List.append_cancel_right this))

theorem render_leftRec (n : String) :
    (Diag.leftRec n).render = "possible infinite left recursion in rule '" ++ n ++ "'" := rfl
theorem render_undefined (n : String) :
    (Diag.undefinedRule n).render = "rule '" ++ n ++ "' used but not defined" := rfl
theorem render_unused (n : String) :
    (Diag.unusedRule n).render = "rule '" ++ n ++ "' defined but not used" := rfl

theorem Diag.render_inj : ∀ {a b : Diag}, a.render = b.render → a = b
  | .leftRec n, .leftRec n', h => by
    rw [render_leftRec, render_leftRec] at h
    rw [wrap_inj "possible infinite left recursion in rule '" "'" h]
  | .undefinedRule n, .undefinedRule n', h => by
    rw [render_undefined, render_undefined] at h
    rw [wrap_inj "rule '" "' used but not defined" h]
  | .unusedRule n, .unusedRule n', h => by
    rw [render_unused, render_unused] at h
    rw [wrap_inj "rule '" "' defined but not used" h]
  | .leftRec n, .undefinedRule n', h => by
    rw [render_leftRec, render_undefined] at h
    exact absurd h (render_lr_rule n n' "' used but not defined")
  | .leftRec n, .unusedRule n', h => by
    rw [render_leftRec, render_unused] at h
    exact absurd h (render_lr_rule n n' "' defined but not used")
  | .undefinedRule n, .leftRec n', h => by
    rw [render_leftRec, render_undefined] at h
    exact absurd h.symm (render_lr_rule n' n "' used but not defined")
  | .unusedRule n, .leftRec n', h => by
    rw [render_leftRec, render_unused] at h
    exact absurd h.symm (render_lr_rule n' n "' defined but not used")
  | .undefinedRule n, .unusedRule n', h => by
    rw [render_undefined, render_unused] at h
    exact absurd h (render_ud_un n n')
  | .unusedRule n, .undefinedRule n', h => by
    rw [render_undefined, render_unused] at h
    exact absurd h.symm (render_ud_un n' n)

theorem render_mem_warnings (D : DiagResult) (d : Diag) : d.render ∈ D.warnings ↔ d ∈ D.diags := by
  simp only [DiagResult.warnings, List.mem_map]
  constructor
  · rintro ⟨d', hd', h⟩
    exact Diag.render_inj h ▸ hd'
  · exact fun h => ⟨d, h, rfl⟩

/-! ### what `grammarDiags` contains -/

theorem emitDiag_undefined {referenced reached : List String} {r : Rule} {n : String} :
    emitDiag referenced reached r = some (.undefinedRule n) ↔ r.body = .nil ∧ r.name = n ∧ n ∈ referenced := by
  unfold emitDiag
  cases hb : r.body <;> simp <;> grind

theorem emitDiag_unused {referenced reached : List String} {r : Rule} {n : String} :
    emitDiag referenced reached r = some (.unusedRule n) ↔ r.body ≠ .nil ∧ r.name = n ∧ n ∉ reached := by
  unfold emitDiag
  cases hb : r.body <;> simp <;> grind

theorem emitDiag_leftRec {referenced reached : List String} {r : Rule} {n : String} :
    emitDiag referenced reached r ≠ some (.leftRec n) := by
  unfold emitDiag
  cases hb : r.body <;> simp <;> split <;> simp

theorem mem_grammarDiags_leftRec (G : Grammar) (referenced : List String) (n : String) :
    .leftRec n ∈ grammarDiags G referenced ↔ n ∈ recWarnings G := by
  simp only [grammarDiags, List.mem_append, List.mem_map, List.mem_filterMap]
  constructor
  · rintro (⟨a, ha, h⟩ | ⟨r, _, h⟩)
    · cases h; exact ha
    · exact absurd h emitDiag_leftRec
  · exact fun h => Or.inl ⟨n, h, rfl⟩

theorem mem_grammarDiags_undefined (G : Grammar) (referenced : List String) (n : String) :
    .undefinedRule n ∈ grammarDiags G referenced ↔
      ∃ r, r ∈ G.rules ∧ r.body = .nil ∧ r.name = n ∧ n ∈ referenced := by
  simp only [grammarDiags, List.mem_append, List.mem_map, List.mem_filterMap]
  constructor
  · rintro (⟨a, _, h⟩ | ⟨r, hr, h⟩)
    · cases h
    · exact ⟨r, hr, emitDiag_undefined.mp h⟩
  · rintro ⟨r, hr, h⟩
    exact Or.inr ⟨r, hr, emitDiag_undefined.mpr h⟩

theorem mem_grammarDiags_unused (G : Grammar) (referenced : List String) (n : String) :
    .unusedRule n ∈ grammarDiags G referenced ↔ ∃ r, r ∈ G.rules ∧ r.body ≠ .nil ∧ r.name = n ∧ n ∉ reachedNames G := by
  simp only [grammarDiags, List.mem_append, List.mem_map, List.mem_filterMap]
  constructor
  · rintro (⟨a, _, h⟩ | ⟨r, hr, h⟩)
    · cases h
    · exact ⟨r, hr, emitDiag_unused.mp h⟩
  · rintro ⟨r, hr, h⟩
    exact Or.inr ⟨r, hr, emitDiag_unused.mpr h⟩

theorem diagnostics_of_nodup {rules : List Rule} (h : (firstPass rules).2 = none) :
    diagnostics rules =
      { dupError := none, diags := grammarDiags (linkGrammar rules).G (linkGrammar rules).referenced,
        strictFails := !(grammarDiags (linkGrammar rules).G (linkGrammar rules).referenced).isEmpty } := by
  simp [diagnostics, linkGrammar_dup, h]

theorem diagnostics_of_dup {rules : List Rule} {n : String} (h : (firstPass rules).2 = some n) :
    diagnostics rules = { dupError := some ("rule '" ++ n ++ "' defined more than once"), diags := [],
                          strictFails := true } := by
  simp [diagnostics, linkGrammar_dup, h]

/-! ### E. upper bound -/

theorem seqRun_true_of (g : Expr → Bool × List String) {es : List Expr} {e : Expr} (he : e ∈ es)
    (h : (g e).1 = true) : (seqRun g es).1 = true := by
  cases hres : (seqRun g es).1 with
  | true => rfl
  | false => have := (seqRun_false g hres e he).1; simp [h] at this

/-- what consumes for purely syntactic reasons is seen to consume by the code -/
theorem cr_syn (G : Grammar) : ∀ (f : Nat) (m : List String) (e : Expr),
    e.depth ≤ f → SynConsume e → (checkRec G f m e).1 = true := by
  intro f
  induction f with
  | zero => intro m e hf; have := depth_pos e; omega
  | succ f ih =>
    intro m e hf hs
    cases hs with
    | dot => simp [checkRec]
    | chr c => simp [checkRec]
    | rng lo hi => simp [checkRec]
    | str h => simp [checkRec, h]
    | @seq es e' he hs' =>
      simp only [checkRec]
      have := depthL_mem he
      exact seqRun_true_of _ he (ih m e' (by simp [Expr.depth] at hf; omega) hs')
    | @alt es hall =>
      simp only [checkRec]
      refine (altRun_true _).mpr (fun e' he => ?_)
      have := depthL_mem he
      exact ih m e' (by simp [Expr.depth] at hf; omega) (hall e' he)
    | plus hs' => simp only [checkRec]; exact ih m _ (by simp [Expr.depth] at hf; omega) hs'
    | push hs' => simp only [checkRec]; exact ih m _ (by simp [Expr.depth] at hf; omega) hs'
    | ipush hs' => simp only [checkRec]; exact ih m _ (by simp [Expr.depth] at hf; omega) hs'

def ReachW (G : Grammar) (e : Expr) (x : String) : Prop := ∃ a, FirstRefW e a ∧ Star (LStepW G) a x

theorem ReachW.map {G : Grammar} {e e' : Expr} {x : String}
    (h : ∀ a, FirstRefW e a → FirstRefW e' a) : ReachW G e x → ReachW G e' x
  | ⟨a, h1, h2⟩ => ⟨a, h a h1, h2⟩

/-- EVERY warning names a rule that `e` reaches through references at syntactically-first
    positions, and that is marked or lies on such a cycle. -/
theorem cr_weak (G : Grammar) : ∀ (f : Nat) (m : List String) (e : Expr) (x : String),
    need G m e ≤ f → x ∈ (checkRec G f m e).2 → ReachW G e x ∧ (x ∈ m ∨ LeftRecW G x) := by
  intro f
  induction f with
  | zero => intro m e x hf; exact absurd hf need_zero
  | succ f ih =>
    intro m e x hf hx
    have hname : ∀ (n : String) (r : Rule), G.find n = some r → n ∉ m → need G (n :: m) r.body ≤ f →
        x ∈ (checkRec G f (n :: m) r.body).2 → (∃ s, Star (LStepW G) n s ∧ s = x) ∧ (x ∈ m ∨ LeftRecW G x) := by
      intro n r hfind hm hfuel hx'
      obtain ⟨⟨a, ha, hs⟩, hor⟩ := ih _ _ _ hfuel hx'
      have hstep : LStepW G n a := ⟨r, hfind, ha⟩
      refine ⟨⟨x, .step hstep hs, rfl⟩, ?_⟩
      rcases hor with h | h
      · cases h with
        | head => exact Or.inr (Plus.of_step_star hstep hs)
        | tail _ h => exact Or.inl h
      · exact Or.inr h
    cases e with
    | name n =>
      cases hfind : G.find n with
      | none => simp [checkRec, hfind] at hx
      | some r =>
        by_cases hm : n ∈ m
        · simp [checkRec, hfind, hm] at hx
          subst hx
          exact ⟨⟨_, .name _, .refl _⟩, Or.inl hm⟩
        · simp [checkRec, hfind, hm] at hx
          obtain ⟨⟨s, hs, rfl⟩, hor⟩ := hname n r hfind hm (need_enter hfind hm hf) hx
          exact ⟨⟨n, .name _, hs⟩, hor⟩
    | inl n b =>
      cases hfind : G.find n with
      | none => simp [checkRec, hfind] at hx
      | some r =>
        by_cases hm : n ∈ m
        · simp [checkRec, hfind, hm] at hx
          subst hx
          exact ⟨⟨_, .inl _ _, .refl _⟩, Or.inl hm⟩
        · simp [checkRec, hfind, hm] at hx
          obtain ⟨⟨s, hs, rfl⟩, hor⟩ := hname n r hfind hm (need_enter_inl hfind hm hf) hx
          exact ⟨⟨n, .inl _ _, hs⟩, hor⟩
    | alt es =>
      simp only [checkRec] at hx
      obtain ⟨e, he, h'⟩ := (altRun_mem _).mp hx
      obtain ⟨hr, hor⟩ := ih _ _ _ (need_sub_alt he hf) h'
      exact ⟨hr.map (fun a ha => .alt he ha), hor⟩
    | seq es =>
      simp only [checkRec] at hx
      obtain ⟨pre, e, post, hes, hpre, h'⟩ := seqRun_mem _ hx
      subst hes
      have he : e ∈ pre ++ e :: post := by simp
      obtain ⟨hr, hor⟩ := ih _ _ _ (need_sub_seq he hf) h'
      refine ⟨hr.map (fun a ha => .seq ?_ ha), hor⟩
      intro p hp hsc
      have hp' : p ∈ pre ++ e :: post := by simp [hp]
      have hd : p.depth ≤ f := by
        have := need_sub_seq hp' hf
        simp [need] at this; omega
      have := cr_syn G f m p hd hsc
      simp [hpre p hp] at this
    | peekFor e =>
      simp only [checkRec] at hx
      obtain ⟨hr, hor⟩ := ih _ _ _ (by simp [need, Expr.depth] at hf ⊢; omega) hx
      exact ⟨hr.map (fun a ha => .peekFor ha), hor⟩
    | peekNot e =>
      simp only [checkRec] at hx
      obtain ⟨hr, hor⟩ := ih _ _ _ (by simp [need, Expr.depth] at hf ⊢; omega) hx
      exact ⟨hr.map (fun a ha => .peekNot ha), hor⟩
    | query e =>
      simp only [checkRec] at hx
      obtain ⟨hr, hor⟩ := ih _ _ _ (by simp [need, Expr.depth] at hf ⊢; omega) hx
      exact ⟨hr.map (fun a ha => .query ha), hor⟩
    | star e =>
      simp only [checkRec] at hx
      obtain ⟨hr, hor⟩ := ih _ _ _ (by simp [need, Expr.depth] at hf ⊢; omega) hx
      exact ⟨hr.map (fun a ha => .star ha), hor⟩
    | plus e =>
      simp only [checkRec] at hx
      obtain ⟨hr, hor⟩ := ih _ _ _ (by simp [need, Expr.depth] at hf ⊢; omega) hx
      exact ⟨hr.map (fun a ha => .plus ha), hor⟩
    | push e r =>
      simp only [checkRec] at hx
      obtain ⟨hr, hor⟩ := ih _ _ _ (by simp [need, Expr.depth] at hf ⊢; omega) hx
      exact ⟨hr.map (fun a ha => .push ha), hor⟩
    | ipush e r =>
      simp only [checkRec] at hx
      obtain ⟨hr, hor⟩ := ih _ _ _ (by simp [need, Expr.depth] at hf ⊢; omega) hx
      exact ⟨hr.map (fun a ha => .ipush ha), hor⟩
    | chr c => simp [checkRec] at hx
    | str s => simp [checkRec] at hx
    | dot => simp [checkRec] at hx
    | rng lo hi => simp [checkRec] at hx
    | ualt ks es => simp [checkRec] at hx
    | pred c => simp [checkRec] at hx
    | stmt c => simp [checkRec] at hx
    | act c => simp [checkRec] at hx
    | nil => simp [checkRec] at hx

theorem recWarnings_weak {G : Grammar} (hu : G.Uniq) {x : String} (h : x ∈ recWarnings G) : LeftRecW G x := by
  obtain ⟨r, hr, hx⟩ := List.mem_flatMap.mp h
  obtain ⟨⟨a, ha, hs⟩, hor⟩ := cr_weak G G.diagFuel [r.name] r.body x (need_top hr) hx
  rcases hor with hx | hx
  · simp at hx
    subst hx
    exact Plus.of_step_star ⟨r, hu.find hr, ha⟩ hs
  · exact hx

/-- `LeftRec ⊆ LeftRecW` -/
theorem FirstRefP.mono {C C' : Expr → Prop} (h : ∀ e, C' e → C e) {e : Expr} {n : String}
    (hf : FirstRefP C e n) : FirstRefP C' e n := by
  induction hf with
  | name n => exact .name n
  | inl n b => exact .inl n b
  | seq hpre _ ih => exact .seq (fun p hp hc => hpre p hp (h p hc)) ih
  | alt he _ ih => exact .alt he ih
  | peekFor _ ih => exact .peekFor ih
  | peekNot _ ih => exact .peekNot ih
  | query _ ih => exact .query ih
  | star _ ih => exact .star ih
  | plus _ ih => exact .plus ih
  | push _ ih => exact .push ih
  | ipush _ ih => exact .ipush ih

theorem SynConsume.must {G : Grammar} {e : Expr} (h : SynConsume e) : MustConsume G e := by
  induction h with
  | dot => exact .dot
  | chr c => exact .chr c
  | rng lo hi => exact .rng lo hi
  | str h => exact .str h
  | seq he _ ih => exact .seq he ih
  | alt _ ih => exact .alt ih
  | plus _ ih => exact .plus ih
  | push _ ih => exact .push ih
  | ipush _ ih => exact .ipush ih

theorem LeftRec.weak {G : Grammar} {r : String} (h : LeftRec G r) : LeftRecW G r :=
  Plus.mono (fun _ _ ⟨q, hq, hf⟩ => ⟨q, hq, hf.mono (fun _ hs => hs.must)⟩) h

/-! ### inversion of `FirstRefP` (for concrete grammars) -/

theorem firstRef_name_inv {C : Expr → Prop} {a n : String} (h : FirstRefP C (.name a) n) : n = a := by
  cases h; rfl

theorem firstRef_ipush_inv {C : Expr → Prop} {e : Expr} {r n : String} (h : FirstRefP C (.ipush e r) n) :
    FirstRefP C e n := by
  cases h; assumption

theorem firstRef_seq_inv {C : Expr → Prop} {es : List Expr} {n : String} (h : FirstRefP C (.seq es) n) :
    ∃ pre e post, es = pre ++ e :: post ∧ (∀ p, p ∈ pre → ¬ C p) ∧ FirstRefP C e n := by
  generalize hE : Expr.seq es = x at h
  cases h <;> cases hE
  exact ⟨_, _, _, rfl, by assumption, by assumption⟩

end PegVerif
