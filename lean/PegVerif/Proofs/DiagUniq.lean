import Std.Data.String.ToNat
import PegVerif.Proofs.DiagTop
/-
  The linked grammar has pairwise different rule names (`Grammar.Uniq`) when the user's rules have,
  and no rule name and no reference of the user's grammar is of the form `Action<k>`.
  (Needs `Nat.repr_injective` from Std: the names `link` gives to action rules are pairwise different.)
-/
namespace PegVerif

theorem actName_inj {k k' : Nat} (h : (s!"Action{k}" : String) = s!"Action{k'}") : k = k' :=
  Nat.repr_injective (str_cancel_left h)

theorem pegText_not_act : ¬ isAct "PegText" := by
  rintro ⟨k, hk⟩
  have := congrArg String.toList hk
  simp [String.toList_append] at this
  have e2 : (toString "Action").toList = 'A' :: "ction".toList := by decide
  rw [e2] at this
  simp at this

/-- invariant of `link`'s state w.r.t. the names `F` of the user's rules -/
structure LInv (F : List String) (st : LinkSt) : Prop where
  nodup : (st.added.map (·.name)).Nodup
  addedDef : ∀ r, r ∈ st.added → r.name ∈ st.defined
  frontDef : ∀ n, n ∈ F → n ∈ st.defined
  addedNotFront : ∀ r, r ∈ st.added → r.name ∉ F
  actBound : ∀ r, r ∈ st.added → isAct r.name → ∃ k, k < st.nAct ∧ r.name = s!"Action{k}"

/-- the invariant does not look at `referenced` -/
theorem LInv.ref {F : List String} {st : LinkSt} (h : LInv F st) (l : List String) :
    LInv F { st with referenced := l } :=
  ⟨h.nodup, h.addedDef, h.frontDef, h.addedNotFront, h.actBound⟩

theorem inv_stub {F : List String} {st : LinkSt} (a : String) (ha : ¬ isAct a) (h : LInv F st) :
    LInv F (if st.defined.contains a then st else
      { st with rulesCount := st.rulesCount + 1, defined := a :: st.defined,
                added := st.added ++ [{ name := a, id := st.rulesCount, body := .nil }] }) := by
  by_cases hm : a ∈ st.defined
  · simp only [List.contains_iff_mem.mpr hm, if_true]; exact h
  · have hc : st.defined.contains a = false := by
      cases hh : st.defined.contains a with
      | false => rfl
      | true => exact absurd (List.contains_iff_mem.mp hh) hm
    rw [hc]
    simp only [Bool.false_eq_true, if_false]
    refine ⟨?_, ?_, ?_, ?_, ?_⟩
    · simp only [List.map_append, List.map_cons, List.map_nil]
      rw [List.nodup_append]
      refine ⟨h.nodup, by simp, ?_⟩
      intro x hx y hy
      simp at hy; subst hy
      obtain ⟨r, hr, rfl⟩ := List.mem_map.mp hx
      intro heq
      exact hm (heq ▸ h.addedDef r hr)
    · intro r hr
      rcases List.mem_append.mp hr with hr | hr
      · exact List.mem_cons_of_mem _ (h.addedDef r hr)
      · simp at hr; subst hr; simp
    · intro n hn; exact List.mem_cons_of_mem _ (h.frontDef n hn)
    · intro r hr
      rcases List.mem_append.mp hr with hr | hr
      · exact h.addedNotFront r hr
      · simp at hr; subst hr
        exact fun hF => hm (h.frontDef _ hF)
    · intro r hr hact
      rcases List.mem_append.mp hr with hr | hr
      · exact h.actBound r hr hact
      · simp at hr; subst hr; exact absurd hact ha

theorem inv_act {F : List String} {st : LinkSt} (hF : ∀ n, n ∈ F → ¬ isAct n) (code : String) (h : LInv F st) :
    LInv F { st with nAct := st.nAct + 1, rulesCount := st.rulesCount + 1,
                     defined := s!"Action{st.nAct}" :: st.defined,
                     added := st.added ++ [{ name := s!"Action{st.nAct}", id := st.rulesCount,
                                             body := .ipush (.act code) s!"Action{st.nAct}" }],
                     actions := st.actions ++ [(s!"Action{st.nAct}", code)] } := by
  refine ⟨?_, ?_, ?_, ?_, ?_⟩
  · simp only [List.map_append, List.map_cons, List.map_nil]
    rw [List.nodup_append]
    refine ⟨h.nodup, by simp, ?_⟩
    intro x hx y hy
    simp only [List.mem_singleton] at hy; subst hy
    obtain ⟨r, hr, rfl⟩ := List.mem_map.mp hx
    intro heq
    obtain ⟨k, hk, hkn⟩ := h.actBound r hr ⟨st.nAct, heq⟩
    have := actName_inj (hkn.symm.trans heq)
    omega
  · intro r hr
    rcases List.mem_append.mp hr with hr | hr
    · exact List.mem_cons_of_mem _ (h.addedDef r hr)
    · simp only [List.mem_singleton] at hr; subst hr; exact List.mem_cons_self
  · intro n hn; exact List.mem_cons_of_mem _ (h.frontDef n hn)
  · intro r hr
    rcases List.mem_append.mp hr with hr | hr
    · exact h.addedNotFront r hr
    · simp only [List.mem_singleton] at hr; subst hr
      exact fun hmem => hF _ hmem ⟨st.nAct, rfl⟩
  · intro r hr hact
    rcases List.mem_append.mp hr with hr | hr
    · obtain ⟨k, hk, hkn⟩ := h.actBound r hr hact
      exact ⟨k, Nat.lt_succ_of_lt hk, hkn⟩
    · simp only [List.mem_singleton] at hr; subst hr
      exact ⟨st.nAct, Nat.lt_succ_self _, rfl⟩

mutual
  theorem linkE_inv {F : List String} (hF : ∀ n, n ∈ F → ¬ isAct n) :
      ∀ (e : Expr) (st : LinkSt), (∀ n, n ∈ refsE e → ¬ isAct n) → LInv F st → LInv F (linkE e st).2
    | .act code, st, _, h => by simpa [linkE] using inv_act hF code h
    | .name a, st, hr, h => by
      have := inv_stub a (hr a (by simp [refsE])) (h.ref (a :: st.referenced))
      simp only [linkE]
      split <;> simp_all
    | .push e r, st, hr, h => by
      have h1 := inv_stub "PegText" pegText_not_act h
      have := linkE_inv hF e _ (by simpa [refsE] using hr) h1
      simpa [linkE] using this
    | .ipush e r, st, hr, h => by
      simpa [linkE] using linkE_inv hF e st (by simpa [refsE] using hr) h
    | .seq es, st, hr, h => by
      simpa [linkE] using linkL_inv hF es st (by simpa [refsE] using hr) h
    | .alt es, st, hr, h => by
      simpa [linkE] using linkL_inv hF es st (by simpa [refsE] using hr) h
    | .ualt ks es, st, hr, h => by
      simpa [linkE] using linkL_inv hF es st (by simpa [refsE] using hr) h
    | .peekFor e, st, hr, h => by
      simpa [linkE] using linkE_inv hF e st (by simpa [refsE] using hr) h
    | .peekNot e, st, hr, h => by
      simpa [linkE] using linkE_inv hF e st (by simpa [refsE] using hr) h
    | .query e, st, hr, h => by
      simpa [linkE] using linkE_inv hF e st (by simpa [refsE] using hr) h
    | .star e, st, hr, h => by
      simpa [linkE] using linkE_inv hF e st (by simpa [refsE] using hr) h
    | .plus e, st, hr, h => by
      simpa [linkE] using linkE_inv hF e st (by simpa [refsE] using hr) h
    | .inl a b, st, _, h => by simpa [linkE] using h
    | .dot, st, _, h => by simpa [linkE] using h
    | .chr c, st, _, h => by simpa [linkE] using h
    | .rng lo hi, st, _, h => by simpa [linkE] using h
    | .str s, st, _, h => by simpa [linkE] using h
    | .pred c, st, _, h => by simpa [linkE] using h
    | .stmt c, st, _, h => by simpa [linkE] using h
    | .nil, st, _, h => by simpa [linkE] using h
  theorem linkL_inv {F : List String} (hF : ∀ n, n ∈ F → ¬ isAct n) :
      ∀ (es : List Expr) (st : LinkSt), (∀ n, n ∈ refsL es → ¬ isAct n) → LInv F st → LInv F (linkL es st).2
    | [], st, _, h => by simpa [linkL] using h
    | e :: es, st, hr, h => by
      have h1 := linkE_inv hF e st (fun n hn => hr n (by simp [refsL, hn])) h
      have h2 := linkL_inv hF es _ (fun n hn => hr n (by simp [refsL, hn])) h1
      simpa [linkL] using h2
end

theorem linkRules_inv {F : List String} (hF : ∀ n, n ∈ F → ¬ isAct n) :
    ∀ (rs : List Rule) (st : LinkSt), (∀ r, r ∈ rs → ∀ n, n ∈ refsE r.body → ¬ isAct n) → LInv F st →
      LInv F (linkRules rs st).2
  | [], st, _, h => by simpa [linkRules] using h
  | r :: rs, st, hr, h => by
    have h1 := linkE_inv hF r.body st (hr r List.mem_cons_self) h
    have h2 := linkRules_inv hF rs _ (fun q hq => hr q (List.mem_cons_of_mem _ hq)) h1
    simpa [linkRules] using h2

/-- Rule names of the linked grammar are pairwise different. -/
theorem linkGrammar_uniq {rules : List Rule} (hnd : (rules.map (·.name)).Nodup)
    (hnames : ∀ r, r ∈ rules → ¬ isAct r.name)
    (hrefs : ∀ r, r ∈ rules → ∀ n, Mentions r.body n → ¬ isAct n) : (linkGrammar rules).G.Uniq := by
  have hd := (firstPass_dup_none rules).mpr hnd
  have hw := firstPass_wrapped hd
  unfold Grammar.Uniq
  rw [linkGrammar_rules, List.map_append, linkRules_names, hw]
  have hFn : List.map (fun x => x.name) (List.map wrapRule rules) = rules.map (·.name) := by
    simp [wrapRule]
  rw [hFn]
  have hF : ∀ n, n ∈ rules.map (·.name) → ¬ isAct n := by
    intro n hn
    obtain ⟨r, hr, rfl⟩ := List.mem_map.mp hn
    exact hnames r hr
  have h0 : LInv (rules.map (·.name)) (linkSt0 rules) :=
    ⟨by simp [linkSt0], by simp [linkSt0], by simp [linkSt0, hw, wrapRule], by simp [linkSt0], by simp [linkSt0]⟩
  have hinv := linkRules_inv hF (rules.map wrapRule) (linkSt0 rules) (by
    intro r hr n hn
    obtain ⟨q, hq, rfl⟩ := List.mem_map.mp hr
    exact hrefs q hq n ((mentions_iff_refs _ _).mpr (by simpa [wrapRule, refsE] using hn))) h0
  rw [List.nodup_append]
  refine ⟨hnd, hinv.nodup, ?_⟩
  intro a ha b hb heq
  obtain ⟨r, hr, rfl⟩ := List.mem_map.mp hb
  exact hinv.addedNotFront r hr (heq ▸ ha)

end PegVerif
