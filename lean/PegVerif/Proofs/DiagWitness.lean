import PegVerif.Proofs.DiagTop
/-
  The witness grammar for "per-rule soundness of the left-recursion warning is false":
      R0 <- R1
      R1 <- R1 R0 'a'
  `R0` is reported by the code, but `R0` is not `LeftRec` (it can only reach `R1`, which must consume
  and therefore cuts the sequence before the reference to `R0`).
-/
namespace PegVerif.C15
open PegVerif

def wRules : List Rule :=
  [⟨"R0", 0, .name "R1"⟩, ⟨"R1", 1, .seq [.name "R1", .name "R0", .chr 97]⟩]

def wG : Grammar :=
  ⟨[⟨"R0", 0, .ipush (.name "R1") "R0"⟩, ⟨"R1", 1, .ipush (.seq [.name "R1", .name "R0", .chr 97]) "R1"⟩]⟩

theorem wG_eq : (linkGrammar wRules).G = wG := by rfl

theorem w_warnings : (diagnostics wRules).warnings =
    ["possible infinite left recursion in rule 'R1'", "possible infinite left recursion in rule 'R0'",
     "possible infinite left recursion in rule 'R1'", "possible infinite left recursion in rule 'R1'"] := by
  decide

theorem w_R1_consumes : MustConsume wG (.name "R1") :=
  .name (r := ⟨"R1", 1, .ipush (.seq [.name "R1", .name "R0", .chr 97]) "R1"⟩) (by rfl)
    (.ipush (.seq (e := .chr 97) (by simp) (.chr 97)))

theorem w_step {a b : String} (ha : a = "R0" ∨ a = "R1") (h : LStep wG a b) : b = "R1" := by
  obtain ⟨r, hfind, hfr⟩ := h
  rcases ha with rfl | rfl
  · have : wG.find "R0" = some ⟨"R0", 0, .ipush (.name "R1") "R0"⟩ := by rfl
    rw [this] at hfind; cases hfind
    exact firstRef_name_inv (firstRef_ipush_inv hfr)
  · have : wG.find "R1" = some ⟨"R1", 1, .ipush (.seq [.name "R1", .name "R0", .chr 97]) "R1"⟩ := by rfl
    rw [this] at hfind; cases hfind
    obtain ⟨pre, e, post, hes, hpre, hfe⟩ := firstRef_seq_inv (firstRef_ipush_inv hfr)
    cases pre with
    | nil =>
      simp at hes
      rw [← hes.1] at hfe
      exact firstRef_name_inv hfe
    | cons p pre' =>
      simp at hes
      exact absurd (hes.1 ▸ w_R1_consumes) (hpre p List.mem_cons_self)

theorem w_R0_not_leftrec : ¬ LeftRec wG "R0" := by
  have : ∀ a c, Plus (LStep wG) a c → (a = "R0" ∨ a = "R1") → c = "R1" := by
    intro a c h
    induction h with
    | single h => exact fun ha => w_step ha h
    | step h _ ih => exact fun ha => ih (Or.inr (w_step ha h))
  intro h
  have := this _ _ h (Or.inl rfl)
  revert this; decide

end PegVerif.C15
