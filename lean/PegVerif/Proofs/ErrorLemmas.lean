/-
  Helper lemmas for C11 (error reporting): map lookups, the specification `lineCol` one rune
  further, the duplicate-skipping inner loop, and the loop invariant of `translatePositions`.
-/
import PegVerif.Model.Error

namespace PegVerif

/-! ### Map -/

@[simp] theorem lookupD_nil (k : Nat) : lookupD [] k = (0, 0) := rfl

theorem lookupD_set (m : PosMap) (k k' : Nat) (v : Nat × Nat) :
    lookupD (m.set k v) k' = if k = k' then v else lookupD m k' := by
  simp [PosMap.set, lookupD]

/-! ### Specification, one rune further -/

theorem colAfterLastNL_snoc (pre : List Sym) (c : Sym) :
    colAfterLastNL (pre ++ [c]) = if c = NL then 0 else colAfterLastNL pre + 1 := by
  unfold colAfterLastNL
  simp only [List.reverse_append, List.reverse_cons, List.reverse_nil, List.nil_append,
    List.singleton_append, List.takeWhile_cons]
  by_cases h : c = NL <;> simp [h]

theorem count_NL_snoc (pre : List Sym) (c : Sym) :
    (pre ++ [c]).count NL = pre.count NL + (if c = NL then 1 else 0) := by
  rw [List.count_append]
  by_cases h : c = NL
  · subst h; simp
  · simp [h]

theorem lineCol_at_prefix (pre rest : List Sym) :
    lineCol (pre ++ rest) pre.length = (1 + pre.count NL, 1 + colAfterLastNL pre) := by
  simp [lineCol, List.take_left' rfl]

/-! ### Sorted lists, by index -/

theorem sorted_getElem? {ps : List Nat} (hs : ps.Pairwise (fun a b => a ≤ b))
    {j k p q : Nat} (hjk : j ≤ k) (hj : ps[j]? = some p) (hk : ps[k]? = some q) : p ≤ q := by
  obtain ⟨hj', rfl⟩ := List.getElem?_eq_some_iff.mp hj
  obtain ⟨hk', rfl⟩ := List.getElem?_eq_some_iff.mp hk
  by_cases h : j = k
  · subst h; exact Nat.le_refl _
  · exact List.pairwise_iff_getElem.mp hs j k hj' hk' (by omega)

/-! ### The inner loop (skip duplicates of the offset just translated) -/

theorem skipDups_spec (ps : List Nat) (i : Nat) :
    ∀ (n k : Nat), ps.length - k = n → k ≤ ps.length →
      ∃ k', skipDups ps ps.length i k = some k' ∧ k ≤ k' ∧ k' ≤ ps.length ∧
        (∀ j, k ≤ j → j < k' → ps[j]? = some i) ∧ (∀ p, ps[k']? = some p → p ≠ i) := by
  intro n
  induction n with
  | zero =>
    intro k hn hk
    have hk' : k = ps.length := by omega
    subst hk'
    refine ⟨ps.length, ?_, Nat.le_refl _, Nat.le_refl _, ?_, ?_⟩
    · unfold skipDups; simp
    · intro j h1 h2; omega
    · intro p hp; simp at hp
  | succ n ih =>
    intro k hn hk
    have hlt : k < ps.length := by omega
    have hget : ps[k]? = some ps[k] := List.getElem?_eq_getElem hlt
    by_cases hik : i = ps[k]
    · obtain ⟨k', h1, h2, h3, h4, h5⟩ := ih (k + 1) (by omega) (by omega)
      refine ⟨k', ?_, by omega, h3, ?_, h5⟩
      · rw [skipDups]; simp [hlt, ← hik]; exact h1
      · intro j hj1 hj2
        by_cases hjk : j = k
        · subst hjk; rw [hget, hik]
        · exact h4 j (by omega) hj2
    · refine ⟨k, ?_, Nat.le_refl _, hk, ?_, ?_⟩
      · rw [skipDups]; simp [hlt, hik]
      · intro j h1 h2; omega
      · intro p hp; rw [hget] at hp; injection hp with hp; subst hp; exact fun h => hik h.symm

/-! ### The loop invariant of `translatePositions`

  At the head of the iteration for index `i = pre.length` (the buffer is `pre ++ rest`):
  * `line = 1 + #'\n' in pre`, `symbol = #runes after the last '\n' of pre`;
  * `posIdx < length`;
  * the sorted positions before `posIdx` are `< i` and already recorded correctly;
  * the sorted positions from `posIdx` on are `≥ i` (and inside the buffer).
-/

theorem tpLoop_spec (ps : List Nat) (hs : ps.Pairwise (fun a b => a ≤ b)) :
    ∀ (rest pre : List Sym) (i posIdx line symbol : Nat) (tr : PosMap),
      i = pre.length → line = 1 + pre.count NL → symbol = colAfterLastNL pre →
      posIdx < ps.length →
      (∀ j p, j < posIdx → ps[j]? = some p →
          p < pre.length ∧ lookupD tr p = lineCol (pre ++ rest) p) →
      (∀ j p, posIdx ≤ j → ps[j]? = some p → pre.length ≤ p ∧ p < pre.length + rest.length) →
      ∃ m, tpLoop ps ps.length rest i posIdx line symbol tr = some m ∧
        ∀ p ∈ ps, lookupD m p = lineCol (pre ++ rest) p := by
  intro rest
  induction rest with
  | nil =>
    intro pre i posIdx line symbol tr _ _ _ hpos _ hge
    have := hge posIdx ps[posIdx] (Nat.le_refl _) (List.getElem?_eq_getElem hpos)
    simp at this; omega
  | cons c rest ih =>
    intro pre i posIdx line symbol tr hi hline hsym hpos hlt hge
    have hget : ps[posIdx]? = some ps[posIdx] := List.getElem?_eq_getElem hpos
    have hbuf : pre ++ c :: rest = (pre ++ [c]) ++ rest := by simp
    have hlen' : (pre ++ [c]).length = pre.length + 1 := by simp
    -- the state after `if c == '\n' { line, symbol = line+1, 0 }`, for the next iteration
    have hnext_line : (if c = NL then line + 1 else line) = 1 + (pre ++ [c]).count NL := by
      rw [count_NL_snoc]; split <;> omega
    have hnext_sym : (if c = NL then 0 else symbol + 1) = colAfterLastNL (pre ++ [c]) := by
      rw [colAfterLastNL_snoc, hsym]
    have hp_ge := (hge posIdx _ (Nat.le_refl _) hget).1
    by_cases hip : i = ps[posIdx]
    · -- the position is recorded
      subst hip
      obtain ⟨k', hk1, hk2, hk3, hk4, hk5⟩ :=
        skipDups_spec ps ps[posIdx] (ps.length - (posIdx + 1)) (posIdx + 1) rfl (by omega)
      -- every sorted position before k' is ≤ i and correctly bound in the new map
      have hrec : ∀ j p, j < k' → ps[j]? = some p →
          p < pre.length + 1 ∧
          lookupD (tr.set ps[posIdx] (line, symbol + 1)) p = lineCol (pre ++ c :: rest) p := by
        intro j p hj hjp
        by_cases hjl : j < posIdx
        · obtain ⟨h1, h2⟩ := hlt j p hjl hjp
          refine ⟨by omega, ?_⟩
          rw [lookupD_set, if_neg (by omega)]; exact h2
        · have hpi : p = ps[posIdx] := by
            by_cases hje : j = posIdx
            · subst hje; rw [hget] at hjp; injection hjp with hjp; omega
            · have := hk4 j (by omega) hj; rw [this] at hjp; injection hjp with hjp; omega
          refine ⟨by omega, ?_⟩
          rw [lookupD_set, if_pos (by omega), hpi, hi, lineCol_at_prefix, hline, hsym]
          simp [Nat.add_comm]
      by_cases hbrk : k' ≥ ps.length
      · -- `posIdx >= length`: break
        refine ⟨tr.set ps[posIdx] (line, symbol + 1), ?_, ?_⟩
        · rw [tpLoop]; simp [hget, hk1, hbrk]
        · intro p hp
          obtain ⟨j, hj⟩ := List.mem_iff_getElem?.mp hp
          have hjlt : j < ps.length := (List.getElem?_eq_some_iff.mp hj).1
          exact (hrec j p (by omega) hj).2
      · -- continue with the next rune
        have hk'lt : k' < ps.length := by omega
        have hgek' : ∀ j p, k' ≤ j → ps[j]? = some p →
            (pre ++ [c]).length ≤ p ∧ p < (pre ++ [c]).length + rest.length := by
          intro j p hj hjp
          have h1 := hge j p (by omega) hjp
          have hk'get : ps[k']? = some ps[k'] := List.getElem?_eq_getElem hk'lt
          have h2 := hk5 _ hk'get
          have h3 := sorted_getElem? hs (show posIdx ≤ k' by omega) hget hk'get
          have h4 := sorted_getElem? hs hj hk'get hjp
          simp only [List.length_cons] at h1
          rw [hlen']; omega
        have hltk' : ∀ j p, j < k' → ps[j]? = some p →
            p < (pre ++ [c]).length ∧
            lookupD (tr.set ps[posIdx] (line, symbol + 1)) p = lineCol ((pre ++ [c]) ++ rest) p := by
          intro j p hj hjp; rw [hlen', ← hbuf]; exact hrec j p hj hjp
        obtain ⟨m, hm1, hm2⟩ := ih (pre ++ [c]) (ps[posIdx] + 1) k' _ _ _ (by rw [hlen', hi])
          hnext_line hnext_sym hk'lt hltk' hgek'
        refine ⟨m, ?_, by rw [hbuf]; exact hm2⟩
        rw [tpLoop]
        simp only [hget, beq_self_eq_true, if_true, hk1]
        rw [if_neg (by omega)]
        by_cases hc : c = NL
        · simp only [hc, if_true] at hm1; simp [hc, hm1]
        · have hc' : ¬ (c == NL) = true := by simpa using hc
          simp only [hc, if_false] at hm1; simp [hc', hm1]
    · -- not (yet) a requested position
      have hgt : pre.length < ps[posIdx] := by omega
      have hge' : ∀ j p, posIdx ≤ j → ps[j]? = some p →
          (pre ++ [c]).length ≤ p ∧ p < (pre ++ [c]).length + rest.length := by
        intro j p hj hjp
        have h1 := hge j p hj hjp
        have h3 := sorted_getElem? hs hj hget hjp
        simp only [List.length_cons] at h1
        rw [hlen']; omega
      have hlt' : ∀ j p, j < posIdx → ps[j]? = some p →
          p < (pre ++ [c]).length ∧ lookupD tr p = lineCol ((pre ++ [c]) ++ rest) p := by
        intro j p hj hjp
        obtain ⟨h1, h2⟩ := hlt j p hj hjp
        rw [hlen', ← hbuf]; exact ⟨by omega, h2⟩
      obtain ⟨m, hm1, hm2⟩ := ih (pre ++ [c]) (i + 1) posIdx _ _ _ (by rw [hlen', hi])
        hnext_line hnext_sym hpos hlt' hge'
      refine ⟨m, ?_, by rw [hbuf]; exact hm2⟩
      rw [tpLoop]
      have hip' : ¬ (i == ps[posIdx]) = true := by simpa using hip
      simp only [hget, hip', if_false, Bool.false_eq_true]
      rw [if_neg (by omega)]
      by_cases hc : c = NL
      · simp only [hc, if_true] at hm1; simp [hc, hm1]
      · have hc' : ¬ (c == NL) = true := by simpa using hc
        simp only [hc, if_false] at hm1; simp [hc', hm1]


/-! ### The specification `lineCol`, characterised by recurrence (sanity of the spec) -/

theorem lineCol_zero (buffer : List Sym) : lineCol buffer 0 = (1, 1) := by
  simp [lineCol, colAfterLastNL]

theorem lineCol_succ (buffer : List Sym) (off : Nat) (h : off < buffer.length) :
    lineCol buffer (off + 1) =
      if buffer[off] = NL then ((lineCol buffer off).1 + 1, 1)
      else ((lineCol buffer off).1, (lineCol buffer off).2 + 1) := by
  have ht : buffer.take (off + 1) = buffer.take off ++ [buffer[off]] := by
    rw [List.take_succ_eq_append_getElem h]
  unfold lineCol
  simp only [ht, count_NL_snoc, colAfterLastNL_snoc]
  split <;> simp <;> omega

/-- `lineCol` only looks at the runes before the offset. -/
theorem lineCol_append (input tail : List Sym) (off : Nat) (h : off ≤ input.length) :
    lineCol (input ++ tail) off = lineCol input off := by
  simp [lineCol, List.take_append_of_le_length h]

/-! ### `translatePositions` from the initial state -/

theorem translate_spec_aux (buffer : List Sym) (positions : List Nat) (hne : positions ≠ [])
    (hin : ∀ p ∈ positions, p < buffer.length) :
    ∃ m, translatePositions buffer positions = some m ∧
      ∀ p ∈ positions, lookupD m p = lineCol buffer p := by
  let ps := positions.mergeSort (fun a b => decide (a ≤ b))
  have hperm : ps.Perm positions := List.mergeSort_perm _ _
  have hlen : ps.length = positions.length := List.length_mergeSort _
  have hs : ps.Pairwise (fun a b => a ≤ b) := by
    have := List.pairwise_mergeSort (le := fun (a b : Nat) => decide (a ≤ b))
      (by intro a b c; simp; omega) (by intro a b; simp; omega) positions
    simpa using this
  have hpos : 0 < ps.length := by
    rw [hlen]; exact List.length_pos_iff.mpr hne
  obtain ⟨m, hm1, hm2⟩ := tpLoop_spec ps hs buffer [] 0 0 1 0 [] rfl (by simp)
    (by simp [colAfterLastNL]) hpos (by intro j p hj; omega)
    (by
      intro j p _ hjp
      have : p ∈ ps := List.mem_iff_getElem?.mpr ⟨j, hjp⟩
      have := hin p (hperm.mem_iff.mp this)
      simp; omega)
  refine ⟨m, ?_, ?_⟩
  · unfold translatePositions; rw [← hlen]; exact hm1
  · intro p hp
    have := hm2 p (hperm.mem_iff.mpr hp)
    simpa using this

/-- Go panics (`positions[0]`, index out of range) for an empty position list and a non-empty
    buffer; `Error()` never does this (it always passes two positions). -/
theorem translate_empty_positions (c : Sym) (rest : List Sym) :
    translatePositions (c :: rest) [] = none := by
  simp [translatePositions, tpLoop]

theorem translate_empty_buffer (positions : List Nat) :
    translatePositions [] positions = some [] := by
  simp [translatePositions, tpLoop]

/-! ### Go slices -/

theorem goSlice_some {s : List Sym} {b e : Nat} (hbe : b ≤ e) (he : e ≤ s.length) :
    goSlice s b e = some ((s.take e).drop b) := by
  simp [goSlice, hbe, he]

theorem goSlice_length {s sl : List Sym} {b e : Nat} (h : goSlice s b e = some sl) :
    sl.length = e - b := by
  unfold goSlice at h
  split at h
  · injection h with h; subst h; simp; omega
  · cases h

theorem goSlice_getElem? {s sl : List Sym} {b e : Nat} (h : goSlice s b e = some sl)
    (k : Nat) (hk : k < e - b) : sl[k]? = s[b + k]? := by
  unfold goSlice at h
  split at h
  · injection h with h; subst h
    rw [List.getElem?_drop, List.getElem?_take]
    simp; omega
  · cases h

/-! ### Strings -/

/-- `toString 1` spliced into the message is the literal text. -/
theorem msg_1111 (rule q : String) :
    "\nparse error near " ++ rule ++ " (line " ++ toString 1 ++ " symbol " ++ toString 1 ++
      " - line " ++ toString 1 ++ " symbol " ++ toString 1 ++ "):\n" ++ q ++ "\n" =
    "\nparse error near " ++ rule ++ " (line 1 symbol 1 - line 1 symbol 1):\n" ++ q ++ "\n" := by
  have h1 : toString (1 : Nat) = "1" := by decide
  have h : " (line 1 symbol 1 - line 1 symbol 1):\n" =
      " (line " ++ "1" ++ " symbol " ++ "1" ++ " - line " ++ "1" ++ " symbol " ++ "1" ++ "):\n" := by
    decide
  rw [h, h1]; simp only [String.append_assoc]

end PegVerif
