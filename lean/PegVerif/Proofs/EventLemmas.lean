import PegVerif.Proofs.RefineComb
/-
  Facts about the attempted-token list of an evaluation and about the `maxToken` fold.
-/
namespace PegVerif

variable {G : Grammar} {ρ : String → Nat → Bool} {inp : List Sym}

/-- Every attempted token is a span `b ≤ e` inside the input, at or after the start position. -/
theorem Eval_events_bound {e p res evs} (h : Eval G ρ inp e p res evs) :
    p ≤ inp.length → ∀ t ∈ evs, p ≤ t.b ∧ t.b ≤ t.e ∧ t.e ≤ inp.length := by
  induction h with
  | name _ _ ih => exact ih
  | inl _ ih => exact ih
  | seq_fail _ ih => exact ih
  | seq_ok_fail h1 _ ih1 ih2 =>
    intro hp t ht
    have hb := Eval_bound h1 hp _ _ rfl
    rcases List.mem_append.mp ht with h | h
    · exact ih1 hp t h
    · have := ih2 hb.2 t h; omega
  | seq_ok h1 _ ih1 ih2 =>
    intro hp t ht
    have hb := Eval_bound h1 hp _ _ rfl
    rcases List.mem_append.mp ht with h | h
    · exact ih1 hp t h
    · have := ih2 hb.2 t h; omega
  | alt_last _ ih => exact ih
  | alt_ok _ ih => exact ih
  | alt_next _ _ ih1 ih2 =>
    intro hp t ht
    rcases List.mem_append.mp ht with h | h
    · exact ih1 hp t h
    · exact ih2 hp t h
  | ualt _ _ ih => exact ih
  | peekFor_ok _ ih => exact ih
  | peekFor_fail _ ih => exact ih
  | peekNot_ok _ ih => exact ih
  | peekNot_fail _ ih => exact ih
  | query_ok _ ih => exact ih
  | query_none _ ih => exact ih
  | star_stop _ ih => exact ih
  | star_step h1 _ ih1 ih2 =>
    intro hp t ht
    have hb := Eval_bound h1 hp _ _ rfl
    rcases List.mem_append.mp ht with h | h
    · exact ih1 hp t h
    · have := ih2 hb.2 t h; omega
  | plus_fail _ ih => exact ih
  | plus_ok h1 _ ih1 ih2 =>
    intro hp t ht
    have hb := Eval_bound h1 hp _ _ rfl
    rcases List.mem_append.mp ht with h | h
    · exact ih1 hp t h
    · have := ih2 hb.2 t h; omega
  | push_ok _ h1 ih =>
    intro hp t ht
    have hb := Eval_bound h1 hp _ _ rfl
    rcases List.mem_append.mp ht with h | h
    · exact ih hp t h
    · simp at h; subst h; simp; omega
  | push_fail _ _ ih => exact ih
  | push_act => intro hp t ht; simp at ht; subst ht; simp; omega
  | ipush_ok _ h1 ih =>
    intro hp t ht
    have hb := Eval_bound h1 hp _ _ rfl
    rcases List.mem_append.mp ht with h | h
    · exact ih hp t h
    · simp at h; subst h; simp; omega
  | ipush_fail _ _ ih => exact ih
  | ipush_act => intro hp t ht; simp at ht; subst ht; simp; omega
  | _ => intro _ t ht; simp at ht

theorem updTok_cases (mt t : Token) :
    (updTok mt t = t ∧ t.b ≠ t.e ∧ t.e > mt.e) ∨ (updTok mt t = mt ∧ ¬(t.b ≠ t.e ∧ t.e > mt.e)) := by
  unfold updTok
  split
  · next h => left; exact ⟨rfl, h⟩
  · next h => right; exact ⟨rfl, h⟩

/-- What `maxToken` is after a parse: the initial token, or an attempted non-empty token; no
    attempted non-empty token ends beyond it; and it is the FIRST attempted token with that end
    (`>` in `add`, not `≥`). -/
theorem foldl_updTok_spec (evs : List Token) (mt : Token) :
    let r := evs.foldl updTok mt
    (r = mt ∨ (r ∈ evs ∧ r.b ≠ r.e)) ∧ mt.e ≤ r.e ∧
    (∀ t ∈ evs, t.b ≠ t.e → t.e ≤ r.e) := by
  induction evs generalizing mt with
  | nil => simp
  | cons t ts ih =>
    simp only [List.foldl_cons]
    have := ih (updTok mt t)
    obtain ⟨h1, h2, h3⟩ := this
    refine ⟨?_, ?_, ?_⟩
    · rcases h1 with h | h
      · rw [h]
        unfold updTok
        split
        · next hc => right; exact ⟨by simp, hc.1⟩
        · left; rfl
      · right; exact ⟨by simp [h.1], h.2⟩
    · have : mt.e ≤ (updTok mt t).e := by unfold updTok; split <;> omega
      omega
    · intro x hx hne
      rcases List.mem_cons.mp hx with h | h
      · subst h
        have : x.e ≤ (updTok mt x).e := by
          unfold updTok; split
          · omega
          · next hc => simp at hc; have := hc hne; omega
        omega
      · exact h3 x h hne

/-- "First": if the fold returns an attempted token, every earlier attempted non-empty token ends
    strictly before it. -/
theorem foldl_updTok_first (pre post : List Token) (t mt : Token)
    (h : (pre ++ t :: post).foldl updTok mt = t) (hne : t.b ≠ t.e) (hnew : t ∉ pre) (hmt : t ≠ mt) :
    (∀ x ∈ pre, x.b ≠ x.e → x.e < t.e) ∧ mt.e < t.e ∨ t ∈ post := by
  by_cases hp : t ∈ post
  · right; exact hp
  · left
    rw [List.foldl_append, List.foldl_cons] at h
    obtain ⟨h1, h2, h3⟩ := foldl_updTok_spec pre mt
    obtain ⟨g1, g2, g3⟩ := foldl_updTok_spec post (updTok (pre.foldl updTok mt) t)
    rw [h] at g1 g2
    -- the fold over `post` did not pick an element of `post`, so it kept `updTok (…) t`
    have hkeep : updTok (pre.foldl updTok mt) t = t := by
      rcases g1 with g | g
      · exact g.symm
      · exact absurd g.1 hp
    -- and `updTok` returned `t`, so `t` beat the fold over `pre`
    have hbeat : t.e > (pre.foldl updTok mt).e := by
      rcases updTok_cases (pre.foldl updTok mt) t with ⟨_, _, hc⟩ | ⟨he, _⟩
      · exact hc
      · rw [he] at hkeep
        rcases h1 with h1 | h1
        · exact absurd (hkeep.symm.trans h1) hmt
        · rw [hkeep] at h1; exact absurd h1.1 hnew
    refine ⟨?_, by omega⟩
    intro x hx hxne
    have := h3 x hx hxne
    omega

end PegVerif
