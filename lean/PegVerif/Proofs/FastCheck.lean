import PegVerif.Proofs.FastCheckDef
import PegVerif.Proofs.LinkNoastInline
import PegVerif.Proofs.SwitchSafeDef
import PegVerif.Proofs.InlineSwitchSafeDef
import PegVerif.Proofs.NoastSwitchSafeDef
/-
  The cheap checkers of `Proofs/FastCheckDef.lean` EQUAL the checkers the per-option theorems are
  stated with:

      GrammarOKfast   = GrammarOK        GrammarOKSfast  = GrammarOKS
      GrammarOKIfast  = GrammarOKI       GrammarOKISfast = GrammarOKIS
      switchSafeFast  = switchSafe       inlineSwitchSafeFast = inlineSwitchSafe
      noastSwitchSafeKfast K = noastSwitchSafeK K

  The shared quantities are the ones of the model: `rulesCountWith_eq` (the shared counts are
  `rulesCount`), `hasFuncWith_eq` (`hasFunc`), and `hasFuncOf_inlineFuncs` + `hasFuncIN_eq` of
  `LinkNoastInline.lean` (the one-pass table `inlineFuncs` is `hasFuncI`: "the rule has a function
  in the program emitted with `-inline`", which does not depend on `ast`).
-/
namespace PegVerif
open Noast

/-- The shared function table without `-inline` is `hasFunc`. -/
theorem hasFuncWith_eq (G : Grammar) : hasFuncWith G (rulesCount G) = hasFunc G := rfl

/-- The shared function table with `-inline` is `hasFuncI`. -/
theorem hasFuncOf_inlineFuncs_I (G : Grammar) :
    hasFuncOf (inlineFuncs (rulesCount G) G.rules true) = hasFuncI G := by
  rw [hasFuncOf_inlineFuncs, hasFuncIN_eq]

theorem GrammarOKfast_eq (G : Grammar) : GrammarOKfast G = GrammarOK G := by
  simp only [GrammarOKfast, rulesCountWith_eq, hasFuncWith_eq, GrammarOK, ruleOK]
  rfl

theorem GrammarOKSfast_eq (G : Grammar) : GrammarOKSfast G = GrammarOKS G := by
  simp only [GrammarOKSfast, rulesCountWith_eq, hasFuncWith_eq, GrammarOKS, ruleOKS]
  rfl

theorem bodyOf_inlOpts (G : Grammar) (r : Rule) :
    bodyOf inlOpts G r = expandInline G (rulesCount G) G.fuel r.body := by
  simp [bodyOf, inlOpts]

theorem GrammarOKIfast_eq (G : Grammar) : GrammarOKIfast G = GrammarOKI G := by
  simp only [GrammarOKIfast, rulesCountWith_eq, hasFuncOf_inlineFuncs_I, GrammarOKI, ruleOKI,
    bodyOf_inlOpts]
  rfl

theorem GrammarOKISfast_eq (G : Grammar) : GrammarOKISfast G = GrammarOKIS G := by
  simp only [GrammarOKISfast, rulesCountWith_eq, hasFuncOf_inlineFuncs_I, GrammarOKIS, ruleOKIS,
    bodyOf_inlOpts]
  rfl

theorem switchSafeFast_eq (G G' : Grammar) : switchSafeFast G G' = switchSafe G G' := by
  simp only [switchSafeFast, switchSafe, GrammarOKSfast_eq]

theorem inlineSwitchSafeFast_eq (G G' : Grammar) : inlineSwitchSafeFast G G' = inlineSwitchSafe G G' := by
  simp only [inlineSwitchSafeFast, inlineSwitchSafe, GrammarOKISfast_eq]

theorem noastSwitchSafeKfast_eq (K : NKit) (G G' : Grammar) :
    noastSwitchSafeKfast K G G' = noastSwitchSafeK K G G' := by
  simp only [noastSwitchSafeKfast, noastSwitchSafeK, GrammarOKNS, GrammarOKSfast_eq]

end PegVerif

#print axioms PegVerif.GrammarOKfast_eq
#print axioms PegVerif.GrammarOKSfast_eq
#print axioms PegVerif.GrammarOKIfast_eq
#print axioms PegVerif.GrammarOKISfast_eq
#print axioms PegVerif.switchSafeFast_eq
#print axioms PegVerif.inlineSwitchSafeFast_eq
#print axioms PegVerif.noastSwitchSafeKfast_eq
