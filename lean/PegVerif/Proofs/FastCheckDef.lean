import PegVerif.Model.SwitchSafe
import PegVerif.Proofs.TotalLemmas
import PegVerif.Proofs.LinkLemmas
import PegVerif.Proofs.LinkSwitch
import PegVerif.Proofs.LinkNoast
import PegVerif.Proofs.AlwaysLemmas
import PegVerif.Proofs.InlineNoastSafeDef
/-
  Cheap versions of the decidable side conditions that `theoremApplies` (`AllOptionsDef.lean`)
  evaluates.  Only definitions live here (the file imports what `Exec/Driver.lean` imports already);
  `Proofs/FastCheck.lean` proves that every checker below EQUALS the checker the per-option theorems
  are stated with.

  Why the originals are slow.  They are written per rule, in the vocabulary of the proofs:
    * `GrammarOK` / `GrammarOKS` (`ruleOK`, `ruleOKS`) evaluate `rulesCount G r.name` for every rule
      and `hasFunc G n` — another `rulesCount G n` — for every reference in every body, and every
      `rulesCount` recomputes the reachability closure `reachedRules G` (itself quadratic);
    * `GrammarOKI` / `GrammarOKIS` (`ruleOKI`, `ruleOKIS`) evaluate `hasFuncI G n` for every rule and
      every reference left in an expanded body, and `hasFuncI` runs `compileAll` — dry and real
      pass, with `rulesCount` for every reference the expansion looks at.
  Here everything that does not depend on the rule is computed ONCE per call and shared by all rules
  (the `let`s are evaluated once: `rulesCountWith G (reachedRules G)` and `hasFuncOf (inlineFuncs …)`
  are partial applications whose arguments are evaluated when the closure is built):
    * the reached rules, from which the reference counts are folded (`rulesCountWith`, of
      `InlineNoastSafeDef.lean`);
    * the table "rule `n` gets a function": `hasFuncWith` without `-inline`, the one-pass table
      `inlineFuncs` (`InlineNoastSafeDef.lean`) with `-inline`;
    * the fuel of the expansion; the expanded body is computed once per rule that gets a function.
-/
namespace PegVerif
open Noast

/-- `hasFunc` (`-inline` off) with the reference counts as an argument, so that they can be shared. -/
def hasFuncWith (G : Grammar) (cnt : String → Nat) (n : String) : Bool :=
  match G.find n with
  | some r => !r.body.isNil && cnt r.name != 0
  | none => false

/-- `GrammarOK` (`Proofs/LinkLemmas.lean`) with shared reachability closure and counts. -/
def GrammarOKfast (G : Grammar) : Bool :=
  let cnt : String → Nat := rulesCountWith G (reachedRules G)
  let d : String → Bool := hasFuncWith G cnt
  G.rules.all fun r => match G.find r.name with
    | some r' => r'.body.isNil || cnt r'.name == 0 || r'.body.okB d
    | none => true

/-- `GrammarOKS` (`Proofs/LinkSwitch.lean`) with shared reachability closure and counts. -/
def GrammarOKSfast (G : Grammar) : Bool :=
  let cnt : String → Nat := rulesCountWith G (reachedRules G)
  let d : String → Bool := hasFuncWith G cnt
  G.rules.all fun r => match G.find r.name with
    | some r' => r'.body.isNil || cnt r'.name == 0 || r'.body.okS d
    | none => true

/-- `GrammarOKI` (`Proofs/InlineLemmas.lean`) with shared reachability closure, counts, function
    table and fuel; only the rules that get a function are expanded. -/
def GrammarOKIfast (G : Grammar) : Bool :=
  let cnt : String → Nat := rulesCountWith G (reachedRules G)
  let d : String → Bool := hasFuncOf (inlineFuncs cnt G.rules true)
  let fuel := G.fuel
  G.rules.all fun r => match G.find r.name with
    | some r' => !d r'.name || (expandInline G cnt fuel r'.body).okB d
    | none => true

/-- `GrammarOKIS` (`Proofs/InlineSwitch.lean`) with shared reachability closure, counts, function
    table and fuel; only the rules that get a function are expanded. -/
def GrammarOKISfast (G : Grammar) : Bool :=
  let cnt : String → Nat := rulesCountWith G (reachedRules G)
  let d : String → Bool := hasFuncOf (inlineFuncs cnt G.rules true)
  let fuel := G.fuel
  G.rules.all fun r => match G.find r.name with
    | some r' => !d r'.name || (expandInline G cnt fuel r'.body).okS d
    | none => true

/-! ### The packaged side conditions of the option sets, on the fast checkers -/

/-- `defaultParserOK`'s `GrammarOK` conjunct is `GrammarOKfast` (see `AllOptionsDef.lean`). -/
def defaultParserOKfast (G : Grammar) : Bool :=
  WFB G && GrammarOKfast G && LinkedOK G && G.rules.all (fun r => r.body.plain)

/-- `switchSafe` (`SwitchSafeDef.lean`) on `GrammarOKSfast`. -/
def switchSafeFast (G G' : Grammar) : Bool :=
  swOK G G' && GrammarOKSfast G' && LinkedOK G' && G'.rules.all (fun r => r.body.plainS)

/-- `inlineSwitchSafe` (`InlineSwitchSafeDef.lean`) on `GrammarOKISfast`. -/
def inlineSwitchSafeFast (G G' : Grammar) : Bool :=
  swOK G G' && GrammarOKISfast G' && LinkedOK G' && G'.rules.all (fun r => r.body.plainS)

/-- `noastSwitchSafeK` (`NoastSwitchSafeDef.lean`; `GrammarOKNS K G' = GrammarOKS G' && GrammarOKN K G'`)
    on `GrammarOKSfast`. -/
def noastSwitchSafeKfast (K : NKit) (G G' : Grammar) : Bool :=
  swOK G G' && (GrammarOKSfast G' && GrammarOKN K G') && G'.rules.all (fun r => r.body.plainS)

end PegVerif
