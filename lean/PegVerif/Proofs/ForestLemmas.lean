import PegVerif.Proofs.SemLemmas
import PegVerif.Proofs.AstLemmas
/-
  The derivation forest of a successful evaluation is well nested inside the consumed span, and
  the forest of a rule application is a single node spanning exactly what the rule consumed.
-/
namespace PegVerif

variable {G : Grammar} {ρ : String → Nat → Bool} {inp : List Sym}

theorem Eval_wellNested {e p res evs} (h : Eval G ρ inp e p res evs) :
    ∀ p' f, res = .ok p' f → WellNestedL p p' f := by
  induction h with
  | name _ _ ih => exact ih
  | inl _ ih => exact ih
  | alt_last _ ih => exact ih
  | alt_ok _ ih => exact ih
  | alt_next _ _ _ ih2 => exact ih2
  | ualt _ _ ih => exact ih
  | query_ok _ ih => exact ih
  | seq_ok _ _ ih1 ih2 =>
    intro p' f e; cases e
    exact WellNestedL_append (ih1 _ _ rfl) (ih2 _ _ rfl)
  | star_step _ _ ih1 ih2 =>
    intro p' f e; cases e
    exact WellNestedL_append (ih1 _ _ rfl) (ih2 _ _ rfl)
  | plus_ok _ _ ih1 ih2 =>
    intro p' f e; cases e
    exact WellNestedL_append (ih1 _ _ rfl) (ih2 _ _ rfl)
  | push_ok _ _ ih =>
    intro p' f e; cases e
    have := ih _ _ rfl
    simp only [WellNestedL, WellNested, TokTree.tok]
    exact ⟨Nat.le_refl _, ⟨this.le, this⟩, Nat.le_refl _⟩
  | ipush_ok _ _ ih =>
    intro p' f e; cases e
    have := ih _ _ rfl
    simp only [WellNestedL, WellNested, TokTree.tok]
    exact ⟨Nat.le_refl _, ⟨this.le, this⟩, Nat.le_refl _⟩
  | push_act => intro p' f e; cases e; simp [WellNestedL, WellNested, TokTree.tok]
  | ipush_act => intro p' f e; cases e; simp [WellNestedL, WellNested, TokTree.tok]
  | _ => intro p' f e; cases e <;> simp [WellNestedL]

/-- A rule whose body is its implicit push yields exactly one tree: the rule's token, spanning
    the consumed prefix, over the forest of the body. -/
theorem Eval_rule_forest {n e p p' forest evs} (hb : G.body n = some (.ipush e n))
    (h : Eval G ρ inp (.name n) p (.ok p' forest) evs) :
    ∃ f, forest = [.node ⟨n, p, p'⟩ f] := by
  cases h with
  | name hb' h' =>
    rw [hb] at hb'; cases hb'
    cases h' with
    | ipush_ok _ _ => exact ⟨_, rfl⟩
    | ipush_act => exact ⟨_, rfl⟩

/-- … so the last recorded token is the entry rule spanning the consumed prefix. -/
theorem postorder_last_is_rule {n e p p' forest evs} (hb : G.body n = some (.ipush e n))
    (h : Eval G ρ inp (.name n) p (.ok p' forest) evs) :
    (postorderL forest).getLast? = some ⟨n, p, p'⟩ := by
  obtain ⟨f, rfl⟩ := Eval_rule_forest hb h
  simp

end PegVerif
