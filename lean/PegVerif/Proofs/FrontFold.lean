import PegVerif.Proofs.FrontHex
/-
  Case folding at the level of the regenerated grammar, for EVERY raw character: in the relational
  PEG semantics (`Eval`) rule `DoubleChar` — one character of a double-quoted literal or of a
  `[[…]]` class — consumes a character `c` other than the backslash through `Char`, and the actions it
  triggers (`p.AddCharacter(text)` of `Char`, then `p.AddCaseFold()`) leave the builder with exactly
  `foldNode c`: the plain character when `c` has no case, the choice `lower / upper` when it has, and
  `lower / upper / c` for a title case `c`.  (A character written as an escape goes through rule
  `Escape`; the finite table of escape spellings is evaluated in Props/C10.lean.)

  As in Proofs/FrontHex.lean the derivation is built by hand (`c` is a variable) and the
  grammar-dependent facts — the bodies of `DoubleChar` and `Char`, that every alternative of `Escape`
  starts with the backslash, the two action rules and their code — are read off the literals
  `pegLinked` / `pegTable` and checked by the kernel against the current peg.peg on every run.
-/
namespace PegVerif

section
variable {G : Grammar} {ρ : String → Nat → Bool} {inp : List Sym}

/-- A choice all of whose alternatives fail without events fails without events. -/
theorem alt_all_fail : ∀ (es : List Expr) (p : Nat), es ≠ [] →
    (∀ e ∈ es, Eval G ρ inp e p .fail []) → Eval G ρ inp (.alt es) p .fail [] := by
  intro es
  induction es with
  | nil => intro p h; exact absurd rfl h
  | cons e rest ih =>
    intro p _ hall
    match rest, ih with
    | [], _ => exact Eval.alt_last (hall e (by simp))
    | e' :: rest', ih =>
      have h1 := hall e (by simp)
      have h2 := ih p (by simp) (fun x hx => hall x (by simp [hx]))
      have := Eval.alt_next h1 h2
      simpa using this

/-- Shape of an alternative that starts with the backslash. -/
def startsWithBackslash : Expr → Bool
  | .seq (.chr 92 :: _) => true
  | _ => false

theorem startsWithBackslash_fails {e : Expr} {p : Nat} (h : startsWithBackslash e = true)
    (h0 : inp[p]? ≠ some 92) : Eval G ρ inp e p .fail [] := by
  unfold startsWithBackslash at h
  split at h
  · exact Eval.seq_fail (Eval.chr_fail h0)
  · cases h

end

/-! ### the grammar-dependent facts, read off the literals -/

/-- The action rules of `Char` (raw character) and of `DoubleChar`. -/
def charAction : String := "Action30"
def foldAction : String := "Action31"

theorem escapeAlts_backslash : escapeAlts.all startsWithBackslash = true := by kernel_rfl
theorem escapeAlts_nonempty : escapeAlts.isEmpty = false := by kernel_rfl
theorem char_body :
    pegLinked.G.body "Char" =
      some (.ipush (.alt [.name "Escape",
        .seq [.peekNot (.chr 92), .push .dot "PegText", .name charAction]]) "Char") := by kernel_rfl
theorem doubleChar_body :
    pegLinked.G.body "DoubleChar" =
      some (.ipush (.seq [.name "Char", .name foldAction]) "DoubleChar") := by kernel_rfl
theorem charAction_body :
    pegLinked.G.body charAction =
      some (.ipush (.act " p.AddCharacter(text) ") charAction) := by kernel_rfl
theorem foldAction_body :
    pegLinked.G.body foldAction = some (.ipush (.act " p.AddCaseFold() ") foldAction) := by kernel_rfl
theorem charAction_calls :
    lookupAct pegTable charAction = some (some [⟨symsOf "AddCharacter", .text⟩]) := by kernel_rfl
theorem foldAction_calls :
    lookupAct pegTable foldAction = some (some [⟨symsOf "AddCaseFold", .none⟩]) := by kernel_rfl
theorem charAction_isAct : pegActs.contains charAction = true := by kernel_rfl
theorem foldAction_isAct : pegActs.contains foldAction = true := by kernel_rfl
theorem char_notAct : pegActs.contains "Char" = false := by kernel_rfl
theorem doubleChar_notAct : pegActs.contains "DoubleChar" = false := by kernel_rfl

/-- The tokens of `DoubleChar` on one raw character. -/
def doubleCharForest : List TokTree :=
  [.node ⟨"DoubleChar", 0, 1⟩
    [.node ⟨"Char", 0, 1⟩ [.node ⟨"PegText", 0, 1⟩ [], .node ⟨charAction, 1, 1⟩ []],
     .node ⟨foldAction, 1, 1⟩ []]]

/-- Rule `Escape` fails (without events) on a text that does not start with the backslash. -/
theorem escape_fails_raw (c : Sym) (hc : c ≠ 92) (tl : List Sym) :
    Eval pegLinked.G (fun _ _ => false) (c :: tl) (.name "Escape") 0 .fail [] := by
  have h0 : (c :: tl)[0]? ≠ some 92 := by
    intro h; simp at h; exact hc h
  have hne : escapeAlts ≠ [] := by
    intro h; have := escapeAlts_nonempty; rw [h] at this; cases this
  have hall : ∀ e ∈ escapeAlts, Eval pegLinked.G (fun _ _ => false) (c :: tl) e 0 .fail [] :=
    fun e he => startsWithBackslash_fails (List.all_eq_true.mp escapeAlts_backslash e he) h0
  exact Eval.name escape_body (Eval.ipush_fail rfl (alt_all_fail escapeAlts 0 hne hall))

/-- ANY character `c` other than the backslash, followed by anything: rule `DoubleChar` of the
    regenerated grammar consumes exactly `c`, producing the tokens `PegText` (the character), the
    action of `Char`, `Char`, the fold action, `DoubleChar`. -/
theorem doubleChar_raw_eval (c : Sym) (hc : c ≠ 92) (tl : List Sym) :
    ∃ evs, Eval pegLinked.G (fun _ _ => false) (c :: tl) (.name "DoubleChar") 0
      (.ok 1 doubleCharForest) evs := by
  let inp : List Sym := c :: tl
  have h0 : inp[0]? = some c := rfl
  have h92 : inp[0]? ≠ some 92 := by
    intro h; simp [inp] at h; exact hc h
  have e1 : Eval pegLinked.G (fun _ _ => false) inp (.peekNot (.chr 92)) 0 (.ok 0 []) [] :=
    Eval.peekNot_ok (Eval.chr_fail h92)
  have e2 : Eval pegLinked.G (fun _ _ => false) inp (.push .dot "PegText") 0
      (.ok 1 [.node ⟨"PegText", 0, 1⟩ []]) ([] ++ [⟨"PegText", 0, 1⟩]) :=
    Eval.push_ok rfl (Eval.dot_ok h0)
  have e3 : Eval pegLinked.G (fun _ _ => false) inp (.name charAction) 1
      (.ok 1 [.node ⟨charAction, 1, 1⟩ []]) [⟨charAction, 1, 1⟩] :=
    Eval.name charAction_body Eval.ipush_act
  have eseq := Eval.seq_ok e1 (Eval.seq_ok e2 (Eval.seq_ok e3 Eval.seq_nil))
  simp only [List.nil_append, List.append_nil] at eseq
  have ealt := Eval.alt_next (es := []) (escape_fails_raw c hc tl) (Eval.alt_last eseq)
  have echar := Eval.name char_body (Eval.ipush_ok (r := "Char") rfl ealt)
  have e4 : Eval pegLinked.G (fun _ _ => false) inp (.name foldAction) 1
      (.ok 1 [.node ⟨foldAction, 1, 1⟩ []]) [⟨foldAction, 1, 1⟩] :=
    Eval.name foldAction_body Eval.ipush_act
  have eseq2 := Eval.seq_ok echar (Eval.seq_ok e4 Eval.seq_nil)
  have := Eval.name doubleChar_body (Eval.ipush_ok (r := "DoubleChar") rfl eseq2)
  exact ⟨_, this⟩

/-- … and running `Execute()` on these tokens with the real action code of peg.peg against the
    builder model leaves exactly ONE node, `foldNode c`, and records no error. -/
theorem doubleChar_raw_actions (c : Sym) (tl : List Sym) :
    (execute pegActs (c :: tl) (postorderL doubleCharForest)).map
      (fun evs => runEvents pegTable evs BState.init) = some (.ok ⟨[foldNode c], 0, []⟩) := by
  have hslice : slice? (c :: tl) 0 1 = some [c] := by
    unfold slice?
    rw [if_pos (by simp)]
    simp [List.extract]
  have hne1 : charAction ≠ "PegText" := by decide
  have hne2 : foldAction ≠ "PegText" := by decide
  have hne3 : ("Char" : String) ≠ "PegText" := by decide
  have hne4 : ("DoubleChar" : String) ≠ "PegText" := by decide
  have hop1 : callsToOps [c] [⟨symsOf "AddCharacter", .text⟩] = some [.addCharacter [c]] := by
    have : Call.toOp ⟨symsOf "AddCharacter", .text⟩ [c] = some (.addCharacter [c]) := by
      unfold Call.toOp
      simp +decide only [if_true, if_false]
    simp [callsToOps, this]
  have hop2 : callsToOps [c] [⟨symsOf "AddCaseFold", .none⟩] = some [.addCaseFold] := by
    have : Call.toOp ⟨symsOf "AddCaseFold", .none⟩ [c] = some .addCaseFold := by
      unfold Call.toOp
      simp +decide only [if_true, if_false]
    simp [callsToOps, this]
  simp only [doubleCharForest, postorderL_cons, postorderL_nil, TokTree.postorder_node, List.nil_append,
    List.append_nil, List.cons_append, execute, executeFrom, ExecState.init, if_true, hslice,
    if_neg hne1, if_neg hne2, if_neg hne3, if_neg hne4, charAction_isAct, foldAction_isAct, char_notAct,
    doubleChar_notAct, Option.map, ActEvent.mk', runEvents, charAction_calls, foldAction_calls,
    Bool.false_eq_true, if_false, hop1, hop2, applyOps, Op.apply, addCharacterS, BState.init,
    BState.pushFront, builder_addCaseFold_char]

/-! ### a character written as an escape: the finite table, evaluated -/

mutual
  theorem Node.eq_of_beq : ∀ (a b : Node), Node.beq a b = true → a = b
    | .mk t s i ks, .mk t' s' i' ks', h => by
      simp only [Node.beq, Bool.and_eq_true, beq_iff_eq] at h
      obtain ⟨⟨⟨h1, h2⟩, h3⟩, h4⟩ := h
      rw [h1, h2, h3, Node.eqL_of_beqL ks ks' h4]
  theorem Node.eqL_of_beqL : ∀ (as bs : List Node), Node.beqL as bs = true → as = bs
    | [], [], _ => rfl
    | a :: as, b :: bs, h => by
      simp only [Node.beqL, Bool.and_eq_true] at h
      rw [Node.eq_of_beq a b h.1, Node.eqL_of_beqL as bs h.2]
    | [], _ :: _, h => by simp [Node.beqL] at h
    | _ :: _, [], h => by simp [Node.beqL] at h
end

/-- What ONE character position of a double-quoted literal / `[[…]]` class becomes: rule
    `DoubleChar` of `G` must consume exactly the spelling `sp`, and its actions must leave exactly
    one node and no error; `none` otherwise. -/
def frontFoldCore (G : Grammar) (acts : List String) (tbl : List (String × Option (List Call)))
    (sp : List Sym) : Option Node :=
  match evalF G (fun _ _ => false) sp 64 (.name "DoubleChar") 0 with
  | some (.ok p forest, _) =>
    if p = sp.length then
      match execute acts sp (postorderL forest) with
      | some evs =>
        match runEvents tbl evs BState.init with
        | .ok st =>
          match st.items, st.errs with
          | [n], [] => some n
          | _, _ => none
        | _ => none
      | none => none
    else none
  | _ => none

/-- … of the front end (`none`: `DoubleChar` does not read exactly this spelling, or reports it). -/
def frontFold (sp : List Sym) : Option Node :=
  let L := linkGrammar pegFrontRules
  frontFoldCore L.G (L.actions.map (·.1)) (actionTable L) sp

theorem frontFold_eq (sp : List Sym) :
    frontFold sp = frontFoldCore pegLinked.G pegActs pegTable sp := by
  unfold frontFold
  simp only [pegLinked_eq, pegActs_eq, pegTable_eq]

end PegVerif
