import PegVerif.Proofs.FrontLemmas
/-
  The hex escape `\0x<digits>` for ALL digit strings, at the level of the regenerated grammar:
  in the relational PEG semantics (`Eval`) rule `Escape` consumes the whole spelling, and the
  actions it triggers make the builder push `Character value` and record nothing when the value is a
  Unicode code point, and record the error naming the escape (which `Compile` then returns) when it
  is not.

  The derivation is built by hand (the digit string is a variable, so there is nothing to
  evaluate); the grammar-dependent facts — which alternatives precede the hex alternative and that
  each of them fails on `\0`, the exact shape of the hex alternative, the action rule and its code —
  are read off the literal `pegLinked` / `pegTable` and checked by the kernel, so the theorem is
  re-checked against the current peg.peg on every run.
-/
namespace PegVerif

section
variable {G : Grammar} {ρ : String → Nat → Bool} {inp : List Sym}

def hexClass : Expr := .alt [.rng 48 57, .rng 97 102, .rng 65 70]

def isHexSym (c : Sym) : Bool :=
  (decide (48 ≤ c) && decide (c ≤ 57)) || (decide (97 ≤ c) && decide (c ≤ 102)) ||
  (decide (65 ≤ c) && decide (c ≤ 70))

theorem isHexSym_iff (c : Sym) :
    isHexSym c = true ↔ (48 ≤ c ∧ c ≤ 57) ∨ (97 ≤ c ∧ c ≤ 102) ∨ (65 ≤ c ∧ c ≤ 70) := by
  simp [isHexSym, or_assoc]

theorem hexClass_ok {p c : Nat} (h : inp[p]? = some c) (hc : isHexSym c = true) :
    Eval G ρ inp hexClass p (.ok (p + 1) []) [] := by
  rw [isHexSym_iff] at hc
  unfold hexClass
  by_cases h1 : 48 ≤ c ∧ c ≤ 57
  · exact Eval.alt_ok (Eval.rng_ok h h1.1 h1.2)
  · have f1 : Eval G ρ inp (.rng 48 57) p .fail [] :=
      Eval.rng_fail (by intro c' hc'; rw [h] at hc'; cases hc'; omega)
    by_cases h2 : 97 ≤ c ∧ c ≤ 102
    · have := Eval.alt_next (es := [.rng 65 70]) f1 (Eval.alt_ok (Eval.rng_ok h h2.1 h2.2))
      simpa using this
    · have f2 : Eval G ρ inp (.rng 97 102) p .fail [] :=
        Eval.rng_fail (by intro c' hc'; rw [h] at hc'; cases hc'; omega)
      have h3 : 65 ≤ c ∧ c ≤ 70 := by omega
      have := Eval.alt_next f1 (Eval.alt_next f2 (Eval.alt_last (Eval.rng_ok h h3.1 h3.2)))
      simpa using this

theorem hexClass_end {p : Nat} (h : inp[p]? = none) : Eval G ρ inp hexClass p .fail [] := by
  unfold hexClass
  have f : ∀ lo hi, Eval G ρ inp (.rng lo hi) p .fail [] :=
    fun lo hi => Eval.rng_fail (by intro c hc; rw [h] at hc; cases hc)
  have := Eval.alt_next (f 48 57) (Eval.alt_next (f 97 102) (Eval.alt_last (f 65 70)))
  simpa using this

/-- `[0-9a-fA-F]*` on a run of hex digits that ends the input. -/
theorem star_hex : ∀ (ds : List Sym) (p : Nat), inp.drop p = ds → (∀ c ∈ ds, isHexSym c = true) →
    Eval G ρ inp (.star hexClass) p (.ok (p + ds.length) []) [] := by
  intro ds
  induction ds with
  | nil =>
    intro p hd _
    have : inp[p]? = none := by
      have := List.drop_eq_nil_iff.mp hd
      exact List.getElem?_eq_none this
    simpa using Eval.star_stop (hexClass_end this)
  | cons c cs ih =>
    intro p hd hall
    have hp : inp[p]? = some c := by
      have : (inp.drop p)[0]? = some c := by rw [hd]; rfl
      simpa using this
    have hd' : inp.drop (p + 1) = cs := by
      have : (inp.drop p).drop 1 = cs := by rw [hd]; rfl
      simpa [List.drop_drop, Nat.add_comm] using this
    have h1 := hexClass_ok (G := G) (ρ := ρ) hp (hall c (by simp))
    have h2 := ih (p + 1) hd' (fun x hx => hall x (by simp [hx]))
    have := Eval.star_step h1 h2
    have e : p + 1 + cs.length = p + (c :: cs).length := by simp; omega
    simpa [e] using this

theorem plus_hex (ds : List Sym) (p : Nat) (hne : ds ≠ []) (hd : inp.drop p = ds)
    (hall : ∀ c ∈ ds, isHexSym c = true) :
    Eval G ρ inp (.plus hexClass) p (.ok (p + ds.length) []) [] := by
  match ds, hne with
  | c :: cs, _ =>
    have hp : inp[p]? = some c := by
      have : (inp.drop p)[0]? = some c := by rw [hd]; rfl
      simpa using this
    have hd' : inp.drop (p + 1) = cs := by
      have : (inp.drop p).drop 1 = cs := by rw [hd]; rfl
      simpa [List.drop_drop, Nat.add_comm] using this
    have h1 := hexClass_ok (G := G) (ρ := ρ) hp (hall c (by simp))
    have h2 := star_hex (G := G) (ρ := ρ) cs (p + 1) hd' (fun x hx => hall x (by simp [hx]))
    have := Eval.plus_ok h1 h2
    have e : p + 1 + cs.length = p + (c :: cs).length := by simp; omega
    simpa [e] using this

/-- Shapes of alternatives of `Escape` that fail on an input starting with `\0`. -/
def failsOn0 : Expr → Bool
  | .seq (.chr 92 :: .alt [.chr a, .chr b] :: _) => a != 48 && b != 48
  | .seq (.chr 92 :: .chr a :: _) => a != 48
  | _ => false

theorem failsOn0_sound {e : Expr} (h : failsOn0 e = true) (h0 : inp[0]? = some 92)
    (h1 : inp[1]? = some 48) : Eval G ρ inp e 0 .fail [] := by
  unfold failsOn0 at h
  split at h
  · next a b tl =>
    simp only [Bool.and_eq_true, bne_iff_ne, ne_eq] at h
    have fa : Eval G ρ inp (.chr a) 1 .fail [] := Eval.chr_fail (by rw [h1]; intro hh; cases hh; exact h.1 rfl)
    have fb : Eval G ρ inp (.chr b) 1 .fail [] := Eval.chr_fail (by rw [h1]; intro hh; cases hh; exact h.2 rfl)
    have f2 : Eval G ρ inp (.alt [.chr a, .chr b]) 1 .fail ([] ++ []) := Eval.alt_next fa (Eval.alt_last fb)
    have := Eval.seq_ok_fail (es := .alt [.chr a, .chr b] :: tl) (Eval.chr_ok h0) (Eval.seq_fail f2)
    simpa using this
  · next a tl =>
    simp only [bne_iff_ne, ne_eq] at h
    have fa : Eval G ρ inp (.chr a) 1 .fail [] := Eval.chr_fail (by rw [h1]; intro hh; cases hh; exact h rfl)
    have := Eval.seq_ok_fail (es := .chr a :: tl) (Eval.chr_ok h0) (Eval.seq_fail fa)
    simpa using this
  · cases h

/-- Skipping failed alternatives (without events) in front of a successful one. -/
theorem alt_skip (pre : List Expr) (e e' : Expr) (rest : List Expr) (p p1 : Nat) (f : List TokTree)
    (evs : List Token) (hpre : ∀ x ∈ pre, Eval G ρ inp x p .fail [])
    (he : Eval G ρ inp e p (.ok p1 f) evs) :
    Eval G ρ inp (.alt (pre ++ e :: e' :: rest)) p (.ok p1 f) evs := by
  induction pre with
  | nil => exact Eval.alt_ok he
  | cons x xs ih =>
    have hx := hpre x (by simp)
    have hrest := ih (fun y hy => hpre y (by simp [hy]))
    match hxs : xs ++ e :: e' :: rest, hrest with
    | [], _ => simp at hxs
    | y :: ys, hrest =>
      have := Eval.alt_next hx hrest
      simpa [hxs] using this

end

/-! ### the grammar-dependent facts, read off the literals -/

noncomputable def escapeAlts : List Expr :=
  match pegLinked.G.body "Escape" with
  | some (.ipush (.alt es) _) => es
  | _ => []

/-- Position of the hex alternative in `Escape` and the name of its action rule. -/
def hexPos : Nat := 13
def hexAction : String := "Action45"

def hexAlt : Expr :=
  .seq [.chr 92, .seq [.chr 48, .alt [.chr 120, .chr 88]], .push (.plus hexClass) "PegText",
        .name hexAction]

theorem escape_body : pegLinked.G.body "Escape" = some (.ipush (.alt escapeAlts) "Escape") := by
  kernel_rfl
theorem escapeAlts_split :
    escapeAlts = escapeAlts.take hexPos ++ hexAlt :: (escapeAlts.drop (hexPos + 1)) := by kernel_rfl
theorem escapeAlts_after : (escapeAlts.drop (hexPos + 1)).length = 3 := by kernel_rfl
theorem escapeAlts_before : (escapeAlts.take hexPos).all failsOn0 = true := by kernel_rfl
theorem hexAction_body :
    pegLinked.G.body hexAction =
      some (.ipush (.act " p.AddHexaCharacter(text) ") hexAction) := by kernel_rfl
theorem hexAction_calls :
    lookupAct pegTable hexAction = some (some [⟨symsOf "AddHexaCharacter", .text⟩]) := by kernel_rfl
theorem hexAction_isAct : pegActs.contains hexAction = true := by kernel_rfl
theorem escape_notAct : pegActs.contains "Escape" = false := by kernel_rfl

/-- `\0x` or `\0X` followed by a non-empty string of hex digits: rule `Escape` of the regenerated
    grammar consumes all of it and produces the tokens `PegText` (the digits), the hex action, and
    `Escape`. -/
theorem escape_hex_eval (x : Sym) (hx : x = 120 ∨ x = 88) (ds : List Sym) (hne : ds ≠ [])
    (hall : ∀ c ∈ ds, isHexSym c = true) :
    ∃ evs, Eval pegLinked.G (fun _ _ => false) (92 :: 48 :: x :: ds) (.name "Escape") 0
      (.ok (3 + ds.length)
        [.node ⟨"Escape", 0, 3 + ds.length⟩
          [.node ⟨"PegText", 3, 3 + ds.length⟩ [],
           .node ⟨hexAction, 3 + ds.length, 3 + ds.length⟩ []]]) evs := by
  let inp : List Sym := 92 :: 48 :: x :: ds
  have h0 : inp[0]? = some 92 := rfl
  have h1 : inp[1]? = some 48 := rfl
  have h2 : inp[2]? = some x := rfl
  -- the hex alternative
  have e1 : Eval pegLinked.G (fun _ _ => false) inp (.chr 92) 0 (.ok 1 []) [] := Eval.chr_ok h0
  have e2 : Eval pegLinked.G (fun _ _ => false) inp (.seq [.chr 48, .alt [.chr 120, .chr 88]]) 1
      (.ok 3 []) [] := by
    have ex : Eval pegLinked.G (fun _ _ => false) inp (.alt [.chr 120, .chr 88]) 2 (.ok 3 []) [] := by
      rcases hx with hx | hx
      · subst hx; exact Eval.alt_ok (Eval.chr_ok h2)
      · subst hx
        have := Eval.alt_next (G := pegLinked.G) (ρ := fun _ _ => false) (es := [])
          (Eval.chr_fail (c := 120) (by rw [h2]; decide)) (Eval.alt_last (Eval.chr_ok h2))
        simpa using this
    have := Eval.seq_ok (Eval.chr_ok h1) (Eval.seq_ok ex Eval.seq_nil)
    simpa using this
  have e3 := plus_hex (G := pegLinked.G) (ρ := fun _ _ => false) (inp := inp) ds 3 hne rfl hall
  have e3' : Eval pegLinked.G (fun _ _ => false) inp (.push (.plus hexClass) "PegText") 3
      (.ok (3 + ds.length) [.node ⟨"PegText", 3, 3 + ds.length⟩ []])
      ([] ++ [⟨"PegText", 3, 3 + ds.length⟩]) := Eval.push_ok rfl e3
  have e4 : Eval pegLinked.G (fun _ _ => false) inp (.name hexAction) (3 + ds.length)
      (.ok (3 + ds.length) [.node ⟨hexAction, 3 + ds.length, 3 + ds.length⟩ []])
      [⟨hexAction, 3 + ds.length, 3 + ds.length⟩] := Eval.name hexAction_body Eval.ipush_act
  have eseq := Eval.seq_ok e1 (Eval.seq_ok e2 (Eval.seq_ok e3' (Eval.seq_ok e4 Eval.seq_nil)))
  simp only [List.nil_append, List.append_nil] at eseq
  -- the alternatives in front of it fail
  have hpre : ∀ y ∈ escapeAlts.take hexPos, Eval pegLinked.G (fun _ _ => false) inp y 0 .fail [] :=
    fun y hy => failsOn0_sound (List.all_eq_true.mp escapeAlts_before y hy) h0 h1
  match hpost : escapeAlts.drop (hexPos + 1), escapeAlts_after with
  | e' :: rest, _ =>
    have halt := alt_skip (escapeAlts.take hexPos) hexAlt e' rest 0 _ _ _ hpre eseq
    rw [← hpost, ← escapeAlts_split] at halt
    have hip := Eval.ipush_ok (r := "Escape") rfl halt
    exact ⟨_, Eval.name escape_body hip⟩

/-- … and running `Execute()` on these tokens with the real action code against the builder model
    pushes exactly one Character: the hex value, and no error is recorded, if the value is a code
    point; otherwise the error naming the escape is recorded (the Character then holds U+FFFD, and
    `Compile` will refuse the tree: `BState.finish`). -/
theorem escape_hex_actions (x : Sym) (ds : List Sym) (v : Nat) (hne : ds ≠ [])
    (hv : digitsVal 16 ds 0 = some v) :
    (execute pegActs (92 :: 48 :: x :: ds)
        (postorderL [.node ⟨"Escape", 0, 3 + ds.length⟩
          [.node ⟨"PegText", 3, 3 + ds.length⟩ [],
           .node ⟨hexAction, 3 + ds.length, 3 + ds.length⟩ []]])).map
      (fun evs => runEvents pegTable evs BState.init) =
    some (.ok (if isCodePoint v = true then ⟨[.leaf .character [v]], 0, []⟩
               else ⟨[.leaf .character [0xFFFD]], 0, [hexErrMsg ds]⟩)) := by
  have hslice : slice? (92 :: 48 :: x :: ds) 3 (3 + ds.length) = some ds := by
    unfold slice?
    rw [if_pos (by simp; omega)]
    simp [List.extract]
  have hne1 : hexAction ≠ "PegText" := by decide
  have hne2 : ("Escape" : String) ≠ "PegText" := by decide
  simp only [postorderL_cons, postorderL_nil, TokTree.postorder_node, List.nil_append, List.append_nil,
    List.cons_append, execute, executeFrom, ExecState.init, if_true, hslice, if_neg hne1, if_neg hne2,
    hexAction_isAct, escape_notAct, Option.map, ActEvent.mk', runEvents, hexAction_calls,
    Bool.false_eq_true, if_false]
  have hop : callsToOps ds [⟨symsOf "AddHexaCharacter", .text⟩] = some [.addHexaCharacter ds] := by
    have : Call.toOp ⟨symsOf "AddHexaCharacter", .text⟩ ds = some (.addHexaCharacter ds) := by
      unfold Call.toOp
      simp +decide only [if_true, if_false]
    simp [callsToOps, this]
  have hs := escape_hex_spec ds v ⟨[], 0, []⟩ hne hv
  simp only [hop, applyOps, BState.init, hs]
  cases isCodePoint v <;> simp [BState.pushFront, BState.addErr]

theorem digitVal_hex {c : Sym} (h : isHexSym c = true) : ∃ d, digitVal 16 c = some d := by
  rw [isHexSym_iff] at h
  have : digitRaw 16 c < 16 := by
    unfold digitRaw
    split
    · omega
    · split
      · omega
      · split <;> omega
  exact ⟨_, if_pos this⟩

/-- A string of hex digits has a value. -/
theorem digitsVal_hex : ∀ (ds : List Sym) (acc : Nat), (∀ c ∈ ds, isHexSym c = true) →
    ∃ v, digitsVal 16 ds acc = some v := by
  intro ds
  induction ds with
  | nil => intro acc _; exact ⟨acc, rfl⟩
  | cons c cs ih =>
    intro acc h
    obtain ⟨d, hd⟩ := digitVal_hex (h c (by simp))
    obtain ⟨v, hv⟩ := ih (acc * 16 + d) (fun x hx => h x (by simp [hx]))
    exact ⟨v, by simp [digitsVal, hd, hv]⟩

end PegVerif
