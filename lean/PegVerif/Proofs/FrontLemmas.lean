import Lean
import PegVerif.Model.Builder
import PegVerif.Proofs.SemLemmas
/-
  Helper lemmas for C10 (the front end).

  1. Kernel evaluation infrastructure.  `linkGrammar pegFrontRules` is expensive to normalise and
     the kernel would redo it at every use, so its VALUE is computed once at elaboration time by
     ordinary evaluation, turned into a literal (`pegLinked`, plain constructor terms) and the
     kernel then checks `linkGrammar pegFrontRules = pegLinked` by definitional unfolding
     (`pegLinked_eq`).  Nothing is trusted: the evaluator only proposes the literal.
     `kernel_rfl` closes a goal `a = b` with `Eq.refl a` and leaves the check `a ≡ b` to the kernel
     (the elaborator's own defeq check is skipped because it is much slower); this is `rfl` /
     `decide +kernel` style kernel evaluation, no `native_decide`, no axioms.
  2. Universal facts about the builder model (`Op.apply`): list discipline of `addList`,
     panic-freedom characterisation, `ParseInt` based escapes.
  3. The model front end only accepts texts in the PEG language of the regenerated grammar
     (soundness w.r.t. `Eval`) and its answer does not depend on the fuel.
-/
namespace PegVerif
open Lean Elab Command Tactic

/-! ## 1. literals and kernel evaluation -/

mutual
  def Expr.toLeanE : PegVerif.Expr → Lean.Expr
    | .dot => mkConst ``PegVerif.Expr.dot
    | .chr c => mkApp (mkConst ``PegVerif.Expr.chr) (mkNatLit c)
    | .rng a b => mkApp2 (mkConst ``PegVerif.Expr.rng) (mkNatLit a) (mkNatLit b)
    | .str s => mkApp (mkConst ``PegVerif.Expr.str) (toExpr s)
    | .name n => mkApp (mkConst ``PegVerif.Expr.name) (mkStrLit n)
    | .inl n e => mkApp2 (mkConst ``PegVerif.Expr.inl) (mkStrLit n) e.toLeanE
    | .pred c => mkApp (mkConst ``PegVerif.Expr.pred) (mkStrLit c)
    | .stmt c => mkApp (mkConst ``PegVerif.Expr.stmt) (mkStrLit c)
    | .act c => mkApp (mkConst ``PegVerif.Expr.act) (mkStrLit c)
    | .seq es => mkApp (mkConst ``PegVerif.Expr.seq) (Expr.toLeanL es)
    | .alt es => mkApp (mkConst ``PegVerif.Expr.alt) (Expr.toLeanL es)
    | .ualt ks es => mkApp2 (mkConst ``PegVerif.Expr.ualt) (toExpr ks) (Expr.toLeanL es)
    | .peekFor e => mkApp (mkConst ``PegVerif.Expr.peekFor) e.toLeanE
    | .peekNot e => mkApp (mkConst ``PegVerif.Expr.peekNot) e.toLeanE
    | .query e => mkApp (mkConst ``PegVerif.Expr.query) e.toLeanE
    | .star e => mkApp (mkConst ``PegVerif.Expr.star) e.toLeanE
    | .plus e => mkApp (mkConst ``PegVerif.Expr.plus) e.toLeanE
    | .push e r => mkApp2 (mkConst ``PegVerif.Expr.push) e.toLeanE (mkStrLit r)
    | .ipush e r => mkApp2 (mkConst ``PegVerif.Expr.ipush) e.toLeanE (mkStrLit r)
    | .nil => mkConst ``PegVerif.Expr.nil
  def Expr.toLeanL : List PegVerif.Expr → Lean.Expr
    | [] => mkApp (mkConst ``List.nil [Level.zero]) (mkConst ``PegVerif.Expr)
    | e :: es =>
      mkApp3 (mkConst ``List.cons [Level.zero]) (mkConst ``PegVerif.Expr) e.toLeanE (Expr.toLeanL es)
end

instance : ToExpr PegVerif.Expr where
  toExpr := Expr.toLeanE
  toTypeExpr := mkConst ``PegVerif.Expr
instance : ToExpr Rule where
  toExpr r := mkApp3 (mkConst ``PegVerif.Rule.mk) (mkStrLit r.name) (mkNatLit r.id) (toExpr r.body)
  toTypeExpr := mkConst ``PegVerif.Rule
instance : ToExpr Linked where
  toExpr L := mkApp4 (mkConst ``PegVerif.Linked.mk)
    (mkApp (mkConst ``PegVerif.Grammar.mk) (toExpr L.G.rules)) (toExpr L.actions) (toExpr L.dup)
    (toExpr L.referenced)
  toTypeExpr := mkConst ``PegVerif.Linked

/-- Close `a = b` with `Eq.refl a`; the KERNEL checks that `a` and `b` are definitionally equal
    when the theorem is added (the elaborator's slower check is skipped). -/
elab "kernel_rfl" : tactic => do
  let g ← getMainGoal
  let t ← g.getType'
  let some (α, a, _) := t.eq? | throwError "kernel_rfl: the goal is not an equality"
  let u ← Meta.getLevel α
  g.assign (mkApp2 (mkConst ``Eq.refl [u]) α a)

-- `pegLinked : Linked` := the value of `linkGrammar pegFrontRules`, as a literal.
#eval show CommandElabM Unit from do
  let v := toExpr (linkGrammar pegFrontRules)
  let d : DefinitionVal :=
    { name := `PegVerif.pegLinked
      levelParams := []
      type := mkConst ``Linked
      value := v
      hints := .abbrev
      safety := .safe }
  liftCoreM <| addDecl (.defnDecl d)

/-- Checked by the kernel: the literal IS the link pass applied to the regenerated rules. -/
theorem pegLinked_eq : linkGrammar pegFrontRules = pegLinked := by kernel_rfl

deriving instance ToExpr for Arg
deriving instance ToExpr for Call

-- `pegActs`, `pegTable`: action names and parsed action code of `pegLinked`, as literals.
#eval show CommandElabM Unit from do
  let L := linkGrammar pegFrontRules
  let d1 : DefinitionVal :=
    { name := `PegVerif.pegActs
      levelParams := []
      type := toTypeExpr (List String)
      value := toExpr (L.actions.map (·.1))
      hints := .abbrev
      safety := .safe }
  liftCoreM <| addDecl (.defnDecl d1)
  let d2 : DefinitionVal :=
    { name := `PegVerif.pegTable
      levelParams := []
      type := toTypeExpr (List (String × Option (List Call)))
      value := toExpr (actionTable L)
      hints := .abbrev
      safety := .safe }
  liftCoreM <| addDecl (.defnDecl d2)

theorem pegActs_eq : pegLinked.actions.map (·.1) = pegActs := by kernel_rfl
theorem pegTable_eq : actionTable pegLinked = pegTable := by kernel_rfl
theorem pegLinked_nodup : pegLinked.dup.isSome = false := by kernel_rfl
theorem pegLinked_nopred : pegLinked.G.rules.any (fun r => r.body.hasPred) = false := by kernel_rfl

/-- The model front end, with every grammar-dependent table replaced by its literal: the form in
    which the kernel evaluates it. -/
theorem frontModel_eq (text : List Sym) (fuel : Nat) :
    frontModel text fuel = frontCore pegLinked.G pegActs pegTable pegEntry text fuel := by
  unfold frontModel frontWith
  rw [pegLinked_eq, pegLinked_nodup, pegLinked_nopred, pegActs_eq, pegTable_eq]
  rfl

theorem frontChar_eq (sp : List Sym) :
    frontChar sp = frontCharCore pegLinked.G pegActs pegTable sp := by
  unfold frontChar
  simp only [pegLinked_eq, pegActs_eq, pegTable_eq]

/-! ## 2. the builder -/

@[simp] theorem popFront_nil (n : Nat) (es : List (List Sym)) :
    BState.popFront ⟨[], n, es⟩ = .panic "tree is empty" := rfl
@[simp] theorem popFront_cons (a : Node) (r : List Node) (n : Nat) (es : List (List Sym)) :
    BState.popFront ⟨a :: r, n, es⟩ = .ok (a, ⟨r, n, es⟩) := rfl

/-- `addList` on a stack with at least two entries: `a` on top, `b` below.  If `b` already is a
    list of the requested type, `a` is appended to it (flattening on the LEFT only); otherwise a
    new two-element list `[b, a]` is made. -/
theorem builder_addList_flatten (ty : NType) (a b : Node) (rest : List Node) (n : Nat)
    (es : List (List Sym)) :
    addList ty ⟨a :: b :: rest, n, es⟩ =
      .ok ⟨(if b.t = ty then b.pushBack a else Node.mk ty [] 0 [b, a]) :: rest, n, es⟩ := by
  simp only [addList, popFront_cons, BState.pushFront]
  split <;> simp [Node.pushBack]

theorem addList_short (ty : NType) (items : List Node) (n : Nat) (es : List (List Sym))
    (h : items.length < 2) :
    addList ty ⟨items, n, es⟩ = .panic "tree is empty" := by
  match items, h with
  | [], _ => rfl
  | [_], _ => rfl

theorem builder_addFix (ty : NType) (a : Node) (rest : List Node) (n : Nat) (es : List (List Sym)) :
    addFix ty ⟨a :: rest, n, es⟩ = .ok ⟨Node.mk ty [] 0 [a] :: rest, n, es⟩ := by
  simp [addFix, BState.pushFront, Node.pushBack]

/-- Number of deque entries a call needs (it pops that many before anything else can go wrong). -/
def Op.need : Op → Nat
  | .addExpression | .addAlternate | .addSequence | .addRange | .addDoubleRange => 2
  | .addState _ | .addPeekFor | .addPeekNot | .addQuery | .addStar | .addPlus | .addPush
  | .addCaseFold => 1
  | _ => 0

/-- Number of entries it leaves in place of the ones it took. -/
def Op.out : Op → Nat
  | _ => 1

/-- `AddDoubleCharacter(text)` on ANY deque: the two-way choice lower / upper on top. -/
theorem builder_addDoubleCharacter (s : List Sym) (items : List Node) (n : Nat) (es : List (List Sym)) :
    addDoubleCharacterS s ⟨items, n, es⟩ =
      .ok ⟨Node.mk .alternate [] 0 [.leaf .character (toLowerS s), .leaf .character (toUpperS s)] :: items,
           n, es⟩ := by
  simp only [addDoubleCharacterS, addCharacterS, BState.pushFront, builder_addList_flatten]
  rfl

/-- `AddCaseFold()` on ANY deque whose top node is `c` (whatever node that is): `c` stays when its
    string has no case; otherwise it becomes the choice of its lower and upper case strings, followed
    by `c` itself when its string is neither of the two. -/
theorem builder_addCaseFold (c : Node) (rest : List Node) (n : Nat) (es : List (List Sym)) :
    addCaseFoldS ⟨c :: rest, n, es⟩ =
      .ok ⟨(if toLowerS c.s = toUpperS c.s then c
            else if c.s ≠ toLowerS c.s ∧ c.s ≠ toUpperS c.s then
              Node.mk .alternate [] 0
                [.leaf .character (toLowerS c.s), .leaf .character (toUpperS c.s), c]
            else Node.mk .alternate [] 0
                [.leaf .character (toLowerS c.s), .leaf .character (toUpperS c.s)]) :: rest, n, es⟩ := by
  simp only [addCaseFoldS, popFront_cons, builder_addDoubleCharacter, BState.pushFront]
  by_cases h1 : toLowerS c.s = toUpperS c.s
  · simp only [h1, if_true]
  · simp only [h1, if_false, builder_addList_flatten]
    split <;> simp [Node.t, Node.pushBack]

theorem addCaseFold_nil (n : Nat) (es : List (List Sym)) :
    addCaseFoldS ⟨[], n, es⟩ = .panic "tree is empty" := rfl

/-- One call: it panics exactly when the deque holds fewer entries than it needs; otherwise it
    succeeds (no call leaves the modelled fragment: `strings.ToLower` / `ToUpper` are modelled on every
    rune) and the deque has `len - need + 1` entries. -/
theorem Op.apply_spec (o : Op) (st : BState) :
    (st.items.length < o.need ∧ o.apply st = .panic "tree is empty") ∨
    (o.need ≤ st.items.length ∧
      ∃ st', o.apply st = .ok st' ∧ st'.items.length = st.items.length - o.need + o.out) := by
  obtain ⟨items, rc, errs⟩ := st
  cases o
  case addDoubleCharacter s =>
    right
    refine ⟨by simp [Op.need], ?_⟩
    simp only [Op.apply, builder_addDoubleCharacter]
    exact ⟨_, rfl, by simp [Op.need, Op.out]⟩
  case addCaseFold =>
    match items with
    | [] => left; exact ⟨by simp [Op.need], rfl⟩
    | c :: rest =>
      right
      refine ⟨by simp [Op.need], ?_⟩
      simp only [Op.apply, builder_addCaseFold]
      exact ⟨_, rfl, by simp [Op.need, Op.out]⟩
  case addDoubleRange =>
    match items with
    | [] => left; exact ⟨by simp [Op.need], rfl⟩
    | [_] => left; exact ⟨by simp [Op.need], rfl⟩
    | a :: b :: rest =>
      right
      refine ⟨by simp [Op.need], ?_⟩
      simp only [Op.apply, bind, Out.bind, popFront_cons, addCharacterS, BState.pushFront,
        builder_addList_flatten]
      exact ⟨_, rfl, by simp [Op.need, Op.out]⟩
  case addHexaCharacter s =>
    right
    refine ⟨by simp [Op.need], ⟨_, rfl, ?_⟩⟩
    simp only [Op.need, Op.out, addCharacterS, BState.pushFront]
    split <;> simp [BState.addErr]
  all_goals
    first
    | (right
       refine ⟨by simp [Op.need], ⟨_, rfl, ?_⟩⟩
       simp [Op.need, Op.out, BState.pushFront, BState.pushBack, addCharacterS])
    | (match items with
       | [] => left; exact ⟨by simp [Op.need], rfl⟩
       | [_] => left; exact ⟨by simp [Op.need], rfl⟩
       | a :: b :: rest =>
         right
         refine ⟨by simp [Op.need], ?_⟩
         simp only [Op.apply, bind, Out.bind, popFront_cons, pure, builder_addList_flatten]
         exact ⟨_, rfl, by simp [Op.need, Op.out, BState.pushBack]⟩)
    | (match items with
       | [] => left; exact ⟨by simp [Op.need], rfl⟩
       | a :: rest =>
         right
         refine ⟨by simp [Op.need], ?_⟩
         simp only [Op.apply, bind, Out.bind, popFront_cons, pure, builder_addFix]
         exact ⟨_, rfl, by simp [Op.need, Op.out, BState.pushBack]⟩)

/-- The running-depth check: every call finds the entries it needs. -/
def balanced : List Op → Nat → Bool
  | [], _ => true
  | o :: os, n => decide (o.need ≤ n) && balanced os (n - o.need + o.out)

/-- CHARACTERISATION of panic freedom: a sequence of builder calls that is balanced for the current
    deque length COMPLETES (no panic, and nothing outside the modelled fragment) … -/
theorem builder_balanced_completes (ops : List Op) (st : BState)
    (h : balanced ops st.items.length = true) : ∃ st', applyOps ops st = .ok st' := by
  induction ops generalizing st with
  | nil => exact ⟨st, rfl⟩
  | cons o os ih =>
    simp only [balanced, Bool.and_eq_true, decide_eq_true_eq] at h
    rcases Op.apply_spec o st with ⟨hlt, _⟩ | ⟨_, st', he, hlen⟩
    · omega
    · simp only [applyOps, he]
      exact ih st' (by rw [hlen]; exact h.2)

theorem builder_never_panics_on_balanced (ops : List Op) (st : BState)
    (h : balanced ops st.items.length = true) : ∀ m, applyOps ops st ≠ .panic m := by
  intro m hm
  obtain ⟨st', he⟩ := builder_balanced_completes ops st h
  rw [he] at hm
  cases hm

/-- … and conversely an unbalanced sequence PANICS with "tree is empty" (`PopFront` on the empty
    deque) — it neither completes nor leaves the modelled fragment. -/
theorem builder_unbalanced_panics (ops : List Op) (st : BState)
    (h : balanced ops st.items.length = false) : applyOps ops st = .panic "tree is empty" := by
  induction ops generalizing st with
  | nil => simp [balanced] at h
  | cons o os ih =>
    rcases Op.apply_spec o st with ⟨hlt, he⟩ | ⟨hle, st', he, hlen⟩
    · simp [applyOps, he]
    · simp only [applyOps, he]
      apply ih st'
      rw [hlen]
      simp only [balanced, Bool.and_eq_false_iff, decide_eq_false_iff_not] at h
      rcases h with h | h
      · omega
      · exact h

theorem builder_unbalanced_fails (ops : List Op) (st : BState)
    (h : balanced ops st.items.length = false) : ∀ st', applyOps ops st ≠ .ok st' := by
  intro st' hs
  rw [builder_unbalanced_panics ops st h] at hs
  cases hs

/-! ### case folding: `strings.ToLower` / `strings.ToUpper` and `AddCaseFold` on one character -/

/-- The node `AddCaseFold` leaves for a character node holding the one rune `r`: the character
    itself when `r` has no case, else the choice of its lower and upper case, followed by `r` itself
    when it is neither (title case). -/
def foldNode (r : Sym) : Node :=
  if lowerSym r = upperSym r then .leaf .character [r]
  else if r ≠ lowerSym r ∧ r ≠ upperSym r then
    .mk .alternate [] 0 [.leaf .character [lowerSym r], .leaf .character [upperSym r], .leaf .character [r]]
  else .mk .alternate [] 0 [.leaf .character [lowerSym r], .leaf .character [upperSym r]]

/-- `AddCaseFold()` after `Char` has pushed the character `r`, for EVERY rune `r` and any deque below. -/
theorem builder_addCaseFold_char (r : Sym) (rest : List Node) (n : Nat) (es : List (List Sym)) :
    addCaseFoldS ⟨.leaf .character [r] :: rest, n, es⟩ = .ok ⟨foldNode r :: rest, n, es⟩ := by
  rw [builder_addCaseFold]
  simp only [Node.leaf, Node.s, toLowerS, toUpperS, List.map_cons, List.map_nil, foldNode, ne_eq,
    List.cons.injEq, and_true]

theorem lowerSym_ascii (c : Sym) (h : c ≤ 127) :
    lowerSym c = if 65 ≤ c ∧ c ≤ 90 then c + 32 else c := by
  simp [lowerSym, unicodeToLower, maxASCII, h]
theorem upperSym_ascii (c : Sym) (h : c ≤ 127) :
    upperSym c = if 97 ≤ c ∧ c ≤ 122 then c - 32 else c := by
  simp [upperSym, unicodeToUpper, maxASCII, h]

/-- ASCII: a lower case letter becomes `c / c-32`, an upper case letter `c+32 / c` — the trees the
    former `<[a-zA-Z]> { p.AddDoubleCharacter(text) }` built — and every other ASCII character
    (digits, punctuation, controls) stays the plain character. -/
theorem foldNode_ascii (c : Sym) (h : c ≤ 127) :
    foldNode c =
      if 97 ≤ c ∧ c ≤ 122 then .mk .alternate [] 0 [.leaf .character [c], .leaf .character [c - 32]]
      else if 65 ≤ c ∧ c ≤ 90 then .mk .alternate [] 0 [.leaf .character [c + 32], .leaf .character [c]]
      else .leaf .character [c] := by
  unfold foldNode
  rw [lowerSym_ascii c h, upperSym_ascii c h]
  by_cases h1 : 97 ≤ c ∧ c ≤ 122
  · have h2 : ¬ (65 ≤ c ∧ c ≤ 90) := by omega
    have h3 : ¬ c = c - 32 := by omega
    simp [h1, h2, h3]
  · by_cases h2 : 65 ≤ c ∧ c ≤ 90
    · simp [h1, h2]
    · simp [h1, h2]

/-- The regenerated `unicode.CaseRanges`: every range is non-empty and ends before the next begins. -/
def caseRangesSorted : List CaseRange → Bool
  | [] => true
  | [a] => decide (a.lo ≤ a.hi)
  | a :: b :: rest => decide (a.lo ≤ a.hi) && decide (a.hi < b.lo) && caseRangesSorted (b :: rest)

theorem goCaseRanges_sorted : caseRangesSorted goCaseRanges = true := by kernel_rfl

theorem caseRangesSorted_tail {a : CaseRange} {rest : List CaseRange}
    (h : caseRangesSorted (a :: rest) = true) : caseRangesSorted rest = true := by
  match rest, h with
  | [], _ => rfl
  | b :: rest', h =>
    simp only [caseRangesSorted, Bool.and_eq_true] at h
    exact h.2

theorem caseRangesSorted_after : ∀ (rest : List CaseRange) (a : CaseRange),
    caseRangesSorted (a :: rest) = true → ∀ c ∈ rest, a.hi < c.lo := by
  intro rest
  induction rest with
  | nil => intro a _ c hc; cases hc
  | cons b rest' ih =>
    intro a h c hc
    have h' := h
    simp only [caseRangesSorted, Bool.and_eq_true, decide_eq_true_eq] at h'
    rcases List.mem_cons.mp hc with rfl | hc'
    · exact h'.1.2
    · have hb := ih b h'.2 c hc'
      have hbb : b.lo ≤ b.hi := by
        match rest', h'.2 with
        | [], h2 => simpa [caseRangesSorted] using h2
        | _ :: _, h2 =>
          simp only [caseRangesSorted, Bool.and_eq_true, decide_eq_true_eq] at h2
          exact h2.1.1
      omega

/-- In a sorted table with disjoint ranges AT MOST ONE range holds `r`, and the model's search
    finds it: whatever range of the table a search returns for `r` — Go's `lookupCaseRange` is a
    binary search — is the one `lookupCaseRange` of the model returns. -/
theorem lookupCaseRange_unique (r : Nat) : ∀ (tbl : List CaseRange), caseRangesSorted tbl = true →
    ∀ cr ∈ tbl, cr.holds r = true → lookupCaseRange r tbl = some cr := by
  intro tbl
  induction tbl with
  | nil => intro _ cr hc; cases hc
  | cons a rest ih =>
    intro hs cr hc hh
    unfold lookupCaseRange
    rw [List.find?_cons]
    rcases List.mem_cons.mp hc with rfl | hc'
    · rw [hh]
    · have hlt := caseRangesSorted_after rest a hs cr hc'
      have ha : a.holds r = false := by
        simp only [CaseRange.holds, Bool.and_eq_true, decide_eq_true_eq] at hh
        simp only [CaseRange.holds, Bool.and_eq_false_iff, decide_eq_false_iff_not]
        omega
      rw [ha]
      exact ih (caseRangesSorted_tail hs) cr hc' hh

theorem goCaseRanges_lookup (r : Nat) (cr : CaseRange) (hc : cr ∈ goCaseRanges)
    (hh : cr.holds r = true) : lookupCaseRange r goCaseRanges = some cr :=
  lookupCaseRange_unique r goCaseRanges goCaseRanges_sorted cr hc hh

/-! ### `strconv.ParseInt` and the numeric escapes -/

theorem digitVal_lt {base c d : Nat} (h : digitVal base c = some d) : d < base := by
  unfold digitVal at h
  split at h
  · cases h; assumption
  · cases h

/-- A sign character is not a digit. -/
theorem digitVal_sign (base : Nat) : digitVal base 43 = none ∧ digitVal base 45 = none := by
  constructor <;> simp [digitVal, digitRaw]

/-- `ParseInt(s, base, 32)` (error ignored) on a non-empty string of valid digits with value `v`:
    `v`, saturated at `2^31 - 1`. -/
theorem parseInt32_digits (base : Nat) (ds : List Sym) (v : Nat) (hne : ds ≠ [])
    (hv : digitsVal base ds 0 = some v) :
    parseInt32 base ds = if v ≥ 2147483648 then 2147483647 else Int.ofNat v := by
  have hmag : parseMag32 base false ds = if v ≥ 2147483648 then 2147483647 else Int.ofNat v := by
    unfold parseMag32
    split
    · exact absurd rfl hne
    · rw [hv]
      simp only [Bool.false_eq_true, if_false]
      by_cases h1 : v > 4294967295
      · have h2 : v ≥ 2147483648 := by omega
        simp [h1, h2]
      · simp [h1]
  match ds, hne with
  | c :: cs, _ =>
    have hc : c ≠ 43 ∧ c ≠ 45 := by
      constructor <;> intro hc <;> subst hc <;>
        simp [digitsVal, (digitVal_sign base).1, (digitVal_sign base).2] at hv
    unfold parseInt32
    split
    · next h => cases h; exact absurd rfl hc.1
    · next h => cases h; exact absurd rfl hc.2
    · exact hmag

/-- The code point a numeric escape with digit value `v` ends up as. -/
def clampRune (v : Nat) : Sym :=
  if v ≤ 0x10FFFF ∧ ¬ (0xD800 ≤ v ∧ v ≤ 0xDFFF) then v else 0xFFFD

theorem runeOfInt_parse (v : Nat) :
    runeOfInt (if v ≥ 2147483648 then 2147483647 else Int.ofNat v) = clampRune v := by
  unfold clampRune
  by_cases h : v ≥ 2147483648
  · rw [if_pos h, if_neg (by omega)]
    decide
  · rw [if_neg h]
    show (if v > 0x10FFFF ∨ (0xD800 ≤ v ∧ v ≤ 0xDFFF) then 0xFFFD else v) = _
    by_cases h2 : v ≤ 0x10FFFF ∧ ¬ (0xD800 ≤ v ∧ v ≤ 0xDFFF)
    · rw [if_pos h2, if_neg (by omega)]
    · rw [if_neg h2, if_pos (by omega)]

/-- `v` is a Unicode code point: at most U+10FFFF and not a surrogate. -/
def isCodePoint (v : Nat) : Bool :=
  decide (v ≤ 0x10FFFF) && !(decide (0xD800 ≤ v) && decide (v ≤ 0xDFFF))

theorem isCodePoint_iff (v : Nat) :
    isCodePoint v = true ↔ v ≤ 0x10FFFF ∧ ¬ (0xD800 ≤ v ∧ v ≤ 0xDFFF) := by
  simp only [isCodePoint, Bool.and_eq_true, Bool.not_eq_true', Bool.and_eq_false_iff,
    decide_eq_true_eq, decide_eq_false_iff_not]
  omega

theorem clampRune_eq (v : Nat) : clampRune v = if isCodePoint v = true then v else 0xFFFD := by
  unfold clampRune
  simp only [isCodePoint_iff]

/-- `_, err := ParseInt(s, base, 32)` on a non-empty string of valid digits with value `v`: the only
    possible error is the range error, for `v ≥ 2^31`. -/
theorem parseIntErr32_digits (base : Nat) (ds : List Sym) (v : Nat) (hne : ds ≠ [])
    (hv : digitsVal base ds 0 = some v) :
    parseIntErr32 base ds = decide (v ≥ 2147483648) := by
  have hmag : parseMagErr32 base false ds = decide (v ≥ 2147483648) := by
    unfold parseMagErr32
    split
    · exact absurd rfl hne
    · rw [hv]
      simp only [Bool.false_eq_true, if_false]
      by_cases h1 : v > 4294967295
      · have h2 : v ≥ 2147483648 := by omega
        simp [h1, h2]
      · simp [h1]
  match ds, hne with
  | c :: cs, _ =>
    have hc : c ≠ 43 ∧ c ≠ 45 := by
      constructor <;> intro hc <;> subst hc <;>
        simp [digitsVal, (digitVal_sign base).1, (digitVal_sign base).2] at hv
    unfold parseIntErr32
    split
    · next h => cases h; exact absurd rfl hc.1
    · next h => cases h; exact absurd rfl hc.2
    · exact hmag

/-- `utf8.ValidRune` of what `ParseInt` returns for the digit value `v` (saturated at `2^31 - 1`,
    which is no code point). -/
theorem validRune_parse (v : Nat) :
    validRune (if v ≥ 2147483648 then 2147483647 else Int.ofNat v) = isCodePoint v := by
  by_cases h : v ≥ 2147483648
  · rw [if_pos h]
    have : isCodePoint v = false := by
      cases hc : isCodePoint v with
      | false => rfl
      | true => have := (isCodePoint_iff v).mp hc; omega
    rw [this]; decide
  · rw [if_neg h]
    show (decide (v < 0xD800) || (decide (0xDFFF < v) && decide (v ≤ 0x10FFFF))) = _
    cases hc : isCodePoint v with
    | true =>
      have := (isCodePoint_iff v).mp hc
      by_cases h1 : v < 0xD800
      · simp [h1]
      · have h2 : 0xDFFF < v := by omega
        have h3 : v ≤ 0x10FFFF := this.1
        simp [h2, h3]
    | false =>
      have hn : ¬ (v ≤ 0x10FFFF ∧ ¬ (0xD800 ≤ v ∧ v ≤ 0xDFFF)) := by
        intro hh; rw [(isCodePoint_iff v).mpr hh] at hc; cases hc
      have h1 : ¬ v < 0xD800 := by omega
      have h2 : ¬ (0xDFFF < v ∧ v ≤ 0x10FFFF) := by omega
      simp only [h1, decide_false, Bool.false_or, Bool.and_eq_false_iff, decide_eq_false_iff_not]
      omega

/-- The test of `AddHexaCharacter` (`err != nil || !utf8.ValidRune(rune(hexa))`) on a non-empty
    string of hex digits with value `v` fires exactly when `v` is no code point. -/
theorem hex_reported_iff (ds : List Sym) (v : Nat) (hne : ds ≠ [])
    (hv : digitsVal 16 ds 0 = some v) :
    (parseIntErr32 16 ds || !validRune (parseInt32 16 ds)) = !isCodePoint v := by
  rw [parseIntErr32_digits 16 ds v hne hv, parseInt32_digits 16 ds v hne hv, validRune_parse]
  cases hc : isCodePoint v with
  | false => simp
  | true =>
    have := (isCodePoint_iff v).mp hc
    have : ¬ v ≥ 2147483648 := by omega
    simp [this]

/-- `AddHexaCharacter(text)` for EVERY non-empty string of hex digits: the character whose code
    point is the hex value and no error when that value is a code point; otherwise (surrogate or
    above U+10FFFF, including values that overflow int32/uint64) the error naming the escape is
    recorded — so `Compile` fails — and the node that keeps the deque balanced holds U+FFFD. -/
theorem escape_hex_spec (ds : List Sym) (v : Nat) (st : BState) (hne : ds ≠ [])
    (hv : digitsVal 16 ds 0 = some v) :
    (Op.addHexaCharacter ds).apply st =
      .ok (if isCodePoint v = true then st.pushFront (.leaf .character [v])
           else (st.addErr (hexErrMsg ds)).pushFront (.leaf .character [0xFFFD])) := by
  have hc := hex_reported_iff ds v hne hv
  simp only [Op.apply, addCharacterS, hc]
  rw [parseInt32_digits 16 ds v hne hv, runeOfInt_parse, clampRune_eq]
  cases isCodePoint v <;> simp

/-- `AddOctalCharacter(text)` for every non-empty string of octal digits. -/
theorem escape_octal_spec (ds : List Sym) (v : Nat) (st : BState) (hne : ds ≠ [])
    (hv : digitsVal 8 ds 0 = some v) :
    (Op.addOctalCharacter ds).apply st = .ok (st.pushFront (.leaf .character [clampRune v])) := by
  simp only [Op.apply, addCharacterS, parseInt32_digits 8 ds v hne hv, runeOfInt_parse]

theorem digitsVal_bound (base : Nat) (_hb : 0 < base) : ∀ (ds : List Sym) (acc v : Nat),
    digitsVal base ds acc = some v → v < (acc + 1) * base ^ ds.length := by
  intro ds
  induction ds with
  | nil => intro acc v h; simp [digitsVal] at h; subst h; simp
  | cons c cs ih =>
    intro acc v h
    simp only [digitsVal] at h
    cases hd : digitVal base c with
    | none => simp [hd] at h
    | some d =>
      simp only [hd] at h
      have := ih _ _ h
      have hdlt := digitVal_lt hd
      have h2 : acc * base + d + 1 ≤ (acc + 1) * base := by
        rw [Nat.add_mul]; omega
      calc v < (acc * base + d + 1) * base ^ cs.length := this
        _ ≤ ((acc + 1) * base) * base ^ cs.length := Nat.mul_le_mul_right _ h2
        _ = (acc + 1) * base ^ (c :: cs).length := by
          rw [List.length_cons, Nat.pow_succ, Nat.mul_assoc, Nat.mul_comm base]

/-- At most three octal digits (all the grammar captures) always denote their value. -/
theorem escape_octal_small (ds : List Sym) (v : Nat) (st : BState) (hne : ds ≠ [])
    (hlen : ds.length ≤ 3) (hv : digitsVal 8 ds 0 = some v) :
    (Op.addOctalCharacter ds).apply st = .ok (st.pushFront (.leaf .character [v])) := by
  rw [escape_octal_spec ds v st hne hv]
  have hb := digitsVal_bound 8 (by decide) ds 0 v hv
  have : (8 : Nat) ^ ds.length ≤ 8 ^ 3 := Nat.pow_le_pow_right (by decide) hlen
  have hv' : v < 512 := by
    have h3 : (8 : Nat) ^ 3 = 512 := by decide
    omega
  have : clampRune v = v := by
    unfold clampRune
    have : v ≤ 0x10FFFF ∧ ¬ (0xD800 ≤ v ∧ v ≤ 0xDFFF) := by omega
    simp [this]
  rw [this]

/-! ## 3. the model front end and the PEG semantics -/

/-- Whatever the model front end accepts is in the PEG language of the grammar (relational
    semantics `Eval`). -/
theorem frontCore_ok_sound (G : Grammar) (acts tbl) (entry : String) (text : List Sym) (fuel : Nat)
    (top : List Node) (h : frontCore G acts tbl entry text fuel = .ok top) :
    ∃ p forest evs, Eval G (fun _ _ => false) text (.name entry) 0 (.ok p forest) evs := by
  unfold frontCore at h
  split at h
  · cases h
  · cases h
  · next p forest evs he => exact ⟨p, forest, evs, evalF_sound _ _ _ _ _ he⟩

/-- A text the model front end reports because of an error the builder recorded (a hex escape without
    a code point) is in the PEG language of the grammar too: it is not a syntax error. -/
theorem frontCore_invalid_sound (G : Grammar) (acts tbl) (entry : String) (text : List Sym) (fuel : Nat)
    (errs : List (List Sym)) (h : frontCore G acts tbl entry text fuel = .invalid errs) :
    ∃ p forest evs, Eval G (fun _ _ => false) text (.name entry) 0 (.ok p forest) evs := by
  unfold frontCore at h
  split at h
  · cases h
  · cases h
  · next p forest evs he => exact ⟨p, forest, evs, evalF_sound _ _ _ _ _ he⟩

/-- A text the model front end reports as a syntax error is not in that language. -/
theorem frontCore_syntaxError_sound (G : Grammar) (acts tbl) (entry : String) (text : List Sym)
    (fuel : Nat) (h : frontCore G acts tbl entry text fuel = .syntaxError) :
    ∃ evs, Eval G (fun _ _ => false) text (.name entry) 0 .fail evs := by
  unfold frontCore at h
  split at h
  · cases h
  · next evs he => exact ⟨evs, evalF_sound _ _ _ _ _ he⟩
  · split at h
    · cases h
    · split at h
      · unfold BState.finish at h
        split at h <;> cases h
      · cases h
      · cases h

/-- The fuel only decides WHETHER the model answers, never WHAT it answers. -/
theorem frontCore_fuel_irrelevant (G : Grammar) (acts tbl) (entry : String) (text : List Sym)
    (f1 f2 : Nat)
    (h1 : frontCore G acts tbl entry text f1 ≠ .unsupported "out of fuel")
    (h2 : frontCore G acts tbl entry text f2 ≠ .unsupported "out of fuel") :
    frontCore G acts tbl entry text f1 = frontCore G acts tbl entry text f2 := by
  unfold frontCore at *
  cases e1 : evalF G (fun _ _ => false) text f1 (.name entry) 0 with
  | none => simp_all
  | some r1 =>
    cases e2 : evalF G (fun _ _ => false) text f2 (.name entry) 0 with
    | none => simp_all
    | some r2 =>
      obtain ⟨res1, evs1⟩ := r1
      obtain ⟨res2, evs2⟩ := r2
      obtain ⟨hr, he⟩ := Eval_det (evalF_sound _ _ _ _ _ e1) (evalF_sound _ _ _ _ _ e2)
      subst hr; subst he
      rfl

end PegVerif
