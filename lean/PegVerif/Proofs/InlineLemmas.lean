import PegVerif.Proofs.LinkLemmas
import PegVerif.Proofs.SemLemmas
import PegVerif.Proofs.AlwaysLemmas
/-
  `-inline`: the source transformation `expandInline` preserves the PEG semantics, and the program
  `compileAll` emits with `-inline` satisfies `World` for the expanded grammar `expandG o G`.

  * `Exp G G' e e'`       `e` (read in `G`) and `e'` (read in `G'`) differ only in that a reference
                          `name n` on one side may be the in-place copy `inl n b` on the other side,
                          `b` being related to the body of `n` in the grammar of the `name` side.
                          The relation is symmetric in the pair (grammar, expression) — `Exp.symm'`
                          is not needed: both directions of the expansion are instances
                          (`expandInline_exp`, `expandInline_exp_rev`).
  * `Eval_exp`            related expressions have the same outcomes (result, forest, events).
  * `Eval_expandG_iff`    the expanded grammar has exactly the derivations of the original one.
  * `GrammarOKI`          the decidable condition on the input grammar for `-inline`.
  * `compileAll_world_inline`  the `World` of `compileAll` with `-inline`.
-/
namespace PegVerif

/-! ### 1. The relation -/

mutual
  inductive Exp (G G' : Grammar) : Expr → Expr → Prop where
    | dot : Exp G G' .dot .dot
    | chr {c} : Exp G G' (.chr c) (.chr c)
    | rng {lo hi} : Exp G G' (.rng lo hi) (.rng lo hi)
    | str {s} : Exp G G' (.str s) (.str s)
    | name {n} : Exp G G' (.name n) (.name n)
    | pred {c} : Exp G G' (.pred c) (.pred c)
    | stmt {c} : Exp G G' (.stmt c) (.stmt c)
    | act {c} : Exp G G' (.act c) (.act c)
    | nil : Exp G G' .nil .nil
    /-- the reference is compiled in place on the right -/
    | expand {n b b'} : G.body n = some b → Exp G G' b b' → Exp G G' (.name n) (.inl n b')
    /-- the reference is compiled in place on the left -/
    | collapse {n b b'} : G'.body n = some b' → Exp G G' b b' → Exp G G' (.inl n b) (.name n)
    | inl {n n' b b'} : Exp G G' b b' → Exp G G' (.inl n b) (.inl n' b')
    | seq {es es'} : ExpL G G' es es' → Exp G G' (.seq es) (.seq es')
    | alt {es es'} : ExpL G G' es es' → Exp G G' (.alt es) (.alt es')
    | ualt {ks es es'} : ExpL G G' es es' → Exp G G' (.ualt ks es) (.ualt ks es')
    | peekFor {e e'} : Exp G G' e e' → Exp G G' (.peekFor e) (.peekFor e')
    | peekNot {e e'} : Exp G G' e e' → Exp G G' (.peekNot e) (.peekNot e')
    | query {e e'} : Exp G G' e e' → Exp G G' (.query e) (.query e')
    | star {e e'} : Exp G G' e e' → Exp G G' (.star e) (.star e')
    | plus {e e'} : Exp G G' e e' → Exp G G' (.plus e) (.plus e')
    | push {e e' r} : Exp G G' e e' → Exp G G' (.push e r) (.push e' r)
    | ipush {e e' r} : Exp G G' e e' → Exp G G' (.ipush e r) (.ipush e' r)
  inductive ExpL (G G' : Grammar) : List Expr → List Expr → Prop where
    | nil : ExpL G G' [] []
    | cons {e e' es es'} : Exp G G' e e' → ExpL G G' es es' → ExpL G G' (e :: es) (e' :: es')
end

mutual
  theorem Exp.refl (G G' : Grammar) : ∀ (e : Expr), Exp G G' e e
    | .dot => .dot
    | .chr _ => .chr
    | .rng _ _ => .rng
    | .str _ => .str
    | .name _ => .name
    | .inl _ e => .inl (Exp.refl G G' e)
    | .pred _ => .pred
    | .stmt _ => .stmt
    | .act _ => .act
    | .nil => .nil
    | .seq es => .seq (ExpL.refl G G' es)
    | .alt es => .alt (ExpL.refl G G' es)
    | .ualt _ es => .ualt (ExpL.refl G G' es)
    | .peekFor e => .peekFor (Exp.refl G G' e)
    | .peekNot e => .peekNot (Exp.refl G G' e)
    | .query e => .query (Exp.refl G G' e)
    | .star e => .star (Exp.refl G G' e)
    | .plus e => .plus (Exp.refl G G' e)
    | .push e _ => .push (Exp.refl G G' e)
    | .ipush e _ => .ipush (Exp.refl G G' e)
  theorem ExpL.refl (G G' : Grammar) : ∀ (es : List Expr), ExpL G G' es es
    | [] => .nil
    | e :: es => .cons (Exp.refl G G' e) (ExpL.refl G G' es)
end

theorem Exp.isAct {G G' : Grammar} {e e' : Expr} (h : Exp G G' e e') : e.isAct = e'.isAct := by
  cases h <;> rfl

theorem ExpL.length {G G' : Grammar} : ∀ {es es' : List Expr}, ExpL G G' es es' → es.length = es'.length
  | [], _, h => by cases h; rfl
  | _ :: es, _, h => by
    cases h with
    | cons _ h2 => simp [ExpL.length h2]

theorem ExpL.get {G G' : Grammar} : ∀ {es es' : List Expr} {i : Nat} {e : Expr}, ExpL G G' es es' →
    es[i]? = some e → ∃ e', es'[i]? = some e' ∧ Exp G G' e e'
  | [], _, _, _, _, hi => by simp at hi
  | a :: es, _, i, e, h, hi => by
    cases h with
    | cons h1 h2 =>
      cases i with
      | zero =>
        simp only [List.getElem?_cons_zero, Option.some.injEq] at hi
        subst hi
        exact ⟨_, by simp, h1⟩
      | succ j =>
        simp only [List.getElem?_cons_succ] at hi
        obtain ⟨e', he', hx⟩ := ExpL.get h2 hi
        exact ⟨e', by simpa using he', hx⟩

theorem ExpL.map_right {G G' : Grammar} {g : Expr → Expr} (hg : ∀ e, Exp G G' e (g e)) :
    ∀ (es : List Expr), ExpL G G' es (es.map g)
  | [] => .nil
  | e :: es => .cons (hg e) (ExpL.map_right hg es)

theorem ExpL.map_left {G G' : Grammar} {g : Expr → Expr} (hg : ∀ e, Exp G G' (g e) e) :
    ∀ (es : List Expr), ExpL G G' (es.map g) es
  | [] => .nil
  | e :: es => .cons (hg e) (ExpL.map_left hg es)

/-! ### 2. Related expressions have the same derivations -/

/-- Bodies of equally named rules are related. -/
def BodiesExp (G G' : Grammar) : Prop :=
  ∀ n b, G.body n = some b → ∃ b', G'.body n = some b' ∧ Exp G G' b b'

theorem Eval_exp {G G' : Grammar} {ρ : String → Nat → Bool} {inp : List Sym}
    (hGG' : BodiesExp G G') {e p res evs} (h : Eval G ρ inp e p res evs) :
    ∀ {e'}, Exp G G' e e' → Eval G' ρ inp e' p res evs := by
  induction h with
  | dot_ok h => intro e' hx; cases hx; exact .dot_ok h
  | dot_fail h => intro e' hx; cases hx; exact .dot_fail h
  | chr_ok h => intro e' hx; cases hx; exact .chr_ok h
  | chr_fail h => intro e' hx; cases hx; exact .chr_fail h
  | rng_ok h h1 h2 => intro e' hx; cases hx; exact .rng_ok h h1 h2
  | rng_fail h => intro e' hx; cases hx; exact .rng_fail h
  | str_ok h => intro e' hx; cases hx; exact .str_ok h
  | str_fail h => intro e' hx; cases hx; exact .str_fail h
  | name hb _ ih =>
    intro e' hx
    cases hx with
    | name =>
      obtain ⟨b', hb', hx'⟩ := hGG' _ _ hb
      exact .name hb' (ih hx')
    | expand hb2 hx' =>
      rw [hb] at hb2; cases hb2
      exact .inl (ih hx')
  | inl _ ih =>
    intro e' hx
    cases hx with
    | collapse hb' hx' => exact .name hb' (ih hx')
    | inl hx' => exact .inl (ih hx')
  | pred_ok h => intro e' hx; cases hx; exact .pred_ok h
  | pred_fail h => intro e' hx; cases hx; exact .pred_fail h
  | stmt => intro e' hx; cases hx; exact .stmt
  | act => intro e' hx; cases hx; exact .act
  | nil => intro e' hx; cases hx; exact .nil
  | seq_nil => intro e' hx; cases hx with | seq hl => cases hl; exact .seq_nil
  | seq_fail _ ih =>
    intro e' hx
    cases hx with | seq hl => cases hl with | cons h1 h2 => exact .seq_fail (ih h1)
  | seq_ok_fail _ _ ih1 ih2 =>
    intro e' hx
    cases hx with | seq hl => cases hl with | cons h1 h2 => exact .seq_ok_fail (ih1 h1) (ih2 (.seq h2))
  | seq_ok _ _ ih1 ih2 =>
    intro e' hx
    cases hx with | seq hl => cases hl with | cons h1 h2 => exact .seq_ok (ih1 h1) (ih2 (.seq h2))
  | alt_last _ ih =>
    intro e' hx
    cases hx with | alt hl => cases hl with | cons h1 h2 => cases h2; exact .alt_last (ih h1)
  | alt_ok _ ih =>
    intro e' hx
    cases hx with
    | alt hl => cases hl with | cons h1 h2 => cases h2 with | cons h3 h4 => exact .alt_ok (ih h1)
  | alt_next _ _ ih1 ih2 =>
    intro e' hx
    cases hx with
    | alt hl =>
      cases hl with
      | cons h1 h2 =>
        cases h2 with
        | cons h3 h4 => exact .alt_next (ih1 h1) (ih2 (.alt (.cons h3 h4)))
  | ualt hidx _ ih =>
    intro e' hx
    cases hx with
    | ualt hl =>
      obtain ⟨e1, he1, hx1⟩ := hl.get hidx
      refine .ualt ?_ (ih hx1)
      rw [← hl.length]; exact he1
  | peekFor_ok _ ih => intro e' hx; cases hx with | peekFor hx' => exact .peekFor_ok (ih hx')
  | peekFor_fail _ ih => intro e' hx; cases hx with | peekFor hx' => exact .peekFor_fail (ih hx')
  | peekNot_ok _ ih => intro e' hx; cases hx with | peekNot hx' => exact .peekNot_ok (ih hx')
  | peekNot_fail _ ih => intro e' hx; cases hx with | peekNot hx' => exact .peekNot_fail (ih hx')
  | query_ok _ ih => intro e' hx; cases hx with | query hx' => exact .query_ok (ih hx')
  | query_none _ ih => intro e' hx; cases hx with | query hx' => exact .query_none (ih hx')
  | star_stop _ ih => intro e' hx; cases hx with | star hx' => exact .star_stop (ih hx')
  | star_step _ _ ih1 ih2 =>
    intro e' hx; cases hx with | star hx' => exact .star_step (ih1 hx') (ih2 (.star hx'))
  | plus_fail _ ih => intro e' hx; cases hx with | plus hx' => exact .plus_fail (ih hx')
  | plus_ok _ _ ih1 ih2 =>
    intro e' hx; cases hx with | plus hx' => exact .plus_ok (ih1 hx') (ih2 (.star hx'))
  | push_ok ha _ ih =>
    intro e' hx
    cases hx with | push hx' => exact .push_ok (by rw [← hx'.isAct]; exact ha) (ih hx')
  | push_fail ha _ ih =>
    intro e' hx
    cases hx with | push hx' => exact .push_fail (by rw [← hx'.isAct]; exact ha) (ih hx')
  | push_act => intro e' hx; cases hx with | push hx' => cases hx'; exact .push_act
  | ipush_ok ha _ ih =>
    intro e' hx
    cases hx with | ipush hx' => exact .ipush_ok (by rw [← hx'.isAct]; exact ha) (ih hx')
  | ipush_fail ha _ ih =>
    intro e' hx
    cases hx with | ipush hx' => exact .ipush_fail (by rw [← hx'.isAct]; exact ha) (ih hx')
  | ipush_act => intro e' hx; cases hx with | ipush hx' => cases hx'; exact .ipush_act

/-! ### 3. `expandInline` produces related expressions, in both directions -/

theorem expandInline_zero (G : Grammar) (cnt : String → Nat) (e : Expr) :
    expandInline G cnt 0 e = e := by
  unfold expandInline; rfl

/-- `e'` is `e` with some references replaced by in-place copies of (expanded) bodies of `G`. -/
theorem expandInline_exp (G G' : Grammar) (cnt : String → Nat) :
    ∀ (f : Nat) (e : Expr), Exp G G' e (expandInline G cnt f e)
  | 0, e => by rw [expandInline_zero]; exact Exp.refl G G' e
  | f + 1, e => by
    have ih := expandInline_exp G G' cnt f
    cases e <;> simp only [expandInline] <;> try exact Exp.refl G G' _
    case name n =>
      split
      · split
        · next b hb => exact .expand hb (ih b)
        · exact .name
      · exact .name
    case seq es => exact .seq (ExpL.map_right ih es)
    case alt es => exact .alt (ExpL.map_right ih es)
    case ualt ks es => exact .ualt (ExpL.map_right ih es)
    case peekFor e => exact .peekFor (ih e)
    case peekNot e => exact .peekNot (ih e)
    case query e => exact .query (ih e)
    case star e => exact .star (ih e)
    case plus e => exact .plus (ih e)
    case push e r => exact .push (ih e)
    case ipush e r => exact .ipush (ih e)

/-- The same read from right to left: collapsing the in-place copies gives back `e`. -/
theorem expandInline_exp_rev (G' G : Grammar) (cnt : String → Nat) :
    ∀ (f : Nat) (e : Expr), Exp G' G (expandInline G cnt f e) e
  | 0, e => by rw [expandInline_zero]; exact Exp.refl G' G e
  | f + 1, e => by
    have ih := expandInline_exp_rev G' G cnt f
    cases e <;> simp only [expandInline] <;> try exact Exp.refl G' G _
    case name n =>
      split
      · split
        · next b hb => exact .collapse hb (ih b)
        · exact .name
      · exact .name
    case seq es => exact .seq (ExpL.map_left ih es)
    case alt es => exact .alt (ExpL.map_left ih es)
    case ualt ks es => exact .ualt (ExpL.map_left ih es)
    case peekFor e => exact .peekFor (ih e)
    case peekNot e => exact .peekNot (ih e)
    case query e => exact .query (ih e)
    case star e => exact .star (ih e)
    case plus e => exact .plus (ih e)
    case push e r => exact .push (ih e)
    case ipush e r => exact .ipush (ih e)

/-! ### 4. The expanded grammar -/

/-- The grammar whose rule bodies are what `compileAll o` compiles (`bodyOf o G`): with `-inline`
    every body is expanded; names, ids and the order of the rules are unchanged. -/
def expandG (o : Opts) (G : Grammar) : Grammar :=
  { rules := G.rules.map (fun r => { r with body := bodyOf o G r }) }

theorem expandG_find (o : Opts) (G : Grammar) (n : String) :
    (expandG o G).find n = (G.find n).map (fun r => { r with body := bodyOf o G r }) := by
  unfold Grammar.find expandG
  rw [List.find?_map]
  rfl

theorem expandG_body (o : Opts) (G : Grammar) (n : String) :
    (expandG o G).body n = (G.find n).map (bodyOf o G) := by
  unfold Grammar.body
  rw [expandG_find]
  cases G.find n <;> rfl

theorem expandG_idOf (o : Opts) (G : Grammar) (n : String) : (expandG o G).idOf n = G.idOf n := by
  unfold Grammar.idOf
  rw [expandG_find]
  cases G.find n <;> rfl

theorem bodyOf_exp (o : Opts) (G G' : Grammar) (r : Rule) : Exp G G' r.body (bodyOf o G r) := by
  unfold bodyOf
  split
  · exact expandInline_exp G G' _ _ _
  · exact Exp.refl G G' _

theorem bodyOf_exp_rev (o : Opts) (G' G : Grammar) (r : Rule) : Exp G' G (bodyOf o G r) r.body := by
  unfold bodyOf
  split
  · exact expandInline_exp_rev G' G _ _ _
  · exact Exp.refl G' G _

theorem bodiesExp_expandG (o : Opts) (G : Grammar) : BodiesExp G (expandG o G) := by
  intro n b hb
  rw [expandG_body]
  unfold Grammar.body at hb
  cases hf : G.find n with
  | none => rw [hf] at hb; cases hb
  | some r =>
    rw [hf] at hb
    simp only [Option.map_some, Option.some.injEq] at hb
    subst hb
    exact ⟨_, rfl, bodyOf_exp o G _ r⟩

theorem bodiesExp_expandG_rev (o : Opts) (G : Grammar) : BodiesExp (expandG o G) G := by
  intro n b hb
  rw [expandG_body] at hb
  cases hf : G.find n with
  | none => rw [hf] at hb; cases hb
  | some r =>
    rw [hf] at hb
    simp only [Option.map_some, Option.some.injEq] at hb
    subst hb
    exact ⟨r.body, by simp [Grammar.body, hf], bodyOf_exp_rev o _ G r⟩

/-- Every derivation of the original grammar is a derivation of the expanded grammar … -/
theorem Eval_expandG {o : Opts} {G : Grammar} {ρ : String → Nat → Bool} {inp : List Sym} {e p res evs}
    (h : Eval G ρ inp e p res evs) : Eval (expandG o G) ρ inp e p res evs :=
  Eval_exp (bodiesExp_expandG o G) h (Exp.refl _ _ e)

/-- … and conversely. -/
theorem Eval_expandG_rev {o : Opts} {G : Grammar} {ρ : String → Nat → Bool} {inp : List Sym}
    {e p res evs} (h : Eval (expandG o G) ρ inp e p res evs) : Eval G ρ inp e p res evs :=
  Eval_exp (bodiesExp_expandG_rev o G) h (Exp.refl _ _ e)

/-- `-inline` does not change the PEG semantics of any expression: same result, same derivation
    forest, same attempted tokens. -/
theorem Eval_expandG_iff {o : Opts} {G : Grammar} {ρ : String → Nat → Bool} {inp : List Sym}
    {e p res evs} : Eval (expandG o G) ρ inp e p res evs ↔ Eval G ρ inp e p res evs :=
  ⟨Eval_expandG_rev, Eval_expandG⟩

/-- The expansion of a single expression, evaluated in the expanded grammar. -/
theorem Eval_expandInline_iff {o : Opts} {G : Grammar} {ρ : String → Nat → Bool} {inp : List Sym}
    {cnt f e p res evs} :
    Eval (expandG o G) ρ inp (expandInline G cnt f e) p res evs ↔ Eval G ρ inp e p res evs :=
  ⟨fun h => Eval_exp (bodiesExp_expandG_rev o G) h (expandInline_exp_rev _ G cnt f e),
   fun h => Eval_exp (bodiesExp_expandG o G) h (expandInline_exp G _ cnt f e)⟩

/-! ### 5. The checkable condition on the input grammar for `-inline` -/

/-- The option set the theorems of this file are about (`-inline`, no `-switch`, AST support). -/
def inlOpts : Opts := { inline := true, switch := false, ast := true }

/-- "The rule named `n` gets a function under `-inline`".  Which rules are compiled in place only
    depends on the reference counts and on the label counter (`slotOf`: the rule emitted with label
    0 keeps its function), so this is read off the emitted program. -/
def hasFuncI (G : Grammar) (n : String) : Bool := ((compileAll inlOpts G).find n).isSome

/-- A rule is fine if it gets no function, or its *expanded* body is in the fragment of
    `Expr.fine` (terminals below END, no `str`/`ualt`) and every reference that is left in it
    (not compiled in place) is to a rule that gets a function. -/
def ruleOKI (G : Grammar) (r : Rule) : Bool :=
  !hasFuncI G r.name || (bodyOf inlOpts G r).okB (hasFuncI G)

def GrammarOKI (G : Grammar) : Bool :=
  G.rules.all fun r => match G.find r.name with
    | some r' => ruleOKI G r'
    | none => true

theorem GrammarOKI.rule {G : Grammar} (hG : GrammarOKI G = true) {n : String} {r : Rule}
    (h : G.find n = some r) : ruleOKI G r = true := by
  unfold Grammar.find at h
  have hmem := List.mem_of_find?_eq_some h
  have hname : r.name = n := by simpa using List.find?_some h
  have := List.all_eq_true.mp hG r hmem
  unfold Grammar.find at this
  rw [hname, h] at this
  exact this

/-- What `hasFuncI` means in terms of the emission loop: the first rule of that name is given the
    slot `func` at the label counter `ko` it is reached with — its body is not `nil`, it is
    referenced, and it does not have exactly one reference unless `ko = 0`. -/
theorem hasFuncI_slot {G : Grammar} {n : String} (h : hasFuncI G n = true) :
    ∃ (r : Rule) (ko : Nat), G.find n = some r ∧ slotOf inlOpts (rulesCount G) r ko = .func := by
  unfold hasFuncI at h
  obtain ⟨cr, hfind⟩ := Option.isSome_iff_exists.mp h
  rw [compileAll_eq] at hfind
  obtain ⟨r, ko, _, hr, hslot, _⟩ :=
    compileRules_find (env' := dryEnv inlOpts G)
      (rfl : (realEnv inlOpts G).always = (dryEnv inlOpts G).always) n G.rules ⟨0, 0⟩ cr hfind
  exact ⟨r, ko, hr, hslot⟩

theorem slotOf_func_notNil {o : Opts} {cnt : String → Nat} {r : Rule} {ko : Nat}
    (h : slotOf o cnt r ko = .func) : r.body.isNil = false := by
  unfold slotOf at h
  cases hb : r.body <;> simp [hb, Expr.isNil] at h ⊢

theorem expandInline_ipush (G : Grammar) (cnt : String → Nat) (f : Nat) (e : Expr) (n : String) :
    ∃ e', expandInline G cnt f (.ipush e n) = .ipush e' n := by
  cases f with
  | zero => exact ⟨e, expandInline_zero ..⟩
  | succ f => exact ⟨expandInline G cnt f e, by simp only [expandInline]⟩

/-! ### 6. `World` for the program emitted with `-inline` -/

/-- The structural assumptions of the refinement theorem hold for the program `compileAll` emits
    with `-inline` for a `GrammarOKI` grammar, with respect to the EXPANDED grammar.  (`always` is
    computed by `compileAll` on `G` itself; its soundness for the expanded grammar is a hypothesis
    here and is discharged in `compileAll_world_inline'`.) -/
theorem compileAll_world_inline {G : Grammar} {o : Opts} {cfg : Cfg} {inp : List Sym}
    (hinl : o.inline = true) (hsw : o.switch = false) (hast : o.ast = true)
    (hcfg : cfg.ast = true)
    (hinp : ∀ c ∈ inp, c ≠ END)
    (hG : GrammarOKI G = true) (hL : LinkedOK G = true)
    (halways : ∀ n, alwaysSucceeds G n = true →
      ∀ p evs, ¬ Eval (expandG o G) cfg.rho inp (.name n) p .fail evs) :
    World (compileAll o G) cfg (realEnv o G) (expandG o G) inp := by
  have ho : o = inlOpts := by
    cases o; simp only [inlOpts] at *; simp [hinl, hsw, hast]
  subst ho
  have hfindG : ∀ n cr, (compileAll inlOpts G).find n = some cr →
      ∃ (r : Rule) (ko sw : Nat), G.find n = some r ∧ slotOf inlOpts (rulesCount G) r ko = .func ∧
        cr = (ruleFunc (realEnv inlOpts G) r (bodyOf inlOpts G r) ko ⟨ko + 1, sw⟩).1 ∧
        ((bodyOf inlOpts G r).noUalt = true →
          ∀ l ∈ jumps cr, (realEnv inlOpts G).used l = true) := by
    intro n cr hfind
    rw [compileAll_eq] at hfind
    obtain ⟨r, ko, sw, hr, hslot, hcr, hj⟩ :=
      compileRules_find (env' := dryEnv inlOpts G)
        (rfl : (realEnv inlOpts G).always = (dryEnv inlOpts G).always) n G.rules ⟨0, 0⟩ cr hfind
    refine ⟨r, ko, sw, hr, hslot, hcr, ?_⟩
    intro hb l hl
    have := hj hb l hl
    simpa [realEnv, dryJumps] using this
  exact {
    ast := hcfg
    envAst := hast
    inpOK := hinp
    always := halways
    idInj := by
      intro n1 n2 h1 h2 hid
      have g : ∀ n, ((compileAll inlOpts G).find n).isSome = true → (G.find n).isSome = true := by
        intro n hn
        obtain ⟨cr, hfind⟩ := Option.isSome_iff_exists.mp hn
        obtain ⟨r, _, _, hr, _⟩ := hfindG n cr hfind
        rw [hr]; rfl
      rw [expandG_idOf, expandG_idOf] at hid
      exact LinkedOK.idInj hL (g n1 h1) (g n2 h2) hid
    rules := by
      intro n cr hfind
      obtain ⟨r, ko, sw, hr, hslot, hcr, hj⟩ := hfindG n cr hfind
      have hname : r.name = n := by
        unfold Grammar.find at hr
        simpa using List.find?_some hr
      have hnil := slotOf_func_notNil hslot
      have hhas : hasFuncI G r.name = true := by
        unfold hasFuncI; rw [hname, hfind]; rfl
      have hok : (bodyOf inlOpts G r).okB (hasFuncI G) = true := by
        have := GrammarOKI.rule hG hr
        simpa [ruleOKI, hhas] using this
      refine ⟨r, bodyOf inlOpts G r, ko, ⟨ko + 1, sw⟩, by simp [expandG_body, hr], hcr,
        Nat.lt_succ_self ko, ?_, hj (okB_noUalt _ _ hok), ?_, ?_, ?_⟩
      · rw [hcr]; exact ruleFunc_uniq _ _ _ _ _ (Nat.lt_succ_self ko)
      · exact (okB_fine (fun m hm => hm) _ hok).fineS
      · rw [expandG_idOf]; simp [Grammar.idOf, hr]
      · obtain ⟨e, he⟩ := LinkedOK.shape hL hr hnil
        simp only [bodyOf, inlOpts, if_true, he]
        exact expandInline_ipush ..
  }

/-- `World` with the soundness of `CheckAlwaysSucceeds` discharged: the analysis runs on `G`
    (plain: no `inl`/`ualt`), `alwaysSucceeds_sound` gives the claim for `G`, and the expanded
    grammar has no failing derivation that `G` does not have. -/
theorem compileAll_world_inline' {G : Grammar} {o : Opts} {cfg : Cfg} {inp : List Sym}
    (hinl : o.inline = true) (hsw : o.switch = false) (hast : o.ast = true)
    (hcfg : cfg.ast = true)
    (hinp : ∀ c ∈ inp, c ≠ END)
    (hG : GrammarOKI G = true) (hL : LinkedOK G = true) (hplain : G.plain) :
    World (compileAll o G) cfg (realEnv o G) (expandG o G) inp :=
  compileAll_world_inline hinl hsw hast hcfg hinp hG hL
    (fun _ h p evs hE => alwaysSucceeds_sound hplain h p evs (Eval_expandG_rev hE))

end PegVerif

#print axioms PegVerif.Eval_exp
#print axioms PegVerif.Eval_expandG_iff
#print axioms PegVerif.compileAll_world_inline
#print axioms PegVerif.compileAll_world_inline'
