import PegVerif.Model.SwitchSafe
import PegVerif.Proofs.LinkNoast
import PegVerif.Proofs.LinkSwitch
import PegVerif.Proofs.AlwaysLemmas
/-
  The decidable hypotheses of the `-inline -noast` end-to-end theorems, with and without `-switch`
  nodes (`Props/C07Inline.lean`), in a file of its own (as `SwitchSafeDef.lean`,
  `InlineSwitchSafeDef.lean`, `NoastSwitchSafeDef.lean`) so that a driver can evaluate the very
  definitions the theorems use.  Only definitions live here; the facts about them are in
  `Proofs/LinkNoastInline.lean`.

  Cost.  `GrammarOKNIS` is written so that everything that does not depend on the rule is computed
  ONCE and shared by all rules (the `let`s below are evaluated once per call in compiled code), and
  so that the emitted program is not needed:
    * the reached rules (`reachedRules G`), from which the reference counts `-inline` looks at are
      folded (`rulesCount G n` recomputes the reachability closure on every call);
    * the table "rule `n` gets a function under `-inline`" (`inlineFuncs`), one pass over the rules
      that only tracks whether the label counter is still 0 (`hasFuncI` of InlineLemmas.lean runs
      `compileAll` — dry and real pass, itself recomputing `rulesCount` for every reference — for
      every reference it is asked about);
    * the fuel;
  and only the rules that get a function are expanded (a rule compiled in place is checked where it
  is compiled, inside the expanded body of the rule that refers to it).
  `Proofs/LinkNoastInline.lean` proves that the shared quantities are the ones of the model
  (`rulesCountWith_eq`, `hasFuncOf_inlineFuncs`).
-/
namespace PegVerif
open Noast

/-- The option set of this development: `-inline -noast` (`o.switch` is not read by the emission:
    the `-switch` rewrite is in the grammar). -/
def inlNOpts : Opts := { inline := true, switch := false, ast := false }

/-- `rulesCount` with the reachability closure as an argument, so that it can be shared. -/
def rulesCountWith (G : Grammar) (reached : List String) (n : String) : Nat :=
  let first := match G.rules with | r :: _ => if r.name == n then 1 else 0 | [] => 0
  first + (reached.foldl (fun acc m =>
    match G.body m with
    | some b => acc + ((refsE b).filter (· == n)).length
    | none => acc) 0)

/-- Which rules get a function under `-inline`, in the order of the rules (one entry per rule).
    The slot of a rule (`slotOf`) depends on the label counter only through "is it 0" — the rule
    emitted with label 0 keeps its function even if it has exactly one reference — and the counter
    leaves 0 with the first rule whose body is not `nil`; `z` = "the counter is still 0". -/
def inlineFuncs (cnt : String → Nat) : List Rule → Bool → List (String × Bool)
  | [], _ => []
  | r :: rs, z =>
    match slotOf inlNOpts cnt r (if z then 0 else 1) with
    | .undefinedNil => (r.name, false) :: inlineFuncs cnt rs z
    | .func => (r.name, true) :: inlineFuncs cnt rs false
    | _ => (r.name, false) :: inlineFuncs cnt rs false

/-- Lookup: the entry of the FIRST rule with that name (`t.Rules[name]`). -/
def hasFuncOf (tbl : List (String × Bool)) (n : String) : Bool :=
  match tbl.find? (fun x => x.1 == n) with
  | some x => x.2
  | none => false

/-- The decidable condition on the linked (and possibly `-switch`-rewritten) grammar for emission
    with `-inline -noast`: for every rule that gets a function, the body AS EMITTED (references to
    once-referenced rules replaced by the rule's body) is
    * in the fragment of `Expr.okS` — terminals below END, no `TypeString`, every reference left is
      to a rule that gets a function, every `ualt ks es` non-empty with `casesLeadOK ks es` (on the
      expanded case bodies: the `parentDetect` flags are handed into a body compiled in place); and
    * in the `-noast` fragment `Expr.okNB K` — captures are the nodes named "PegText", action rules
      carry their code, … (also checked on the expanded body: an action rule referenced once is
      compiled in place). -/
def GrammarOKNIS (K : NKit) (G : Grammar) : Bool :=
  let cnt : String → Nat := rulesCountWith G (reachedRules G)
  let d : String → Bool := hasFuncOf (inlineFuncs cnt G.rules true)
  let fuel := G.fuel
  G.rules.all fun r => match G.find r.name with
    | some r' =>
      !d r'.name ||
        (let b := expandInline G cnt fuel r'.body
         b.okS d && b.okNB K)
    | none => true

/-- The decidable side condition under which the `-inline -noast` parser emitted from `G` is proved
    to implement the PEG semantics of `G`, for a kit `K` (which rules are action rules, which trace
    entries are compared):
    * `GrammarOKNIS K G`  — see there;
    * `plainS G`          — `G` itself carries no `inl` node (those only arise in the expansion):
                            soundness of `CheckAlwaysSucceeds`.
    (`LinkedOK`, needed in AST mode for the memo keys, is not needed: `-noast` code has no memo.) -/
def inlineNoastSafeK (K : NKit) (G : Grammar) : Bool :=
  GrammarOKNIS K G && G.rules.all (fun r => r.body.plainS)

/-- … for the kit that compares the whole trace (`Kall G`: the action rules of `G`; grammars with
    state-change statements `!{…}` are excluded by `Expr.okN`). -/
def inlineNoastSafe (G : Grammar) : Bool := inlineNoastSafeK (Kall G) G

/-- The decidable side condition under which the `-inline -noast -switch` parser emitted from the
    rewritten grammar `G'` is proved equivalent to the source grammar `G`:
    * `swOK G G'`              — the optimiser's rewrite is a valid rearrangement w.r.t. sound first
                                 sets (Eval-level, `C02_switch_validated`);
    * `inlineNoastSafeK K G'`  — as above, for `G'`. -/
def inlineNoastSwitchSafeK (K : NKit) (G G' : Grammar) : Bool :=
  swOK G G' && inlineNoastSafeK K G'

def inlineNoastSwitchSafe (G G' : Grammar) : Bool := inlineNoastSwitchSafeK (Kall G') G G'

end PegVerif
