import PegVerif.Proofs.InlineLemmas
import PegVerif.Proofs.LinkSwitch
/-
  `-inline -switch` (AST mode): the structural fields of `World` for the program `compileAll` emits
  with `-inline` for a grammar that may contain `-switch` nodes (`ualt`), with respect to the
  EXPANDED grammar `expandG o G`.

  In Go the order is link → `-switch` rewrite (`optimise`, giving the grammar this file calls `G`)
  → emission with `-inline`: a reference to a rule that has exactly one reference compiles the
  rule's body in place and hands its own `parentDetect` flags to it.  In the model `compileAll o G`
  with `o.inline = true` compiles `expandInline` of every body (`name n ↦ inl n body`), and
  `compile (.inl n e)` compiles `e` with the flags it was given.  A body that is compiled in place
  directly behind a `case` therefore has its leading terminal test elided; `leadOK` (hence
  `casesLeadOK`, hence `Expr.okS`) descends through `inl`, so the side condition below — `okS` of
  the EXPANDED bodies — checks exactly those elisions.

  * `compileAll_opts`      `compileAll`, `realEnv`, `expandG` only depend on `o.inline`, `o.ast`
                           (`o.switch` is not read by the emission: the rewrite is in `G`);
  * `GrammarOKIS`          the decidable condition: the `okS`-based analogue of `GrammarOKI`;
  * `compileAll_world_inlineS`   the `World` of `compileAll` (soundness of `CheckAlwaysSucceeds` for
                           the expanded grammar as a hypothesis);
  * `compileAll_world_inlineS'`  … with that hypothesis discharged for `plainS` grammars.

  The two ingredients are the ones of the separate developments: `compileRules_findS` (jumps of the
  real pass ⊆ jumps of the dry pass, which holds for any `bodyOf`) and `okS_fineS`.
-/
namespace PegVerif

/-! ### 1. The emission does not read `o.switch` -/

theorem slotOf_opts {o o' : Opts} (h : o.inline = o'.inline) (cnt : String → Nat) (r : Rule) (ko : Nat) :
    slotOf o cnt r ko = slotOf o' cnt r ko := by
  unfold slotOf; rw [h]

theorem compileRules_opts {o o' : Opts} (h : o.inline = o'.inline) (env : CEnv) (cnt : String → Nat)
    (bodyOf : Rule → Expr) : ∀ (rules : List Rule) (st : CSt),
    compileRules o env cnt bodyOf rules st = compileRules o' env cnt bodyOf rules st
  | [], _ => by simp only [compileRules]
  | r :: rs, st => by
    rw [compileRules_cons, compileRules_cons]
    simp only [slotCode, slotSt, slotOf_opts h]
    rw [compileRules_opts h env cnt bodyOf rs]

theorem bodyOf_opts {o o' : Opts} (h : o.inline = o'.inline) (G : Grammar) : bodyOf o G = bodyOf o' G := by
  unfold bodyOf; rw [h]

theorem dryEnv_opts {o o' : Opts} (ha : o.ast = o'.ast) (G : Grammar) : dryEnv o G = dryEnv o' G := by
  unfold dryEnv; rw [ha]

theorem dryJumps_opts {o o' : Opts} (h : o.inline = o'.inline) (ha : o.ast = o'.ast) (G : Grammar) :
    dryJumps o G = dryJumps o' G := by
  unfold dryJumps; rw [compileRules_opts h, bodyOf_opts h, dryEnv_opts ha]

theorem realEnv_opts {o o' : Opts} (h : o.inline = o'.inline) (ha : o.ast = o'.ast) (G : Grammar) :
    realEnv o G = realEnv o' G := by
  unfold realEnv; rw [dryJumps_opts h ha, ha]

/-- `compileAll` depends on the options only through `inline` and `ast`: `-switch` acts on the
    grammar (the rewrite `optimise`), not on the emission. -/
theorem compileAll_opts {o o' : Opts} (h : o.inline = o'.inline) (ha : o.ast = o'.ast) (G : Grammar) :
    compileAll o G = compileAll o' G := by
  rw [compileAll_eq, compileAll_eq, compileRules_opts h, bodyOf_opts h, realEnv_opts h ha]

theorem expandG_opts {o o' : Opts} (h : o.inline = o'.inline) (G : Grammar) : expandG o G = expandG o' G := by
  unfold expandG; rw [bodyOf_opts h]

/-! ### 2. The checkable condition on a `-switch`-rewritten grammar for `-inline` -/

/-- A rule is fine if it gets no function under `-inline`, or its *expanded* body is in the fragment
    of `Expr.fineS` — terminals below END, no `str`, every `ualt ks es` non-empty with
    `casesLeadOK ks es` (on the expanded case bodies: the check walks into bodies compiled in place,
    where the elision happens) — and every reference left in it is to a rule that gets a function. -/
def ruleOKIS (G : Grammar) (r : Rule) : Bool :=
  !hasFuncI G r.name || (bodyOf inlOpts G r).okS (hasFuncI G)

/-- The condition on the linked and `-switch`-rewritten grammar for emission with `-inline`. -/
def GrammarOKIS (G : Grammar) : Bool :=
  G.rules.all fun r => match G.find r.name with
    | some r' => ruleOKIS G r'
    | none => true

theorem GrammarOKIS.rule {G : Grammar} (hG : GrammarOKIS G = true) {n : String} {r : Rule}
    (h : G.find n = some r) : ruleOKIS G r = true := by
  unfold Grammar.find at h
  have hmem := List.mem_of_find?_eq_some h
  have hname : r.name = n := by simpa using List.find?_some h
  have := List.all_eq_true.mp hG r hmem
  unfold Grammar.find at this
  rw [hname, h] at this
  exact this

/-- `GrammarOKIS` extends `GrammarOKI`: without `-switch` nodes it is the old condition. -/
theorem GrammarOKI.toS {G : Grammar} (hG : GrammarOKI G = true) : GrammarOKIS G = true := by
  unfold GrammarOKIS
  unfold GrammarOKI at hG
  rw [List.all_eq_true] at hG ⊢
  intro r hr
  have := hG r hr
  cases hf : G.find r.name with
  | none => rfl
  | some r' =>
    simp only [hf] at this ⊢
    simp only [ruleOKI, ruleOKIS, Bool.or_eq_true] at this ⊢
    rcases this with h | h
    · exact Or.inl h
    · exact Or.inr (okB_okS _ _ h)

/-! ### 3. `World` for the program emitted with `-inline` from a grammar with `-switch` nodes -/

/-- The `inlOpts` instance; `compileAll_world_inlineS` transports it to any `o` with
    `o.inline = true`, `o.ast = true`. -/
theorem compileAll_world_inlineS_aux {G : Grammar} {cfg : Cfg} {inp : List Sym}
    (hcfg : cfg.ast = true)
    (hinp : ∀ c ∈ inp, c ≠ END)
    (hG : GrammarOKIS G = true) (hL : LinkedOK G = true)
    (halways : ∀ n, alwaysSucceeds G n = true →
      ∀ p evs, ¬ Eval (expandG inlOpts G) cfg.rho inp (.name n) p .fail evs) :
    World (compileAll inlOpts G) cfg (realEnv inlOpts G) (expandG inlOpts G) inp := by
  have hfindG : ∀ n cr, (compileAll inlOpts G).find n = some cr →
      ∃ (r : Rule) (ko sw : Nat), G.find n = some r ∧ slotOf inlOpts (rulesCount G) r ko = .func ∧
        cr = (ruleFunc (realEnv inlOpts G) r (bodyOf inlOpts G r) ko ⟨ko + 1, sw⟩).1 ∧
        ∀ l ∈ jumps cr, (realEnv inlOpts G).used l = true := by
    intro n cr hfind
    rw [compileAll_eq] at hfind
    obtain ⟨r, ko, sw, hr, hslot, hcr, hj⟩ :=
      compileRules_findS (env' := dryEnv inlOpts G)
        (rfl : (realEnv inlOpts G).always = (dryEnv inlOpts G).always) n G.rules ⟨0, 0⟩ cr hfind
    refine ⟨r, ko, sw, hr, hslot, hcr, ?_⟩
    intro l hl
    have := hj l hl
    simpa [realEnv, dryJumps] using this
  exact {
    ast := hcfg
    envAst := rfl
    inpOK := hinp
    always := halways
    idInj := by
      intro n1 n2 h1 h2 hid
      have g : ∀ n, ((compileAll inlOpts G).find n).isSome = true → (G.find n).isSome = true := by
        intro n hn
        obtain ⟨cr, hfind⟩ := Option.isSome_iff_exists.mp hn
        obtain ⟨r, _, _, hr, _⟩ := hfindG n cr hfind
        rw [hr]; rfl
      rw [expandG_idOf, expandG_idOf] at hid
      exact LinkedOK.idInj hL (g n1 h1) (g n2 h2) hid
    rules := by
      intro n cr hfind
      obtain ⟨r, ko, sw, hr, hslot, hcr, hj⟩ := hfindG n cr hfind
      have hname : r.name = n := by
        unfold Grammar.find at hr
        simpa using List.find?_some hr
      have hnil := slotOf_func_notNil hslot
      have hhas : hasFuncI G r.name = true := by
        unfold hasFuncI; rw [hname, hfind]; rfl
      have hok : (bodyOf inlOpts G r).okS (hasFuncI G) = true := by
        have := GrammarOKIS.rule hG hr
        simpa [ruleOKIS, hhas] using this
      refine ⟨r, bodyOf inlOpts G r, ko, ⟨ko + 1, sw⟩, by simp [expandG_body, hr], hcr,
        Nat.lt_succ_self ko, ?_, hj, ?_, ?_, ?_⟩
      · rw [hcr]; exact ruleFunc_uniq _ _ _ _ _ (Nat.lt_succ_self ko)
      · exact okS_fineS (fun m hm => hm) _ hok
      · rw [expandG_idOf]; simp [Grammar.idOf, hr]
      · obtain ⟨e, he⟩ := LinkedOK.shape hL hr hnil
        simp only [bodyOf, inlOpts, if_true, he]
        exact expandInline_ipush ..
  }

/-- The structural assumptions of the refinement theorem hold for the program `compileAll` emits
    with `-inline` for a `GrammarOKIS` grammar — which may contain `-switch` nodes — with respect to
    the EXPANDED grammar.  (`always` is computed by `compileAll` on `G` itself; its soundness for the
    expanded grammar is a hypothesis here and is discharged in `compileAll_world_inlineS'`.)
    `o.switch` is unconstrained: the emission does not read it. -/
theorem compileAll_world_inlineS {G : Grammar} {o : Opts} {cfg : Cfg} {inp : List Sym}
    (hinl : o.inline = true) (hast : o.ast = true)
    (hcfg : cfg.ast = true)
    (hinp : ∀ c ∈ inp, c ≠ END)
    (hG : GrammarOKIS G = true) (hL : LinkedOK G = true)
    (halways : ∀ n, alwaysSucceeds G n = true →
      ∀ p evs, ¬ Eval (expandG o G) cfg.rho inp (.name n) p .fail evs) :
    World (compileAll o G) cfg (realEnv o G) (expandG o G) inp := by
  have h1 : o.inline = inlOpts.inline := hinl
  have h2 : o.ast = inlOpts.ast := hast
  rw [compileAll_opts h1 h2, realEnv_opts h1 h2, expandG_opts h1]
  rw [expandG_opts h1] at halways
  exact compileAll_world_inlineS_aux hcfg hinp hG hL halways

/-- `World` with the soundness of `CheckAlwaysSucceeds` discharged: the analysis runs on `G`
    (`plainS`: no `inl`; `ualt` allowed — it never "always succeeds"), `alwaysSucceeds_soundS` gives
    the claim for `G`, and the expanded grammar has no failing derivation that `G` does not have
    (`Eval_expandG_rev`, whose relation `Exp` has a `ualt` case). -/
theorem compileAll_world_inlineS' {G : Grammar} {o : Opts} {cfg : Cfg} {inp : List Sym}
    (hinl : o.inline = true) (hast : o.ast = true)
    (hcfg : cfg.ast = true)
    (hinp : ∀ c ∈ inp, c ≠ END)
    (hG : GrammarOKIS G = true) (hL : LinkedOK G = true) (hplain : G.plainS) :
    World (compileAll o G) cfg (realEnv o G) (expandG o G) inp :=
  compileAll_world_inlineS hinl hast hcfg hinp hG hL
    (fun _ h p evs hE => alwaysSucceeds_soundS hplain h p evs (Eval_expandG_rev hE))

end PegVerif

#print axioms PegVerif.compileAll_opts
#print axioms PegVerif.GrammarOKI.toS
#print axioms PegVerif.compileAll_world_inlineS
#print axioms PegVerif.compileAll_world_inlineS'
