import PegVerif.Model.SwitchSafe
import PegVerif.Proofs.InlineSwitch
import PegVerif.Proofs.AlwaysLemmas
/-
  The decidable hypothesis of the `-inline -switch` end-to-end theorem
  (`Props/C02InlineSwitch.lean`), in a file of its own (like `SwitchSafeDef.lean`) so that a driver
  can evaluate the very definition the theorem uses.
-/
namespace PegVerif

/-- The decidable side condition under which the parser emitted with `-inline -switch` from the
    rewritten grammar `G'` is proved equivalent to the source grammar `G`:
    * `swOK G G'`        — the optimiser's rewrite is a valid rearrangement w.r.t. sound first sets
                           (Eval-level, `C02_switch_validated`);
    * `GrammarOKIS G'`   — on the bodies AS EMITTED WITH `-inline` (references to once-referenced
                           rules replaced by the rule body): terminals below END, every reference
                           left is to a rule that has a function under `-inline`, and every
                           `parentDetect` elision of a leading test — including the ones inside a
                           body compiled in place behind a `case` — is justified by the case keys
                           (`casesLeadOK`; for a leading `.`: keys below END);
    * `LinkedOK G'`, `plainS G'` — as for the default parser (`plainS`: `G'` itself carries no
                           `inl` node; those only arise in the expansion). -/
def inlineSwitchSafe (G G' : Grammar) : Bool :=
  swOK G G' && GrammarOKIS G' && LinkedOK G' && G'.rules.all (fun r => r.body.plainS)

end PegVerif
