import PegVerif.Proofs.KactsDef
import PegVerif.Proofs.FastCheck
/-
  Facts about the kit `Kacts G` (`Proofs/KactsDef.lean`):

  * `Kacts_keep_of_codeOf`   the code of an action rule is kept;
  * `okNB_Kall_Kacts`        an expression in the `-noast` fragment for `Kall G` (everything kept,
                             hence no statement) is in the fragment for `Kacts G`;
  * `noastSafeA_of_Kall`, `inlineNoastSafeA_of_Kall`, `noastSwitchSafeA_of_Kall`,
    `inlineNoastSwitchSafeA_of_Kall`   the four `-noast` side conditions for `Kacts` accept every
                             grammar the `Kall` instances accept (nothing is lost by the switch).
-/
namespace PegVerif
open Noast

@[simp] theorem Kacts_codeOf (G : Grammar) : (Kacts G).codeOf = actionCodeOf G := rfl

@[simp] theorem Kacts_keep (G : Grammar) (c : String) : (Kacts G).keep c = (actionCodes G).contains c := rfl

/-- The code of an action rule is kept by `Kacts G`. -/
theorem Kacts_keep_of_codeOf {G : Grammar} {r c : String} (h : actionCodeOf G r = some c) :
    (Kacts G).keep c = true := by
  rw [Kacts_keep, List.contains_iff_mem]
  unfold actionCodeOf Grammar.body at h
  cases hf : G.find r with
  | none => simp [hf] at h
  | some rr =>
    have hm : rr ∈ G.rules := List.mem_of_find?_eq_some hf
    simp only [hf, Option.map_some] at h
    unfold actionCodes
    rw [List.mem_filterMap]
    refine ⟨rr, hm, ?_⟩
    split at h
    · rename_i code x hb
      simp only [Option.some.injEq] at h
      subst h
      rw [Option.some.injEq] at hb
      rw [hb]
    · cases h

mutual
  /-- The `-noast` fragment for `Kall G` is contained in the one for `Kacts G`. -/
  theorem okNB_Kall_Kacts (G : Grammar) : ∀ e : Expr, e.okNB (Kall G) = true → e.okNB (Kacts G) = true
    | .dot, _ => rfl
    | .chr _, _ => rfl
    | .rng _ _, _ => rfl
    | .str _, _ => rfl
    | .name _, _ => rfl
    | .pred _, _ => rfl
    | .act _, _ => rfl
    | .nil, _ => rfl
    | .stmt c, h => by simp [Expr.okNB, Kall] at h
    | .inl _ e, h => by simp only [Expr.okNB] at h ⊢; exact okNB_Kall_Kacts G e h
    | .peekFor e, h => by simp only [Expr.okNB] at h ⊢; exact okNB_Kall_Kacts G e h
    | .peekNot e, h => by simp only [Expr.okNB] at h ⊢; exact okNB_Kall_Kacts G e h
    | .query e, h => by simp only [Expr.okNB] at h ⊢; exact okNB_Kall_Kacts G e h
    | .star e, h => by simp only [Expr.okNB] at h ⊢; exact okNB_Kall_Kacts G e h
    | .plus e, h => by simp only [Expr.okNB] at h ⊢; exact okNB_Kall_Kacts G e h
    | .seq es, h => by simp only [Expr.okNB] at h ⊢; exact okNLB_Kall_Kacts G es h
    | .alt es, h => by simp only [Expr.okNB] at h ⊢; exact okNLB_Kall_Kacts G es h
    | .ualt _ es, h => by simp only [Expr.okNB] at h ⊢; exact okNLB_Kall_Kacts G es h
    | .push e r, h => by
      simp only [Expr.okNB, Bool.and_eq_true] at h ⊢
      exact ⟨h.1, okNB_Kall_Kacts G e h.2⟩
    | .ipush e r, h => by
      simp only [Expr.okNB, Bool.and_eq_true] at h ⊢
      obtain ⟨⟨h1, h2⟩, h3⟩ := h
      refine ⟨⟨h1, ?_⟩, okNB_Kall_Kacts G e h3⟩
      cases e
      case act c =>
        simp only [Bool.and_eq_true, beq_iff_eq] at h2 ⊢
        exact ⟨h2.1, Kacts_keep_of_codeOf h2.1⟩
      all_goals exact h2
  theorem okNLB_Kall_Kacts (G : Grammar) : ∀ es : List Expr, okNLB (Kall G) es = true → okNLB (Kacts G) es = true
    | [], _ => rfl
    | e :: es, h => by
      simp only [okNLB, Bool.and_eq_true] at h ⊢
      exact ⟨okNB_Kall_Kacts G e h.1, okNLB_Kall_Kacts G es h.2⟩
end

theorem GrammarOKN_Kall_Kacts {G H : Grammar} (h : GrammarOKN (Kall G) H = true) :
    GrammarOKN (Kacts G) H = true := by
  simp only [GrammarOKN, List.all_eq_true] at h ⊢
  exact fun r hr => okNB_Kall_Kacts G _ (h r hr)

theorem GrammarOKNIS_Kall_Kacts {G H : Grammar} (h : GrammarOKNIS (Kall G) H = true) :
    GrammarOKNIS (Kacts G) H = true := by
  simp only [GrammarOKNIS, List.all_eq_true] at h ⊢
  intro r hr
  have := h r hr
  cases hf : H.find r.name with
  | none => rfl
  | some r' =>
    simp only [hf, Bool.or_eq_true, Bool.and_eq_true] at this ⊢
    rcases this with h1 | ⟨h1, h2⟩
    · exact Or.inl h1
    · exact Or.inr ⟨h1, okNB_Kall_Kacts G _ h2⟩

/-- n: nothing is lost. -/
theorem noastSafeA_of_Kall {G : Grammar} (h : GrammarOKN (Kall G) G = true) : noastSafeA G = true :=
  GrammarOKN_Kall_Kacts h

/-- in: nothing is lost. -/
theorem inlineNoastSafeA_of_Kall {G : Grammar} (h : inlineNoastSafe G = true) :
    inlineNoastSafeA G = true := by
  simp only [inlineNoastSafe, inlineNoastSafeA, inlineNoastSafeK, Bool.and_eq_true] at h ⊢
  exact ⟨GrammarOKNIS_Kall_Kacts h.1, h.2⟩

/-- sn: nothing is lost. -/
theorem noastSwitchSafeA_of_Kall {G G' : Grammar} (h : noastSwitchSafe G G' = true) :
    noastSwitchSafeA G G' = true := by
  simp only [noastSwitchSafe, noastSwitchSafeA, noastSwitchSafeKfast_eq, noastSwitchSafeK, GrammarOKNS,
    Bool.and_eq_true] at h ⊢
  exact ⟨⟨h.1.1, h.1.2.1, GrammarOKN_Kall_Kacts h.1.2.2⟩, h.2⟩

/-- isn: nothing is lost. -/
theorem inlineNoastSwitchSafeA_of_Kall {G G' : Grammar} (h : inlineNoastSwitchSafe G G' = true) :
    inlineNoastSwitchSafeA G G' = true := by
  simp only [inlineNoastSwitchSafe, inlineNoastSwitchSafeA, inlineNoastSwitchSafeK, inlineNoastSafeK,
    Bool.and_eq_true] at h ⊢
  exact ⟨h.1, GrammarOKNIS_Kall_Kacts h.2.1, h.2.2⟩

/-- A statement whose code is the code of an action rule is rejected by `Kacts G`. -/
theorem okNB_Kacts_stmt_action {G : Grammar} {r c : String} (h : actionCodeOf G r = some c) :
    (Expr.stmt c).okNB (Kacts G) = false := by
  simp only [Expr.okNB, Kacts_keep_of_codeOf h, Bool.not_true]

end PegVerif

#print axioms PegVerif.Kacts_keep_of_codeOf
#print axioms PegVerif.okNB_Kall_Kacts
#print axioms PegVerif.noastSafeA_of_Kall
#print axioms PegVerif.inlineNoastSafeA_of_Kall
#print axioms PegVerif.noastSwitchSafeA_of_Kall
#print axioms PegVerif.inlineNoastSwitchSafeA_of_Kall
#print axioms PegVerif.okNB_Kacts_stmt_action
