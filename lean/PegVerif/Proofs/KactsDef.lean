import PegVerif.Proofs.LinkNoast
import PegVerif.Proofs.InlineNoastSafeDef
import PegVerif.Proofs.FastCheckDef
/-
  The kit `Kacts G` for `-noast` grammars WITH state-change statements, and the side conditions of
  the four `-noast` option sets instantiated with it.  Definitions only (importable by the driver);
  the facts are in `Proofs/Kacts.lean`.

  Under `-noast` both an action `{c}` and a state-change statement (`.stmt c`) append `(c, text)` to
  the machine's trace, but only actions are events of the semantics.  The refinement theorems
  (`RN`, `RNS`) therefore compare the part of the trace selected by `K.keep` and ask
  (`Expr.okN` / `Expr.okNB`) that every action code is kept and every statement code is not.  The
  kit `Kall G` keeps everything — no grammar with a statement passes `okNB (Kall G)`.  `Kacts G` keeps
  exactly the codes of the action rules of `G`: a grammar with statements passes as long as no
  statement's code coincides with the code of an action (such a statement is still rejected: the
  two trace entries could not be told apart).  The verdict theorems (`C07_verdict`,
  `C07_switch_verdict_world`, …) hold for any kit, so `theoremApplies` uses `Kacts`.
-/
namespace PegVerif
open Noast

/-- The codes of the action rules of a linked grammar (`ActionN <- ipush (act code) "ActionN"`), in
    the order of the rules. -/
def actionCodes (G : Grammar) : List String :=
  G.rules.filterMap fun r => match r.body with
    | .ipush (.act c) _ => some c
    | _ => none

/-- The kit that compares exactly the trace entries of actions: `codeOf` as in `Kall G`, `keep c` =
    "`c` is the code of some action rule of `G`" (the list is computed once per kit). -/
def Kacts (G : Grammar) : NKit :=
  let cs := actionCodes G
  ⟨actionCodeOf G, fun c => cs.contains c⟩

/-- n: the `-noast` fragment, statements allowed. -/
def noastSafeA (G : Grammar) : Bool := GrammarOKN (Kacts G) G

/-- in: `inlineNoastSafeK` (`InlineNoastSafeDef.lean`) for `Kacts G`. -/
def inlineNoastSafeA (G : Grammar) : Bool := inlineNoastSafeK (Kacts G) G

/-- sn: `noastSwitchSafeK` (`NoastSwitchSafeDef.lean`; in its cheap form `noastSwitchSafeKfast`) for
    `Kacts G'`. -/
def noastSwitchSafeA (G G' : Grammar) : Bool := noastSwitchSafeKfast (Kacts G') G G'

/-- isn: `inlineNoastSwitchSafeK` (`InlineNoastSafeDef.lean`) for `Kacts G'`. -/
def inlineNoastSwitchSafeA (G G' : Grammar) : Bool := inlineNoastSwitchSafeK (Kacts G') G G'

end PegVerif
