import PegVerif.Model.Sem
import PegVerif.Model.Compile
/-
  `-switch`: the hypothesis under which an elided terminal test is harmless.

  Inside a `case` of a `switch buffer[position]` the generator sets `parentDetect` (and
  `parentMultipleKey`) on the case body; `compile` hands the two flags down to the node that is
  executed first (`pd pmk` in the model) and a terminal that receives them is printed WITHOUT its
  test:

      chr c   with pd ∧ ¬pmk   ↦  position++
      rng l h with pd ∧ ¬pmk   ↦  position++
      dot     with pd          ↦  position++

  `Lead inp p pd pmk e` says that every test elided in the code of `e` would have passed at
  position `p` (for `dot`: `p` is inside the input).  `&e`, `!e`, `e*` (and `e+`) compile their
  operand with both flags false, so nothing is elided below them.

  `leadOK K pd pmk e` is the decidable check "the symbols of the key set `K` all pass the elided
  tests of `e`"; it implies `Lead` at every position whose symbol is in `K` (`leadOK_sound`).
-/
namespace PegVerif

mutual
  /-- Every terminal test elided by `compile env e ko pd pmk` would pass at `p`. -/
  def Lead (inp : List Sym) (p : Nat) (pd pmk : Bool) : Expr → Prop
    | .chr c => pd = true → pmk = false → peek inp p = c
    | .rng lo hi => pd = true → pmk = false → lo ≤ peek inp p ∧ peek inp p ≤ hi
    | .dot => pd = true → p < inp.length
    | .star _ => True
    | .inl _ e => Lead inp p pd pmk e
    | .push e _ => Lead inp p pd pmk e
    | .ipush e _ => Lead inp p pd pmk e
    | .peekFor _ => True
    | .peekNot _ => True
    | .query e => Lead inp p pd pmk e
    | .seq es => LeadL inp p pd pmk es
    | .alt es => LeadL inp p pd pmk es
    | .str _ => True
    | .name _ => True
    | .pred _ => True
    | .stmt _ => True
    | .act _ => True
    | .ualt _ _ => True
    | .plus _ => True
    | .nil => True
  /-- Only the first element of a sequence / choice inherits the flags. -/
  def LeadL (inp : List Sym) (p : Nat) (pd pmk : Bool) : List Expr → Prop
    | [] => True
    | e :: _ => Lead inp p pd pmk e
end

mutual
  /-- Without `parentDetect` nothing is elided. -/
  theorem Lead_false (inp : List Sym) (p : Nat) (pmk : Bool) : ∀ e : Expr, Lead inp p false pmk e
    | .chr _ => by simp [Lead]
    | .rng _ _ => by simp [Lead]
    | .dot => by simp [Lead]
    | .star _ => by simp [Lead]
    | .inl _ e => by simp only [Lead]; exact Lead_false inp p pmk e
    | .push e _ => by simp only [Lead]; exact Lead_false inp p pmk e
    | .ipush e _ => by simp only [Lead]; exact Lead_false inp p pmk e
    | .peekFor _ => by simp [Lead]
    | .peekNot _ => by simp [Lead]
    | .query e => by simp only [Lead]; exact Lead_false inp p pmk e
    | .seq es => by simp only [Lead]; exact LeadL_false inp p pmk es
    | .alt es => by simp only [Lead]; exact LeadL_false inp p pmk es
    | .str _ => by simp [Lead]
    | .name _ => by simp [Lead]
    | .pred _ => by simp [Lead]
    | .stmt _ => by simp [Lead]
    | .act _ => by simp [Lead]
    | .ualt _ _ => by simp [Lead]
    | .plus _ => by simp [Lead]
    | .nil => by simp [Lead]
  theorem LeadL_false (inp : List Sym) (p : Nat) (pmk : Bool) : ∀ es : List Expr, LeadL inp p false pmk es
    | [] => by simp [LeadL]
    | e :: _ => by simp only [LeadL]; exact Lead_false inp p pmk e
end

/-! ### The decidable check against a key set -/

/-- Every code point of `K` lies in `[lo, hi]` (empty ranges of `K` ignored). -/
def keysWithin (K : KeySet) (lo hi : Nat) : Bool :=
  K.all (fun r => decide (r.2 < r.1) || (decide (lo ≤ r.1) && decide (r.2 ≤ hi)))

theorem keysWithin_sound {K : KeySet} {lo hi c : Nat} (h : keysWithin K lo hi = true)
    (hc : K.has c = true) : lo ≤ c ∧ c ≤ hi := by
  simp only [KeySet.has, List.any_eq_true, Bool.and_eq_true, decide_eq_true_eq] at hc
  obtain ⟨r, hr, h1, h2⟩ := hc
  have := List.all_eq_true.mp h r hr
  simp only [Bool.or_eq_true, Bool.and_eq_true, decide_eq_true_eq] at this
  omega

/-- Every code point of `K` is below the end symbol (empty ranges of `K` ignored): a position whose
    symbol is in `K` is inside the input. -/
def keysBelowEnd (K : KeySet) : Bool :=
  K.all (fun r => decide (r.2 < r.1) || decide (r.2 < END))

theorem keysBelowEnd_sound {K : KeySet} {c : Nat} (h : keysBelowEnd K = true)
    (hc : K.has c = true) : c < END := by
  simp only [KeySet.has, List.any_eq_true, Bool.and_eq_true, decide_eq_true_eq] at hc
  obtain ⟨r, hr, h1, h2⟩ := hc
  have := List.all_eq_true.mp h r hr
  simp only [Bool.or_eq_true, decide_eq_true_eq] at this
  omega

/-- `peek` is the end symbol beyond the input. -/
theorem lt_length_of_peek_lt {inp : List Sym} {p : Nat} (h : peek inp p < END) : p < inp.length := by
  apply Classical.byContradiction
  intro hn
  have : inp[p]? = none := List.getElem?_eq_none (by omega)
  simp [peek, this] at h

mutual
  /-- The symbols of `K` pass every test that `compile env e ko pd pmk` elides. -/
  def leadOK (K : KeySet) (pd pmk : Bool) : Expr → Bool
    | .chr c => !pd || pmk || keysWithin K c c
    | .rng lo hi => !pd || pmk || keysWithin K lo hi
    | .dot => !pd || keysBelowEnd K
    | .star _ => true
    | .inl _ e => leadOK K pd pmk e
    | .push e _ => leadOK K pd pmk e
    | .ipush e _ => leadOK K pd pmk e
    | .peekFor _ => true
    | .peekNot _ => true
    | .query e => leadOK K pd pmk e
    | .seq es => leadOKL K pd pmk es
    | .alt es => leadOKL K pd pmk es
    | .str _ => true
    | .name _ => true
    | .pred _ => true
    | .stmt _ => true
    | .act _ => true
    | .ualt _ _ => true
    | .plus _ => true
    | .nil => true
  def leadOKL (K : KeySet) (pd pmk : Bool) : List Expr → Bool
    | [] => true
    | e :: _ => leadOK K pd pmk e
end

mutual
  theorem leadOK_sound {K : KeySet} {inp : List Sym} {p : Nat} {pd pmk : Bool}
      (hK : K.has (peek inp p) = true) : ∀ e : Expr, leadOK K pd pmk e = true → Lead inp p pd pmk e
    | .chr c, h => by
      simp only [Lead]
      intro hpd hpmk
      subst hpd; subst hpmk
      simp only [leadOK, Bool.not_true, Bool.false_or] at h
      have := keysWithin_sound h hK
      omega
    | .rng lo hi, h => by
      simp only [Lead]
      intro hpd hpmk
      subst hpd; subst hpmk
      simp only [leadOK, Bool.not_true, Bool.false_or] at h
      exact keysWithin_sound h hK
    | .dot, h => by
      simp only [Lead]
      intro hpd
      subst hpd
      simp only [leadOK, Bool.not_true, Bool.false_or] at h
      exact lt_length_of_peek_lt (keysBelowEnd_sound h hK)
    | .star _, _ => by simp [Lead]
    | .inl _ e, h => by simp only [Lead]; exact leadOK_sound hK e (by simpa only [leadOK] using h)
    | .push e _, h => by simp only [Lead]; exact leadOK_sound hK e (by simpa only [leadOK] using h)
    | .ipush e _, h => by simp only [Lead]; exact leadOK_sound hK e (by simpa only [leadOK] using h)
    | .peekFor _, _ => by simp [Lead]
    | .peekNot _, _ => by simp [Lead]
    | .query e, h => by simp only [Lead]; exact leadOK_sound hK e (by simpa only [leadOK] using h)
    | .seq es, h => by simp only [Lead]; exact leadOKL_sound hK es (by simpa only [leadOK] using h)
    | .alt es, h => by simp only [Lead]; exact leadOKL_sound hK es (by simpa only [leadOK] using h)
    | .str _, _ => by simp [Lead]
    | .name _, _ => by simp [Lead]
    | .pred _, _ => by simp [Lead]
    | .stmt _, _ => by simp [Lead]
    | .act _, _ => by simp [Lead]
    | .ualt _ _, _ => by simp [Lead]
    | .plus _, _ => by simp [Lead]
    | .nil, _ => by simp [Lead]
  theorem leadOKL_sound {K : KeySet} {inp : List Sym} {p : Nat} {pd pmk : Bool}
      (hK : K.has (peek inp p) = true) : ∀ es : List Expr, leadOKL K pd pmk es = true →
      LeadL inp p pd pmk es
    | [], _ => by simp [LeadL]
    | e :: _, h => by simp only [LeadL]; exact leadOK_sound hK e (by simpa only [leadOKL] using h)
end

/-- The cases of a `TypeUnorderedAlternate`, walked the way `compileCases` walks them: every case
    but the last (the `default:`) has a key set, and its body passes `leadOK` for that key set with
    `parentDetect = true`, `parentMultipleKey = (more than one key)`. -/
def casesLeadOK : List KeySet → List Expr → Bool
  | _, [] => true
  | _, [_] => true
  | [], _ :: _ :: _ => false
  | K :: ks, e :: e' :: es => leadOK K true (decide (K.card > 1)) e && casesLeadOK ks (e' :: es)

/-! ### `parentMultipleKey` is irrelevant without `parentDetect` -/

mutual
  theorem compile_pd_false (env : CEnv) : ∀ (e : Expr) (ko : Nat) (pmk : Bool) (st : CSt),
      compile env e ko false pmk st = compile env e ko false false st
    | .dot, ko, pmk, st => by simp only [compile]
    | .name n, ko, pmk, st => by simp only [compile]
    | .inl n e, ko, pmk, st => by
      have h := compile_pd_false env e ko pmk st
      simp only [compile, h]
    | .rng lo hi, ko, pmk, st => by simp [compile]
    | .chr c, ko, pmk, st => by simp [compile]
    | .str s, ko, pmk, st => by simp only [compile]
    | .pred c, ko, pmk, st => by simp only [compile]
    | .stmt c, ko, pmk, st => by simp only [compile]
    | .act c, ko, pmk, st => by simp only [compile]
    | .nil, ko, pmk, st => by simp only [compile]
    | .push e r, ko, pmk, st => by
      have h := compile_pd_false env e ko pmk { st with label := st.label + 1 }
      cases e <;> (try rfl) <;> (unfold compile; simp only [h])
    | .ipush e r, ko, pmk, st => by
      have h := compile_pd_false env e ko pmk { st with label := st.label + 1 }
      cases e <;> (try rfl) <;> (unfold compile; simp only [h])
    | .alt es, ko, pmk, st => by
      have h := compileAlt_pd_false env es st.label ko pmk { st with label := st.label + 1 }
      simp only [compile, h]
    | .ualt ks es, ko, pmk, st => by simp only [compile]
    | .seq es, ko, pmk, st => by
      have h := compileSeq_pd_false env es ko pmk st
      simp only [compile, h]
    | .peekFor e, ko, pmk, st => by simp only [compile]
    | .peekNot e, ko, pmk, st => by simp only [compile]
    | .query e, ko, pmk, st => by
      have h := compile_pd_false env e st.label pmk { st with label := st.label + 2 }
      simp only [compile, h]
    | .star e, ko, pmk, st => by simp only [compile]
    | .plus e, ko, pmk, st => by simp only [compile]
  theorem compileSeq_pd_false (env : CEnv) : ∀ (es : List Expr) (ko : Nat) (pmk : Bool) (st : CSt),
      compileSeq env es ko false pmk st = compileSeq env es ko false false st
    | [], ko, pmk, st => by simp only [compileSeq]
    | [e], ko, pmk, st => by
      have h := compile_pd_false env e ko pmk st
      simp only [compileSeq, h]
    | e :: e' :: es, ko, pmk, st => by
      have h := compile_pd_false env e ko pmk st
      simp only [compileSeq, h]
  theorem compileAlt_pd_false (env : CEnv) : ∀ (es : List Expr) (ok ko : Nat) (pmk : Bool) (st : CSt),
      compileAlt env es ok ko false pmk st = compileAlt env es ok ko false false st
    | [], ok, ko, pmk, st => by simp only [compileAlt]
    | [e], ok, ko, pmk, st => by
      have h := compile_pd_false env e ko pmk st
      simp only [compileAlt, h]
    | e :: e' :: es, ok, ko, pmk, st => by
      have h := compile_pd_false env e st.label pmk { st with label := st.label + 1 }
      simp only [compileAlt, h]
end

end PegVerif
