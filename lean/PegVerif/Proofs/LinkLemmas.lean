import PegVerif.Proofs.RefineDefs
/-
  The structural fields of `World` for the program produced by `compileAll` (no `-switch` nodes in
  the grammar, `-inline` off, AST mode):

  * `compile_st_indep`    the label/switch counters do not depend on the environment, the failure
                          label or the `parentDetect` flags: dry and real pass number identically;
  * `compile_labels`      labels printed by a fragment lie in `[st.label, st'.label)` and are
                          pairwise distinct (`LabIn`), hence `ruleFunc_uniq`;
  * `compile_jumps_indep` without `ualt` the jumps do not depend on `env.used`/`env.dry`/`env.ast`,
                          hence every jump of the real pass was recorded by the dry pass;
  * `compileRules_find`   shape of the entries of the emitted program;
  * `compileAll_world`    the `World` of `compileAll`.
-/
namespace PegVerif

/-! ### 1. The counters depend on nothing but the expression and the entry counters -/

mutual
  theorem compile_st_indep (env env' : CEnv) :
      ∀ (e : Expr) (ko ko' : Nat) (pd pmk pd' pmk' : Bool) (st : CSt),
      (compile env e ko pd pmk st).st = (compile env' e ko' pd' pmk' st).st
    | .dot, ko, ko', pd, pmk, pd', pmk', st => by simp only [compile]
    | .name n, ko, ko', pd, pmk, pd', pmk', st => by simp only [compile]
    | .inl n e, ko, ko', pd, pmk, pd', pmk', st => by
      simpa only [compile] using compile_st_indep env env' e ko ko' pd pmk pd' pmk' st
    | .rng lo hi, ko, ko', pd, pmk, pd', pmk', st => by simp only [compile]
    | .chr c, ko, ko', pd, pmk, pd', pmk', st => by simp only [compile]
    | .str s, ko, ko', pd, pmk, pd', pmk', st => by simp only [compile]
    | .pred c, ko, ko', pd, pmk, pd', pmk', st => by simp only [compile]
    | .stmt c, ko, ko', pd, pmk, pd', pmk', st => by simp only [compile]
    | .act c, ko, ko', pd, pmk, pd', pmk', st => by simp only [compile]
    | .nil, ko, ko', pd, pmk, pd', pmk', st => by simp only [compile]
    | .push e r, ko, ko', pd, pmk, pd', pmk', st => by
      rw [compile_push_st, compile_push_st]
      exact compile_st_indep env env' e ko ko' pd pmk pd' pmk' _
    | .ipush e r, ko, ko', pd, pmk, pd', pmk', st => by
      rw [compile_ipush_st, compile_ipush_st]
      exact compile_st_indep env env' e ko ko' pd pmk pd' pmk' _
    | .alt es, ko, ko', pd, pmk, pd', pmk', st => by
      have h := compileAlt_st_indep env env' es st.label st.label ko ko' pd pmk pd' pmk'
        ⟨st.label + 1, st.sw⟩
      simp only [compile]; exact h
    | .ualt ks es, ko, ko', pd, pmk, pd', pmk', st => by
      have h := compileCases_st_indep env env' ks es st.sw 0 ko ko' ⟨st.label + 1, st.sw + 1⟩
      simp only [compile]; exact h
    | .seq es, ko, ko', pd, pmk, pd', pmk', st => by
      simpa only [compile] using compileSeq_st_indep env env' es ko ko' pd pmk pd' pmk' st
    | .peekFor e, ko, ko', pd, pmk, pd', pmk', st => by
      have h := compile_st_indep env env' e ko ko' false false false false ⟨st.label + 1, st.sw⟩
      simp only [compile]; exact h
    | .peekNot e, ko, ko', pd, pmk, pd', pmk', st => by
      have h := compile_st_indep env env' e st.label st.label false false false false ⟨st.label + 1, st.sw⟩
      simp only [compile]; exact h
    | .query e, ko, ko', pd, pmk, pd', pmk', st => by
      have h := compile_st_indep env env' e st.label st.label pd pmk pd' pmk' ⟨st.label + 2, st.sw⟩
      simp only [compile]; exact h
    | .star e, ko, ko', pd, pmk, pd', pmk', st => by
      have h := compile_st_indep env env' e (st.label + 1) (st.label + 1) false false false false
        ⟨st.label + 2, st.sw⟩
      simp only [compile]; exact h
    | .plus e, ko, ko', pd, pmk, pd', pmk', st => by
      have h1 := compile_st_indep env env' e ko ko' false false false false ⟨st.label + 2, st.sw⟩
      have h2 := compile_st_indep env env' e (st.label + 1) (st.label + 1) false false false false
        (compile env e ko false false ⟨st.label + 2, st.sw⟩).st
      simp only [compile]; rw [h2, h1]
  theorem compileSeq_st_indep (env env' : CEnv) :
      ∀ (es : List Expr) (ko ko' : Nat) (pd pmk pd' pmk' : Bool) (st : CSt),
      (compileSeq env es ko pd pmk st).st = (compileSeq env' es ko' pd' pmk' st).st
    | [], ko, ko', pd, pmk, pd', pmk', st => by simp only [compileSeq]
    | [e], ko, ko', pd, pmk, pd', pmk', st => by
      simpa only [compileSeq] using compile_st_indep env env' e ko ko' pd pmk pd' pmk' st
    | e :: e' :: es, ko, ko', pd, pmk, pd', pmk', st => by
      have h1 := compile_st_indep env env' e ko ko' pd pmk pd' pmk' st
      have h2 := compileSeq_st_indep env env' (e' :: es) ko ko' false false false false
        (compile env e ko pd pmk st).st
      simp only [compileSeq]; rw [h2, h1]
  theorem compileAlt_st_indep (env env' : CEnv) :
      ∀ (es : List Expr) (ok ok' ko ko' : Nat) (pd pmk pd' pmk' : Bool) (st : CSt),
      (compileAlt env es ok ko pd pmk st).st = (compileAlt env' es ok' ko' pd' pmk' st).st
    | [], ok, ok', ko, ko', pd, pmk, pd', pmk', st => by simp only [compileAlt]
    | [e], ok, ok', ko, ko', pd, pmk, pd', pmk', st => by
      simpa only [compileAlt] using compile_st_indep env env' e ko ko' pd pmk pd' pmk' st
    | e :: e' :: es, ok, ok', ko, ko', pd, pmk, pd', pmk', st => by
      have h1 := compile_st_indep env env' e st.label st.label pd pmk pd' pmk' ⟨st.label + 1, st.sw⟩
      have h2 := compileAlt_st_indep env env' (e' :: es) ok ok' ko ko' false false false false
        (compile env e st.label pd pmk ⟨st.label + 1, st.sw⟩).st
      simp only [compileAlt]; rw [h2, h1]
  theorem compileCases_st_indep (env env' : CEnv) :
      ∀ (ks : List KeySet) (es : List Expr) (sw i done done' : Nat) (st : CSt),
      (compileCases env ks es sw i done st).st = (compileCases env' ks es sw i done' st).st
    | ks, [], sw, i, done, done', st => by simp only [compileCases]
    | ks, [e], sw, i, done, done', st => by
      simpa only [compileCases] using compile_st_indep env env' e done done' false false false false st
    | ks, e :: e' :: es, sw, i, done, done', st => by
      have h1 := compile_st_indep env env' e done done' true
        (decide ((ks.headD []).card > 1)) true
        (decide ((ks.headD []).card > 1)) st
      have h2 := compileCases_st_indep env env' ks.tail (e' :: es) sw (i + 1) done done'
        (compile env e done true (decide ((ks.headD []).card > 1)) st).st
      simp only [compileCases]; rw [h2, h1]
end

/-! ### 2. Labels of a fragment: in `[st.label, st'.label)` and pairwise distinct -/

/-- Number of definitions of label `l` in `c`. -/
def labCnt (l : Nat) (c : Code) : Nat := (labelsOf c).count l

theorem labCnt_nil (l : Nat) : labCnt l [] = 0 := rfl

theorem labCnt_append (l : Nat) (a b : Code) : labCnt l (a ++ b) = labCnt l a + labCnt l b := by
  simp [labCnt, labelsOf_append, List.count_append]

theorem labCnt_cons' (l : Nat) (i : Instr) (c : Code) :
    labCnt l (i :: c) = match i with
      | .label n => (if n = l then 1 else 0) + labCnt l c
      | _ => labCnt l c := by
  cases i <;> simp [labCnt, labelsOf, List.count_cons, Nat.add_comm]

theorem labCnt_ite (l : Nat) (p : Prop) [Decidable p] (a b : Code) :
    labCnt l (if p then a else b) = if p then labCnt l a else labCnt l b := by
  split <;> rfl

theorem labCnt_lbl (env : CEnv) (n l : Nat) :
    labCnt l (env.lbl n) ≤ 1 ∧ (labCnt l (env.lbl n) ≠ 0 → l = n) := by
  unfold CEnv.lbl
  split
  · simp only [labCnt_cons', labCnt_nil]
    split <;> simp_all
  · simp [labCnt_nil]

/-- Every label defined in `c` lies in `[lo, hi)` and is defined once. -/
def LabIn (c : Code) (lo hi : Nat) : Prop :=
  ∀ l, labCnt l c ≤ 1 ∧ (labCnt l c ≠ 0 → lo ≤ l ∧ l < hi)

theorem labCnt_push (l : Nat) (env : CEnv) (e : Expr) (r : String) (ko : Nat) (pd pmk : Bool) (st : CSt) :
    labCnt l (compile env (.push e r) ko pd pmk st).code =
      labCnt l (compile env e ko pd pmk ⟨st.label + 1, st.sw⟩).code := by
  cases e <;> simp only [compile, labCnt_append, labCnt_cons', labCnt_nil, labCnt_ite] <;> simp

theorem labCnt_ipush (l : Nat) (env : CEnv) (e : Expr) (r : String) (ko : Nat) (pd pmk : Bool) (st : CSt) :
    labCnt l (compile env (.ipush e r) ko pd pmk st).code =
      labCnt l (compile env e ko pd pmk ⟨st.label + 1, st.sw⟩).code := by
  cases e <;> simp only [compile, labCnt_append, labCnt_cons', labCnt_nil, labCnt_ite] <;> simp

/-- Closes the range/count goals once the recursive facts are in context. -/
macro "lab_close" : tactic =>
  `(tactic| (simp only [compile, compileSeq, compileAlt, compileCases, labCnt_append, labCnt_cons', labCnt_nil] at *; omega))

mutual
  theorem compile_labels (env : CEnv) : ∀ (e : Expr) (ko : Nat) (pd pmk : Bool) (st : CSt),
      LabIn (compile env e ko pd pmk st).code st.label (compile env e ko pd pmk st).st.label
    | .dot, ko, pd, pmk, st => by
      intro l; simp only [compile, labCnt_ite, labCnt_cons', labCnt_nil]; simp
    | .name n, ko, pd, pmk, st => by
      intro l; simp only [compile, labCnt_ite, labCnt_cons', labCnt_nil]; simp
    | .inl n e, ko, pd, pmk, st => by
      simpa only [compile] using compile_labels env e ko pd pmk st
    | .rng lo hi, ko, pd, pmk, st => by
      intro l; simp only [compile, labCnt_ite, labCnt_cons', labCnt_nil]; simp
    | .chr c, ko, pd, pmk, st => by
      intro l; simp only [compile, labCnt_ite, labCnt_cons', labCnt_nil]; simp
    | .str s, ko, pd, pmk, st => by
      intro l; simp only [compile, labCnt_cons', labCnt_nil]; simp
    | .pred c, ko, pd, pmk, st => by
      intro l; simp only [compile, labCnt_cons', labCnt_nil]; simp
    | .stmt c, ko, pd, pmk, st => by
      intro l; simp only [compile, labCnt_cons', labCnt_nil]; simp
    | .act c, ko, pd, pmk, st => by
      intro l; simp only [compile, labCnt_nil]; simp
    | .nil, ko, pd, pmk, st => by
      intro l; simp only [compile, labCnt_nil]; simp
    | .push e r, ko, pd, pmk, st => by
      intro l
      have h := compile_labels env e ko pd pmk ⟨st.label + 1, st.sw⟩ l
      rw [labCnt_push, compile_push_st]
      dsimp only at h ⊢; omega
    | .ipush e r, ko, pd, pmk, st => by
      intro l
      have h := compile_labels env e ko pd pmk ⟨st.label + 1, st.sw⟩ l
      rw [labCnt_ipush, compile_ipush_st]
      dsimp only at h ⊢; omega
    | .alt es, ko, pd, pmk, st => by
      intro l
      have h := compileAlt_labels env es st.label ko pd pmk ⟨st.label + 1, st.sw⟩ l
      have hm := compileAlt_mono env es st.label ko pd pmk ⟨st.label + 1, st.sw⟩
      have hl := labCnt_lbl env st.label l
      lab_close
    | .ualt ks es, ko, pd, pmk, st => by
      intro l
      have h := compileCases_labels env ks es st.sw 0 ko ⟨st.label + 1, st.sw + 1⟩ l
      have hm := compileCases_mono env ks es st.sw 0 ko ⟨st.label + 1, st.sw + 1⟩
      have hl := labCnt_lbl env st.label l
      lab_close
    | .seq es, ko, pd, pmk, st => by
      simpa only [compile] using compileSeq_labels env es ko pd pmk st
    | .peekFor e, ko, pd, pmk, st => by
      intro l
      have h := compile_labels env e ko false false ⟨st.label + 1, st.sw⟩ l
      lab_close
    | .peekNot e, ko, pd, pmk, st => by
      intro l
      have h := compile_labels env e st.label false false ⟨st.label + 1, st.sw⟩ l
      have hm := compile_mono env e st.label false false ⟨st.label + 1, st.sw⟩
      have hl := labCnt_lbl env st.label l
      lab_close
    | .query e, ko, pd, pmk, st => by
      intro l
      have h := compile_labels env e st.label pd pmk ⟨st.label + 2, st.sw⟩ l
      have hm := compile_mono env e st.label pd pmk ⟨st.label + 2, st.sw⟩
      have hl := labCnt_lbl env st.label l
      have hl' := labCnt_lbl env (st.label + 1) l
      lab_close
    | .star e, ko, pd, pmk, st => by
      intro l
      have h := compile_labels env e (st.label + 1) false false ⟨st.label + 2, st.sw⟩ l
      have hm := compile_mono env e (st.label + 1) false false ⟨st.label + 2, st.sw⟩
      have hl := labCnt_lbl env st.label l
      have hl' := labCnt_lbl env (st.label + 1) l
      lab_close
    | .plus e, ko, pd, pmk, st => by
      intro l
      have h1 := compile_labels env e ko false false ⟨st.label + 2, st.sw⟩ l
      have hm1 := compile_mono env e ko false false ⟨st.label + 2, st.sw⟩
      have h2 := compile_labels env e (st.label + 1) false false
        (compile env e ko false false ⟨st.label + 2, st.sw⟩).st l
      have hm2 := compile_mono env e (st.label + 1) false false
        (compile env e ko false false ⟨st.label + 2, st.sw⟩).st
      have hl := labCnt_lbl env st.label l
      have hl' := labCnt_lbl env (st.label + 1) l
      lab_close
  theorem compileSeq_labels (env : CEnv) : ∀ (es : List Expr) (ko : Nat) (pd pmk : Bool) (st : CSt),
      LabIn (compileSeq env es ko pd pmk st).code st.label (compileSeq env es ko pd pmk st).st.label
    | [], ko, pd, pmk, st => by intro l; simp only [compileSeq, labCnt_nil]; simp
    | [e], ko, pd, pmk, st => by simpa only [compileSeq] using compile_labels env e ko pd pmk st
    | e :: e' :: es, ko, pd, pmk, st => by
      intro l
      have h1 := compile_labels env e ko pd pmk st l
      have hm1 := compile_mono env e ko pd pmk st
      have h2 := compileSeq_labels env (e' :: es) ko false false (compile env e ko pd pmk st).st l
      have hm2 := compileSeq_mono env (e' :: es) ko false false (compile env e ko pd pmk st).st
      simp only [compileSeq, labCnt_append]; omega
  theorem compileAlt_labels (env : CEnv) : ∀ (es : List Expr) (ok ko : Nat) (pd pmk : Bool) (st : CSt),
      LabIn (compileAlt env es ok ko pd pmk st).code st.label (compileAlt env es ok ko pd pmk st).st.label
    | [], ok, ko, pd, pmk, st => by intro l; simp only [compileAlt, labCnt_nil]; simp
    | [e], ok, ko, pd, pmk, st => by simpa only [compileAlt] using compile_labels env e ko pd pmk st
    | e :: e' :: es, ok, ko, pd, pmk, st => by
      intro l
      have h1 := compile_labels env e st.label pd pmk ⟨st.label + 1, st.sw⟩ l
      have hm1 := compile_mono env e st.label pd pmk ⟨st.label + 1, st.sw⟩
      have h2 := compileAlt_labels env (e' :: es) ok ko false false
        (compile env e st.label pd pmk ⟨st.label + 1, st.sw⟩).st l
      have hm2 := compileAlt_mono env (e' :: es) ok ko false false
        (compile env e st.label pd pmk ⟨st.label + 1, st.sw⟩).st
      have hl := labCnt_lbl env st.label l
      simp only [compileAlt, labCnt_append, labCnt_cons', labCnt_nil]
      dsimp only at h1 hm1; omega
  theorem compileCases_labels (env : CEnv) :
      ∀ (ks : List KeySet) (es : List Expr) (sw i done : Nat) (st : CSt),
      LabIn (compileCases env ks es sw i done st).code st.label (compileCases env ks es sw i done st).st.label
    | ks, [], sw, i, done, st => by intro l; simp only [compileCases, labCnt_nil]; simp
    | ks, [e], sw, i, done, st => by
      intro l
      have h := compile_labels env e done false false st l
      simp only [compileCases, labCnt_append, labCnt_cons', labCnt_nil, labCnt_ite]
      split <;> omega
    | ks, e :: e' :: es, sw, i, done, st => by
      intro l
      have h1 := compile_labels env e done true (decide ((ks.headD []).card > 1)) st l
      have hm1 := compile_mono env e done true (decide ((ks.headD []).card > 1)) st
      have h2 := compileCases_labels env ks.tail (e' :: es) sw (i + 1) done
        (compile env e done true (decide ((ks.headD []).card > 1)) st).st l
      have hm2 := compileCases_mono env ks.tail (e' :: es) sw (i + 1) done
        (compile env e done true (decide ((ks.headD []).card > 1)) st).st
      simp only [compileCases, labCnt_append, labCnt_cons', labCnt_nil, labCnt_ite]
      split <;> omega
end

theorem LabIn.mem {c : Code} {lo hi l : Nat} (h : LabIn c lo hi) (hl : l ∈ labelsOf c) :
    lo ≤ l ∧ l < hi :=
  (h l).2 (by unfold labCnt; exact Nat.ne_of_gt (List.count_pos_iff.mpr hl))

theorem LabIn.nodup {c : Code} {lo hi : Nat} (h : LabIn c lo hi) : (labelsOf c).Nodup :=
  List.nodup_iff_count.mpr fun l => (h l).1

/-- Sub-lemma 1 of the task, in `labelsOf` form. -/
theorem compile_labels_range (env : CEnv) (e : Expr) (ko : Nat) (pd pmk : Bool) (st : CSt) :
    (∀ l ∈ labelsOf (compile env e ko pd pmk st).code,
        st.label ≤ l ∧ l < (compile env e ko pd pmk st).st.label) ∧
      (labelsOf (compile env e ko pd pmk st).code).Nodup :=
  ⟨fun _ hl => (compile_labels env e ko pd pmk st).mem hl, (compile_labels env e ko pd pmk st).nodup⟩

theorem labCnt_ruleFunc (l : Nat) (env : CEnv) (r : Rule) (b : Expr) (ko : Nat) (st : CSt) :
    labCnt l (ruleFunc env r b ko st).1 =
      labCnt l (compile env b ko false false st).code + labCnt l (env.lbl ko) := by
  simp only [ruleFunc, CEnv.lbl, labCnt_append, labCnt_cons', labCnt_nil, labCnt_ite]
  repeat' split
  all_goals simp

/-- The body of an emitted rule function defines every label at most once. -/
theorem ruleFunc_uniq (env : CEnv) (r : Rule) (b : Expr) (ko : Nat) (st : CSt) (h : ko < st.label) :
    Uniq (ruleFunc env r b ko st).1 := by
  refine List.nodup_iff_count.mpr fun l => ?_
  have h1 := compile_labels env b ko false false st l
  have h2 := labCnt_lbl env ko l
  have h3 := labCnt_ruleFunc l env r b ko st
  unfold labCnt at h1 h2 h3
  omega

/-! ### 3. Without `ualt`, the jumps do not depend on `used` / `dry` / `ast` -/

mutual
  def Expr.noUalt : Expr → Bool
    | .ualt _ _ => false
    | .inl _ e => e.noUalt
    | .seq es => noUaltL es
    | .alt es => noUaltL es
    | .peekFor e => e.noUalt
    | .peekNot e => e.noUalt
    | .query e => e.noUalt
    | .star e => e.noUalt
    | .plus e => e.noUalt
    | .push e _ => e.noUalt
    | .ipush e _ => e.noUalt
    | _ => true
  def noUaltL : List Expr → Bool
    | [] => true
    | e :: es => e.noUalt && noUaltL es
end

theorem jumps_nil' : jumps [] = [] := rfl

theorem jumps_cons' (i : Instr) (c : Code) :
    jumps (i :: c) = match i.target? with | some l => l :: jumps c | none => jumps c := by
  simp only [jumps, List.filterMap_cons]; cases i.target? <;> rfl

theorem jumps_lbl (env : CEnv) (n : Nat) : jumps (env.lbl n) = [] := by
  unfold CEnv.lbl; split <;> rfl

theorem jumps_ite (p : Prop) [Decidable p] (a b : Code) :
    jumps (if p then a else b) = if p then jumps a else jumps b := by
  split <;> rfl

theorem jumps_push (env : CEnv) (e : Expr) (r : String) (ko : Nat) (pd pmk : Bool) (st : CSt) :
    jumps (compile env (.push e r) ko pd pmk st).code =
      jumps (compile env e ko pd pmk ⟨st.label + 1, st.sw⟩).code := by
  cases e <;>
    simp only [compile, jumps_append, jumps_cons', jumps_nil', jumps_ite, Instr.target?] <;> simp

theorem jumps_ipush (env : CEnv) (e : Expr) (r : String) (ko : Nat) (pd pmk : Bool) (st : CSt) :
    jumps (compile env (.ipush e r) ko pd pmk st).code =
      jumps (compile env e ko pd pmk ⟨st.label + 1, st.sw⟩).code := by
  cases e <;>
    simp only [compile, jumps_append, jumps_cons', jumps_nil', jumps_ite, Instr.target?] <;> simp

mutual
  theorem compile_jumps_indep (env env' : CEnv) (ha : env.always = env'.always) :
      ∀ (e : Expr) (ko : Nat) (pd pmk : Bool) (st : CSt), e.noUalt = true →
      jumps (compile env e ko pd pmk st).code = jumps (compile env' e ko pd pmk st).code
    | .dot, ko, pd, pmk, st, _ => by simp only [compile]
    | .name n, ko, pd, pmk, st, _ => by simp only [compile, ha]
    | .inl n e, ko, pd, pmk, st, h => by
      simpa only [compile] using compile_jumps_indep env env' ha e ko pd pmk st
        (by simpa only [Expr.noUalt] using h)
    | .rng lo hi, ko, pd, pmk, st, _ => by simp only [compile]
    | .chr c, ko, pd, pmk, st, _ => by simp only [compile]
    | .str s, ko, pd, pmk, st, _ => by simp only [compile]
    | .pred c, ko, pd, pmk, st, _ => by simp only [compile]
    | .stmt c, ko, pd, pmk, st, _ => by simp only [compile]
    | .act c, ko, pd, pmk, st, _ => by simp only [compile]
    | .nil, ko, pd, pmk, st, _ => by simp only [compile]
    | .push e r, ko, pd, pmk, st, h => by
      rw [jumps_push, jumps_push]
      exact compile_jumps_indep env env' ha e ko pd pmk _ (by simpa only [Expr.noUalt] using h)
    | .ipush e r, ko, pd, pmk, st, h => by
      rw [jumps_ipush, jumps_ipush]
      exact compile_jumps_indep env env' ha e ko pd pmk _ (by simpa only [Expr.noUalt] using h)
    | .alt es, ko, pd, pmk, st, h => by
      have h1 := compileAlt_jumps_indep env env' ha es st.label ko pd pmk ⟨st.label + 1, st.sw⟩
        (by simpa only [Expr.noUalt] using h)
      simp only [compile, jumps_append, jumps_lbl, h1]
    | .ualt ks es, ko, pd, pmk, st, h => by simp [Expr.noUalt] at h
    | .seq es, ko, pd, pmk, st, h => by
      simpa only [compile] using compileSeq_jumps_indep env env' ha es ko pd pmk st
        (by simpa only [Expr.noUalt] using h)
    | .peekFor e, ko, pd, pmk, st, h => by
      have h1 := compile_jumps_indep env env' ha e ko false false ⟨st.label + 1, st.sw⟩
        (by simpa only [Expr.noUalt] using h)
      simp only [compile, jumps_append, h1]
    | .peekNot e, ko, pd, pmk, st, h => by
      have h1 := compile_jumps_indep env env' ha e st.label false false ⟨st.label + 1, st.sw⟩
        (by simpa only [Expr.noUalt] using h)
      simp only [compile, jumps_append, jumps_lbl, h1]
    | .query e, ko, pd, pmk, st, h => by
      have h1 := compile_jumps_indep env env' ha e st.label pd pmk ⟨st.label + 2, st.sw⟩
        (by simpa only [Expr.noUalt] using h)
      simp only [compile, jumps_append, jumps_lbl, h1]
    | .star e, ko, pd, pmk, st, h => by
      have h1 := compile_jumps_indep env env' ha e (st.label + 1) false false ⟨st.label + 2, st.sw⟩
        (by simpa only [Expr.noUalt] using h)
      simp only [compile, jumps_append, jumps_lbl, h1]
    | .plus e, ko, pd, pmk, st, h => by
      have h' : e.noUalt = true := by simpa only [Expr.noUalt] using h
      have hs := compile_st_indep env env' e ko ko false false false false ⟨st.label + 2, st.sw⟩
      have h1 := compile_jumps_indep env env' ha e ko false false ⟨st.label + 2, st.sw⟩ h'
      have h2 := compile_jumps_indep env env' ha e (st.label + 1) false false
        (compile env e ko false false ⟨st.label + 2, st.sw⟩).st h'
      simp only [compile, jumps_append, jumps_lbl, h1, ← hs, h2]
  theorem compileSeq_jumps_indep (env env' : CEnv) (ha : env.always = env'.always) :
      ∀ (es : List Expr) (ko : Nat) (pd pmk : Bool) (st : CSt), noUaltL es = true →
      jumps (compileSeq env es ko pd pmk st).code = jumps (compileSeq env' es ko pd pmk st).code
    | [], ko, pd, pmk, st, _ => by simp only [compileSeq]
    | [e], ko, pd, pmk, st, h => by
      simpa only [compileSeq] using compile_jumps_indep env env' ha e ko pd pmk st
        (by simpa [noUaltL] using h)
    | e :: e' :: es, ko, pd, pmk, st, h => by
      have h' : e.noUalt = true ∧ noUaltL (e' :: es) = true := by
        rw [noUaltL] at h; simpa using h
      have hs := compile_st_indep env env' e ko ko pd pmk pd pmk st
      have h1 := compile_jumps_indep env env' ha e ko pd pmk st h'.1
      have h2 := compileSeq_jumps_indep env env' ha (e' :: es) ko false false
        (compile env e ko pd pmk st).st h'.2
      simp only [compileSeq, jumps_append, h1, ← hs, h2]
  theorem compileAlt_jumps_indep (env env' : CEnv) (ha : env.always = env'.always) :
      ∀ (es : List Expr) (ok ko : Nat) (pd pmk : Bool) (st : CSt), noUaltL es = true →
      jumps (compileAlt env es ok ko pd pmk st).code = jumps (compileAlt env' es ok ko pd pmk st).code
    | [], ok, ko, pd, pmk, st, _ => by simp only [compileAlt]
    | [e], ok, ko, pd, pmk, st, h => by
      simpa only [compileAlt] using compile_jumps_indep env env' ha e ko pd pmk st
        (by simpa [noUaltL] using h)
    | e :: e' :: es, ok, ko, pd, pmk, st, h => by
      have h' : e.noUalt = true ∧ noUaltL (e' :: es) = true := by
        rw [noUaltL] at h; simpa using h
      have hs := compile_st_indep env env' e st.label st.label pd pmk pd pmk ⟨st.label + 1, st.sw⟩
      have h1 := compile_jumps_indep env env' ha e st.label pd pmk ⟨st.label + 1, st.sw⟩ h'.1
      have h2 := compileAlt_jumps_indep env env' ha (e' :: es) ok ko false false
        (compile env e st.label pd pmk ⟨st.label + 1, st.sw⟩).st h'.2
      simp only [compileAlt, jumps_append, jumps_lbl, h1, ← hs, h2]
end

theorem jumps_ruleFunc (env : CEnv) (r : Rule) (b : Expr) (ko : Nat) (st : CSt) :
    jumps (ruleFunc env r b ko st).1 = jumps (compile env b ko false false st).code := by
  simp only [ruleFunc, jumps_append, jumps_cons', jumps_nil', jumps_ite, Instr.target?]
  repeat' split
  all_goals simp

/-! ### 4. The per-rule loop -/

/-- The `_rules` entry `compileRules` emits for `r` when the counters are `st`. -/
def slotCode (o : Opts) (env : CEnv) (cnt : String → Nat) (bodyOf : Rule → Expr) (r : Rule)
    (st : CSt) : Option Code :=
  match slotOf o cnt r st.label with
  | .func => some (ruleFunc env r (bodyOf r) st.label ⟨st.label + 1, st.sw⟩).1
  | _ => none

/-- The counters after the entry of `r`. -/
def slotSt (o : Opts) (env : CEnv) (cnt : String → Nat) (bodyOf : Rule → Expr) (r : Rule)
    (st : CSt) : CSt :=
  match slotOf o cnt r st.label with
  | .undefinedNil => st
  | .func => (ruleFunc env r (bodyOf r) st.label ⟨st.label + 1, st.sw⟩).2
  | _ => ⟨st.label + 1, st.sw⟩

theorem compileRules_cons (o : Opts) (env : CEnv) (cnt : String → Nat) (bodyOf : Rule → Expr)
    (r : Rule) (rs : List Rule) (st : CSt) :
    compileRules o env cnt bodyOf (r :: rs) st =
      ⟨r.name, slotCode o env cnt bodyOf r st⟩ ::
        compileRules o env cnt bodyOf rs (slotSt o env cnt bodyOf r st) := by
  rw [compileRules]; unfold slotCode slotSt
  cases slotOf o cnt r st.label <;> rfl

theorem slotSt_indep (o : Opts) (env env' : CEnv) (cnt : String → Nat) (bodyOf : Rule → Expr)
    (r : Rule) (st : CSt) : slotSt o env cnt bodyOf r st = slotSt o env' cnt bodyOf r st := by
  unfold slotSt
  cases slotOf o cnt r st.label <;> simp only [ruleFunc]
  exact compile_st_indep env env' _ _ _ _ _ _ _ _

theorem Program.find_cons (rc : RuleCode) (P : Program) (n : String) :
    Program.find (rc :: P) n = if rc.name == n then rc.code else Program.find P n := by
  unfold Program.find
  simp only [List.find?_cons]
  cases h : rc.name == n <;> simp

theorem foldl_jumps_mem (f : List Nat → RuleCode → List Nat)
    (hf : ∀ acc r, f acc r = acc ++ (match r.code with | some c => jumps c | none => []))
    (l : Nat) : ∀ (P : Program) (acc : List Nat),
      l ∈ P.foldl f acc ↔ (l ∈ acc ∨ ∃ rc ∈ P, ∃ c, rc.code = some c ∧ l ∈ jumps c)
  | [], acc => by simp
  | q :: Q, acc => by
    rw [List.foldl_cons, foldl_jumps_mem f hf l Q, hf]
    cases hq : q.code with
    | none => simp [hq]
    | some c => simp [hq, or_assoc]

theorem Program.mem_jumps {P : Program} {l : Nat} :
    l ∈ P.jumps ↔ ∃ rc ∈ P, ∃ c, rc.code = some c ∧ l ∈ PegVerif.jumps c := by
  unfold Program.jumps
  rw [foldl_jumps_mem _ (fun acc r => by cases r with | mk nm code => cases code <;> simp) l P []]
  simp

theorem slotCode_eq_some {o : Opts} {env : CEnv} {cnt : String → Nat} {bodyOf : Rule → Expr}
    {r : Rule} {st : CSt} {cr : Code} (h : slotCode o env cnt bodyOf r st = some cr) :
    slotOf o cnt r st.label = .func ∧
      cr = (ruleFunc env r (bodyOf r) st.label ⟨st.label + 1, st.sw⟩).1 := by
  unfold slotCode at h
  cases hs : slotOf o cnt r st.label <;> simp [hs] at h
  exact ⟨rfl, h.symm⟩

/-- Sub-lemma 3 (with the dry/real comparison of sub-lemma 2 built in): an emitted function is the
    `ruleFunc` of the first rule with that name, and its jumps were printed by any other pass that
    agrees on `always` (in particular the dry pass). -/
theorem compileRules_find {o : Opts} {env env' : CEnv} {cnt : String → Nat} {bodyOf : Rule → Expr}
    (ha : env.always = env'.always) (n : String) :
    ∀ (rules : List Rule) (st : CSt) (cr : Code),
      (compileRules o env cnt bodyOf rules st).find n = some cr →
      ∃ (r : Rule) (ko sw : Nat), rules.find? (fun r => r.name == n) = some r ∧
        slotOf o cnt r ko = .func ∧ cr = (ruleFunc env r (bodyOf r) ko ⟨ko + 1, sw⟩).1 ∧
        ((bodyOf r).noUalt = true →
          ∀ l ∈ jumps cr, l ∈ (compileRules o env' cnt bodyOf rules st).jumps)
  | [], st, cr, h => by simp [compileRules, Program.find] at h
  | r :: rs, st, cr, h => by
    rw [compileRules_cons, Program.find_cons] at h
    rw [compileRules_cons]
    dsimp only at h
    by_cases hn : (r.name == n) = true
    · rw [if_pos hn] at h
      obtain ⟨hs, hcr⟩ := slotCode_eq_some h
      refine ⟨r, st.label, st.sw, by simp [hn], hs, hcr, ?_⟩
      · intro hb l hl
        refine Program.mem_jumps.mpr ⟨⟨r.name, slotCode o env' cnt bodyOf r st⟩,
          List.mem_cons_self .., (ruleFunc env' r (bodyOf r) st.label ⟨st.label + 1, st.sw⟩).1,
          by simp [slotCode, hs], ?_⟩
        rw [jumps_ruleFunc, ← compile_jumps_indep env env' ha _ _ _ _ _ hb, ← jumps_ruleFunc, ← hcr]
        exact hl
    · rw [if_neg hn] at h
      obtain ⟨r', ko, sw, h1, h2, h3, h4⟩ := compileRules_find ha n rs _ cr h
      refine ⟨r', ko, sw, by simp [hn, h1], h2, h3, ?_⟩
      intro hb l hl
      have := h4 hb l hl
      rw [slotSt_indep o env env'] at this
      obtain ⟨rc, hrc, c, hc, hlc⟩ := Program.mem_jumps.mp this
      exact Program.mem_jumps.mpr ⟨rc, List.mem_cons_of_mem _ hrc, c, hc, hlc⟩

/-! ### 5. The checkable condition on the input grammar -/

def Expr.isNil : Expr → Bool
  | .nil => true
  | _ => false

/-- Without `-inline` the slot of a rule does not depend on the label counter. -/
theorem slotOf_noinline {o : Opts} (hinl : o.inline = false) (cnt : String → Nat) (r : Rule) (ko : Nat) :
    slotOf o cnt r ko =
      if r.body.isNil then .undefinedNil else if cnt r.name == 0 then .unusedNil else .func := by
  unfold slotOf
  split <;> simp_all [Expr.isNil]

/-- "The rule named `n` gets a function" (`-inline` off): the first rule with that name has a
    body other than `nil` and is referenced from a rule reached from the first rule. -/
def hasFunc (G : Grammar) (n : String) : Bool :=
  match G.find n with
  | some r => !r.body.isNil && rulesCount G r.name != 0
  | none => false

mutual
  /-- The decidable version of `Expr.fine`; `d n` = "rule `n` gets a function". -/
  def Expr.okB (d : String → Bool) : Expr → Bool
    | .chr c => c != END
    | .rng _ hi => decide (hi < END)
    | .str _ => false
    | .name n => d n
    | .inl _ e => e.okB d
    | .seq es => okBL d es
    | .alt es => okBL d es
    | .ualt _ _ => false
    | .peekFor e => e.okB d
    | .peekNot e => e.okB d
    | .query e => e.okB d
    | .star e => e.okB d
    | .plus e => e.okB d
    | .push e _ => e.okB d
    | .ipush e _ => e.okB d
    | _ => true
  def okBL (d : String → Bool) : List Expr → Bool
    | [] => true
    | e :: es => e.okB d && okBL d es
end

/-- A rule is fine if it gets no function, or its body is in the fragment of `Expr.fine` and only
    references rules that get a function. -/
def ruleOK (G : Grammar) (r : Rule) : Bool :=
  r.body.isNil || rulesCount G r.name == 0 || r.body.okB (hasFunc G)

/-- The condition on the (linked) input grammar: every rule that `t.Rules[name]` can return (the
    first of its name) is `ruleOK`.  Rule names need not be distinct and no particular shape of the
    bodies (`ipush`) is required. -/
def GrammarOK (G : Grammar) : Bool :=
  G.rules.all fun r => match G.find r.name with
    | some r' => ruleOK G r'
    | none => true

theorem GrammarOK.rule {G : Grammar} (hG : GrammarOK G = true) {n : String} {r : Rule}
    (h : G.find n = some r) : ruleOK G r = true := by
  unfold Grammar.find at h
  have hmem := List.mem_of_find?_eq_some h
  have hname : r.name = n := by simpa using List.find?_some h
  have := List.all_eq_true.mp hG r hmem
  unfold Grammar.find at this
  rw [hname, h] at this
  exact this

mutual
  theorem okB_noUalt (d : String → Bool) : ∀ (e : Expr), e.okB d = true → e.noUalt = true
    | .dot, _ => rfl
    | .chr _, _ => rfl
    | .rng _ _, _ => rfl
    | .str _, _ => rfl
    | .name _, _ => rfl
    | .pred _, _ => rfl
    | .stmt _, _ => rfl
    | .act _, _ => rfl
    | .nil, _ => rfl
    | .ualt _ _, h => by simp [Expr.okB] at h
    | .inl _ e, h => by
      simp only [Expr.okB] at h; simp only [Expr.noUalt]; exact okB_noUalt d e h
    | .seq es, h => by
      simp only [Expr.okB] at h; simp only [Expr.noUalt]; exact okBL_noUaltL d es h
    | .alt es, h => by
      simp only [Expr.okB] at h; simp only [Expr.noUalt]; exact okBL_noUaltL d es h
    | .peekFor e, h => by
      simp only [Expr.okB] at h; simp only [Expr.noUalt]; exact okB_noUalt d e h
    | .peekNot e, h => by
      simp only [Expr.okB] at h; simp only [Expr.noUalt]; exact okB_noUalt d e h
    | .query e, h => by
      simp only [Expr.okB] at h; simp only [Expr.noUalt]; exact okB_noUalt d e h
    | .star e, h => by
      simp only [Expr.okB] at h; simp only [Expr.noUalt]; exact okB_noUalt d e h
    | .plus e, h => by
      simp only [Expr.okB] at h; simp only [Expr.noUalt]; exact okB_noUalt d e h
    | .push e _, h => by
      simp only [Expr.okB] at h; simp only [Expr.noUalt]; exact okB_noUalt d e h
    | .ipush e _, h => by
      simp only [Expr.okB] at h; simp only [Expr.noUalt]; exact okB_noUalt d e h
  theorem okBL_noUaltL (d : String → Bool) : ∀ (es : List Expr), okBL d es = true → noUaltL es = true
    | [], _ => rfl
    | e :: es, h => by
      simp only [okBL, Bool.and_eq_true] at h
      simp only [noUaltL, Bool.and_eq_true]
      exact ⟨okB_noUalt d e h.1, okBL_noUaltL d es h.2⟩
end

mutual
  /-- Sub-lemma 4: the checked predicate implies `Expr.fine`. -/
  theorem okB_fine {P : Program} {d : String → Bool}
      (hd : ∀ n, d n = true → (P.find n).isSome = true) : ∀ (e : Expr), e.okB d = true → e.fine P
    | .dot, _ => by simp only [Expr.fine]
    | .chr c, h => by simpa [Expr.okB, Expr.fine] using h
    | .rng _ hi, h => by simpa [Expr.okB, Expr.fine] using h
    | .str _, h => by simp [Expr.okB] at h
    | .name n, h => by simp only [Expr.okB] at h; simp only [Expr.fine]; exact hd n h
    | .pred _, _ => by simp only [Expr.fine]
    | .stmt _, _ => by simp only [Expr.fine]
    | .act _, _ => by simp only [Expr.fine]
    | .nil, _ => by simp only [Expr.fine]
    | .ualt _ _, h => by simp [Expr.okB] at h
    | .inl _ e, h => by
      simp only [Expr.okB] at h; simp only [Expr.fine]; exact okB_fine hd e h
    | .seq es, h => by
      simp only [Expr.okB] at h; simp only [Expr.fine]; exact okBL_fineL hd es h
    | .alt es, h => by
      simp only [Expr.okB] at h; simp only [Expr.fine]; exact okBL_fineL hd es h
    | .peekFor e, h => by
      simp only [Expr.okB] at h; simp only [Expr.fine]; exact okB_fine hd e h
    | .peekNot e, h => by
      simp only [Expr.okB] at h; simp only [Expr.fine]; exact okB_fine hd e h
    | .query e, h => by
      simp only [Expr.okB] at h; simp only [Expr.fine]; exact okB_fine hd e h
    | .star e, h => by
      simp only [Expr.okB] at h; simp only [Expr.fine]; exact okB_fine hd e h
    | .plus e, h => by
      simp only [Expr.okB] at h; simp only [Expr.fine]; exact okB_fine hd e h
    | .push e _, h => by
      simp only [Expr.okB] at h; simp only [Expr.fine]; exact okB_fine hd e h
    | .ipush e _, h => by
      simp only [Expr.okB] at h; simp only [Expr.fine]; exact okB_fine hd e h
  theorem okBL_fineL {P : Program} {d : String → Bool}
      (hd : ∀ n, d n = true → (P.find n).isSome = true) : ∀ (es : List Expr), okBL d es = true → fineL P es
    | [], _ => by simp only [fineL]
    | e :: es, h => by
      simp only [okBL, Bool.and_eq_true] at h
      simp only [fineL]
      exact ⟨okB_fine hd e h.1, okBL_fineL hd es h.2⟩
end

/-- Converse direction of `compileRules_find` (`-inline` off): a rule that gets a function has an
    entry with code. -/
theorem compileRules_find_isSome {o : Opts} (hinl : o.inline = false) (env : CEnv)
    (cnt : String → Nat) (bodyOf : Rule → Expr) (n : String) :
    ∀ (rules : List Rule) (st : CSt) (r : Rule), rules.find? (fun r => r.name == n) = some r →
      r.body.isNil = false → cnt r.name ≠ 0 →
      ((compileRules o env cnt bodyOf rules st).find n).isSome = true
  | [], st, r, h, _, _ => by simp at h
  | q :: qs, st, r, h, hb, hc => by
    rw [compileRules_cons, Program.find_cons]
    dsimp only
    rw [List.find?_cons] at h
    cases hn : q.name == n with
    | true =>
      rw [hn] at h
      have : q = r := by simpa using h
      subst this
      simp [slotCode, slotOf_noinline hinl, hb, hc]
    | false =>
      rw [hn] at h
      simpa using compileRules_find_isSome hinl env cnt bodyOf n qs _ r h hb hc

/-! ### 6. `compileAll` -/

/-- `bodyOf` of `compileAll`. -/
def bodyOf (o : Opts) (G : Grammar) : Rule → Expr :=
  fun r => if o.inline then expandInline G (rulesCount G) G.fuel r.body else r.body

/-- The environment of the dry pass. -/
def dryEnv (o : Opts) (G : Grammar) : CEnv :=
  { ast := o.ast, dry := true, used := fun _ => false, always := alwaysSucceeds G }

/-- The jump targets the dry pass records (`labels[n] = true`). -/
def dryJumps (o : Opts) (G : Grammar) : List Nat :=
  (compileRules o (dryEnv o G) (rulesCount G) (bodyOf o G) G.rules ⟨0, 0⟩).jumps

/-- The environment of the real pass. -/
def realEnv (o : Opts) (G : Grammar) : CEnv :=
  { ast := o.ast, dry := false, used := fun n => (dryJumps o G).contains n,
    always := alwaysSucceeds G }

theorem compileAll_eq (o : Opts) (G : Grammar) :
    compileAll o G = compileRules o (realEnv o G) (rulesCount G) (bodyOf o G) G.rules ⟨0, 0⟩ := rfl

theorem compileAll_hasFunc {o : Opts} {G : Grammar} (hinl : o.inline = false) (n : String)
    (h : hasFunc G n = true) : ((compileAll o G).find n).isSome = true := by
  unfold hasFunc at h
  cases hf : G.find n with
  | none => simp [hf] at h
  | some r =>
    simp only [hf, Bool.and_eq_true, Bool.not_eq_true', bne_iff_ne, ne_eq] at h
    rw [compileAll_eq]
    exact compileRules_find_isSome hinl _ _ _ n G.rules _ r hf h.1 h.2

/-- A rule body is what the first pass and `link` leave: the rule's implicit push, or `nil` for a
    stub (undefined name, `PegText`). -/
def Rule.shaped (r : Rule) : Bool :=
  match r.body with
  | .nil => true
  | .ipush _ nm => nm == r.name
  | _ => false

/-- Shape of a linked grammar: implicit-push bodies and pairwise distinct rule ids (memo keys). -/
def LinkedOK (G : Grammar) : Bool :=
  G.rules.all Rule.shaped && decide ((G.rules.map (·.id)).Nodup)

theorem LinkedOK.shape {G : Grammar} (h : LinkedOK G = true) {n : String} {r : Rule}
    (hf : G.find n = some r) (hnil : r.body.isNil = false) : ∃ e, r.body = .ipush e n := by
  unfold Grammar.find at hf
  have hmem := List.mem_of_find?_eq_some hf
  have hname : r.name = n := by simpa using List.find?_some hf
  have hs : r.shaped = true := by
    simp only [LinkedOK, Bool.and_eq_true] at h
    exact List.all_eq_true.mp h.1 r hmem
  unfold Rule.shaped at hs
  cases hb : r.body <;> simp [hb, Expr.isNil] at hs hnil
  next e nm => exact ⟨e, by rw [hs, hname]⟩

theorem nodup_map_inj {α β} [DecidableEq β] (f : α → β) : ∀ (l : List α), (l.map f).Nodup →
    ∀ a ∈ l, ∀ b ∈ l, f a = f b → a = b
  | [], _, a, ha, _, _, _ => by cases ha
  | x :: xs, h, a, ha, b, hb, hab => by
    simp only [List.map_cons, List.nodup_cons, List.mem_map, not_exists, not_and] at h
    rcases List.mem_cons.mp ha with ha' | ha' <;> rcases List.mem_cons.mp hb with hb' | hb'
    · rw [ha', hb']
    · rw [ha'] at hab; exact absurd hab.symm (h.1 b hb')
    · rw [hb'] at hab; exact absurd hab (h.1 a ha')
    · exact nodup_map_inj f xs h.2 a ha' b hb' hab

theorem LinkedOK.idInj {G : Grammar} (h : LinkedOK G = true) {n1 n2 : String}
    (h1 : (G.find n1).isSome = true) (h2 : (G.find n2).isSome = true)
    (hid : G.idOf n1 = G.idOf n2) : n1 = n2 := by
  obtain ⟨r1, hf1⟩ := Option.isSome_iff_exists.mp h1
  obtain ⟨r2, hf2⟩ := Option.isSome_iff_exists.mp h2
  simp only [Grammar.idOf, hf1, hf2, Option.map_some, Option.getD_some] at hid
  have hf1' := hf1
  have hf2' := hf2
  unfold Grammar.find at hf1' hf2'
  have m1 := List.mem_of_find?_eq_some hf1'
  have m2 := List.mem_of_find?_eq_some hf2'
  have e1 : r1.name = n1 := by simpa using List.find?_some hf1'
  have e2 : r2.name = n2 := by simpa using List.find?_some hf2'
  simp only [LinkedOK, Bool.and_eq_true, decide_eq_true_eq] at h
  have := nodup_map_inj (·.id) G.rules h.2 r1 m1 r2 m2 hid
  rw [← e1, ← e2, this]

/-- The structural assumptions of the refinement theorem hold for the program `compileAll` emits
    for a `GrammarOK` grammar (`-inline` off; `-switch` is a rewrite of `G` that `GrammarOK`
    excludes by forbidding `ualt`, so `o.switch` itself is irrelevant). -/
theorem compileAll_world {G : Grammar} {o : Opts} {cfg : Cfg} {inp : List Sym}
    (_hsw : o.switch = false) (hinl : o.inline = false) (hast : o.ast = true)
    (hcfg : cfg.ast = true)
    (hinp : ∀ c ∈ inp, c ≠ END)
    (hG : GrammarOK G) (hL : LinkedOK G = true)
    (halways : ∀ n, alwaysSucceeds G n = true →
      ∀ p evs, ¬ Eval G cfg.rho inp (.name n) p .fail evs) :
    World (compileAll o G) cfg (realEnv o G) G inp where
  ast := hcfg
  envAst := hast
  inpOK := hinp
  always := halways
  idInj := by
    intro n1 n2 h1 h2 hid
    have g : ∀ n, ((compileAll o G).find n).isSome = true → (G.find n).isSome = true := by
      intro n hn
      obtain ⟨cr, hfind⟩ := Option.isSome_iff_exists.mp hn
      rw [compileAll_eq] at hfind
      obtain ⟨r, ko, sw, hr, _⟩ :=
        compileRules_find (env' := dryEnv o G) (rfl : (realEnv o G).always = (dryEnv o G).always)
          n G.rules ⟨0, 0⟩ cr hfind
      have hfindG : G.find n = some r := hr
      rw [hfindG]; rfl
    exact LinkedOK.idInj hL (g n1 h1) (g n2 h2) hid
  rules := by
    intro n cr hfind
    rw [compileAll_eq] at hfind
    obtain ⟨r, ko, sw, hr, hslot, hcr, hj⟩ :=
      compileRules_find (env' := dryEnv o G) (rfl : (realEnv o G).always = (dryEnv o G).always)
        n G.rules ⟨0, 0⟩ cr hfind
    have hbody : bodyOf o G r = r.body := by simp [bodyOf, hinl]
    rw [hbody] at hcr hj
    have hfindG : G.find n = some r := hr
    -- the rule gets a function, so `GrammarOK` speaks about its body
    rw [slotOf_noinline hinl] at hslot
    have hnil : r.body.isNil = false := by
      cases h : r.body.isNil <;> simp [h] at hslot ⊢
    have hcnt : (rulesCount G r.name == 0) = false := by
      cases h : rulesCount G r.name == 0 <;> simp [hnil, h] at hslot ⊢
    have hok : r.body.okB (hasFunc G) = true := by
      have := GrammarOK.rule hG hfindG
      simpa [ruleOK, hnil, hcnt] using this
    refine ⟨r, r.body, ko, ⟨ko + 1, sw⟩, by simp [Grammar.body, hfindG], hcr,
      Nat.lt_succ_self ko, ?_, ?_, ?_, ?_, ?_⟩
    · rw [hcr]; exact ruleFunc_uniq _ _ _ _ _ (Nat.lt_succ_self ko)
    · intro l hl
      have := hj (okB_noUalt _ _ hok) l hl
      simpa [realEnv, dryJumps] using this
    · exact (okB_fine (fun m hm => compileAll_hasFunc hinl m hm) _ hok).fineS
    · simp [Grammar.idOf, hfindG]
    · exact LinkedOK.shape hL hfindG hnil

/-! Non-vacuity: `GrammarOK` holds of the example grammar of `Props/C01.lean` (`exG`). -/
def linkExG : Grammar := { rules := [
  { name := "S", id := 0, body := .ipush (.seq [.star (.alt [.name "A", .chr 98]), .peekNot .dot]) "S" },
  { name := "A", id := 1, body := .ipush (.push (.chr 97) "PegText") "A" }] }

example : GrammarOK linkExG = true ∧ LinkedOK linkExG = true := by decide

/-- … and it is not trivially true: a reference to a stub (`nil`) rule is rejected. -/
example : GrammarOK { rules := [
    { name := "S", id := 0, body := .ipush (.name "B") "S" },
    { name := "B", id := 1, body := .nil }] } = false := by decide

end PegVerif

#print axioms PegVerif.compileAll_world
