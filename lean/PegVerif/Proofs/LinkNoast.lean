import PegVerif.Proofs.RefineNoastDefs
import PegVerif.Proofs.LinkLemmas
/-
  `-noast`: the action rules of a grammar (`actionCodeOf`), the decision procedure for the fragment
  predicate `Expr.okN`, and `compileAll_worldN` — the structural assumptions `WorldN` of RN hold for
  the program the model generator emits with `o.ast = false`.
-/
namespace PegVerif
open Noast

/-- The action rules of a linked grammar: `ActionN <- ipush (act code) "ActionN"`. -/
def actionCodeOf (G : Grammar) (r : String) : Option String :=
  match G.body r with
  | some (.ipush (.act code) _) => some code
  | _ => none

/-- The kit for grammars without state-change statements: every trace entry is compared. -/
def Kall (G : Grammar) : NKit := ⟨actionCodeOf G, fun _ => true⟩

/-! ### An executable check of the fragment (`Expr.okN` is decidable; this is the decision
    procedure used by the ties, with its soundness). -/

mutual
  def Expr.okNB (K : NKit) : Expr → Bool
    | .inl _ e => e.okNB K
    | .stmt c => !K.keep c
    | .seq es => okNLB K es
    | .alt es => okNLB K es
    | .ualt _ es => okNLB K es
    | .peekFor e => e.okNB K
    | .peekNot e => e.okNB K
    | .query e => e.okNB K
    | .star e => e.okNB K
    | .plus e => e.okNB K
    | .push e r => r == "PegText" && !e.isAct && e.okNB K
    | .ipush e r => r != "PegText" &&
        (match e with
         | .act c => K.codeOf r == some c && K.keep c
         | _ => K.codeOf r == none) && e.okNB K
    | _ => true
  def okNLB (K : NKit) : List Expr → Bool
    | [] => true
    | e :: es => e.okNB K && okNLB K es
end

mutual
  theorem Expr.okNB_sound (K : NKit) : ∀ e : Expr, e.okNB K = true → e.okN K
    | .dot, _ => by simp [Expr.okN]
    | .chr _, _ => by simp [Expr.okN]
    | .rng _ _, _ => by simp [Expr.okN]
    | .str _, _ => by simp [Expr.okN]
    | .name _, _ => by simp [Expr.okN]
    | .pred _, _ => by simp [Expr.okN]
    | .act _, _ => by simp [Expr.okN]
    | .nil, _ => by simp [Expr.okN]
    | .stmt c, h => by simpa [Expr.okN, Expr.okNB] using h
    | .inl _ e, h => by simp only [Expr.okN]; exact Expr.okNB_sound K e (by simpa [Expr.okNB] using h)
    | .peekFor e, h => by simp only [Expr.okN]; exact Expr.okNB_sound K e (by simpa [Expr.okNB] using h)
    | .peekNot e, h => by simp only [Expr.okN]; exact Expr.okNB_sound K e (by simpa [Expr.okNB] using h)
    | .query e, h => by simp only [Expr.okN]; exact Expr.okNB_sound K e (by simpa [Expr.okNB] using h)
    | .star e, h => by simp only [Expr.okN]; exact Expr.okNB_sound K e (by simpa [Expr.okNB] using h)
    | .plus e, h => by simp only [Expr.okN]; exact Expr.okNB_sound K e (by simpa [Expr.okNB] using h)
    | .seq es, h => by simp only [Expr.okN]; exact okNLB_sound K es (by simpa [Expr.okNB] using h)
    | .alt es, h => by simp only [Expr.okN]; exact okNLB_sound K es (by simpa [Expr.okNB] using h)
    | .ualt _ es, h => by simp only [Expr.okN]; exact okNLB_sound K es (by simpa [Expr.okNB] using h)
    | .push e r, h => by
      simp only [Expr.okNB, Bool.and_eq_true, beq_iff_eq, Bool.not_eq_true'] at h
      exact ⟨h.1.1, h.1.2, Expr.okNB_sound K e h.2⟩
    | .ipush e r, h => by
      simp only [Expr.okNB, Bool.and_eq_true, bne_iff_ne, ne_eq] at h
      obtain ⟨⟨hr, hm⟩, he⟩ := h
      refine ⟨hr, ?_, ?_, Expr.okNB_sound K e he⟩
      · intro c hc; subst hc; simpa using hm
      · intro hna; cases e <;> simp_all [Expr.isAct]
  theorem okNLB_sound (K : NKit) : ∀ es : List Expr, okNLB K es = true → okNL K es
    | [], _ => by simp [okNL]
    | e :: es, h => by
      simp only [okNLB, Bool.and_eq_true] at h
      exact ⟨Expr.okNB_sound K e h.1, okNLB_sound K es h.2⟩
end


/-- Every rule body is in the `-noast` fragment (decidable). -/
def GrammarOKN (K : NKit) (G : Grammar) : Bool := G.rules.all (fun r => r.body.okNB K)

theorem GrammarOKN.rule {K : NKit} {G : Grammar} (h : GrammarOKN K G = true) {n : String} {r : Rule}
    (hf : G.find n = some r) : r.body.okN K := by
  unfold Grammar.find at hf
  have hm := List.mem_of_find?_eq_some hf
  simp only [GrammarOKN, List.all_eq_true] at h
  exact Expr.okNB_sound K _ (h r hm)

/-- The structural assumptions of RN hold for the program `compileAll` emits with `-noast` for a
    `GrammarOK`, `GrammarOKN` grammar (`-inline` off; `-switch` is a rewrite of `G` that `GrammarOK`
    excludes by forbidding `ualt`). -/
theorem compileAll_worldN {K : NKit} {G : Grammar} {o : Opts} {cfg : Cfg} {inp : List Sym}
    (_hsw : o.switch = false) (hinl : o.inline = false) (hast : o.ast = false)
    (hcfg : cfg.ast = false)
    (hinp : ∀ c ∈ inp, c ≠ END)
    (hG : GrammarOK G) (hN : GrammarOKN K G = true)
    (halways : ∀ n, alwaysSucceeds G n = true →
      ∀ p evs, ¬ Eval G cfg.rho inp (.name n) p .fail evs) :
    WorldN K (compileAll o G) cfg (realEnv o G) G inp where
  ast := hcfg
  envAst := hast
  inpOK := hinp
  always := halways
  rules := by
    intro n cr hfind
    rw [compileAll_eq] at hfind
    obtain ⟨r, ko, sw, hr, hslot, hcr, hj⟩ :=
      compileRules_find (env' := dryEnv o G) (rfl : (realEnv o G).always = (dryEnv o G).always)
        n G.rules ⟨0, 0⟩ cr hfind
    have hbody : bodyOf o G r = r.body := by simp [bodyOf, hinl]
    rw [hbody] at hcr hj
    have hfindG : G.find n = some r := hr
    rw [slotOf_noinline hinl] at hslot
    have hnil : r.body.isNil = false := by
      cases h : r.body.isNil <;> simp [h] at hslot ⊢
    have hcnt : (rulesCount G r.name == 0) = false := by
      cases h : rulesCount G r.name == 0 <;> simp [hnil, h] at hslot ⊢
    have hok : r.body.okB (hasFunc G) = true := by
      have := GrammarOK.rule hG hfindG
      simpa [ruleOK, hnil, hcnt] using this
    refine ⟨r, r.body, ko, ⟨ko + 1, sw⟩, by simp [Grammar.body, hfindG], hcr,
      Nat.lt_succ_self ko, ?_, ?_, ?_, ?_⟩
    · rw [hcr]; exact ruleFunc_uniq _ _ _ _ _ (Nat.lt_succ_self ko)
    · intro l hl
      have := hj (okB_noUalt _ _ hok) l hl
      simpa [realEnv, dryJumps] using this
    · exact okB_fine (fun m hm => compileAll_hasFunc hinl m hm) _ hok
    · exact GrammarOKN.rule hN hfindG

end PegVerif

#print axioms PegVerif.compileAll_worldN
