import PegVerif.Proofs.InlineNoastSafeDef
import PegVerif.Proofs.InlineSwitch
import PegVerif.Proofs.LinkNoastS
/-
  `-inline -noast`, with or without `-switch` nodes: `compileAll_worldNS_inline` — the structural
  assumptions `WorldNS` of RNS (RefineNoastS.lean) hold for the program the model generator emits
  with `o.inline = true`, `o.ast = false` for a grammar `G` that may contain `-switch` nodes
  (`ualt`), with respect to the EXPANDED grammar `expandG o G`, under the decidable condition
  `GrammarOKNIS K G` (InlineNoastSafeDef.lean).

  The ingredients are those of the separate developments:
    * `compileAll_opts` (InlineSwitch.lean): the emission reads only `o.inline`, `o.ast`;
    * `compileRules_findS` (LinkSwitch.lean): an emitted function is the `ruleFunc` of the (expanded)
      body of the first rule with that name, and its jumps were printed by the dry pass — for any
      `bodyOf`, any `ast`;
    * `okS_fineS` (LinkSwitch.lean), `Expr.okNB_sound` (LinkNoast.lean) on the expanded body; both
      fragments descend through `inl`, and RNS handles `inl` (`goodNS_inl`).
  `WorldNS` has neither `idInj` nor the `ipush` shape of `World` (no memo table in `-noast` code), so
  `LinkedOK` is not needed.
-/
namespace PegVerif
open Noast

/-- The shared reference counts of `GrammarOKNIS` are `rulesCount`. -/
theorem rulesCountWith_eq (G : Grammar) : rulesCountWith G (reachedRules G) = rulesCount G := rfl

/-- "The rule named `n` gets a function under `-inline -noast`", read off the emitted program. -/
def hasFuncIN (G : Grammar) (n : String) : Bool := ((compileAll inlNOpts G).find n).isSome

/-! ### The table `inlineFuncs` is "has a function in the emitted program" -/

/-- Under `-inline` the slot of a rule depends on the label counter only through "is it 0" (and on
    the options only through `inline`). -/
theorem slotOf_inline {o : Opts} (hinl : o.inline = true) (cnt : String → Nat) (r : Rule) (ko : Nat) :
    slotOf o cnt r ko = slotOf inlNOpts cnt r (if (ko == 0) = true then 0 else 1) := by
  unfold slotOf
  rw [hinl]
  by_cases h : ko = 0
  · subst h; rfl
  · have : (ko == 0) = false := by simpa using h
    simp [this, inlNOpts, h]

/-- The label counter is 0 after a rule iff it was 0 before and the rule consumed no label
    (`undefinedNil`): every other slot increments it, and `compile` never decrements it. -/
theorem slotSt_label_zero (o : Opts) (env : CEnv) (cnt : String → Nat) (bodyOf : Rule → Expr)
    (r : Rule) (st : CSt) :
    ((slotSt o env cnt bodyOf r st).label == 0) =
      (match slotOf o cnt r st.label with
       | .undefinedNil => st.label == 0
       | _ => false) := by
  unfold slotSt
  cases slotOf o cnt r st.label
  · rfl
  · simp
  · simp
  · have := compile_mono env (bodyOf r) st.label false false ⟨st.label + 1, st.sw⟩
    simp only [ruleFunc]
    have h : (compile env (bodyOf r) st.label false false ⟨st.label + 1, st.sw⟩).st.label ≠ 0 := by
      simp only at this; omega
    simpa using h

/-- `inlineFuncs` computes which entries of the emitted program carry code. -/
theorem compileRules_find_isSome_inline {o : Opts} (hinl : o.inline = true) (env : CEnv)
    (cnt : String → Nat) (bodyOf : Rule → Expr) (n : String) : ∀ (rules : List Rule) (st : CSt),
    ((compileRules o env cnt bodyOf rules st).find n).isSome =
      hasFuncOf (inlineFuncs cnt rules (st.label == 0)) n
  | [], _ => by simp [compileRules, Program.find, inlineFuncs, hasFuncOf]
  | r :: rs, st => by
    have ih := compileRules_find_isSome_inline hinl env cnt bodyOf n rs (slotSt o env cnt bodyOf r st)
    rw [slotSt_label_zero] at ih
    rw [compileRules_cons, Program.find_cons, inlineFuncs, ← slotOf_inline hinl]
    dsimp only
    unfold slotCode
    cases hs : slotOf o cnt r st.label <;> simp only [hs] at ih ⊢ <;>
      cases hn : r.name == n <;> simp [hasFuncOf, hn] <;>
      simpa [hasFuncOf] using ih

/-- The `d` of `GrammarOKNIS` is `hasFuncIN`. -/
theorem hasFuncOf_inlineFuncs (G : Grammar) :
    hasFuncOf (inlineFuncs (rulesCount G) G.rules true) = hasFuncIN G := by
  funext n
  unfold hasFuncIN
  rw [compileAll_eq, compileRules_find_isSome_inline (o := inlNOpts) rfl]
  rfl

/-- What `GrammarOKNIS` says about the first rule of a name, in the vocabulary of the proofs
    (`bodyOf`, `hasFuncIN`). -/
theorem GrammarOKNIS.rule {K : NKit} {G : Grammar} (hG : GrammarOKNIS K G = true) {n : String} {r : Rule}
    (h : G.find n = some r) (hf : hasFuncIN G r.name = true) :
    (bodyOf inlNOpts G r).okS (hasFuncIN G) = true ∧ (bodyOf inlNOpts G r).okNB K = true := by
  unfold Grammar.find at h
  have hmem := List.mem_of_find?_eq_some h
  have hname : r.name = n := by simpa using List.find?_some h
  simp only [GrammarOKNIS, rulesCountWith_eq, hasFuncOf_inlineFuncs] at hG
  have := List.all_eq_true.mp hG r hmem
  unfold Grammar.find at this
  rw [hname, h] at this
  simp only [hf, Bool.not_true, Bool.false_or, Bool.and_eq_true] at this
  have hb : bodyOf inlNOpts G r = expandInline G (rulesCount G) G.fuel r.body := by
    simp [bodyOf, inlNOpts]
  rw [hb]
  exact this

/-! ### `WorldNS` for the program emitted with `-inline -noast` -/

/-- The `inlNOpts` instance; `compileAll_worldNS_inline` transports it to any `o` with
    `o.inline = true`, `o.ast = false`. -/
theorem compileAll_worldNS_inline_aux {K : NKit} {G : Grammar} {cfg : Cfg} {inp : List Sym}
    (hcfg : cfg.ast = false)
    (hinp : ∀ c ∈ inp, c ≠ END)
    (hG : GrammarOKNIS K G = true)
    (halways : ∀ n, alwaysSucceeds G n = true →
      ∀ p evs, ¬ Eval (expandG inlNOpts G) cfg.rho inp (.name n) p .fail evs) :
    WorldNS K (compileAll inlNOpts G) cfg (realEnv inlNOpts G) (expandG inlNOpts G) inp where
  ast := hcfg
  envAst := rfl
  inpOK := hinp
  always := halways
  rules := by
    intro n cr hfind
    have hfind' := hfind
    rw [compileAll_eq] at hfind'
    obtain ⟨r, ko, sw, hr, _, hcr, hj⟩ :=
      compileRules_findS (env' := dryEnv inlNOpts G)
        (rfl : (realEnv inlNOpts G).always = (dryEnv inlNOpts G).always) n G.rules ⟨0, 0⟩ cr hfind'
    have hr : G.find n = some r := hr
    have hname : r.name = n := by
      unfold Grammar.find at hr
      simpa using List.find?_some hr
    have hhas : hasFuncIN G r.name = true := by
      unfold hasFuncIN; rw [hname, hfind]; rfl
    obtain ⟨hokS, hokN⟩ := GrammarOKNIS.rule hG hr hhas
    refine ⟨r, bodyOf inlNOpts G r, ko, ⟨ko + 1, sw⟩, by simp [expandG_body, hr], hcr,
      Nat.lt_succ_self ko, ?_, ?_, ?_, ?_⟩
    · rw [hcr]; exact ruleFunc_uniq _ _ _ _ _ (Nat.lt_succ_self ko)
    · intro l hl
      have := hj l hl
      simpa [realEnv, dryJumps] using this
    · exact okS_fineS (fun m hm => hm) _ hokS
    · exact Expr.okNB_sound K _ hokN

/-- **`WorldNS` for `-inline -noast`** (option sets `in` and, with `-switch` nodes in `G`, `isn`):
    the structural assumptions of RNS hold for the program `compileAll` emits with `-inline -noast`
    for a `GrammarOKNIS` grammar — which may contain `-switch` nodes — with respect to the EXPANDED
    grammar.  (`always` is computed by `compileAll` on `G` itself; its soundness for the expanded
    grammar is a hypothesis here and is discharged in `compileAll_worldNS_inline'`.)
    `o.switch` is unconstrained: the emission does not read it. -/
theorem compileAll_worldNS_inline {K : NKit} {G : Grammar} {o : Opts} {cfg : Cfg} {inp : List Sym}
    (hinl : o.inline = true) (hast : o.ast = false)
    (hcfg : cfg.ast = false)
    (hinp : ∀ c ∈ inp, c ≠ END)
    (hG : GrammarOKNIS K G = true)
    (halways : ∀ n, alwaysSucceeds G n = true →
      ∀ p evs, ¬ Eval (expandG o G) cfg.rho inp (.name n) p .fail evs) :
    WorldNS K (compileAll o G) cfg (realEnv o G) (expandG o G) inp := by
  have h1 : o.inline = inlNOpts.inline := hinl
  have h2 : o.ast = inlNOpts.ast := hast
  rw [compileAll_opts h1 h2, realEnv_opts h1 h2, expandG_opts h1]
  rw [expandG_opts h1] at halways
  exact compileAll_worldNS_inline_aux hcfg hinp hG halways

/-- `WorldNS` with the soundness of `CheckAlwaysSucceeds` discharged: the analysis runs on `G`
    (`plainS`: no `inl`; `ualt` allowed — it never "always succeeds"), `alwaysSucceeds_soundS` gives
    the claim for `G`, and the expanded grammar has no failing derivation that `G` does not have
    (`Eval_expandG_rev`). -/
theorem compileAll_worldNS_inline' {K : NKit} {G : Grammar} {o : Opts} {cfg : Cfg} {inp : List Sym}
    (hinl : o.inline = true) (hast : o.ast = false)
    (hcfg : cfg.ast = false)
    (hinp : ∀ c ∈ inp, c ≠ END)
    (hG : GrammarOKNIS K G = true) (hplain : G.plainS) :
    WorldNS K (compileAll o G) cfg (realEnv o G) (expandG o G) inp :=
  compileAll_worldNS_inline hinl hast hcfg hinp hG
    (fun _ h p evs hE => alwaysSucceeds_soundS hplain h p evs (Eval_expandG_rev hE))

/-- … from the packaged Boolean. -/
theorem inline_noast_world (K : NKit) (G : Grammar) (o : Opts) (cfg : Cfg) (inp : List Sym)
    (hsafe : inlineNoastSafeK K G = true)
    (hinl : o.inline = true) (hast : o.ast = false) (hcfg : cfg.ast = false)
    (hinp : ∀ c ∈ inp, c ≠ END) :
    WorldNS K (compileAll o G) cfg (realEnv o G) (expandG o G) inp := by
  simp only [inlineNoastSafeK, Bool.and_eq_true] at hsafe
  exact compileAll_worldNS_inline' hinl hast hcfg hinp hsafe.1 (Grammar.plainS_of_all hsafe.2)

/-! ### Relation to the AST-mode condition `GrammarOKIS`

  Which rules get a function does not depend on `ast` (nor on anything else in the environment):
  the slots only read the reference counts and the label counter, and the label counter does not
  depend on the environment (`slotSt_indep`). -/

theorem compileRules_find_isSome_indep (o : Opts) (env env' : CEnv) (cnt : String → Nat)
    (bodyOf : Rule → Expr) (n : String) : ∀ (rules : List Rule) (st : CSt),
    ((compileRules o env cnt bodyOf rules st).find n).isSome =
      ((compileRules o env' cnt bodyOf rules st).find n).isSome
  | [], _ => by simp [compileRules, Program.find]
  | r :: rs, st => by
    rw [compileRules_cons, compileRules_cons, Program.find_cons, Program.find_cons,
      slotSt_indep o env env']
    dsimp only
    split
    · unfold slotCode; cases slotOf o cnt r st.label <;> rfl
    · exact compileRules_find_isSome_indep o env env' cnt bodyOf n rs _

/-- The `-inline -noast` program has a function for exactly the rules the `-inline` AST program has
    one for. -/
theorem hasFuncIN_eq (G : Grammar) : hasFuncIN G = hasFuncI G := by
  funext n
  unfold hasFuncIN hasFuncI
  have hb : bodyOf inlNOpts G = bodyOf inlOpts G := bodyOf_opts rfl G
  rw [compileAll_eq, compileAll_eq, hb, compileRules_opts (o := inlNOpts) (o' := inlOpts) rfl]
  exact compileRules_find_isSome_indep _ _ _ _ _ n G.rules _

/-- `GrammarOKNIS` is the AST-mode condition `GrammarOKIS` (InlineSwitch.lean) plus the `-noast`
    fragment check on the expanded bodies of the rules that get a function. -/
theorem GrammarOKNIS_iff {K : NKit} {G : Grammar} :
    GrammarOKNIS K G = true ↔
      (GrammarOKIS G = true ∧
        G.rules.all (fun r => match G.find r.name with
          | some r' => !hasFuncI G r'.name || (bodyOf inlOpts G r').okNB K
          | none => true) = true) := by
  have hb : bodyOf inlNOpts G = bodyOf inlOpts G := bodyOf_opts rfl G
  have hd : hasFuncIN G = hasFuncI G := hasFuncIN_eq G
  simp only [GrammarOKNIS, rulesCountWith_eq, hasFuncOf_inlineFuncs, GrammarOKIS, ruleOKIS, hd]
  simp only [List.all_eq_true]
  have hx : ∀ r' : Rule, expandInline G (rulesCount G) G.fuel r'.body = bodyOf inlOpts G r' := by
    intro r'; simp [bodyOf, inlOpts]
  constructor
  · intro h
    refine ⟨fun r hr => ?_, fun r hr => ?_⟩ <;>
    · have := h r hr
      cases hfd : G.find r.name with
      | none => rfl
      | some r' =>
        simp only [hfd, hx] at this ⊢
        cases hh : hasFuncI G r'.name <;> simp_all
  · intro h r hr
    have h1 := h.1 r hr
    have h2 := h.2 r hr
    cases hfd : G.find r.name with
    | none => rfl
    | some r' =>
      simp only [hfd, hx] at h1 h2 ⊢
      cases hh : hasFuncI G r'.name <;> simp_all

end PegVerif

#print axioms PegVerif.hasFuncOf_inlineFuncs
#print axioms PegVerif.GrammarOKNIS.rule
#print axioms PegVerif.compileAll_worldNS_inline
#print axioms PegVerif.compileAll_worldNS_inline'
#print axioms PegVerif.inline_noast_world
#print axioms PegVerif.hasFuncIN_eq
#print axioms PegVerif.GrammarOKNIS_iff
