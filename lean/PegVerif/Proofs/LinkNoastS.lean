import PegVerif.Proofs.RefineNoastS
import PegVerif.Proofs.LinkNoast
import PegVerif.Proofs.LinkSwitch
/-
  `-noast -switch`: `compileAll_worldNS` — the structural assumptions `WorldNS` of RNS hold for the
  program the model generator emits with `o.ast = false` for a grammar that may contain `-switch`
  nodes (`-inline` off), under the decidable condition `GrammarOKNS`:

  * `GrammarOKS G`    (LinkSwitch.lean) terminals below the end symbol, no `TypeString`, references
                      only to rules with a function, and for every `.ualt ks es`: `es ≠ []` and
                      `casesLeadOK ks es`;
  * `GrammarOKN K G`  (LinkNoast.lean) the `-noast` fragment `Expr.okN` (captures are the nodes named
                      "PegText", action rules carry their code, …) — it already descends into the
                      cases of a `.ualt`.

  As in AST mode the dry pass (which compiles every case body without `parentDetect`) may print
  more jumps than the real pass; `compileRules_findS` (LinkSwitch.lean, independent of `ast`) gives
  "every jump of the real pass was recorded by the dry pass", which is all `PreNS.used` needs.
-/
namespace PegVerif
open Noast

/-- The decidable condition on the linked and `-switch`-rewritten grammar for `-noast -switch`. -/
def GrammarOKNS (K : NKit) (G : Grammar) : Bool := GrammarOKS G && GrammarOKN K G

/-- A `-switch`-free grammar that passes the `-noast` checks passes this one. -/
theorem GrammarOKNS_of_noSwitch {K : NKit} {G : Grammar} (hG : GrammarOK G = true)
    (hN : GrammarOKN K G = true) : GrammarOKNS K G = true := by
  simp only [GrammarOKNS, Bool.and_eq_true]
  exact ⟨GrammarOK.toS hG, hN⟩

/-- The structural assumptions of RNS hold for the program `compileAll` emits with `-noast` for a
    `GrammarOKNS` grammar — which may contain `-switch` nodes (`-inline` off). -/
theorem compileAll_worldNS {K : NKit} {G : Grammar} {o : Opts} {cfg : Cfg} {inp : List Sym}
    (hinl : o.inline = false) (hast : o.ast = false)
    (hcfg : cfg.ast = false)
    (hinp : ∀ c ∈ inp, c ≠ END)
    (hG : GrammarOKNS K G = true)
    (halways : ∀ n, alwaysSucceeds G n = true →
      ∀ p evs, ¬ Eval G cfg.rho inp (.name n) p .fail evs) :
    WorldNS K (compileAll o G) cfg (realEnv o G) G inp where
  ast := hcfg
  envAst := hast
  inpOK := hinp
  always := halways
  rules := by
    intro n cr hfind
    simp only [GrammarOKNS, Bool.and_eq_true] at hG
    obtain ⟨hS, hN⟩ := hG
    rw [compileAll_eq] at hfind
    obtain ⟨r, ko, sw, hr, hslot, hcr, hj⟩ :=
      compileRules_findS (env' := dryEnv o G) (rfl : (realEnv o G).always = (dryEnv o G).always)
        n G.rules ⟨0, 0⟩ cr hfind
    have hbody : bodyOf o G r = r.body := by simp [bodyOf, hinl]
    rw [hbody] at hcr
    have hfindG : G.find n = some r := hr
    rw [slotOf_noinline hinl] at hslot
    have hnil : r.body.isNil = false := by
      cases h : r.body.isNil <;> simp [h] at hslot ⊢
    have hcnt : (rulesCount G r.name == 0) = false := by
      cases h : rulesCount G r.name == 0 <;> simp [hnil, h] at hslot ⊢
    have hok : r.body.okS (hasFunc G) = true := by
      have := GrammarOKS.rule hS hfindG
      simpa [ruleOKS, hnil, hcnt] using this
    refine ⟨r, r.body, ko, ⟨ko + 1, sw⟩, by simp [Grammar.body, hfindG], hcr,
      Nat.lt_succ_self ko, ?_, ?_, ?_, ?_⟩
    · rw [hcr]; exact ruleFunc_uniq _ _ _ _ _ (Nat.lt_succ_self ko)
    · intro l hl
      have := hj l hl
      simpa [realEnv, dryJumps] using this
    · exact okS_fineS (fun m hm => compileAll_hasFunc hinl m hm) _ hok
    · exact GrammarOKN.rule hN hfindG

end PegVerif

#print axioms PegVerif.compileAll_worldNS
